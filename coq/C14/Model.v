(* C14 (b): a fragment of Python syntax, the fastparse conversion, the serializer's stream and the nativeparse reader.
   Executable definitions only.  Hand-written model; tied to /repo and to the installed ast_serialize by
   tools/harness/C14.py (stage C: real fastparse tree = convert, real bytes = emit, real reader = read_native = nconv).

   Source side: the CPython `ast` tree WITH its positions (lineno, col_offset, end_lineno, end_col_offset), plus the few
   source facts CPython's tree does not carry but the native front end reports (extent of `*name` parameters, position
   of the name in `except E as name`).  `elif` clauses are kept as a list (CPython nests them as orelse=[If]; an orelse
   that is a single If starting in the column of the outer `if` is an elif -- the harness does this split, the tie
   checks it). *)
From Coq Require Import ZArith List String Bool.
From Gen Require Import Magic.
Import ListNotations.
Open Scope Z_scope.

(* P line column end_line end_column.  In OUTPUT trees an unset end (end_line = end_column = None: fastparse leaves the end
   of some nodes unset) is encoded as end_line = end_col = -1: PN. *)
Inductive pos := P (line col end_line end_col : Z).
Definition PN (line col : Z) : pos := P line col (-1) (-1).
Definition p_line (p : pos) := let 'P a _ _ _ := p in a.
Definition p_col (p : pos) := let 'P _ a _ _ := p in a.
Definition p_eline (p : pos) := let 'P _ _ a _ := p in a.
Definition p_ecol (p : pos) := let 'P _ _ _ a := p in a.
(* start of a, end of b *)
Definition span (a b : pos) : pos := P (p_line a) (p_col a) (p_eline b) (p_ecol b).
Definition no_end (p : pos) : pos := PN (p_line p) (p_col p).

Inductive binop := Add | Sub | Mult | MatMult | Div | Mod | Pow | LShift | RShift | BitOr | BitXor | BitAnd | FloorDiv.
Inductive unop := Invert | Not | UAdd | USub.
Inductive cmpop := Eq | NotEq | Lt | LtE | Gt | GtE | Is | IsNot | In | NotIn.
Inductive boolop := And | Or.
Inductive akind := APos | AStar | ANamed (name : string) | ADStar.
Inductive pkind := KPosOnly | KPos | KStar | KKwOnly | KDStar.
(* the Constant values fastparse turns into a NameExpr *)
Inductive cname := CNone | CTrue | CFalse.
Definition cname_str (c : cname) : string := match c with CNone => "None" | CTrue => "True" | CFalse => "False" end%string.
(* comprehension flavours that share one GeneratorExpr *)
Inductive ckind := CList | CSet | CGen.

(* ---------------------------------------------------------------- source trees (mutual, explicit list types) *)
Inductive expr :=
| EName (p : pos) (id : string)
| EInt (p : pos) (v : Z)
| EStr (p : pos) (s : string)
| EAttr (p : pos) (e : expr) (attr : string)
| ECall (p : pos) (f : expr) (a : args)
| EBin (p : pos) (op : binop) (l r : expr)
| EUnary (p : pos) (op : unop) (e : expr)
| ECompare (p : pos) (l : expr) (c : cmps)
| EBoolOp (p : pos) (op : boolop) (e1 e2 : expr) (rest : exprs)
| EIfExp (p : pos) (test body orelse : expr)
| ETuple (p : pos) (es : exprs)
| EList (p : pos) (es : exprs)
| ESet (p : pos) (es : exprs)
| EDict (p : pos) (items : ditems)
| ESubscript (p : pos) (v idx : expr)
| ESlice (p : pos) (lo hi step : oexpr)
| EStar (p : pos) (e : expr)
| ELambda (p : pos) (ps : params) (body : expr)
| EConst (p : pos) (c : cname)
| EEllipsis (p : pos)
| EComp (p : pos) (k : ckind) (elt : expr) (g : gens)
| EDictComp (p : pos) (key value : expr) (g : gens)
| EYield (p : pos) (v : oexpr)
| EYieldFrom (p : pos) (e : expr)
| EAwait (p : pos) (e : expr)
(* name := value; tp = position of the target Name *)
| EWalrus (p tp : pos) (id : string) (v : expr)
(* bytes literal, s = mypy's human readable repr of its value *)
| EBytes (p : pos) (s : string)
(* float / complex literals: the IEEE-754 bit patterns of the value(s) *)
| EFloat (p : pos) (bits : Z)
| EComplex (p : pos) (re im : Z)
with exprs := ENil | ECons (e : expr) (es : exprs)
with args := ANil | ACons (k : akind) (e : expr) (a : args)
with cmps := CNil | CCons (op : cmpop) (e : expr) (c : cmps)
with oexpr := ONone | OSome (e : expr)
(* dict display: key (None for `**d`) and value *)
with ditems := DNil | DCons (k : oexpr) (v : expr) (rest : ditems)
(* parameters in CPython's order (posonly, args, vararg, kwonly, kwarg), each with its default.  p = the ast.arg position
   (the NAME only); sp = the extent as written, i.e. including a leading `*` / `**` (= p for the other kinds) *)
with params := PNil | PCons (p sp : pos) (name : string) (k : pkind) (d : oexpr) (rest : params)
(* comprehension clauses `for target in iter if c1 if c2 ...` (not async) *)
with gens := GNil | GCons (target iter : expr) (ifs : exprs) (rest : gens).

(* the type-expression sublanguage both converters turn into UnboundType / UnionType: (dotted) names, None,
   subscripts of a (dotted) name, `|` unions.  tup = the subscript's slice is a tuple display *)
Inductive ty :=
| TyName (p : pos) (dotted : string)
| TyNone (p : pos)
| TySub (p : pos) (base : string) (tup : bool) (a : tys)
| TyUnion (p : pos) (l r : ty)
with tys := TNil | TCons (t : ty) (ts : tys).
Definition typos (t : ty) : pos := match t with TyName p _ | TyNone p | TySub p _ _ _ | TyUnion p _ _ => p end.

(* keywords of a class statement: name=value *)
Inductive ckws := KNil | KCons (name : string) (e : expr) (rest : ckws).
(* with items *)
Inductive witems := WNil | WCons (ctx : expr) (target : oexpr) (rest : witems).

Inductive stmt :=
| SClass (p : pos) (name : string) (bases : exprs) (kws : ckws) (decorators : exprs) (b0 : stmt) (bs : stmts)
(* dp: where the first decorator starts as written (after `@`, parentheses included); = p when undecorated *)
| SDef (p : pos) (name : string) (ps : params) (decorators : exprs) (dp : pos) (b0 : stmt) (bs : stmts)
| SExpr (p : pos) (e : expr)
| SAssign (p : pos) (targets : exprs) (value : expr)
| SAnnAssign (p : pos) (target : expr) (annotation : ty) (value : oexpr)
| SAugAssign (p : pos) (op : binop) (target value : expr)
| SReturn (p : pos) (v : oexpr)
| SPass (p : pos)
| SBreak (p : pos)
| SContinue (p : pos)
| SGlobal (p : pos) (names : list string)
| SNonlocal (p : pos) (names : list string)
| SDel (p : pos) (t0 : expr) (ts : exprs)
| SAssert (p : pos) (test : expr) (msg : oexpr)
| SRaise (p : pos) (exc cause : oexpr)
| SImport (p : pos) (names : list (string * option string))
| SImportFrom (p : pos) (level : Z) (module : string) (names : list (string * option string))
| SImportAll (p : pos) (level : Z) (module : string)
| SWhile (p : pos) (test : expr) (b0 : stmt) (bs : stmts) (orelse : stmts)
| SFor (p : pos) (target iter : expr) (b0 : stmt) (bs : stmts) (orelse : stmts)
| SIf (p : pos) (test : expr) (b0 : stmt) (bs : stmts) (el : elifs) (orelse : stmts)
| SWith (p : pos) (items : witems) (b0 : stmt) (bs : stmts)
| STry (p : pos) (b0 : stmt) (bs : stmts) (hs : handlers) (orelse final : stmts)
with stmts := SNil | SCons (s : stmt) (ss : stmts)
with elifs := LNil | LCons (p : pos) (test : expr) (b0 : stmt) (bs : stmts) (el : elifs)
(* except [ty [as name]]: hp = position of the handler, np = position of the name token *)
with handlers := HNil | HCons (hp : pos) (ty : oexpr) (name : option (string * pos)) (b0 : stmt) (bs : stmts) (rest : handlers).

Definition epos (e : expr) : pos :=
  match e with
  | EName p _ | EInt p _ | EStr p _ | EAttr p _ _ | ECall p _ _ | EBin p _ _ _ | EUnary p _ _ | ECompare p _ _
  | EBoolOp p _ _ _ _ | EIfExp p _ _ _ | ETuple p _ | EList p _ | ESet p _ | EDict p _ | ESubscript p _ _
  | ESlice p _ _ _ | EStar p _ | ELambda p _ _ | EConst p _ | EEllipsis p | EComp p _ _ _ | EDictComp p _ _ _
  | EYield p _ | EYieldFrom p _ | EAwait p _ | EWalrus p _ _ _ | EBytes p _ | EFloat p _ | EComplex p _ _ => p
  end.
Definition spos (s : stmt) : pos :=
  match s with
  | SClass p _ _ _ _ _ _ | SDef p _ _ _ _ _ _ | SExpr p _ | SAssign p _ _ | SAnnAssign p _ _ _ | SAugAssign p _ _ _ | SReturn p _ | SPass p
  | SBreak p | SContinue p | SGlobal p _ | SNonlocal p _ | SDel p _ _ | SAssert p _ _ | SRaise p _ _ | SImport p _
  | SImportFrom p _ _ _ | SImportAll p _ _ | SWhile p _ _ _ _ | SFor p _ _ _ _ _ | SIf p _ _ _ _ _ | SWith p _ _ _
  | STry p _ _ _ _ _ => p
  end.

(* ---------------------------------------------------------------- mypy trees *)
Inductive argkind := ARG_POS | ARG_OPT | ARG_STAR | ARG_NAMED | ARG_STAR2 | ARG_NAMED_OPT.

Inductive mexpr :=
| MName (p : pos) (name : string)
| MInt (p : pos) (v : Z)
| MStr (p : pos) (s : string)
| MMember (p : pos) (e : mexpr) (name : string)
| MSuper (p : pos) (name : string) (call : mexpr)
| MCall (p : pos) (callee : mexpr) (args : list mexpr) (kinds : list argkind) (names : list (option string))
| MOp (p : pos) (op : string) (l r : mexpr)
| MUnary (p : pos) (op : string) (e : mexpr)
| MCompare (p : pos) (ops : list string) (operands : list mexpr)
| MCond (p : pos) (cond if_expr else_expr : mexpr)
| MTuple (p : pos) (items : list mexpr)
| MList (p : pos) (items : list mexpr)
| MSet (p : pos) (items : list mexpr)
| MDict (p : pos) (items : list (option mexpr * mexpr))
| MIndex (p : pos) (base index : mexpr)
| MSlice (p : pos) (b e s : option mexpr)
| MStar (p : pos) (e : mexpr)
(* TempNode(Any, no_rhs=True): the right-hand side of `x: T` *)
| MTemp (p : pos)
(* LambdaExpr: arguments and the body Block([ReturnStmt(expr)]) with the positions of the block and of the return *)
| MLambda (p : pos) (args : list marg) (bp rp : pos) (body : mexpr)
| MEllipsis (p : pos)
| MYield (p : pos) (e : option mexpr)
| MYieldFrom (p : pos) (e : mexpr)
| MAwait (p : pos) (e : mexpr)
| MAssignExpr (p : pos) (target value : mexpr)
| MBytes (p : pos) (s : string)
| MFloat (p : pos) (bits : Z)
| MComplex (p : pos) (re im : Z)
(* GeneratorExpr(left_expr, indices, sequences, condlists, is_async) *)
| MGenerator (p : pos) (left : mexpr) (indices sequences : list mexpr) (condlists : list (list mexpr)) (is_async : list bool)
| MListComp (p : pos) (generator : mexpr)
| MSetComp (p : pos) (generator : mexpr)
| MDictComp (p : pos) (key value : mexpr) (indices sequences : list mexpr) (condlists : list (list mexpr)) (is_async : list bool)
(* Argument (position p) with its Var (position vp) *)
with marg := MArg (p vp : pos) (name : string) (kind : argkind) (init : option mexpr) (pos_only : bool).

(* UnboundType(name, args, empty_tuple_index) / UnionType(items) [uses_pep604_syntax, is_evaluated: true] *)
Inductive mty :=
| MUnbound (p : pos) (name : string) (args : list mty) (empty_tuple_index : bool)
| MUnion (p : pos) (items : list mty).

(* UnionType.__init__ flattens directly nested unions (flatten_nested_unions) -- under both converters *)
Definition flat_union (t : mty) : list mty := match t with MUnion _ items => items | _ => [t] end.
Definition mk_union (p : pos) (items : list mty) : mty := MUnion p (flat_map flat_union items).

Inductive mstmt :=
| MClassDef (p : pos) (name : string) (defs : mblock) (base_type_exprs : list mexpr) (metaclass : option mexpr)
            (keywords : list (string * mexpr)) (decorators : list mexpr)
| MFuncDef (p : pos) (name : string) (args : list marg) (body : mblock)
| MDecorator (p : pos) (decorators : list mexpr) (func : mstmt)
| MExprStmt (p : pos) (e : mexpr)
| MAssign (p : pos) (lvalues : list mexpr) (rvalue : mexpr) (new_syntax : bool)
(* AssignmentStmt with a declared type *)
| MAnnAssign (p : pos) (lvalues : list mexpr) (rvalue : mexpr) (t : mty) (new_syntax : bool)
| MOpAssign (p : pos) (op : string) (lvalue rvalue : mexpr)
| MReturn (p : pos) (e : option mexpr)
| MPass (p : pos)
| MBreak (p : pos)
| MContinue (p : pos)
| MGlobal (p : pos) (names : list string)
| MNonlocal (p : pos) (names : list string)
| MDel (p : pos) (e : mexpr)
| MAssert (p : pos) (e : mexpr) (msg : option mexpr)
| MRaise (p : pos) (e from : option mexpr)
| MImport (p : pos) (ids : list (string * option string))
| MImportFrom (p : pos) (id : string) (relative : Z) (names : list (string * option string))
| MImportAll (p : pos) (id : string) (relative : Z)
| MWhile (p : pos) (e : mexpr) (body : mblock) (else_body : option mblock)
| MFor (p : pos) (index e : mexpr) (body : mblock) (else_body : option mblock)
| MIf (p : pos) (e : mexpr) (body : mblock) (else_body : option mblock)
| MWith (p : pos) (exprs : list mexpr) (targets : list (option mexpr)) (body : mblock)
(* TryStmt: vars (NameExpr name + position), types, handler bodies, else, finally *)
| MTry (p : pos) (body : mblock) (vars : list (option (string * pos))) (types : list (option mexpr))
       (handlers : list mblock) (else_body finally_body : option mblock)
with mblock := MBlock (p : pos) (is_unreachable : bool) (body : list mstmt).

Definition mepos (e : mexpr) : pos :=
  match e with
  | MName p _ | MInt p _ | MStr p _ | MMember p _ _ | MSuper p _ _ | MCall p _ _ _ _ | MOp p _ _ _ | MUnary p _ _
  | MCompare p _ _ | MCond p _ _ _ | MTuple p _ | MList p _ | MSet p _ | MDict p _ | MIndex p _ _ | MSlice p _ _ _
  | MStar p _ | MTemp p | MLambda p _ _ _ _ | MEllipsis p | MYield p _ | MYieldFrom p _ | MAwait p _ | MAssignExpr p _ _ | MBytes p _ | MFloat p _ | MComplex p _ _ | MGenerator p _ _ _ _ _ | MListComp p _ | MSetComp p _
  | MDictComp p _ _ _ _ _ _ => p
  end.
Definition mspos (s : mstmt) : pos :=
  match s with
  | MClassDef p _ _ _ _ _ _ | MFuncDef p _ _ _ | MDecorator p _ _ | MExprStmt p _ | MAssign p _ _ _ | MAnnAssign p _ _ _ _ | MOpAssign p _ _ _
  | MReturn p _ | MPass p | MBreak p | MContinue p | MGlobal p _ | MNonlocal p _ | MDel p _ | MAssert p _ _ | MRaise p _ _
  | MImport p _ | MImportFrom p _ _ _ | MImportAll p _ _ | MWhile p _ _ _ | MFor p _ _ _ _ | MIf p _ _ _ | MWith p _ _ _
  | MTry p _ _ _ _ _ _ => p
  end.
Definition mbpos (b : mblock) : pos := let 'MBlock p _ _ := b in p.

(* operator tables: nativeparse.bin_ops / cmp_ops / unary_ops / bool_ops (index = what the stream carries);
   fastparse.ASTConverter.op_map / comp_op_map and the if-chains of visit_UnaryOp / visit_BoolOp (strings) *)
Definition bin_ops : list string := ["+"; "-"; "*"; "@"; "/"; "%"; "**"; "<<"; ">>"; "|"; "^"; "&"; "//"]%string.
Definition cmp_ops : list string := ["=="; "!="; "<"; "<="; ">"; ">="; "is"; "is not"; "in"; "not in"]%string.
Definition unary_ops : list string := ["~"; "not"; "+"; "-"]%string.
Definition bool_ops : list string := ["and"; "or"]%string.

Definition binop_str (o : binop) : string :=
  match o with Add => "+" | Sub => "-" | Mult => "*" | MatMult => "@" | Div => "/" | Mod => "%" | Pow => "**"
  | LShift => "<<" | RShift => ">>" | BitOr => "|" | BitXor => "^" | BitAnd => "&" | FloorDiv => "//" end%string.
Definition binop_idx (o : binop) : Z :=
  match o with Add => 0 | Sub => 1 | Mult => 2 | MatMult => 3 | Div => 4 | Mod => 5 | Pow => 6
  | LShift => 7 | RShift => 8 | BitOr => 9 | BitXor => 10 | BitAnd => 11 | FloorDiv => 12 end.
Definition cmpop_str (o : cmpop) : string :=
  match o with Eq => "==" | NotEq => "!=" | Lt => "<" | LtE => "<=" | Gt => ">" | GtE => ">=" | Is => "is"
  | IsNot => "is not" | In => "in" | NotIn => "not in" end%string.
Definition cmpop_idx (o : cmpop) : Z :=
  match o with Eq => 0 | NotEq => 1 | Lt => 2 | LtE => 3 | Gt => 4 | GtE => 5 | Is => 6 | IsNot => 7 | In => 8 | NotIn => 9 end.
Definition unop_str (o : unop) : string := match o with Invert => "~" | Not => "not" | UAdd => "+" | USub => "-" end%string.
Definition unop_idx (o : unop) : Z := match o with Invert => 0 | Not => 1 | UAdd => 2 | USub => 3 end.
Definition boolop_str (o : boolop) : string := match o with And => "and" | Or => "or" end%string.
Definition boolop_idx (o : boolop) : Z := match o with And => 0 | Or => 1 end.

Definition kind_of (k : akind) : argkind :=
  match k with APos => ARG_POS | AStar => ARG_STAR | ANamed _ => ARG_NAMED | ADStar => ARG_STAR2 end.
Definition name_of (k : akind) : option string := match k with ANamed n => Some n | _ => None end.
Definition argkind_idx (k : argkind) : Z :=
  match k with ARG_POS => 0 | ARG_OPT => 1 | ARG_STAR => 2 | ARG_NAMED => 3 | ARG_STAR2 => 4 | ARG_NAMED_OPT => 5 end.
Definition ARG_KINDS : list argkind := [ARG_POS; ARG_OPT; ARG_STAR; ARG_NAMED; ARG_STAR2; ARG_NAMED_OPT].

(* MemberExpr / SuperExpr: both converters test `isinstance(e, CallExpr) and isinstance(e.callee, NameExpr) and
   e.callee.name == "super"` on the converted operand *)
Definition mk_member (p : pos) (e : mexpr) (attr : string) : mexpr :=
  match e with
  | MCall _ (MName _ n) _ _ _ => if String.eqb n "super" then MSuper p attr e else MMember p e attr
  | _ => MMember p e attr
  end.

(* transform_args / make_argument; do_func_def then forces pos_only for the special methods *)
Definition has_default (d : oexpr) : bool := match d with OSome _ => true | ONone => false end.
Definition param_kind (k : pkind) (d : bool) : argkind :=
  match k, d with
  | KPosOnly, false | KPos, false => ARG_POS
  | KPosOnly, true | KPos, true => ARG_OPT
  | KStar, _ => ARG_STAR
  | KKwOnly, false => ARG_NAMED
  | KKwOnly, true => ARG_NAMED_OPT
  | KDStar, _ => ARG_STAR2
  end.
Definition param_pos_only (k : pkind) (name : string) : bool :=
  match k with KPosOnly => true | _ => false end || argument_elide_name name.
(* what the serializer writes: the `__name` rule is applied to ordinary positional parameters only *)
Definition emit_pos_only (k : pkind) (name : string) : bool :=
  match k with KPosOnly => true | KPos => argument_elide_name name | _ => false end.
Definition force_pos_only (b : bool) (l : list marg) : list marg :=
  if b then map (fun a => let 'MArg p vp n k i _ := a in MArg p vp n k i true) l else l.

(* dict(keywords).get("metaclass"): the last keyword called metaclass (both converters compute it this way) *)
Definition find_metaclass (kws : list (string * mexpr)) : option mexpr :=
  fold_left (fun acc kv => if String.eqb (fst kv) "metaclass" then Some (snd kv) else acc) kws None.

(* ================================================================ (i) fastparse.ASTConverter *)
(* group(): every nested OpExpr gets the position of the whole BoolOp *)
Fixpoint group (p : pos) (op : string) (v0 v1 : mexpr) (rest : list mexpr) : mexpr :=
  match rest with
  | [] => MOp p op v0 v1
  | v2 :: rest' => MOp p op v0 (group p op v1 v2 rest')
  end.

Fixpoint gasync (g : gens) : list bool := match g with GNil => [] | GCons _ _ _ r => false :: gasync r end.
Fixpoint arg_kinds (a : args) : list argkind :=
  match a with ANil => [] | ACons k _ a' => kind_of k :: arg_kinds a' end.
Fixpoint arg_names (a : args) : list (option string) :=
  match a with ANil => [] | ACons k _ a' => name_of k :: arg_names a' end.
Fixpoint cmp_strs (c : cmps) : list string :=
  match c with CNil => [] | CCons o _ c' => cmpop_str o :: cmp_strs c' end.

Fixpoint conv_e (e : expr) : mexpr :=
  match e with
  | EName p id => MName p id
  | EInt p v => MInt p v
  | EStr p s => MStr p s
  | EAttr p e a => mk_member p (conv_e e) a
  | ECall p f a => MCall p (conv_e f) (conv_args a) (arg_kinds a) (arg_names a)
  | EBin p op l r => MOp p (binop_str op) (conv_e l) (conv_e r)
  | EUnary p op e => MUnary p (unop_str op) (conv_e e)
  | ECompare p l c => MCompare p (cmp_strs c) (conv_e l :: conv_cmps c)
  | EBoolOp p op e1 e2 rest => group p (boolop_str op) (conv_e e1) (conv_e e2) (conv_es rest)
  | EIfExp p t b o => MCond p (conv_e t) (conv_e b) (conv_e o)
  | ETuple p es => MTuple p (conv_es es)
  | EList p es => MList p (conv_es es)
  | ESet p es => MSet p (conv_es es)
  | EDict p it => MDict p (conv_ditems it)
  | ESubscript p v i => MIndex p (conv_e v) (conv_e i)
  | ESlice p a b c => MSlice p (conv_oe a) (conv_oe b) (conv_oe c)
  | EStar p e => MStar p (conv_e e)
  (* visit_Lambda: a synthetic ast.Return carrying only lineno/col_offset of the body; e.set_line(lineno, col_offset) *)
  | ELambda p ps b => MLambda (no_end p) (conv_params ps) (no_end (epos b)) (no_end (epos b)) (conv_e b)
  (* visit_Constant: None / True / False become NameExpr; Ellipsis an EllipsisExpr *)
  | EConst p c => MName p (cname_str c)
  | EEllipsis p => MEllipsis p
  (* visit_ListComp / visit_SetComp wrap visit_GeneratorExp applied to the SAME ast node: both get its position *)
  | EComp p k elt g =>
      let gen := MGenerator p (conv_e elt) (conv_gtargets g) (conv_giters g) (conv_gifs g) (gasync g) in
      match k with CList => MListComp p gen | CSet => MSetComp p gen | CGen => gen end
  | EDictComp p ky v g => MDictComp p (conv_e ky) (conv_e v) (conv_gtargets g) (conv_giters g) (conv_gifs g) (gasync g)
  | EYield p v => MYield p (conv_oe v)
  | EYieldFrom p e => MYieldFrom p (conv_e e)
  | EAwait p e => MAwait p (conv_e e)
  | EWalrus p tp id v => MAssignExpr p (MName tp id) (conv_e v)
  | EBytes p s => MBytes p s
  | EFloat p b => MFloat p b
  | EComplex p a b => MComplex p a b
  end
with conv_es (es : exprs) : list mexpr :=
  match es with ENil => [] | ECons e es' => conv_e e :: conv_es es' end
with conv_args (a : args) : list mexpr :=
  match a with ANil => [] | ACons _ e a' => conv_e e :: conv_args a' end
with conv_cmps (c : cmps) : list mexpr :=
  match c with CNil => [] | CCons _ e c' => conv_e e :: conv_cmps c' end
with conv_oe (o : oexpr) : option mexpr :=
  match o with ONone => None | OSome e => Some (conv_e e) end
with conv_ditems (d : ditems) : list (option mexpr * mexpr) :=
  match d with DNil => [] | DCons k v r => (conv_oe k, conv_e v) :: conv_ditems r end
with conv_params (ps : params) : list marg :=
  match ps with
  | PNil => []
  | PCons p _ n k d r => MArg p p n (param_kind k (has_default d)) (conv_oe d) (param_pos_only k n) :: conv_params r
  end
with conv_gtargets (g : gens) : list mexpr := match g with GNil => [] | GCons t _ _ r => conv_e t :: conv_gtargets r end
with conv_giters (g : gens) : list mexpr := match g with GNil => [] | GCons _ i _ r => conv_e i :: conv_giters r end
with conv_gifs (g : gens) : list (list mexpr) := match g with GNil => [] | GCons _ _ c r => conv_es c :: conv_gifs r end.

Fixpoint conv_ckws (k : ckws) : list (string * mexpr) :=
  match k with KNil => [] | KCons n e r => (n, conv_e e) :: conv_ckws r end.
Fixpoint conv_wexprs (w : witems) : list mexpr :=
  match w with WNil => [] | WCons c _ r => conv_e c :: conv_wexprs r end.
Fixpoint conv_wtargets (w : witems) : list (option mexpr) :=
  match w with WNil => [] | WCons _ t r => conv_oe t :: conv_wtargets r end.

(* TypeConverter(line = the statement's line): every node gets that line, the column of its expression and no end --
   except a subscript, which gets the end of the subscript expression; `None` gets no column *)
Fixpoint conv_ty (line : Z) (t : ty) : mty :=
  match t with
  | TyName p n => MUnbound (PN line (p_col p)) n [] false
  | TyNone p => MUnbound (PN line (-1)) "None" [] false
  | TySub p b tup a =>
      MUnbound (P line (p_col p) (p_eline p) (p_ecol p)) b (conv_tys line a) (tup && match a with TNil => true | _ => false end)
  | TyUnion p l r => mk_union (PN line (p_col p)) [conv_ty line l; conv_ty line r]
  end
with conv_tys (line : Z) (a : tys) : list mty :=
  match a with TNil => [] | TCons t ts => conv_ty line t :: conv_tys line ts end.
(* visit_AnnAssign: typ.column = n.annotation.col_offset *)
Definition set_col (c : Z) (t : mty) : mty :=
  match t with
  | MUnbound (P l _ el ec) n a e => MUnbound (P l c el ec) n a e
  | MUnion (P l _ el ec) i => MUnion (P l c el ec) i
  end.

(* set_block_lines: first.lineno/col_offset, last.end_lineno/end_col_offset of the *ast* statements; when the first
   statement became a Decorator its (normalised) line/column are copied *)
Fixpoint last_spos (s0 : stmt) (ss : stmts) : pos :=
  match ss with SNil => spos s0 | SCons s ss' => last_spos s ss' end.
Definition first_pos (s0 : stmt) : pos :=
  match s0 with
  | SDef _ _ _ (ECons d _) _ _ _ => epos d
  | _ => spos s0
  end.
Definition block_pos (s0 : stmt) (ss : stmts) : pos := span (first_pos s0) (last_spos s0 ss).

Definition mk_funcdef (p : pos) (name : string) (args : list marg) (decos : list mexpr) (dpos : pos) (b : mblock) : mstmt :=
  let f := MFuncDef p name (force_pos_only (special_function_elide_names name) args) b in
  match decos with [] => f | _ => MDecorator (span dpos p) decos f end.

Fixpoint conv_s (s : stmt) {struct s} : mstmt :=
  match s with
  | SClass p name bases kws decos b0 bs =>
      MClassDef p name (MBlock (block_pos b0 bs) false (conv_s b0 :: conv_ss bs)) (conv_es bases)
        (find_metaclass (conv_ckws kws)) (conv_ckws kws) (conv_es decos)
  | SDef p name ps decos _ b0 bs =>
      (* deco.set_line(first.lineno, first.col_offset, end_line, end_column) *)
      mk_funcdef p name (conv_params ps) (conv_es decos) (match decos with ECons d _ => epos d | ENil => p end)
        (MBlock (block_pos b0 bs) false (conv_s b0 :: conv_ss bs))
  | SExpr p e => MExprStmt p (conv_e e)
  | SAssign p t v => MAssign p (conv_es t) (conv_e v) false
  (* visit_AnnAssign: without a value the rvalue is a TempNode with set_line(rvalue, n) *)
  | SAnnAssign p t a v =>
      MAnnAssign p [conv_e t] (match v with ONone => MTemp p | OSome e => conv_e e end)
        (set_col (p_col (typos a)) (conv_ty (p_line p) a)) true
  | SAugAssign p op t v => MOpAssign p (binop_str op) (conv_e t) (conv_e v)
  | SReturn p v => MReturn p (conv_oe v)
  | SPass p => MPass p
  | SBreak p => MBreak p
  | SContinue p => MContinue p
  | SGlobal p ns => MGlobal p ns
  | SNonlocal p ns => MNonlocal p ns
  (* visit_Delete: several targets become a TupleExpr with tup.set_line(n.lineno): column -1, no end *)
  | SDel p t0 ts => MDel p (match ts with ENil => conv_e t0 | _ => MTuple (PN (p_line p) (-1)) (conv_e t0 :: conv_es ts) end)
  | SAssert p t m => MAssert p (conv_e t) (conv_oe m)
  | SRaise p e c => MRaise p (conv_oe e) (conv_oe c)
  | SImport p ns => MImport p ns
  | SImportFrom p lv m ns => MImportFrom p m lv ns
  | SImportAll p lv m => MImportAll p m lv
  | SWhile p t b0 bs o => MWhile p (conv_e t) (MBlock (block_pos b0 bs) false (conv_s b0 :: conv_ss bs)) (as_block o)
  | SFor p t i b0 bs o => MFor p (conv_e t) (conv_e i) (MBlock (block_pos b0 bs) false (conv_s b0 :: conv_ss bs)) (as_block o)
  | SIf p t b0 bs el o => MIf p (conv_e t) (MBlock (block_pos b0 bs) false (conv_s b0 :: conv_ss bs)) (conv_elifs el (as_block o))
  | SWith p items b0 bs =>
      MWith p (conv_wexprs items) (conv_wtargets items) (MBlock (block_pos b0 bs) false (conv_s b0 :: conv_ss bs))
  | STry p b0 bs hs o f =>
      MTry p (MBlock (block_pos b0 bs) false (conv_s b0 :: conv_ss bs)) (conv_hvars hs) (conv_htypes hs) (conv_hbodies hs)
        (as_block o) (as_block f)
  end
with conv_ss (ss : stmts) {struct ss} : list mstmt :=
  match ss with SNil => [] | SCons s ss' => conv_s s :: conv_ss ss' end
with as_block (ss : stmts) {struct ss} : option mblock :=
  match ss with
  | SNil => None
  | SCons s ss' => Some (MBlock (block_pos s ss') false (conv_s s :: conv_ss ss'))
  end
(* CPython: `elif` is orelse=[If]; the nested If node starts at the `elif` keyword: position p of the clause *)
with conv_elifs (el : elifs) (o : option mblock) {struct el} : option mblock :=
  match el with
  | LNil => o
  | LCons p t b0 bs el' =>
      Some (MBlock p false [MIf p (conv_e t) (MBlock (block_pos b0 bs) false (conv_s b0 :: conv_ss bs)) (conv_elifs el' o)])
  end
(* visit_Try: the NameExpr of `as name` gets the position of the whole handler *)
with conv_hvars (hs : handlers) {struct hs} : list (option (string * pos)) :=
  match hs with
  | HNil => []
  | HCons hp _ nm _ _ r => (match nm with Some (n, _) => Some (n, hp) | None => None end) :: conv_hvars r
  end
with conv_htypes (hs : handlers) {struct hs} : list (option mexpr) :=
  match hs with HNil => [] | HCons _ ty _ _ _ r => conv_oe ty :: conv_htypes r end
with conv_hbodies (hs : handlers) {struct hs} : list mblock :=
  match hs with
  | HNil => []
  | HCons _ _ _ b0 bs r => MBlock (block_pos b0 bs) false (conv_s b0 :: conv_ss bs) :: conv_hbodies r
  end.

Definition convert (ss : stmts) : list mstmt := conv_ss ss.

(* ================================================================ (ii) the stream *)
Inductive tag :=
| LITERAL_NONE | LITERAL_INT | LITERAL_STR | LIST_GEN | LIST_INT | DICT_STR_GEN | LOCATION | END_TAG
| EXPR_STMT | CALL_EXPR | NAME_EXPR | STR_EXPR | MEMBER_EXPR | OP_EXPR | INT_EXPR | IF_STMT | ASSIGNMENT_STMT
| TUPLE_EXPR | BLOCK | LIST_EXPR | RETURN_STMT | WHILE_STMT | COMPARISON_EXPR | BOOL_OP_EXPR | PASS_STMT | UNARY_EXPR
| FOR_STMT | CONDITIONAL_EXPR | FUNC_DEF_STMT | CLASS_DEF | DECORATOR
| SET_EXPR | DICT_EXPR | INDEX_EXPR | SLICE_EXPR | STAR_EXPR | LAMBDA_EXPR
| OPERATOR_ASSIGNMENT_STMT | BREAK_STMT | CONTINUE_STMT | GLOBAL_DECL | NONLOCAL_DECL | DEL_STMT | ASSERT_STMT | RAISE_STMT
| IMPORT | IMPORT_FROM | IMPORT_ALL | WITH_STMT | TRY_STMT | TEMP_NODE | UNBOUND_TYPE | UNION_TYPE
| ELLIPSIS_EXPR | GENERATOR_EXPR | LIST_COMPREHENSION | SET_COMPREHENSION | DICT_COMPREHENSION
| YIELD_EXPR | YIELD_FROM_EXPR | AWAIT_EXPR | ASSIGNMENT_EXPR | BYTES_EXPR | FLOAT_EXPR | COMPLEX_EXPR | LITERAL_FLOAT.

(* primitive reads of librt.internal: read_tag / read_int / read_str / read_bool *)
(* F: read_float, the value as its IEEE-754 bit pattern *)
Inductive tok := T (t : tag) | I (z : Z) | S (s : string) | B (b : bool) | F (bits : Z).

Definition loc_k (p : pos) (k : list tok) : list tok :=
  T LOCATION :: I (p_line p) :: I (p_col p) :: I (p_eline p - p_line p) :: I (p_ecol p - p_col p) :: k.
Definition int_k (z : Z) (k : list tok) := T LITERAL_INT :: I z :: k.
Definition str_k (s : string) (k : list tok) := T LITERAL_STR :: S s :: k.
Definition nat_k (n : nat) (k : list tok) := I (Z.of_nat n) :: k.

Fixpoint len_es (es : exprs) : nat := match es with ENil => O | ECons _ es' => Datatypes.S (len_es es') end.
Fixpoint len_args (a : args) : nat := match a with ANil => O | ACons _ _ a' => Datatypes.S (len_args a') end.
Fixpoint len_cmps (c : cmps) : nat := match c with CNil => O | CCons _ _ c' => Datatypes.S (len_cmps c') end.
Fixpoint len_ditems (d : ditems) : nat := match d with DNil => O | DCons _ _ r => Datatypes.S (len_ditems r) end.
Fixpoint len_params (ps : params) : nat := match ps with PNil => O | PCons _ _ _ _ _ r => Datatypes.S (len_params r) end.
Fixpoint len_gens (g : gens) : nat := match g with GNil => O | GCons _ _ _ r => Datatypes.S (len_gens r) end.
Fixpoint gasync_k (g : gens) (k : list tok) : list tok := match g with GNil => k | GCons _ _ _ r => B false :: gasync_k r k end.
Fixpoint len_ss (ss : stmts) : nat := match ss with SNil => O | SCons _ ss' => Datatypes.S (len_ss ss') end.
Fixpoint len_el (el : elifs) : nat := match el with LNil => O | LCons _ _ _ _ el' => Datatypes.S (len_el el') end.
Fixpoint len_ckws (k : ckws) : nat := match k with KNil => O | KCons _ _ r => Datatypes.S (len_ckws r) end.
Fixpoint len_witems (w : witems) : nat := match w with WNil => O | WCons _ _ r => Datatypes.S (len_witems r) end.
Fixpoint len_hs (h : handlers) : nat := match h with HNil => O | HCons _ _ _ _ _ r => Datatypes.S (len_hs r) end.

Fixpoint kinds_k (a : args) (k : list tok) : list tok :=
  match a with ANil => k | ACons kd _ a' => I (argkind_idx (kind_of kd)) :: kinds_k a' k end.
Fixpoint names_k (a : args) (k : list tok) : list tok :=
  match a with
  | ANil => k
  | ACons kd _ a' => match name_of kd with Some n => T LITERAL_STR :: S n :: names_k a' k | None => T LITERAL_NONE :: names_k a' k end
  end.
Fixpoint cmpidx_k (c : cmps) (k : list tok) : list tok :=
  match c with CNil => k | CCons o _ c' => I (cmpop_idx o) :: cmpidx_k c' k end.
Fixpoint strs_k (l : list string) (k : list tok) : list tok :=
  match l with [] => k | s :: l' => str_k s (strs_k l' k) end.
Fixpoint aliases_k (l : list (string * option string)) (k : list tok) : list tok :=
  match l with
  | [] => k
  | (n, Some a) :: l' => str_k n (B true :: str_k a (aliases_k l' k))
  | (n, None) :: l' => str_k n (B false :: aliases_k l' k)
  end.

(* emit_e e k = the tokens of e followed by k *)
Fixpoint emit_e (e : expr) (k : list tok) {struct e} : list tok :=
  match e with
  | EName p id => T NAME_EXPR :: str_k id (loc_k p (T END_TAG :: k))
  | EInt p v => T INT_EXPR :: int_k v (loc_k p (T END_TAG :: k))
  | EStr p s => T STR_EXPR :: str_k s (loc_k p (T END_TAG :: k))
  | EAttr p e a => T MEMBER_EXPR :: emit_e e (str_k a (loc_k p (T END_TAG :: k)))
  | ECall p f a =>
      T CALL_EXPR :: emit_e f (T LIST_GEN :: nat_k (len_args a) (emit_args a
        (T LIST_INT :: nat_k (len_args a) (kinds_k a
          (T LIST_GEN :: nat_k (len_args a) (names_k a (loc_k p (T END_TAG :: k))))))))
  | EBin p op l r => T OP_EXPR :: int_k (binop_idx op) (emit_e l (emit_e r (T END_TAG :: k)))
  | EUnary p op e => T UNARY_EXPR :: int_k (unop_idx op) (emit_e e (loc_k p (T END_TAG :: k)))
  | ECompare p l c =>
      T COMPARISON_EXPR :: emit_e l (T LIST_INT :: nat_k (len_cmps c) (cmpidx_k c
        (T LIST_GEN :: nat_k (len_cmps c) (emit_cmps c (loc_k p (T END_TAG :: k))))))
  | EBoolOp p op e1 e2 rest =>
      T BOOL_OP_EXPR :: int_k (boolop_idx op) (T LIST_GEN :: nat_k (Datatypes.S (Datatypes.S (len_es rest)))
        (emit_e e1 (emit_e e2 (emit_es rest (loc_k p (T END_TAG :: k))))))
  | EIfExp p t b o => T CONDITIONAL_EXPR :: emit_e b (emit_e t (emit_e o (loc_k p (T END_TAG :: k))))
  | ETuple p es => T TUPLE_EXPR :: T LIST_GEN :: nat_k (len_es es) (emit_es es (loc_k p (T END_TAG :: k)))
  | EList p es => T LIST_EXPR :: T LIST_GEN :: nat_k (len_es es) (emit_es es (loc_k p (T END_TAG :: k)))
  | ESet p es => T SET_EXPR :: T LIST_GEN :: nat_k (len_es es) (emit_es es (loc_k p (T END_TAG :: k)))
  | EDict p it =>
      T DICT_EXPR :: T LIST_GEN :: nat_k (len_ditems it) (emit_dkeys it
        (T LIST_GEN :: nat_k (len_ditems it) (emit_dvals it (loc_k p (T END_TAG :: k)))))
  | ESubscript p v i => T INDEX_EXPR :: emit_e v (emit_e i (loc_k p (T END_TAG :: k)))
  | ESlice p a b c => T SLICE_EXPR :: emit_oe a (emit_oe b (emit_oe c (loc_k p (T END_TAG :: k))))
  | EStar p e => T STAR_EXPR :: emit_e e (loc_k p (T END_TAG :: k))
  | ELambda p ps b =>
      T LAMBDA_EXPR :: T LIST_GEN :: nat_k (len_params ps) (emit_params ps
        (T BLOCK :: T LIST_GEN :: I 1 :: B false :: T RETURN_STMT :: B true :: emit_e b (loc_k (epos b) (T END_TAG ::
          T END_TAG :: loc_k p (T END_TAG :: k)))))
  | EConst p c => T NAME_EXPR :: str_k (cname_str c) (loc_k p (T END_TAG :: k))
  | EEllipsis p => T ELLIPSIS_EXPR :: loc_k p (T END_TAG :: k)
  (* read_generator_expr: left, n, indices, sequences, condlists, is_async; GENERATOR_EXPR adds loc END, the list/set
     comprehension wraps it: TAG <generator fields> loc END *)
  | EComp p ck elt g =>
      T (match ck with CList => LIST_COMPREHENSION | CSet => SET_COMPREHENSION | CGen => GENERATOR_EXPR end) ::
        emit_e elt (int_k (Z.of_nat (len_gens g)) (emit_gtargets g (emit_giters g (emit_gifs g (gasync_k g (loc_k p (T END_TAG :: k)))))))
  | EDictComp p ky v g =>
      T DICT_COMPREHENSION :: emit_e ky (emit_e v
        (int_k (Z.of_nat (len_gens g)) (emit_gtargets g (emit_giters g (emit_gifs g (gasync_k g (loc_k p (T END_TAG :: k))))))))
  | EYield p v => T YIELD_EXPR :: emit_oe v (loc_k p (T END_TAG :: k))
  | EYieldFrom p e => T YIELD_FROM_EXPR :: emit_e e (loc_k p (T END_TAG :: k))
  | EAwait p e => T AWAIT_EXPR :: emit_e e (loc_k p (T END_TAG :: k))
  | EWalrus p tp id v =>
      T ASSIGNMENT_EXPR :: T NAME_EXPR :: str_k id (loc_k tp (T END_TAG :: emit_e v (loc_k p (T END_TAG :: k))))
  | EBytes p s => T BYTES_EXPR :: str_k s (loc_k p (T END_TAG :: k))
  | EFloat p b => T FLOAT_EXPR :: T LITERAL_FLOAT :: F b :: loc_k p (T END_TAG :: k)
  | EComplex p a b => T COMPLEX_EXPR :: T LITERAL_FLOAT :: F a :: T LITERAL_FLOAT :: F b :: loc_k p (T END_TAG :: k)
  end
with emit_es (es : exprs) (k : list tok) {struct es} : list tok :=
  match es with ENil => k | ECons e es' => emit_e e (emit_es es' k) end
with emit_args (a : args) (k : list tok) {struct a} : list tok :=
  match a with ANil => k | ACons _ e a' => emit_e e (emit_args a' k) end
with emit_cmps (c : cmps) (k : list tok) {struct c} : list tok :=
  match c with CNil => k | CCons _ e c' => emit_e e (emit_cmps c' k) end
(* optional expression: has_x [x] *)
with emit_oe (o : oexpr) (k : list tok) {struct o} : list tok :=
  match o with ONone => B false :: k | OSome e => B true :: emit_e e k end
with emit_dkeys (d : ditems) (k : list tok) {struct d} : list tok :=
  match d with DNil => k | DCons ky _ r => emit_oe ky (emit_dkeys r k) end
with emit_dvals (d : ditems) (k : list tok) {struct d} : list tok :=
  match d with DNil => k | DCons _ v r => emit_e v (emit_dvals r k) end
(* one parameter: name, kind, has_type(false), has_default [default], pos_only, location (no END_TAG) *)
with emit_params (ps : params) (k : list tok) {struct ps} : list tok :=
  match ps with
  | PNil => k
  | PCons _ sp n kd d r =>
      str_k n (int_k (argkind_idx (param_kind kd (has_default d))) (B false ::
        emit_oe d (B (emit_pos_only kd n) :: loc_k sp (emit_params r k))))
  end
with emit_gtargets (g : gens) (k : list tok) {struct g} : list tok :=
  match g with GNil => k | GCons t _ _ r => emit_e t (emit_gtargets r k) end
with emit_giters (g : gens) (k : list tok) {struct g} : list tok :=
  match g with GNil => k | GCons _ i _ r => emit_e i (emit_giters r k) end
with emit_gifs (g : gens) (k : list tok) {struct g} : list tok :=
  match g with GNil => k | GCons _ _ c r => T LIST_GEN :: nat_k (len_es c) (emit_es c (emit_gifs r k)) end.

Fixpoint len_tys (a : tys) : nat := match a with TNil => O | TCons _ r => Datatypes.S (len_tys r) end.
(* UNBOUND_TYPE name LIST_GEN args empty_tuple_index original_str_expr(None) original_str_fallback(None) loc END
   UNION_TYPE LIST_GEN items uses_pep604_syntax None None is_evaluated loc END *)
Fixpoint emit_ty (t : ty) (k : list tok) {struct t} : list tok :=
  match t with
  | TyName p n => T UNBOUND_TYPE :: str_k n (T LIST_GEN :: I 0 :: B false :: T LITERAL_NONE :: T LITERAL_NONE :: loc_k p (T END_TAG :: k))
  | TyNone p => T UNBOUND_TYPE :: str_k "None" (T LIST_GEN :: I 0 :: B false :: T LITERAL_NONE :: T LITERAL_NONE :: loc_k p (T END_TAG :: k))
  | TySub p b tup a =>
      T UNBOUND_TYPE :: str_k b (T LIST_GEN :: nat_k (len_tys a) (emit_tys a
        (B (tup && match a with TNil => true | _ => false end) :: T LITERAL_NONE :: T LITERAL_NONE :: loc_k p (T END_TAG :: k))))
  | TyUnion p l r =>
      T UNION_TYPE :: T LIST_GEN :: I 2 :: emit_ty l (emit_ty r
        (B true :: T LITERAL_NONE :: T LITERAL_NONE :: B true :: loc_k p (T END_TAG :: k)))
  end
with emit_tys (a : tys) (k : list tok) {struct a} : list tok :=
  match a with TNil => k | TCons t ts => emit_ty t (emit_tys ts k) end.

Fixpoint emit_ckws (kw : ckws) (k : list tok) : list tok :=
  match kw with KNil => k | KCons n e r => str_k n (emit_e e (emit_ckws r k)) end.
Fixpoint emit_witems (w : witems) (k : list tok) : list tok :=
  match w with WNil => k | WCons c t r => emit_e c (emit_oe t (emit_witems r k)) end.

Definition blk (n : nat) (inner : list tok) : list tok := T BLOCK :: T LIST_GEN :: I (Z.of_nat n) :: B false :: inner.
Definition flags_k (top : bool) (k : list tok) : list tok := int_k (if top then 1 else 0) k.

(* top = not inside a function body (import flags bit 0: is_top_level) *)
Fixpoint emit_s (top : bool) (s : stmt) (k : list tok) {struct s} : list tok :=
  match s with
  | SClass p name bases kws decos b0 bs =>
      T CLASS_DEF :: str_k name (blk (Datatypes.S (len_ss bs)) (emit_s top b0 (emit_ss top bs (T END_TAG ::
        T LIST_GEN :: nat_k (len_es bases) (emit_es bases
          (T LIST_GEN :: nat_k (len_es decos) (emit_es decos
            (B false :: T DICT_STR_GEN :: nat_k (len_ckws kws) (emit_ckws kws (loc_k p (T END_TAG :: k)))))))))))
  | SDef p name ps decos dp b0 bs =>
      let fd k' :=
        T FUNC_DEF_STMT :: str_k name (T LIST_GEN :: nat_k (len_params ps) (emit_params ps
          (blk (Datatypes.S (len_ss bs)) (emit_s false b0 (emit_ss false bs (T END_TAG ::
            B false :: B false :: B false :: loc_k p (T END_TAG :: k'))))))) in
      match decos with
      | ENil => fd k
      | ECons d0 _ =>
          T DECORATOR :: T LIST_GEN :: nat_k (len_es decos) (emit_es decos
            (int_k (p_line dp) (int_k (p_col dp) (fd (T END_TAG :: k)))))
      end
  | SExpr p e => T EXPR_STMT :: emit_e e (T END_TAG :: k)
  | SAssign p t v =>
      T ASSIGNMENT_STMT :: T LIST_GEN :: nat_k (len_es t) (emit_es t (emit_e v (B false :: B false :: loc_k p (T END_TAG :: k))))
  | SAnnAssign p t a v =>
      T ASSIGNMENT_STMT :: T LIST_GEN :: I 1 :: emit_e t
        (match v with ONone => T TEMP_NODE :: T END_TAG :: B true :: emit_ty a (B true :: loc_k p (T END_TAG :: k))
                    | OSome e => emit_e e (B true :: emit_ty a (B true :: loc_k p (T END_TAG :: k))) end)
  | SAugAssign p op t v => T OPERATOR_ASSIGNMENT_STMT :: str_k (binop_str op) (emit_e t (emit_e v (loc_k p (T END_TAG :: k))))
  | SReturn p v => T RETURN_STMT :: emit_oe v (loc_k p (T END_TAG :: k))
  | SPass p => T PASS_STMT :: loc_k p (T END_TAG :: k)
  | SBreak p => T BREAK_STMT :: loc_k p (T END_TAG :: k)
  | SContinue p => T CONTINUE_STMT :: loc_k p (T END_TAG :: k)
  | SGlobal p ns => T GLOBAL_DECL :: int_k (Z.of_nat (List.length ns)) (strs_k ns (loc_k p (T END_TAG :: k)))
  | SNonlocal p ns => T NONLOCAL_DECL :: int_k (Z.of_nat (List.length ns)) (strs_k ns (loc_k p (T END_TAG :: k)))
  | SDel p t0 ts =>
      T DEL_STMT :: match ts with
                    | ENil => emit_e t0 (loc_k p (T END_TAG :: k))
                    | _ => T TUPLE_EXPR :: T LIST_GEN :: nat_k (Datatypes.S (len_es ts))
                             (emit_e t0 (emit_es ts (loc_k p (T END_TAG :: loc_k p (T END_TAG :: k)))))
                    end
  | SAssert p t m => T ASSERT_STMT :: emit_e t (emit_oe m (loc_k p (T END_TAG :: k)))
  | SRaise p e c => T RAISE_STMT :: emit_oe e (emit_oe c (loc_k p (T END_TAG :: k)))
  | SImport p ns => T IMPORT :: int_k (Z.of_nat (List.length ns)) (aliases_k ns (loc_k p (flags_k top (T END_TAG :: k))))
  | SImportFrom p lv m ns =>
      T IMPORT_FROM :: int_k lv (str_k m (int_k (Z.of_nat (List.length ns)) (aliases_k ns (loc_k p (flags_k top (T END_TAG :: k))))))
  | SImportAll p lv m => T IMPORT_ALL :: str_k m (int_k lv (loc_k p (flags_k top (T END_TAG :: k))))
  | SWhile p t b0 bs o =>
      T WHILE_STMT :: emit_e t (blk (Datatypes.S (len_ss bs)) (emit_s top b0 (emit_ss top bs (T END_TAG ::
        blk (len_ss o) (emit_ss top o (T END_TAG :: loc_k p (T END_TAG :: k)))))))
  | SFor p t i b0 bs o =>
      T FOR_STMT :: emit_e t (emit_e i (blk (Datatypes.S (len_ss bs)) (emit_s top b0 (emit_ss top bs (T END_TAG ::
        blk (len_ss o) (emit_ss top o (T END_TAG :: B false :: loc_k p (T END_TAG :: k))))))))
  | SIf p t b0 bs el o =>
      T IF_STMT :: emit_e t (blk (Datatypes.S (len_ss bs)) (emit_s top b0 (emit_ss top bs (T END_TAG ::
        int_k (Z.of_nat (len_el el)) (emit_elifs top el (emit_oblk top o (loc_k p (T END_TAG :: k))))))))
  | SWith p items b0 bs =>
      T WITH_STMT :: int_k (Z.of_nat (len_witems items)) (emit_witems items
        (blk (Datatypes.S (len_ss bs)) (emit_s top b0 (emit_ss top bs (T END_TAG :: B false :: loc_k p (T END_TAG :: k))))))
  | STry p b0 bs hs o f =>
      T TRY_STMT :: blk (Datatypes.S (len_ss bs)) (emit_s top b0 (emit_ss top bs (T END_TAG ::
        int_k (Z.of_nat (len_hs hs)) (emit_htypes hs (emit_hvars hs (emit_hbodies top hs
          (emit_oblk top o (emit_oblk top f (B false :: loc_k p (T END_TAG :: k)))))))))) 
  end
with emit_ss (top : bool) (ss : stmts) (k : list tok) {struct ss} : list tok :=
  match ss with SNil => k | SCons s ss' => emit_s top s (emit_ss top ss' k) end
(* has_x [block] *)
with emit_oblk (top : bool) (o : stmts) (k : list tok) {struct o} : list tok :=
  match o with
  | SNil => B false :: k
  | SCons s ss => B true :: blk (Datatypes.S (len_ss ss)) (emit_s top s (emit_ss top ss (T END_TAG :: k)))
  end
with emit_elifs (top : bool) (el : elifs) (k : list tok) {struct el} : list tok :=
  match el with
  | LNil => k
  | LCons _ t b0 bs el' => emit_e t (blk (Datatypes.S (len_ss bs)) (emit_s top b0 (emit_ss top bs (T END_TAG :: emit_elifs top el' k))))
  end
with emit_htypes (hs : handlers) (k : list tok) {struct hs} : list tok :=
  match hs with HNil => k | HCons _ ty _ _ _ r => emit_oe ty (emit_htypes r k) end
with emit_hvars (hs : handlers) (k : list tok) {struct hs} : list tok :=
  match hs with
  | HNil => k
  | HCons _ _ None _ _ r => B false :: emit_hvars r k
  | HCons _ _ (Some (n, np)) _ _ r => B true :: str_k n (loc_k np (emit_hvars r k))
  end
with emit_hbodies (top : bool) (hs : handlers) (k : list tok) {struct hs} : list tok :=
  match hs with
  | HNil => k
  | HCons _ _ _ b0 bs r => blk (Datatypes.S (len_ss bs)) (emit_s top b0 (emit_ss top bs (T END_TAG :: emit_hbodies top r k)))
  end.

(* file = statement count + statements *)
Definition emit (ss : stmts) : list tok := int_k (Z.of_nat (len_ss ss)) (emit_ss true ss []).

(* ================================================================ (ii') nativeparse: the reader *)
Definition rd (A : Type) := list tok -> option (A * list tok).

Fixpoint read_n {A} (r : rd A) (n : nat) (ts : list tok) : option (list A * list tok) :=
  match n with
  | O => Some ([], ts)
  | Datatypes.S n' =>
      match r ts with
      | Some (a, ts1) => match read_n r n' ts1 with Some (l, ts2) => Some (a :: l, ts2) | None => None end
      | None => None
      end
  end.

Definition read_opt {A} (r : rd A) : rd (option A) := fun ts =>
  match ts with
  | B true :: ts1 => match r ts1 with Some (a, ts2) => Some (Some a, ts2) | None => None end
  | B false :: ts1 => Some (None, ts1)
  | _ => None
  end.

Definition read_loc : rd pos := fun ts =>
  match ts with
  | T LOCATION :: I l :: I c :: I dl :: I dc :: ts' => Some (P l c (l + dl) (c + dc), ts')
  | _ => None
  end.

Definition read_kind : rd argkind := fun ts =>
  match ts with I z :: ts' => match nth_error ARG_KINDS (Z.to_nat z) with Some k => Some (k, ts') | None => None end | _ => None end.
Definition read_name : rd (option string) := fun ts =>
  match ts with
  | T LITERAL_NONE :: ts' => Some (None, ts')
  | T LITERAL_STR :: S s :: ts' => Some (Some s, ts')
  | _ => None
  end.
Definition read_op (table : list string) : rd string := fun ts =>
  match ts with I z :: ts' => match nth_error table (Z.to_nat z) with Some s => Some (s, ts') | None => None end | _ => None end.
Definition read_strtok : rd string := fun ts =>
  match ts with T LITERAL_STR :: S s :: ts' => Some (s, ts') | _ => None end.
Definition read_alias : rd (string * option string) := fun ts =>
  match ts with
  | T LITERAL_STR :: S n :: B true :: T LITERAL_STR :: S a :: ts' => Some ((n, Some a), ts')
  | T LITERAL_STR :: S n :: B false :: ts' => Some ((n, None), ts')
  | _ => None
  end.
Definition read_ovar : rd (option (string * pos)) := fun ts =>
  match ts with
  | B true :: T LITERAL_STR :: S n :: ts1 => match read_loc ts1 with Some (p, ts2) => Some (Some (n, p), ts2) | None => None end
  | B false :: ts1 => Some (None, ts1)
  | _ => None
  end.

(* BOOL_OP_EXPR: values[-1] is the seed; for val in values[-2::-1]: OpExpr(op, val, result) positioned from val to last;
   finally read_loc overwrites the position of the outermost *)
Fixpoint nest_bool (op : string) (vals : list mexpr) (last : mexpr) : mexpr :=
  match vals with
  | [] => last
  | v :: vs => MOp (span (mepos v) (mepos last)) op v (nest_bool op vs last)
  end.
Definition set_pos_op (p : pos) (e : mexpr) : mexpr :=
  match e with MOp _ op l r => MOp p op l r | _ => e end.
Fixpoint split_last {A} (a : A) (l : list A) : list A * A :=
  match l with [] => ([], a) | b :: l' => let '(i, x) := split_last b l' in (a :: i, x) end.
Definition mk_boolop (p : pos) (op : string) (v0 v1 : mexpr) (vs : list mexpr) : mexpr :=
  let '(init, last) := split_last v0 (v1 :: vs) in set_pos_op p (nest_bool op init last).

Definition finish {A} (a : A) (ts : list tok) : option (A * list tok) :=
  match ts with T END_TAG :: ts' => Some (a, ts') | _ => None end.
Definition loc_finish {A} (mk : pos -> A) (ts : list tok) : option (A * list tok) :=
  match read_loc ts with Some (p, ts') => finish (mk p) ts' | None => None end.

(* read_parameters (one item) *)
Definition read_param_with (re : rd mexpr) : rd marg := fun ts =>
  match ts with
  | T LITERAL_STR :: S n :: T LITERAL_INT :: I kd :: B false :: ts1 =>
      match nth_error ARG_KINDS (Z.to_nat kd), read_opt re ts1 with
      | Some k, Some (d, B po :: ts2) =>
          match read_loc ts2 with Some (p, ts3) => Some (MArg p p n k d po, ts3) | None => None end
      | _, _ => None
      end
  | _ => None    (* has_type = true: annotated parameter, outside the fragment *)
  end.

Definition read_bool : rd bool := fun ts => match ts with B b :: ts' => Some (b, ts') | _ => None end.
Definition read_list_with {A} (r : rd A) : rd (list A) := fun ts =>
  match ts with T LIST_GEN :: I n :: ts1 => read_n r (Z.to_nat n) ts1 | _ => None end.
(* the comprehension data after the left expression(s): n, indices, sequences, condlists, is_async *)
Definition read_gens_with (re : rd mexpr) : rd (list mexpr * list mexpr * list (list mexpr) * list bool) := fun ts =>
  match ts with
  | T LITERAL_INT :: I n :: ts1 =>
      match read_n re (Z.to_nat n) ts1 with
      | Some (idx, ts2) =>
        match read_n re (Z.to_nat n) ts2 with
        | Some (seqs, ts3) =>
          match read_n (read_list_with re) (Z.to_nat n) ts3 with
          | Some (conds, ts4) =>
            match read_n read_bool (Z.to_nat n) ts4 with
            | Some (asy, ts5) => Some ((idx, seqs, conds, asy), ts5)
            | None => None
            end
          | None => None
          end
        | None => None
        end
      | None => None
      end
  | _ => None
  end.

Fixpoint read_expr (fuel : nat) (ts : list tok) {struct fuel} : option (mexpr * list tok) :=
  match fuel with
  | O => None
  | Datatypes.S f =>
    match ts with
    | T NAME_EXPR :: T LITERAL_STR :: S s :: ts1 => loc_finish (fun p => MName p s) ts1
    | T INT_EXPR :: T LITERAL_INT :: I v :: ts1 => loc_finish (fun p => MInt p v) ts1
    | T STR_EXPR :: T LITERAL_STR :: S s :: ts1 => loc_finish (fun p => MStr p s) ts1
    | T MEMBER_EXPR :: ts1 =>
        match read_expr f ts1 with
        | Some (e, T LITERAL_STR :: S a :: ts2) => loc_finish (fun p => mk_member p e a) ts2
        | _ => None
        end
    | T CALL_EXPR :: ts1 =>
        match read_expr f ts1 with
        | Some (callee, T LIST_GEN :: I n :: ts2) =>
          match read_n (read_expr f) (Z.to_nat n) ts2 with
          | Some (args, T LIST_INT :: I nk :: ts3) =>
            match read_n read_kind (Z.to_nat nk) ts3 with
            | Some (kinds, T LIST_GEN :: I nn :: ts4) =>
              match read_n read_name (Z.to_nat nn) ts4 with
              | Some (names, ts5) => loc_finish (fun p => MCall p callee args kinds names) ts5
              | None => None
              end
            | _ => None
            end
          | _ => None
          end
        | _ => None
        end
    | T OP_EXPR :: T LITERAL_INT :: ts1 =>
        match read_op bin_ops ts1 with
        | Some (op, ts2) =>
          match read_expr f ts2 with
          | Some (l, ts3) =>
            match read_expr f ts3 with
            | Some (r, ts4) => finish (MOp (span (mepos l) (mepos r)) op l r) ts4
            | None => None
            end
          | None => None
          end
        | None => None
        end
    | T UNARY_EXPR :: T LITERAL_INT :: ts1 =>
        match read_op unary_ops ts1 with
        | Some (op, ts2) =>
          match read_expr f ts2 with
          | Some (e, ts3) => loc_finish (fun p => MUnary p op e) ts3
          | None => None
          end
        | None => None
        end
    | T COMPARISON_EXPR :: ts1 =>
        match read_expr f ts1 with
        | Some (l, T LIST_INT :: I n :: ts2) =>
          match read_n (read_op cmp_ops) (Z.to_nat n) ts2 with
          | Some (ops, T LIST_GEN :: I m :: ts3) =>
            match read_n (read_expr f) (Z.to_nat m) ts3 with
            | Some (cs, ts4) =>
                if Nat.eqb (List.length ops) (List.length cs)
                then loc_finish (fun p => MCompare p ops (l :: cs)) ts4 else None
            | None => None
            end
          | _ => None
          end
        | _ => None
        end
    | T BOOL_OP_EXPR :: T LITERAL_INT :: ts1 =>
        match read_op bool_ops ts1 with
        | Some (op, T LIST_GEN :: I n :: ts2) =>
          match read_n (read_expr f) (Z.to_nat n) ts2 with
          | Some (v0 :: v1 :: vs, ts3) => loc_finish (fun p => mk_boolop p op v0 v1 vs) ts3
          | _ => None   (* assert len(values) >= 2 *)
          end
        | _ => None
        end
    | T CONDITIONAL_EXPR :: ts1 =>
        match read_expr f ts1 with
        | Some (if_expr, ts2) =>
          match read_expr f ts2 with
          | Some (cond, ts3) =>
            match read_expr f ts3 with
            | Some (else_expr, ts4) => loc_finish (fun p => MCond p cond if_expr else_expr) ts4
            | None => None
            end
          | None => None
          end
        | None => None
        end
    | T TUPLE_EXPR :: T LIST_GEN :: I n :: ts1 =>
        match read_n (read_expr f) (Z.to_nat n) ts1 with
        | Some (items, ts2) => loc_finish (fun p => MTuple p items) ts2
        | None => None
        end
    | T LIST_EXPR :: T LIST_GEN :: I n :: ts1 =>
        match read_n (read_expr f) (Z.to_nat n) ts1 with
        | Some (items, ts2) => loc_finish (fun p => MList p items) ts2
        | None => None
        end
    | T SET_EXPR :: T LIST_GEN :: I n :: ts1 =>
        match read_n (read_expr f) (Z.to_nat n) ts1 with
        | Some (items, ts2) => loc_finish (fun p => MSet p items) ts2
        | None => None
        end
    | T DICT_EXPR :: T LIST_GEN :: I n :: ts1 =>
        match read_n (read_opt (read_expr f)) (Z.to_nat n) ts1 with
        | Some (keys, T LIST_GEN :: I m :: ts2) =>
          match read_n (read_expr f) (Z.to_nat m) ts2 with
          | Some (vals, ts3) => loc_finish (fun p => MDict p (combine keys vals)) ts3
          | None => None
          end
        | _ => None
        end
    | T INDEX_EXPR :: ts1 =>
        match read_expr f ts1 with
        | Some (base, ts2) =>
          match read_expr f ts2 with
          | Some (index, ts3) => loc_finish (fun p => MIndex p base index) ts3
          | None => None
          end
        | None => None
        end
    | T SLICE_EXPR :: ts1 =>
        match read_opt (read_expr f) ts1 with
        | Some (a, ts2) =>
          match read_opt (read_expr f) ts2 with
          | Some (b, ts3) =>
            match read_opt (read_expr f) ts3 with
            | Some (c, ts4) => loc_finish (fun p => MSlice p a b c) ts4
            | None => None
            end
          | None => None
          end
        | None => None
        end
    | T STAR_EXPR :: ts1 =>
        match read_expr f ts1 with
        | Some (e, ts2) => loc_finish (fun p => MStar p e) ts2
        | None => None
        end
    | T ELLIPSIS_EXPR :: ts1 => loc_finish MEllipsis ts1
    | T BYTES_EXPR :: T LITERAL_STR :: S s :: ts1 => loc_finish (fun p => MBytes p s) ts1
    | T FLOAT_EXPR :: T LITERAL_FLOAT :: F b :: ts1 => loc_finish (fun p => MFloat p b) ts1
    | T COMPLEX_EXPR :: T LITERAL_FLOAT :: F a :: T LITERAL_FLOAT :: F b :: ts1 => loc_finish (fun p => MComplex p a b) ts1
    | T YIELD_EXPR :: ts1 =>
        match read_opt (read_expr f) ts1 with
        | Some (v, ts2) => loc_finish (fun p => MYield p v) ts2
        | None => None
        end
    | T YIELD_FROM_EXPR :: ts1 =>
        match read_expr f ts1 with
        | Some (e, ts2) => loc_finish (fun p => MYieldFrom p e) ts2
        | None => None
        end
    | T AWAIT_EXPR :: ts1 =>
        match read_expr f ts1 with
        | Some (e, ts2) => loc_finish (fun p => MAwait p e) ts2
        | None => None
        end
    | T ASSIGNMENT_EXPR :: ts1 =>
        match read_expr f ts1 with
        | Some (MName tp id, ts2) =>      (* assert isinstance(target, NameExpr) *)
          match read_expr f ts2 with
          | Some (v, ts3) => loc_finish (fun p => MAssignExpr p (MName tp id) v) ts3
          | None => None
          end
        | _ => None
        end
    | T GENERATOR_EXPR :: ts1 =>
        match read_expr f ts1 with
        | Some (lft, ts2) =>
          match read_gens_with (read_expr f) ts2 with
          | Some ((idx, seqs, conds, asy), ts3) => loc_finish (fun p => MGenerator p lft idx seqs conds asy) ts3
          | None => None
          end
        | None => None
        end
    | T LIST_COMPREHENSION :: ts1 =>
        match read_expr f ts1 with
        | Some (lft, ts2) =>
          match read_gens_with (read_expr f) ts2 with
          | Some ((idx, seqs, conds, asy), ts3) => loc_finish (fun p => MListComp p (MGenerator p lft idx seqs conds asy)) ts3
          | None => None
          end
        | None => None
        end
    | T SET_COMPREHENSION :: ts1 =>
        match read_expr f ts1 with
        | Some (lft, ts2) =>
          match read_gens_with (read_expr f) ts2 with
          | Some ((idx, seqs, conds, asy), ts3) => loc_finish (fun p => MSetComp p (MGenerator p lft idx seqs conds asy)) ts3
          | None => None
          end
        | None => None
        end
    | T DICT_COMPREHENSION :: ts1 =>
        match read_expr f ts1 with
        | Some (ky, ts2) =>
          match read_expr f ts2 with
          | Some (v, ts3) =>
            match read_gens_with (read_expr f) ts3 with
            | Some ((idx, seqs, conds, asy), ts4) => loc_finish (fun p => MDictComp p ky v idx seqs conds asy) ts4
            | None => None
            end
          | None => None
          end
        | None => None
        end
    (* TEMP_NODE: a fresh TempNode (Context defaults: line -1, column -1, no end) *)
    | T TEMP_NODE :: ts1 => finish (MTemp (PN (-1) (-1))) ts1
    (* LAMBDA_EXPR: parameters, then read_block.  The serializer always writes a block of exactly one RETURN_STMT with a
       value; the reader model is restricted to that shape (block position = from its single statement) *)
    | T LAMBDA_EXPR :: T LIST_GEN :: I n :: ts1 =>
        match read_n (read_param_with (read_expr f)) (Z.to_nat n) ts1 with
        | Some (args, T BLOCK :: T LIST_GEN :: I 1 :: B false :: T RETURN_STMT :: B true :: ts2) =>
          match read_expr f ts2 with
          | Some (body, ts3) =>
            match read_loc ts3 with
            | Some (rp, T END_TAG :: T END_TAG :: ts4) => loc_finish (fun p => MLambda p args (span rp rp) rp body) ts4
            | _ => None
            end
          | None => None
          end
        | _ => None
        end
    | _ => None
    end
  end.

(* read_type, restricted to the two tags of the sublanguage *)
Fixpoint read_ty (fuel : nat) (ts : list tok) {struct fuel} : option (mty * list tok) :=
  match fuel with
  | O => None
  | Datatypes.S f =>
    match ts with
    | T UNBOUND_TYPE :: T LITERAL_STR :: S name :: T LIST_GEN :: I n :: ts1 =>
        match read_n (read_ty f) (Z.to_nat n) ts1 with
        | Some (args, B eti :: T LITERAL_NONE :: T LITERAL_NONE :: ts2) => loc_finish (fun p => MUnbound p name args eti) ts2
        | _ => None     (* original_str_expr: string annotations, outside the fragment *)
        end
    | T UNION_TYPE :: T LIST_GEN :: I n :: ts1 =>
        match read_n (read_ty f) (Z.to_nat n) ts1 with
        | Some (items, B true :: T LITERAL_NONE :: T LITERAL_NONE :: B true :: ts2) => loc_finish (fun p => mk_union p items) ts2
        | _ => None
        end
    | _ => None
    end
  end.

(* read_block / read_optional_block: location of a non-empty block from its first and last *converted* statement *)
Fixpoint last_mspos (s0 : mstmt) (l : list mstmt) : pos :=
  match l with [] => mspos s0 | s :: l' => last_mspos s l' end.
Definition mk_block_ne (u : bool) (s0 : mstmt) (l : list mstmt) : mblock :=
  MBlock (span (mspos s0) (last_mspos s0 l)) u (s0 :: l).
Definition mk_block (u : bool) (l : list mstmt) : option mblock :=
  match l with [] => None | s0 :: l' => Some (mk_block_ne u s0 l') end.

(* IF_STMT: elif clauses are re-nested bottom-up; the nested IfStmt/Block start at the elif *expression* *)
Fixpoint build_elifs (l : list (mexpr * mblock)) (els : option mblock) : option mblock :=
  match l with
  | [] => els
  | (e, b) :: rest =>
      let cur := build_elifs rest els in
      let p := match cur with Some c => span (mepos e) (mbpos c) | None => span (mepos e) (mbpos b) end in
      Some (MBlock p false [MIf p e b cur])
  end.

(* "If rvalue is TempNode, copy location from AssignmentStmt" *)
Definition fix_temp (p : pos) (rv : mexpr) : mexpr := match rv with MTemp _ => MTemp p | _ => rv end.

Definition read_block_with (rs : rd mstmt) : rd mblock := fun ts =>
  match ts with
  | T BLOCK :: T LIST_GEN :: I n :: B u :: ts1 =>
      match Z.to_nat n with
      | O => match read_loc ts1 with Some (p, ts2) => finish (MBlock p u []) ts2 | None => None end
      | n' =>
        match read_n rs n' ts1 with
        | Some (l, T END_TAG :: ts2) => match mk_block u l with Some b => Some (b, ts2) | None => None end
        | _ => None
        end
      end
  | _ => None
  end.
Definition read_optional_block_with (rs : rd mstmt) : rd (option mblock) := fun ts =>
  match ts with
  | T BLOCK :: T LIST_GEN :: I n :: B u :: ts1 =>
      match read_n rs (Z.to_nat n) ts1 with
      | Some (l, T END_TAG :: ts2) => Some (mk_block u l, ts2)
      | _ => None
      end
  | _ => None
  end.
Definition read_pair_with {A C} (ra : rd A) (rc : rd C) : rd (A * C) := fun ts =>
  match ra ts with
  | Some (a, ts1) => match rc ts1 with Some (c, ts2) => Some ((a, c), ts2) | None => None end
  | None => None
  end.
Definition read_ckw_with (re : rd mexpr) : rd (string * mexpr) := fun ts =>
  match ts with
  | T LITERAL_STR :: S n :: ts1 => match re ts1 with Some (e, ts2) => Some ((n, e), ts2) | None => None end
  | _ => None
  end.
(* location, flags, END_TAG of the three import statements (the flags are decoded into is_top_level / is_unreachable /
   is_mypy_only, which fastparse leaves to semanal_pass1: not part of the compared tree) *)
Definition import_finish {A} (mk : pos -> A) (ts : list tok) : option (A * list tok) :=
  match read_loc ts with
  | Some (p, T LITERAL_INT :: I _ :: ts') => finish (mk p) ts'
  | _ => None
  end.

Fixpoint read_stmt (fuel : nat) (ts : list tok) {struct fuel} : option (mstmt * list tok) :=
  match fuel with
  | O => None
  | Datatypes.S f =>
    let read_block := read_block_with (read_stmt f) in
    let read_optional_block := read_optional_block_with (read_stmt f) in
    let rexpr := read_expr f in
    match ts with
    | T CLASS_DEF :: T LITERAL_STR :: S name :: ts1 =>
        match read_block ts1 with
        | Some (b, T LIST_GEN :: I nb :: ts2) =>
          match read_n rexpr (Z.to_nat nb) ts2 with
          | Some (bases, T LIST_GEN :: I nd :: ts3) =>
            match read_n rexpr (Z.to_nat nd) ts3 with
            | Some (decos, B false :: T DICT_STR_GEN :: I nk :: ts4) =>
              match read_n (read_ckw_with rexpr) (Z.to_nat nk) ts4 with
              | Some (kws, ts5) => loc_finish (fun p => MClassDef p name b bases (find_metaclass kws) kws decos) ts5
              | None => None
              end
            | _ => None    (* PEP 695 type parameters: outside the fragment *)
            end
          | _ => None
          end
        | _ => None
        end
    | T FUNC_DEF_STMT :: T LITERAL_STR :: S name :: T LIST_GEN :: I n :: ts1 =>
        match read_n (read_param_with rexpr) (Z.to_nat n) ts1 with
        | Some (args, ts2) =>
          match read_block ts2 with
          | Some (b, B false :: B false :: B false :: ts3) =>
              loc_finish (fun p => MFuncDef p name (force_pos_only (special_function_elide_names name) args) b) ts3
          | _ => None   (* async / PEP 695 type parameters / return annotation: outside the fragment *)
          end
        | None => None
        end
    | T DECORATOR :: T LIST_GEN :: I n :: ts1 =>
        match read_n rexpr (Z.to_nat n) ts1 with
        | Some (decos, T LITERAL_INT :: I line :: T LITERAL_INT :: I col :: ts2) =>
          match read_stmt f ts2 with
          | Some (MFuncDef fp nm a b, ts3) =>
              finish (MDecorator (P line col (p_eline fp) (p_ecol fp)) decos (MFuncDef fp nm a b)) ts3
          | _ => None   (* assert isinstance(fdef, FuncDef) *)
          end
        | _ => None
        end
    | T EXPR_STMT :: ts1 =>
        match rexpr ts1 with
        | Some (e, ts2) => finish (MExprStmt (mepos e) e) ts2
        | None => None
        end
    | T ASSIGNMENT_STMT :: T LIST_GEN :: I n :: ts1 =>
        match read_n rexpr (Z.to_nat n) ts1 with
        | Some (lv, ts2) =>
          match rexpr ts2 with
          | Some (rv, B false :: B ns :: ts3) => loc_finish (fun p => MAssign p lv (fix_temp p rv) ns) ts3
          | Some (rv, B true :: ts3) =>
              match read_ty f ts3 with
              | Some (t, B ns :: ts4) => loc_finish (fun p => MAnnAssign p lv (fix_temp p rv) t ns) ts4
              | _ => None
              end
          | _ => None
          end
        | None => None
        end
    | T OPERATOR_ASSIGNMENT_STMT :: T LITERAL_STR :: S op :: ts1 =>
        match rexpr ts1 with
        | Some (lv, ts2) =>
          match rexpr ts2 with
          | Some (rv, ts3) => loc_finish (fun p => MOpAssign p op lv rv) ts3
          | None => None
          end
        | None => None
        end
    | T RETURN_STMT :: ts1 =>
        match read_opt rexpr ts1 with
        | Some (e, ts2) => loc_finish (fun p => MReturn p e) ts2
        | None => None
        end
    | T PASS_STMT :: ts1 => loc_finish MPass ts1
    | T BREAK_STMT :: ts1 => loc_finish MBreak ts1
    | T CONTINUE_STMT :: ts1 => loc_finish MContinue ts1
    | T GLOBAL_DECL :: T LITERAL_INT :: I n :: ts1 =>
        match read_n read_strtok (Z.to_nat n) ts1 with
        | Some (ns, ts2) => loc_finish (fun p => MGlobal p ns) ts2
        | None => None
        end
    | T NONLOCAL_DECL :: T LITERAL_INT :: I n :: ts1 =>
        match read_n read_strtok (Z.to_nat n) ts1 with
        | Some (ns, ts2) => loc_finish (fun p => MNonlocal p ns) ts2
        | None => None
        end
    | T DEL_STMT :: ts1 =>
        match rexpr ts1 with
        | Some (e, ts2) => loc_finish (fun p => MDel p e) ts2
        | None => None
        end
    | T ASSERT_STMT :: ts1 =>
        match rexpr ts1 with
        | Some (e, ts2) =>
          match read_opt rexpr ts2 with
          | Some (m, ts3) => loc_finish (fun p => MAssert p e m) ts3
          | None => None
          end
        | None => None
        end
    | T RAISE_STMT :: ts1 =>
        match read_opt rexpr ts1 with
        | Some (e, ts2) =>
          match read_opt rexpr ts2 with
          | Some (c, ts3) => loc_finish (fun p => MRaise p e c) ts3
          | None => None
          end
        | None => None
        end
    | T IMPORT :: T LITERAL_INT :: I n :: ts1 =>
        match read_n read_alias (Z.to_nat n) ts1 with
        | Some (ids, ts2) => import_finish (fun p => MImport p ids) ts2
        | None => None
        end
    | T IMPORT_FROM :: T LITERAL_INT :: I rel :: T LITERAL_STR :: S m :: T LITERAL_INT :: I n :: ts1 =>
        match read_n read_alias (Z.to_nat n) ts1 with
        | Some (ns, ts2) => import_finish (fun p => MImportFrom p m rel ns) ts2
        | None => None
        end
    | T IMPORT_ALL :: T LITERAL_STR :: S m :: T LITERAL_INT :: I rel :: ts1 => import_finish (fun p => MImportAll p m rel) ts1
    | T WHILE_STMT :: ts1 =>
        match rexpr ts1 with
        | Some (e, ts2) =>
          match read_block ts2 with
          | Some (b, ts3) =>
            match read_optional_block ts3 with
            | Some (ob, ts4) => loc_finish (fun p => MWhile p e b ob) ts4
            | None => None
            end
          | None => None
          end
        | None => None
        end
    | T FOR_STMT :: ts1 =>
        match rexpr ts1 with
        | Some (index, ts2) =>
          match rexpr ts2 with
          | Some (e, ts3) =>
            match read_block ts3 with
            | Some (b, ts4) =>
              match read_optional_block ts4 with
              | Some (ob, B false :: ts5) => loc_finish (fun p => MFor p index e b ob) ts5
              | _ => None   (* is_async: outside the fragment *)
              end
            | None => None
            end
          | None => None
          end
        | None => None
        end
    | T IF_STMT :: ts1 =>
        match rexpr ts1 with
        | Some (e, ts2) =>
          match read_block ts2 with
          | Some (b, T LITERAL_INT :: I ne :: ts3) =>
            match read_n (read_pair_with rexpr read_block) (Z.to_nat ne) ts3 with
            | Some (el, ts4) =>
                match read_opt read_block ts4 with
                | Some (eb, ts5) => loc_finish (fun p => MIf p e b (build_elifs el eb)) ts5
                | None => None
                end
            | None => None
            end
          | _ => None
          end
        | None => None
        end
    | T WITH_STMT :: T LITERAL_INT :: I n :: ts1 =>
        match read_n (read_pair_with rexpr (read_opt rexpr)) (Z.to_nat n) ts1 with
        | Some (items, ts2) =>
          match read_block ts2 with
          | Some (b, B false :: ts3) => loc_finish (fun p => MWith p (map fst items) (map snd items) b) ts3
          | _ => None   (* is_async *)
          end
        | None => None
        end
    | T TRY_STMT :: ts1 =>
        match read_block ts1 with
        | Some (b, T LITERAL_INT :: I nh :: ts2) =>
          match read_n (read_opt rexpr) (Z.to_nat nh) ts2 with
          | Some (types, ts3) =>
            match read_n read_ovar (Z.to_nat nh) ts3 with
            | Some (vars, ts4) =>
              match read_n read_block (Z.to_nat nh) ts4 with
              | Some (hbs, ts5) =>
                match read_opt read_block ts5 with
                | Some (eb, ts6) =>
                  match read_opt read_block ts6 with
                  | Some (fb, B false :: ts7) => loc_finish (fun p => MTry p b vars types hbs eb fb) ts7
                  | _ => None   (* except*: outside the fragment *)
                  end
                | None => None
                end
              | None => None
              end
            | None => None
            end
          | None => None
          end
        | _ => None
        end
    | _ => None
    end
  end.

Definition read_file (fuel : nat) (ts : list tok) : option (list mstmt * list tok) :=
  match ts with
  | T LITERAL_INT :: I n :: ts1 => read_n (read_stmt fuel) (Z.to_nat n) ts1
  | _ => None
  end.

(* the whole native front end on a stream: every token must be consumed *)
Definition read_native (ts : list tok) : option (list mstmt) :=
  match read_file (List.length ts) ts with
  | Some (l, []) => Some l
  | _ => None
  end.

(* ================================================================ (iii) what the native front end yields, as a function
   of the tree (positions by the reader's rules).  Proofs.read_native_emit: read_native (emit t) = Some (nconvert t)
   for EVERY tree; the harness checks nconvert against the real nativeparse result. *)
Fixpoint nconv_e (e : expr) : mexpr :=
  match e with
  | EName p id => MName p id
  | EInt p v => MInt p v
  | EStr p s => MStr p s
  | EAttr p e a => mk_member p (nconv_e e) a
  | ECall p f a => MCall p (nconv_e f) (nconv_args a) (arg_kinds a) (arg_names a)
  | EBin p op l r => MOp (span (mepos (nconv_e l)) (mepos (nconv_e r))) (binop_str op) (nconv_e l) (nconv_e r)
  | EUnary p op e => MUnary p (unop_str op) (nconv_e e)
  | ECompare p l c => MCompare p (cmp_strs c) (nconv_e l :: nconv_cmps c)
  | EBoolOp p op e1 e2 rest => mk_boolop p (boolop_str op) (nconv_e e1) (nconv_e e2) (nconv_es rest)
  | EIfExp p t b o => MCond p (nconv_e t) (nconv_e b) (nconv_e o)
  | ETuple p es => MTuple p (nconv_es es)
  | EList p es => MList p (nconv_es es)
  | ESet p es => MSet p (nconv_es es)
  | EDict p it => MDict p (combine (nconv_dkeys it) (nconv_dvals it))
  | ESubscript p v i => MIndex p (nconv_e v) (nconv_e i)
  | ESlice p a b c => MSlice p (nconv_oe a) (nconv_oe b) (nconv_oe c)
  | EStar p e => MStar p (nconv_e e)
  | ELambda p ps b => MLambda p (nconv_params ps) (span (epos b) (epos b)) (epos b) (nconv_e b)
  | EConst p c => MName p (cname_str c)
  | EEllipsis p => MEllipsis p
  | EComp p k elt g =>
      let gen := MGenerator p (nconv_e elt) (nconv_gtargets g) (nconv_giters g) (nconv_gifs g) (gasync g) in
      match k with CList => MListComp p gen | CSet => MSetComp p gen | CGen => gen end
  | EDictComp p ky v g => MDictComp p (nconv_e ky) (nconv_e v) (nconv_gtargets g) (nconv_giters g) (nconv_gifs g) (gasync g)
  | EYield p v => MYield p (nconv_oe v)
  | EYieldFrom p e => MYieldFrom p (nconv_e e)
  | EAwait p e => MAwait p (nconv_e e)
  | EWalrus p tp id v => MAssignExpr p (MName tp id) (nconv_e v)
  | EBytes p s => MBytes p s
  | EFloat p b => MFloat p b
  | EComplex p a b => MComplex p a b
  end
with nconv_es (es : exprs) : list mexpr :=
  match es with ENil => [] | ECons e es' => nconv_e e :: nconv_es es' end
with nconv_args (a : args) : list mexpr :=
  match a with ANil => [] | ACons _ e a' => nconv_e e :: nconv_args a' end
with nconv_cmps (c : cmps) : list mexpr :=
  match c with CNil => [] | CCons _ e c' => nconv_e e :: nconv_cmps c' end
with nconv_oe (o : oexpr) : option mexpr :=
  match o with ONone => None | OSome e => Some (nconv_e e) end
with nconv_dkeys (d : ditems) : list (option mexpr) :=
  match d with DNil => [] | DCons k _ r => nconv_oe k :: nconv_dkeys r end
with nconv_dvals (d : ditems) : list mexpr :=
  match d with DNil => [] | DCons _ v r => nconv_e v :: nconv_dvals r end
with nconv_params (ps : params) : list marg :=
  match ps with
  | PNil => []
  | PCons _ sp n k d r =>
      MArg sp sp n (param_kind k (has_default d)) (nconv_oe d) (emit_pos_only k n) :: nconv_params r
  end
with nconv_gtargets (g : gens) : list mexpr := match g with GNil => [] | GCons t _ _ r => nconv_e t :: nconv_gtargets r end
with nconv_giters (g : gens) : list mexpr := match g with GNil => [] | GCons _ i _ r => nconv_e i :: nconv_giters r end
with nconv_gifs (g : gens) : list (list mexpr) := match g with GNil => [] | GCons _ _ c r => nconv_es c :: nconv_gifs r end.

Fixpoint nconv_ty (t : ty) : mty :=
  match t with
  | TyName p n => MUnbound p n [] false
  | TyNone p => MUnbound p "None" [] false
  | TySub p b tup a => MUnbound p b (nconv_tys a) (tup && match a with TNil => true | _ => false end)
  | TyUnion p l r => mk_union p [nconv_ty l; nconv_ty r]
  end
with nconv_tys (a : tys) : list mty := match a with TNil => [] | TCons t ts => nconv_ty t :: nconv_tys ts end.

Fixpoint nconv_ckws (k : ckws) : list (string * mexpr) :=
  match k with KNil => [] | KCons n e r => (n, nconv_e e) :: nconv_ckws r end.
Fixpoint nconv_witems (w : witems) : list (mexpr * option mexpr) :=
  match w with WNil => [] | WCons c t r => (nconv_e c, nconv_oe t) :: nconv_witems r end.
Fixpoint nconv_htypes (hs : handlers) : list (option mexpr) :=
  match hs with HNil => [] | HCons _ ty _ _ _ r => nconv_oe ty :: nconv_htypes r end.
Fixpoint nconv_hvars (hs : handlers) : list (option (string * pos)) :=
  match hs with
  | HNil => []
  | HCons _ _ nm _ _ r => (match nm with Some (n, np) => Some (n, np) | None => None end) :: nconv_hvars r
  end.

Fixpoint nconv_s (s : stmt) {struct s} : mstmt :=
  match s with
  | SClass p name bases kws decos b0 bs =>
      MClassDef p name (mk_block_ne false (nconv_s b0) (nconv_ss bs)) (nconv_es bases)
        (find_metaclass (nconv_ckws kws)) (nconv_ckws kws) (nconv_es decos)
  | SDef p name ps decos dp b0 bs =>
      mk_funcdef p name (nconv_params ps) (nconv_es decos) dp
        (mk_block_ne false (nconv_s b0) (nconv_ss bs))
  | SExpr p e => MExprStmt (mepos (nconv_e e)) (nconv_e e)
  | SAssign p t v => MAssign p (nconv_es t) (nconv_e v) false
  | SAnnAssign p t a v => MAnnAssign p [nconv_e t] (match v with ONone => MTemp p | OSome e => nconv_e e end) (nconv_ty a) true
  | SAugAssign p op t v => MOpAssign p (binop_str op) (nconv_e t) (nconv_e v)
  | SReturn p v => MReturn p (nconv_oe v)
  | SPass p => MPass p
  | SBreak p => MBreak p
  | SContinue p => MContinue p
  | SGlobal p ns => MGlobal p ns
  | SNonlocal p ns => MNonlocal p ns
  | SDel p t0 ts => MDel p (match ts with ENil => nconv_e t0 | _ => MTuple p (nconv_e t0 :: nconv_es ts) end)
  | SAssert p t m => MAssert p (nconv_e t) (nconv_oe m)
  | SRaise p e c => MRaise p (nconv_oe e) (nconv_oe c)
  | SImport p ns => MImport p ns
  | SImportFrom p lv m ns => MImportFrom p m lv ns
  | SImportAll p lv m => MImportAll p m lv
  | SWhile p t b0 bs o => MWhile p (nconv_e t) (mk_block_ne false (nconv_s b0) (nconv_ss bs)) (mk_block false (nconv_ss o))
  | SFor p t i b0 bs o =>
      MFor p (nconv_e t) (nconv_e i) (mk_block_ne false (nconv_s b0) (nconv_ss bs)) (mk_block false (nconv_ss o))
  | SIf p t b0 bs el o =>
      MIf p (nconv_e t) (mk_block_ne false (nconv_s b0) (nconv_ss bs)) (build_elifs (nconv_elifs el) (mk_block false (nconv_ss o)))
  | SWith p items b0 bs =>
      MWith p (map fst (nconv_witems items)) (map snd (nconv_witems items)) (mk_block_ne false (nconv_s b0) (nconv_ss bs))
  | STry p b0 bs hs o f =>
      MTry p (mk_block_ne false (nconv_s b0) (nconv_ss bs)) (nconv_hvars hs) (nconv_htypes hs) (nconv_hbodies hs)
        (mk_block false (nconv_ss o)) (mk_block false (nconv_ss f))
  end
with nconv_ss (ss : stmts) {struct ss} : list mstmt :=
  match ss with SNil => [] | SCons s ss' => nconv_s s :: nconv_ss ss' end
with nconv_elifs (el : elifs) {struct el} : list (mexpr * mblock) :=
  match el with
  | LNil => []
  | LCons _ t b0 bs el' => (nconv_e t, mk_block_ne false (nconv_s b0) (nconv_ss bs)) :: nconv_elifs el'
  end
with nconv_hbodies (hs : handlers) {struct hs} : list mblock :=
  match hs with
  | HNil => []
  | HCons _ _ _ b0 bs r => mk_block_ne false (nconv_s b0) (nconv_ss bs) :: nconv_hbodies r
  end.

Definition nconvert (ss : stmts) : list mstmt := nconv_ss ss.

(* ================================================================ the fragment on which the converters agree exactly *)

(* Where the stream carries no location the reader derives one from the children; this equals CPython's position
   exactly when no parenthesis / keyword precedes the first child or follows the last one. *)
Fixpoint wf_e (e : expr) : Prop :=
  match e with
  | EName _ _ | EInt _ _ | EStr _ _ => True
  | EAttr _ e _ => wf_e e
  | ECall _ f a => wf_e f /\ wf_args a
  | EBin p _ l r => p = span (epos l) (epos r) /\ wf_e l /\ wf_e r
  | EUnary _ _ e => wf_e e
  | ECompare _ l c => wf_e l /\ wf_cmps c
  | EBoolOp _ _ e1 e2 rest => rest = ENil /\ wf_e e1 /\ wf_e e2
  | EIfExp _ t b o => wf_e t /\ wf_e b /\ wf_e o
  | ETuple _ es | EList _ es | ESet _ es => wf_es es
  | EDict _ it => wf_ditems it
  | ESubscript _ v i => wf_e v /\ wf_e i
  | ESlice _ a b c => wf_oe a /\ wf_oe b /\ wf_oe c
  | EStar _ e => wf_e e
  | EConst _ _ | EEllipsis _ | EBytes _ _ | EFloat _ _ | EComplex _ _ _ => True
  | EYield _ v => wf_oe v
  | EYieldFrom _ e | EAwait _ e | EWalrus _ _ _ e => wf_e e
  | EComp _ _ elt g => wf_e elt /\ wf_gens g
  | EDictComp _ ky v g => wf_e ky /\ wf_e v /\ wf_gens g
  | ELambda _ _ _ => False      (* fastparse leaves the end of the LambdaExpr, of its block and of its return unset *)
  end
with wf_es (es : exprs) : Prop := match es with ENil => True | ECons e es' => wf_e e /\ wf_es es' end
with wf_args (a : args) : Prop := match a with ANil => True | ACons _ e a' => wf_e e /\ wf_args a' end
with wf_cmps (c : cmps) : Prop := match c with CNil => True | CCons _ e c' => wf_e e /\ wf_cmps c' end
with wf_oe (o : oexpr) : Prop := match o with ONone => True | OSome e => wf_e e end
with wf_ditems (d : ditems) : Prop := match d with DNil => True | DCons k v r => wf_oe k /\ wf_e v /\ wf_ditems r end
with wf_gens (g : gens) : Prop := match g with GNil => True | GCons t i c r => wf_e t /\ wf_e i /\ wf_es c /\ wf_gens r end.

(* sp = p: not a `*args` / `**kwargs` parameter; and not a keyword-only / star parameter called `__x` (fastparse makes
   it positional-only, the serializer does not) *)
Fixpoint wf_params (ps : params) : Prop :=
  match ps with
  | PNil => True
  | PCons p sp n k d r => sp = p /\ emit_pos_only k n = param_pos_only k n /\ wf_oe d /\ wf_params r
  end.
Fixpoint wf_ckws (k : ckws) : Prop := match k with KNil => True | KCons _ e r => wf_e e /\ wf_ckws r end.
Fixpoint wf_witems (w : witems) : Prop := match w with WNil => True | WCons c t r => wf_e c /\ wf_oe t /\ wf_witems r end.

Fixpoint wf_s (s : stmt) : Prop :=
  match s with
  | SClass _ _ bases kws decos b0 bs => wf_es bases /\ wf_ckws kws /\ wf_es decos /\ wf_s b0 /\ wf_ss bs
  | SDef _ _ ps decos dp b0 bs =>
      match decos with ENil => True | ECons d _ => p_line dp = p_line (epos d) /\ p_col dp = p_col (epos d) end /\
      wf_params ps /\ wf_es decos /\ wf_s b0 /\ wf_ss bs
  | SExpr p e => p = epos e /\ wf_e e
  | SAssign _ t v => wf_es t /\ wf_e v
  | SAnnAssign _ _ _ _ => False    (* declared types carry no end position (and the statement's line) under fastparse *)
  | SAugAssign _ _ t v => wf_e t /\ wf_e v
  | SReturn _ v => wf_oe v
  | SPass _ | SBreak _ | SContinue _ | SGlobal _ _ | SNonlocal _ _ | SImport _ _ | SImportFrom _ _ _ _ | SImportAll _ _ _ => True
  | SDel _ t0 ts => ts = ENil /\ wf_e t0          (* several targets: the synthetic TupleExpr has no column/end under fastparse *)
  | SAssert _ t m => wf_e t /\ wf_oe m
  | SRaise _ e c => wf_oe e /\ wf_oe c
  | SWhile _ t b0 bs o => wf_e t /\ wf_s b0 /\ wf_ss bs /\ wf_ss o
  | SFor _ t i b0 bs o => wf_e t /\ wf_e i /\ wf_s b0 /\ wf_ss bs /\ wf_ss o
  | SIf _ t b0 bs el o => el = LNil /\ wf_e t /\ wf_s b0 /\ wf_ss bs /\ wf_ss o
  | SWith _ items b0 bs => wf_witems items /\ wf_s b0 /\ wf_ss bs
  | STry _ b0 bs hs o f => wf_s b0 /\ wf_ss bs /\ wf_hs hs /\ wf_ss o /\ wf_ss f
  end
with wf_ss (ss : stmts) : Prop := match ss with SNil => True | SCons s ss' => wf_s s /\ wf_ss ss' end
(* `except E as name`: the NameExpr is placed at the handler by fastparse, at the name by nativeparse *)
with wf_hs (hs : handlers) : Prop :=
  match hs with HNil => True | HCons _ ty nm b0 bs r => nm = None /\ wf_oe ty /\ wf_s b0 /\ wf_ss bs /\ wf_hs r end.
