(* C14 (b): a fragment of Python syntax, the fastparse conversion, the serializer's stream and the nativeparse reader.
   Executable definitions only.  Hand-written model; tied to /repo and to the installed ast_serialize by
   tools/harness/C14.py (stage C: real fastparse tree = convert, real bytes = emit, real reader = read_native).

   Source side: the CPython `ast` tree WITH its positions (lineno, col_offset, end_lineno, end_col_offset).
   `elif` clauses are kept as a list (CPython nests them as orelse=[If]; an orelse that is a single If starting in the
   column of the outer `if` is an elif -- the harness does this split and the tie checks it).                       *)
From Coq Require Import ZArith List String Bool.
From Gen Require Import Magic.
Import ListNotations.
Open Scope Z_scope.

Inductive pos := P (line col end_line end_col : Z).
Definition p_line (p : pos) := let 'P a _ _ _ := p in a.
Definition p_col (p : pos) := let 'P _ a _ _ := p in a.
Definition p_eline (p : pos) := let 'P _ _ a _ := p in a.
Definition p_ecol (p : pos) := let 'P _ _ _ a := p in a.
(* start of a, end of b *)
Definition span (a b : pos) : pos := P (p_line a) (p_col a) (p_eline b) (p_ecol b).

Inductive binop := Add | Sub | Mult | MatMult | Div | Mod | Pow | LShift | RShift | BitOr | BitXor | BitAnd | FloorDiv.
Inductive unop := Invert | Not | UAdd | USub.
Inductive cmpop := Eq | NotEq | Lt | LtE | Gt | GtE | Is | IsNot | In | NotIn.
Inductive boolop := And | Or.
Inductive akind := APos | AStar | ANamed (name : string) | ADStar.

(* ---------------------------------------------------------------- source trees (mutual, explicit list types) *)
Inductive expr :=
| EName (p : pos) (id : string)
| EInt (p : pos) (v : Z)
| EStr (p : pos) (s : string)
| EAttr (p : pos) (e : expr) (attr : string)
| ECall (p : pos) (f : expr) (a : args)
| EBin (p : pos) (op : binop) (l r : expr)
| EUnary (p : pos) (op : unop) (e : expr)
| ECompare (p : pos) (l : expr) (c : cmps)
| EBoolOp (p : pos) (op : boolop) (e1 e2 : expr) (rest : exprs)
| EIfExp (p : pos) (test body orelse : expr)
| ETuple (p : pos) (es : exprs)
| EList (p : pos) (es : exprs)
with exprs := ENil | ECons (e : expr) (es : exprs)
with args := ANil | ACons (k : akind) (e : expr) (a : args)
with cmps := CNil | CCons (op : cmpop) (e : expr) (c : cmps).

(* parameters of a `def`, in CPython's order (posonly, args, vararg, kwonly, kwarg), each with its default.
   p = the ast.arg position (the NAME only);  sp = the extent of the parameter as written, i.e. including a leading
   `*` / `**` (equal to p for the other kinds): the native front end reports sp, CPython p. *)
Inductive pkind := KPosOnly | KPos | KStar | KKwOnly | KDStar.
Inductive params := PNil | PCons (p sp : pos) (name : string) (k : pkind) (d : option expr) (rest : params).

(* keywords of a class statement: name=value (a `**kw` keyword is outside the fragment) *)
Inductive ckws := KNil | KCons (name : string) (e : expr) (rest : ckws).

Inductive stmt :=
| SClass (p : pos) (name : string) (bases : exprs) (kws : ckws) (decorators : exprs) (b0 : stmt) (bs : stmts)
| SDef (p : pos) (name : string) (ps : params) (b0 : stmt) (bs : stmts)
| SExpr (p : pos) (e : expr)
| SAssign (p : pos) (targets : exprs) (value : expr)
| SReturn (p : pos) (v : option expr)
| SPass (p : pos)
| SWhile (p : pos) (test : expr) (b0 : stmt) (bs : stmts) (orelse : stmts)
| SFor (p : pos) (target iter : expr) (b0 : stmt) (bs : stmts) (orelse : stmts)
| SIf (p : pos) (test : expr) (b0 : stmt) (bs : stmts) (el : elifs) (orelse : stmts)
with stmts := SNil | SCons (s : stmt) (ss : stmts)
with elifs := LNil | LCons (p : pos) (test : expr) (b0 : stmt) (bs : stmts) (el : elifs).

Definition epos (e : expr) : pos :=
  match e with
  | EName p _ | EInt p _ | EStr p _ | EAttr p _ _ | ECall p _ _ | EBin p _ _ _ | EUnary p _ _ | ECompare p _ _
  | EBoolOp p _ _ _ _ | EIfExp p _ _ _ | ETuple p _ | EList p _ => p
  end.
Definition spos (s : stmt) : pos :=
  match s with
  | SClass p _ _ _ _ _ _ | SDef p _ _ _ _ | SExpr p _ | SAssign p _ _ | SReturn p _ | SPass p | SWhile p _ _ _ _ | SFor p _ _ _ _ _ | SIf p _ _ _ _ _ => p
  end.

(* ---------------------------------------------------------------- mypy trees *)
Inductive argkind := ARG_POS | ARG_OPT | ARG_STAR | ARG_NAMED | ARG_STAR2 | ARG_NAMED_OPT.

Inductive mexpr :=
| MName (p : pos) (name : string)
| MInt (p : pos) (v : Z)
| MStr (p : pos) (s : string)
| MMember (p : pos) (e : mexpr) (name : string)
| MSuper (p : pos) (name : string) (call : mexpr)
| MCall (p : pos) (callee : mexpr) (args : list mexpr) (kinds : list argkind) (names : list (option string))
| MOp (p : pos) (op : string) (l r : mexpr)
| MUnary (p : pos) (op : string) (e : mexpr)
| MCompare (p : pos) (ops : list string) (operands : list mexpr)
| MCond (p : pos) (cond if_expr else_expr : mexpr)
| MTuple (p : pos) (items : list mexpr)
| MList (p : pos) (items : list mexpr).

(* Argument (position p) with its Var (position vp) *)
Inductive marg := MArg (p vp : pos) (name : string) (kind : argkind) (init : option mexpr) (pos_only : bool).

Inductive mstmt :=
| MClassDef (p : pos) (name : string) (defs : mblock) (base_type_exprs : list mexpr) (metaclass : option mexpr)
            (keywords : list (string * mexpr)) (decorators : list mexpr)
| MFuncDef (p : pos) (name : string) (args : list marg) (body : mblock)
| MExprStmt (p : pos) (e : mexpr)
| MAssign (p : pos) (lvalues : list mexpr) (rvalue : mexpr) (new_syntax : bool)
| MReturn (p : pos) (e : option mexpr)
| MPass (p : pos)
| MWhile (p : pos) (e : mexpr) (body : mblock) (else_body : option mblock)
| MFor (p : pos) (index e : mexpr) (body : mblock) (else_body : option mblock)
| MIf (p : pos) (e : mexpr) (body : mblock) (else_body : option mblock)
with mblock := MBlock (p : pos) (is_unreachable : bool) (body : list mstmt).

Definition mepos (e : mexpr) : pos :=
  match e with
  | MName p _ | MInt p _ | MStr p _ | MMember p _ _ | MSuper p _ _ | MCall p _ _ _ _ | MOp p _ _ _ | MUnary p _ _
  | MCompare p _ _ | MCond p _ _ _ | MTuple p _ | MList p _ => p
  end.
Definition mspos (s : mstmt) : pos :=
  match s with
  | MClassDef p _ _ _ _ _ _ | MFuncDef p _ _ _ | MExprStmt p _ | MAssign p _ _ _ | MReturn p _ | MPass p | MWhile p _ _ _ | MFor p _ _ _ _ | MIf p _ _ _ => p
  end.
Definition mbpos (b : mblock) : pos := let 'MBlock p _ _ := b in p.

(* operator tables: nativeparse.bin_ops / cmp_ops / unary_ops / bool_ops (index = what the stream carries);
   fastparse.ASTConverter.op_map / comp_op_map and the if-chain of visit_UnaryOp / visit_BoolOp (strings) *)
Definition bin_ops : list string := ["+"; "-"; "*"; "@"; "/"; "%"; "**"; "<<"; ">>"; "|"; "^"; "&"; "//"]%string.
Definition cmp_ops : list string := ["=="; "!="; "<"; "<="; ">"; ">="; "is"; "is not"; "in"; "not in"]%string.
Definition unary_ops : list string := ["~"; "not"; "+"; "-"]%string.
Definition bool_ops : list string := ["and"; "or"]%string.

Definition binop_str (o : binop) : string :=
  match o with Add => "+" | Sub => "-" | Mult => "*" | MatMult => "@" | Div => "/" | Mod => "%" | Pow => "**"
  | LShift => "<<" | RShift => ">>" | BitOr => "|" | BitXor => "^" | BitAnd => "&" | FloorDiv => "//" end%string.
Definition binop_idx (o : binop) : Z :=
  match o with Add => 0 | Sub => 1 | Mult => 2 | MatMult => 3 | Div => 4 | Mod => 5 | Pow => 6
  | LShift => 7 | RShift => 8 | BitOr => 9 | BitXor => 10 | BitAnd => 11 | FloorDiv => 12 end.
Definition cmpop_str (o : cmpop) : string :=
  match o with Eq => "==" | NotEq => "!=" | Lt => "<" | LtE => "<=" | Gt => ">" | GtE => ">=" | Is => "is"
  | IsNot => "is not" | In => "in" | NotIn => "not in" end%string.
Definition cmpop_idx (o : cmpop) : Z :=
  match o with Eq => 0 | NotEq => 1 | Lt => 2 | LtE => 3 | Gt => 4 | GtE => 5 | Is => 6 | IsNot => 7 | In => 8 | NotIn => 9 end.
Definition unop_str (o : unop) : string := match o with Invert => "~" | Not => "not" | UAdd => "+" | USub => "-" end%string.
Definition unop_idx (o : unop) : Z := match o with Invert => 0 | Not => 1 | UAdd => 2 | USub => 3 end.
Definition boolop_str (o : boolop) : string := match o with And => "and" | Or => "or" end%string.
Definition boolop_idx (o : boolop) : Z := match o with And => 0 | Or => 1 end.

Definition kind_of (k : akind) : argkind :=
  match k with APos => ARG_POS | AStar => ARG_STAR | ANamed _ => ARG_NAMED | ADStar => ARG_STAR2 end.
Definition name_of (k : akind) : option string := match k with ANamed n => Some n | _ => None end.
Definition argkind_idx (k : argkind) : Z :=
  match k with ARG_POS => 0 | ARG_OPT => 1 | ARG_STAR => 2 | ARG_NAMED => 3 | ARG_STAR2 => 4 | ARG_NAMED_OPT => 5 end.
Definition ARG_KINDS : list argkind := [ARG_POS; ARG_OPT; ARG_STAR; ARG_NAMED; ARG_STAR2; ARG_NAMED_OPT].

(* MemberExpr / SuperExpr: both converters test `isinstance(e, CallExpr) and isinstance(e.callee, NameExpr) and
   e.callee.name == "super"` on the converted operand *)
Definition mk_member (p : pos) (e : mexpr) (attr : string) : mexpr :=
  match e with
  | MCall _ (MName _ n) _ _ _ => if String.eqb n "super" then MSuper p attr e else MMember p e attr
  | _ => MMember p e attr
  end.

(* ================================================================ (i) fastparse.ASTConverter *)
(* group(): every nested OpExpr gets the position of the whole BoolOp *)
Fixpoint group (p : pos) (op : string) (v0 v1 : mexpr) (rest : list mexpr) : mexpr :=
  match rest with
  | [] => MOp p op v0 v1
  | v2 :: rest' => MOp p op v0 (group p op v1 v2 rest')
  end.

Fixpoint arg_kinds (a : args) : list argkind :=
  match a with ANil => [] | ACons k _ a' => kind_of k :: arg_kinds a' end.
Fixpoint arg_names (a : args) : list (option string) :=
  match a with ANil => [] | ACons k _ a' => name_of k :: arg_names a' end.
Fixpoint cmp_strs (c : cmps) : list string :=
  match c with CNil => [] | CCons o _ c' => cmpop_str o :: cmp_strs c' end.

Fixpoint conv_e (e : expr) : mexpr :=
  match e with
  | EName p id => MName p id
  | EInt p v => MInt p v
  | EStr p s => MStr p s
  | EAttr p e a => mk_member p (conv_e e) a
  | ECall p f a => MCall p (conv_e f) (conv_args a) (arg_kinds a) (arg_names a)
  | EBin p op l r => MOp p (binop_str op) (conv_e l) (conv_e r)
  | EUnary p op e => MUnary p (unop_str op) (conv_e e)
  | ECompare p l c => MCompare p (cmp_strs c) (conv_e l :: conv_cmps c)
  | EBoolOp p op e1 e2 rest => group p (boolop_str op) (conv_e e1) (conv_e e2) (conv_es rest)
  | EIfExp p t b o => MCond p (conv_e t) (conv_e b) (conv_e o)
  | ETuple p es => MTuple p (conv_es es)
  | EList p es => MList p (conv_es es)
  end
with conv_es (es : exprs) : list mexpr :=
  match es with ENil => [] | ECons e es' => conv_e e :: conv_es es' end
with conv_args (a : args) : list mexpr :=
  match a with ANil => [] | ACons _ e a' => conv_e e :: conv_args a' end
with conv_cmps (c : cmps) : list mexpr :=
  match c with CNil => [] | CCons _ e c' => conv_e e :: conv_cmps c' end.

(* transform_args / make_argument; do_func_def then forces pos_only for the special methods *)
Definition param_kind (k : pkind) (d : option expr) : argkind :=
  match k, d with
  | KPosOnly, None | KPos, None => ARG_POS
  | KPosOnly, Some _ | KPos, Some _ => ARG_OPT
  | KStar, _ => ARG_STAR
  | KKwOnly, None => ARG_NAMED
  | KKwOnly, Some _ => ARG_NAMED_OPT
  | KDStar, _ => ARG_STAR2
  end.
Definition param_pos_only (k : pkind) (name : string) : bool :=
  match k with KPosOnly => true | _ => false end || argument_elide_name name.
(* what the serializer writes: the `__name` rule is applied to ordinary positional parameters only *)
Definition emit_pos_only (k : pkind) (name : string) : bool :=
  match k with KPosOnly => true | KPos => argument_elide_name name | _ => false end.
Definition force_pos_only (b : bool) (l : list marg) : list marg :=
  if b then map (fun a => let 'MArg p vp n k i _ := a in MArg p vp n k i true) l else l.
Fixpoint conv_params (ps : params) : list marg :=
  match ps with
  | PNil => []
  | PCons p _ n k d r =>
      MArg p p n (param_kind k d) (match d with Some e => Some (conv_e e) | None => None end) (param_pos_only k n) :: conv_params r
  end.

(* dict(keywords).get("metaclass"): the last keyword called metaclass (both converters compute it this way) *)
Definition find_metaclass (kws : list (string * mexpr)) : option mexpr :=
  fold_left (fun acc kv => if String.eqb (fst kv) "metaclass" then Some (snd kv) else acc) kws None.
Fixpoint conv_ckws (k : ckws) : list (string * mexpr) :=
  match k with KNil => [] | KCons n e r => (n, conv_e e) :: conv_ckws r end.

(* set_block_lines: first.lineno/col_offset, last.end_lineno/end_col_offset of the *ast* statements *)
Fixpoint last_spos (s0 : stmt) (ss : stmts) : pos :=
  match ss with SNil => spos s0 | SCons s ss' => last_spos s ss' end.
Definition block_pos (s0 : stmt) (ss : stmts) : pos := span (spos s0) (last_spos s0 ss).

Fixpoint conv_s (s : stmt) {struct s} : mstmt :=
  match s with
  | SClass p name bases kws decos b0 bs =>
      MClassDef p name (MBlock (block_pos b0 bs) false (conv_s b0 :: conv_ss bs)) (conv_es bases)
        (find_metaclass (conv_ckws kws)) (conv_ckws kws) (conv_es decos)
  | SDef p name ps b0 bs =>
      MFuncDef p name (force_pos_only (special_function_elide_names name) (conv_params ps))
        (MBlock (block_pos b0 bs) false (conv_s b0 :: conv_ss bs))
  | SExpr p e => MExprStmt p (conv_e e)
  | SAssign p t v => MAssign p (conv_es t) (conv_e v) false
  | SReturn p v => MReturn p (match v with Some e => Some (conv_e e) | None => None end)
  | SPass p => MPass p
  | SWhile p t b0 bs o => MWhile p (conv_e t) (MBlock (block_pos b0 bs) false (conv_s b0 :: conv_ss bs)) (as_block o)
  | SFor p t i b0 bs o => MFor p (conv_e t) (conv_e i) (MBlock (block_pos b0 bs) false (conv_s b0 :: conv_ss bs)) (as_block o)
  | SIf p t b0 bs el o => MIf p (conv_e t) (MBlock (block_pos b0 bs) false (conv_s b0 :: conv_ss bs)) (conv_elifs el (as_block o))
  end
with conv_ss (ss : stmts) {struct ss} : list mstmt :=
  match ss with SNil => [] | SCons s ss' => conv_s s :: conv_ss ss' end
with as_block (ss : stmts) {struct ss} : option mblock :=
  match ss with
  | SNil => None
  | SCons s ss' => Some (MBlock (block_pos s ss') false (conv_s s :: conv_ss ss'))
  end
(* CPython: `elif` is orelse=[If]; the nested If node starts at the `elif` keyword: position p of the clause *)
with conv_elifs (el : elifs) (o : option mblock) {struct el} : option mblock :=
  match el with
  | LNil => o
  | LCons p t b0 bs el' =>
      Some (MBlock p false [MIf p (conv_e t) (MBlock (block_pos b0 bs) false (conv_s b0 :: conv_ss bs)) (conv_elifs el' o)])
  end.

Definition convert (ss : stmts) : list mstmt := conv_ss ss.

(* ================================================================ (ii) the stream *)
Inductive tag :=
| LITERAL_NONE | LITERAL_INT | LITERAL_STR | LIST_GEN | LIST_INT | LOCATION | END_TAG
| EXPR_STMT | CALL_EXPR | NAME_EXPR | STR_EXPR | MEMBER_EXPR | OP_EXPR | INT_EXPR | IF_STMT | ASSIGNMENT_STMT
| TUPLE_EXPR | BLOCK | LIST_EXPR | RETURN_STMT | WHILE_STMT | COMPARISON_EXPR | BOOL_OP_EXPR | PASS_STMT | UNARY_EXPR
| FOR_STMT | CONDITIONAL_EXPR | FUNC_DEF_STMT | CLASS_DEF | DICT_STR_GEN.

(* primitive reads of librt.internal: read_tag / read_int / read_str / read_bool *)
Inductive tok := T (t : tag) | I (z : Z) | S (s : string) | B (b : bool).

Definition loc_k (p : pos) (k : list tok) : list tok :=
  T LOCATION :: I (p_line p) :: I (p_col p) :: I (p_eline p - p_line p) :: I (p_ecol p - p_col p) :: k.
Definition int_k (z : Z) (k : list tok) := T LITERAL_INT :: I z :: k.
Definition str_k (s : string) (k : list tok) := T LITERAL_STR :: S s :: k.

Fixpoint len_es (es : exprs) : nat := match es with ENil => O | ECons _ es' => Datatypes.S (len_es es') end.
Fixpoint len_args (a : args) : nat := match a with ANil => O | ACons _ _ a' => Datatypes.S (len_args a') end.
Fixpoint len_cmps (c : cmps) : nat := match c with CNil => O | CCons _ _ c' => Datatypes.S (len_cmps c') end.
Fixpoint len_ss (ss : stmts) : nat := match ss with SNil => O | SCons _ ss' => Datatypes.S (len_ss ss') end.
Fixpoint len_el (el : elifs) : nat := match el with LNil => O | LCons _ _ _ _ el' => Datatypes.S (len_el el') end.

Fixpoint kinds_k (a : args) (k : list tok) : list tok :=
  match a with ANil => k | ACons kd _ a' => I (argkind_idx (kind_of kd)) :: kinds_k a' k end.
Fixpoint names_k (a : args) (k : list tok) : list tok :=
  match a with
  | ANil => k
  | ACons kd _ a' => match name_of kd with Some n => T LITERAL_STR :: S n :: names_k a' k | None => T LITERAL_NONE :: names_k a' k end
  end.
Fixpoint cmpidx_k (c : cmps) (k : list tok) : list tok :=
  match c with CNil => k | CCons o _ c' => I (cmpop_idx o) :: cmpidx_k c' k end.

(* emit_e e k = the tokens of e followed by k *)
Fixpoint emit_e (e : expr) (k : list tok) {struct e} : list tok :=
  match e with
  | EName p id => T NAME_EXPR :: str_k id (loc_k p (T END_TAG :: k))
  | EInt p v => T INT_EXPR :: int_k v (loc_k p (T END_TAG :: k))
  | EStr p s => T STR_EXPR :: str_k s (loc_k p (T END_TAG :: k))
  | EAttr p e a => T MEMBER_EXPR :: emit_e e (str_k a (loc_k p (T END_TAG :: k)))
  | ECall p f a =>
      T CALL_EXPR :: emit_e f (T LIST_GEN :: I (Z.of_nat (len_args a)) :: emit_args a
        (T LIST_INT :: I (Z.of_nat (len_args a)) :: kinds_k a
          (T LIST_GEN :: I (Z.of_nat (len_args a)) :: names_k a (loc_k p (T END_TAG :: k)))))
  | EBin p op l r => T OP_EXPR :: int_k (binop_idx op) (emit_e l (emit_e r (T END_TAG :: k)))
  | EUnary p op e => T UNARY_EXPR :: int_k (unop_idx op) (emit_e e (loc_k p (T END_TAG :: k)))
  | ECompare p l c =>
      T COMPARISON_EXPR :: emit_e l (T LIST_INT :: I (Z.of_nat (len_cmps c)) :: cmpidx_k c
        (T LIST_GEN :: I (Z.of_nat (len_cmps c)) :: emit_cmps c (loc_k p (T END_TAG :: k))))
  | EBoolOp p op e1 e2 rest =>
      T BOOL_OP_EXPR :: int_k (boolop_idx op) (T LIST_GEN :: I (Z.of_nat (Datatypes.S (Datatypes.S (len_es rest)))) ::
        emit_e e1 (emit_e e2 (emit_es rest (loc_k p (T END_TAG :: k)))))
  | EIfExp p t b o => T CONDITIONAL_EXPR :: emit_e b (emit_e t (emit_e o (loc_k p (T END_TAG :: k))))
  | ETuple p es => T TUPLE_EXPR :: T LIST_GEN :: I (Z.of_nat (len_es es)) :: emit_es es (loc_k p (T END_TAG :: k))
  | EList p es => T LIST_EXPR :: T LIST_GEN :: I (Z.of_nat (len_es es)) :: emit_es es (loc_k p (T END_TAG :: k))
  end
with emit_es (es : exprs) (k : list tok) {struct es} : list tok :=
  match es with ENil => k | ECons e es' => emit_e e (emit_es es' k) end
with emit_args (a : args) (k : list tok) {struct a} : list tok :=
  match a with ANil => k | ACons _ e a' => emit_e e (emit_args a' k) end
with emit_cmps (c : cmps) (k : list tok) {struct c} : list tok :=
  match c with CNil => k | CCons _ e c' => emit_e e (emit_cmps c' k) end.

(* a block: BLOCK LIST_GEN n is_unreachable stmts END_TAG   (no location when non-empty; is_unreachable is computed
   by the serializer from version/platform tests -- none in the fragment) *)
Fixpoint len_params (ps : params) : nat := match ps with PNil => O | PCons _ _ _ _ _ r => Datatypes.S (len_params r) end.
(* one parameter: name, kind, has_type(false), has_default [default], pos_only, location (no END_TAG) *)
Fixpoint emit_params (ps : params) (k : list tok) : list tok :=
  match ps with
  | PNil => k
  | PCons _ sp n kd d r =>
      str_k n (int_k (argkind_idx (param_kind kd d)) (B false ::
        match d with
        | Some e => B true :: emit_e e (B (emit_pos_only kd n) :: loc_k sp (emit_params r k))
        | None => B false :: B (emit_pos_only kd n) :: loc_k sp (emit_params r k)
        end))
  end.

Fixpoint len_ckws (k : ckws) : nat := match k with KNil => O | KCons _ _ r => Datatypes.S (len_ckws r) end.
Fixpoint emit_ckws (kw : ckws) (k : list tok) : list tok :=
  match kw with KNil => k | KCons n e r => str_k n (emit_e e (emit_ckws r k)) end.

Definition blk (n : nat) (inner : list tok) : list tok := T BLOCK :: T LIST_GEN :: I (Z.of_nat n) :: B false :: inner.

Fixpoint emit_s (s : stmt) (k : list tok) {struct s} : list tok :=
  match s with
  | SClass p name bases kws decos b0 bs =>
      (* name, body, bases, decorators, has_type_params, keywords, location *)
      T CLASS_DEF :: str_k name (blk (Datatypes.S (len_ss bs)) (emit_s b0 (emit_ss bs (T END_TAG ::
        T LIST_GEN :: I (Z.of_nat (len_es bases)) :: emit_es bases
          (T LIST_GEN :: I (Z.of_nat (len_es decos)) :: emit_es decos
            (B false :: T DICT_STR_GEN :: I (Z.of_nat (len_ckws kws)) :: emit_ckws kws (loc_k p (T END_TAG :: k))))))))
  | SDef p name ps b0 bs =>
      (* name, parameters, body, is_async, has_type_params, has_return_type, location *)
      T FUNC_DEF_STMT :: str_k name (T LIST_GEN :: I (Z.of_nat (len_params ps)) :: emit_params ps
        (blk (Datatypes.S (len_ss bs)) (emit_s b0 (emit_ss bs (T END_TAG ::
          B false :: B false :: B false :: loc_k p (T END_TAG :: k))))))
  | SExpr p e => T EXPR_STMT :: emit_e e (T END_TAG :: k)
  | SAssign p t v =>
      T ASSIGNMENT_STMT :: T LIST_GEN :: I (Z.of_nat (len_es t)) :: emit_es t (emit_e v (B false :: B false :: loc_k p (T END_TAG :: k)))
  | SReturn p v =>
      T RETURN_STMT :: match v with Some e => B true :: emit_e e (loc_k p (T END_TAG :: k)) | None => B false :: loc_k p (T END_TAG :: k) end
  | SPass p => T PASS_STMT :: loc_k p (T END_TAG :: k)
  | SWhile p t b0 bs o =>
      T WHILE_STMT :: emit_e t (blk (Datatypes.S (len_ss bs)) (emit_s b0 (emit_ss bs (T END_TAG ::
        blk (len_ss o) (emit_ss o (T END_TAG :: loc_k p (T END_TAG :: k)))))))
  | SFor p t i b0 bs o =>
      T FOR_STMT :: emit_e t (emit_e i (blk (Datatypes.S (len_ss bs)) (emit_s b0 (emit_ss bs (T END_TAG ::
        blk (len_ss o) (emit_ss o (T END_TAG :: B false :: loc_k p (T END_TAG :: k))))))))
  | SIf p t b0 bs el o =>
      T IF_STMT :: emit_e t (blk (Datatypes.S (len_ss bs)) (emit_s b0 (emit_ss bs (T END_TAG ::
        int_k (Z.of_nat (len_el el)) (emit_elifs el
        (match o with
         | SNil => B false :: loc_k p (T END_TAG :: k)
         | SCons s ss => B true :: blk (Datatypes.S (len_ss ss)) (emit_s s (emit_ss ss (T END_TAG :: loc_k p (T END_TAG :: k))))
         end))))))
  end
with emit_ss (ss : stmts) (k : list tok) {struct ss} : list tok :=
  match ss with SNil => k | SCons s ss' => emit_s s (emit_ss ss' k) end
with emit_elifs (el : elifs) (k : list tok) {struct el} : list tok :=
  match el with LNil => k | LCons _ t b0 bs el' => emit_e t (blk (Datatypes.S (len_ss bs)) (emit_s b0 (emit_ss bs (T END_TAG :: emit_elifs el' k)))) end.

(* file = statement count + statements *)
Definition emit (ss : stmts) : list tok := int_k (Z.of_nat (len_ss ss)) (emit_ss ss []).

(* ================================================================ (ii') nativeparse: the reader *)
Definition rd (A : Type) := list tok -> option (A * list tok).

Fixpoint read_n {A} (r : rd A) (n : nat) (ts : list tok) : option (list A * list tok) :=
  match n with
  | O => Some ([], ts)
  | Datatypes.S n' =>
      match r ts with
      | Some (a, ts1) => match read_n r n' ts1 with Some (l, ts2) => Some (a :: l, ts2) | None => None end
      | None => None
      end
  end.

Definition read_loc : rd pos := fun ts =>
  match ts with
  | T LOCATION :: I l :: I c :: I dl :: I dc :: ts' => Some (P l c (l + dl) (c + dc), ts')
  | _ => None
  end.

Definition read_kind : rd argkind := fun ts =>
  match ts with I z :: ts' => match nth_error ARG_KINDS (Z.to_nat z) with Some k => Some (k, ts') | None => None end | _ => None end.
Definition read_name : rd (option string) := fun ts =>
  match ts with
  | T LITERAL_NONE :: ts' => Some (None, ts')
  | T LITERAL_STR :: S s :: ts' => Some (Some s, ts')
  | _ => None
  end.
Definition read_op (table : list string) : rd string := fun ts =>
  match ts with I z :: ts' => match nth_error table (Z.to_nat z) with Some s => Some (s, ts') | None => None end | _ => None end.

(* BOOL_OP_EXPR: values[-1] is the seed; for val in values[-2::-1]: OpExpr(op, val, result) positioned from val to last;
   finally read_loc overwrites the position of the outermost *)
Fixpoint nest_bool (op : string) (vals : list mexpr) (last : mexpr) : mexpr :=
  match vals with
  | [] => last
  | v :: vs => MOp (span (mepos v) (mepos last)) op v (nest_bool op vs last)
  end.
Definition set_pos_op (p : pos) (e : mexpr) : mexpr :=
  match e with MOp _ op l r => MOp p op l r | _ => e end.
Fixpoint split_last {A} (a : A) (l : list A) : list A * A :=
  match l with [] => ([], a) | b :: l' => let '(i, x) := split_last b l' in (a :: i, x) end.

Definition finish {A} (a : A) (ts : list tok) : option (A * list tok) :=
  match ts with T END_TAG :: ts' => Some (a, ts') | _ => None end.
Definition loc_finish {A} (mk : pos -> A) (ts : list tok) : option (A * list tok) :=
  match read_loc ts with Some (p, ts') => finish (mk p) ts' | None => None end.

Fixpoint read_expr (fuel : nat) (ts : list tok) {struct fuel} : option (mexpr * list tok) :=
  match fuel with
  | O => None
  | Datatypes.S f =>
    match ts with
    | T NAME_EXPR :: T LITERAL_STR :: S s :: ts1 => loc_finish (fun p => MName p s) ts1
    | T INT_EXPR :: T LITERAL_INT :: I v :: ts1 => loc_finish (fun p => MInt p v) ts1
    | T STR_EXPR :: T LITERAL_STR :: S s :: ts1 => loc_finish (fun p => MStr p s) ts1
    | T MEMBER_EXPR :: ts1 =>
        match read_expr f ts1 with
        | Some (e, T LITERAL_STR :: S a :: ts2) => loc_finish (fun p => mk_member p e a) ts2
        | _ => None
        end
    | T CALL_EXPR :: ts1 =>
        match read_expr f ts1 with
        | Some (callee, T LIST_GEN :: I n :: ts2) =>
          match read_n (read_expr f) (Z.to_nat n) ts2 with
          | Some (args, T LIST_INT :: I nk :: ts3) =>
            match read_n read_kind (Z.to_nat nk) ts3 with
            | Some (kinds, T LIST_GEN :: I nn :: ts4) =>
              match read_n read_name (Z.to_nat nn) ts4 with
              | Some (names, ts5) => loc_finish (fun p => MCall p callee args kinds names) ts5
              | None => None
              end
            | _ => None
            end
          | _ => None
          end
        | _ => None
        end
    | T OP_EXPR :: T LITERAL_INT :: ts1 =>
        match read_op bin_ops ts1 with
        | Some (op, ts2) =>
          match read_expr f ts2 with
          | Some (l, ts3) =>
            match read_expr f ts3 with
            | Some (r, ts4) => finish (MOp (span (mepos l) (mepos r)) op l r) ts4
            | None => None
            end
          | None => None
          end
        | None => None
        end
    | T UNARY_EXPR :: T LITERAL_INT :: ts1 =>
        match read_op unary_ops ts1 with
        | Some (op, ts2) =>
          match read_expr f ts2 with
          | Some (e, ts3) => loc_finish (fun p => MUnary p op e) ts3
          | None => None
          end
        | None => None
        end
    | T COMPARISON_EXPR :: ts1 =>
        match read_expr f ts1 with
        | Some (l, T LIST_INT :: I n :: ts2) =>
          match read_n (read_op cmp_ops) (Z.to_nat n) ts2 with
          | Some (ops, T LIST_GEN :: I m :: ts3) =>
            match read_n (read_expr f) (Z.to_nat m) ts3 with
            | Some (cs, ts4) =>
                if Nat.eqb (List.length ops) (List.length cs)
                then loc_finish (fun p => MCompare p ops (l :: cs)) ts4 else None
            | None => None
            end
          | _ => None
          end
        | _ => None
        end
    | T BOOL_OP_EXPR :: T LITERAL_INT :: ts1 =>
        match read_op bool_ops ts1 with
        | Some (op, T LIST_GEN :: I n :: ts2) =>
          match read_n (read_expr f) (Z.to_nat n) ts2 with
          | Some (v0 :: v1 :: vs, ts3) =>
              let '(init, last) := split_last v0 (v1 :: vs) in
              loc_finish (fun p => set_pos_op p (nest_bool op init last)) ts3
          | _ => None   (* assert len(values) >= 2 *)
          end
        | _ => None
        end
    | T CONDITIONAL_EXPR :: ts1 =>
        match read_expr f ts1 with
        | Some (if_expr, ts2) =>
          match read_expr f ts2 with
          | Some (cond, ts3) =>
            match read_expr f ts3 with
            | Some (else_expr, ts4) => loc_finish (fun p => MCond p cond if_expr else_expr) ts4
            | None => None
            end
          | None => None
          end
        | None => None
        end
    | T TUPLE_EXPR :: T LIST_GEN :: I n :: ts1 =>
        match read_n (read_expr f) (Z.to_nat n) ts1 with
        | Some (items, ts2) => loc_finish (fun p => MTuple p items) ts2
        | None => None
        end
    | T LIST_EXPR :: T LIST_GEN :: I n :: ts1 =>
        match read_n (read_expr f) (Z.to_nat n) ts1 with
        | Some (items, ts2) => loc_finish (fun p => MList p items) ts2
        | None => None
        end
    | _ => None
    end
  end.

(* read_block / read_optional_block: location of a non-empty block from its first and last *converted* statement *)
Fixpoint last_mspos (s0 : mstmt) (l : list mstmt) : pos :=
  match l with [] => mspos s0 | s :: l' => last_mspos s l' end.
Definition mk_block (u : bool) (l : list mstmt) : option mblock :=
  match l with
  | [] => None
  | s0 :: l' => Some (MBlock (span (mspos s0) (last_mspos s0 l')) u l)
  end.

(* IF_STMT: elif clauses are re-nested bottom-up; the nested IfStmt/Block start at the elif *expression* *)
Fixpoint build_elifs (l : list (mexpr * mblock)) (els : option mblock) : option mblock :=
  match l with
  | [] => els
  | (e, b) :: rest =>
      let cur := build_elifs rest els in
      let p := match cur with Some c => span (mepos e) (mbpos c) | None => span (mepos e) (mbpos b) end in
      Some (MBlock p false [MIf p e b cur])
  end.

Definition read_block_with (rs : rd mstmt) : rd mblock := fun ts =>
  match ts with
  | T BLOCK :: T LIST_GEN :: I n :: B u :: ts1 =>
      match Z.to_nat n with
      | O => match read_loc ts1 with Some (p, ts2) => finish (MBlock p u []) ts2 | None => None end
      | n' =>
        match read_n rs n' ts1 with
        | Some (l, T END_TAG :: ts2) => match mk_block u l with Some b => Some (b, ts2) | None => None end
        | _ => None
        end
      end
  | _ => None
  end.
Definition read_optional_block_with (rs : rd mstmt) : rd (option mblock) := fun ts =>
  match ts with
  | T BLOCK :: T LIST_GEN :: I n :: B u :: ts1 =>
      match read_n rs (Z.to_nat n) ts1 with
      | Some (l, T END_TAG :: ts2) => Some (mk_block u l, ts2)
      | _ => None
      end
  | _ => None
  end.
Definition read_elif_with (re : rd mexpr) (rb : rd mblock) : rd (mexpr * mblock) := fun ts =>
  match re ts with
  | Some (e, ts1) => match rb ts1 with Some (b, ts2) => Some ((e, b), ts2) | None => None end
  | None => None
  end.

(* read_parameters (one item) *)
Definition read_param_with (re : rd mexpr) : rd marg := fun ts =>
  match ts with
  | T LITERAL_STR :: S n :: T LITERAL_INT :: I kd :: B false :: B true :: ts1 =>
      match nth_error ARG_KINDS (Z.to_nat kd), re ts1 with
      | Some k, Some (e, B po :: ts2) =>
          match read_loc ts2 with Some (p, ts3) => Some (MArg p p n k (Some e) po, ts3) | None => None end
      | _, _ => None
      end
  | T LITERAL_STR :: S n :: T LITERAL_INT :: I kd :: B false :: B false :: B po :: ts1 =>
      match nth_error ARG_KINDS (Z.to_nat kd) with
      | Some k => match read_loc ts1 with Some (p, ts2) => Some (MArg p p n k None po, ts2) | None => None end
      | None => None
      end
  | _ => None    (* has_type = true: annotated parameter, outside the fragment *)
  end.

Definition read_ckw_with (re : rd mexpr) : rd (string * mexpr) := fun ts =>
  match ts with
  | T LITERAL_STR :: S n :: ts1 => match re ts1 with Some (e, ts2) => Some ((n, e), ts2) | None => None end
  | _ => None
  end.

Fixpoint read_stmt (fuel : nat) (ts : list tok) {struct fuel} : option (mstmt * list tok) :=
  match fuel with
  | O => None
  | Datatypes.S f =>
    let read_block := read_block_with (read_stmt f) in
    let read_optional_block := read_optional_block_with (read_stmt f) in
    let read_elif := read_elif_with (read_expr f) read_block in
    match ts with
    | T CLASS_DEF :: T LITERAL_STR :: S name :: ts1 =>
        match read_block ts1 with
        | Some (b, T LIST_GEN :: I nb :: ts2) =>
          match read_n (read_expr f) (Z.to_nat nb) ts2 with
          | Some (bases, T LIST_GEN :: I nd :: ts3) =>
            match read_n (read_expr f) (Z.to_nat nd) ts3 with
            | Some (decos, B false :: T DICT_STR_GEN :: I nk :: ts4) =>
              match read_n (read_ckw_with (read_expr f)) (Z.to_nat nk) ts4 with
              | Some (kws, ts5) => loc_finish (fun p => MClassDef p name b bases (find_metaclass kws) kws decos) ts5
              | None => None
              end
            | _ => None    (* PEP 695 type parameters: outside the fragment *)
            end
          | _ => None
          end
        | _ => None
        end
    | T FUNC_DEF_STMT :: T LITERAL_STR :: S name :: T LIST_GEN :: I n :: ts1 =>
        match read_n (read_param_with (read_expr f)) (Z.to_nat n) ts1 with
        | Some (args, ts2) =>
          match read_block ts2 with
          | Some (b, B false :: B false :: B false :: ts3) =>
              loc_finish (fun p => MFuncDef p name (force_pos_only (special_function_elide_names name) args) b) ts3
          | _ => None   (* async / PEP 695 type parameters / return annotation: outside the fragment *)
          end
        | None => None
        end
    | T EXPR_STMT :: ts1 =>
        match read_expr f ts1 with
        | Some (e, ts2) => finish (MExprStmt (mepos e) e) ts2
        | None => None
        end
    | T ASSIGNMENT_STMT :: T LIST_GEN :: I n :: ts1 =>
        match read_n (read_expr f) (Z.to_nat n) ts1 with
        | Some (lv, ts2) =>
          match read_expr f ts2 with
          | Some (rv, B false :: B ns :: ts3) => loc_finish (fun p => MAssign p lv rv ns) ts3
          | _ => None    (* has_type = true: annotated assignment, outside the fragment *)
          end
        | None => None
        end
    | T RETURN_STMT :: B true :: ts1 =>
        match read_expr f ts1 with
        | Some (e, ts2) => loc_finish (fun p => MReturn p (Some e)) ts2
        | None => None
        end
    | T RETURN_STMT :: B false :: ts1 => loc_finish (fun p => MReturn p None) ts1
    | T PASS_STMT :: ts1 => loc_finish MPass ts1
    | T WHILE_STMT :: ts1 =>
        match read_expr f ts1 with
        | Some (e, ts2) =>
          match read_block ts2 with
          | Some (b, ts3) =>
            match read_optional_block ts3 with
            | Some (ob, ts4) => loc_finish (fun p => MWhile p e b ob) ts4
            | None => None
            end
          | None => None
          end
        | None => None
        end
    | T FOR_STMT :: ts1 =>
        match read_expr f ts1 with
        | Some (index, ts2) =>
          match read_expr f ts2 with
          | Some (e, ts3) =>
            match read_block ts3 with
            | Some (b, ts4) =>
              match read_optional_block ts4 with
              | Some (ob, B false :: ts5) => loc_finish (fun p => MFor p index e b ob) ts5
              | _ => None   (* is_async: outside the fragment *)
              end
            | None => None
            end
          | None => None
          end
        | None => None
        end
    | T IF_STMT :: ts1 =>
        match read_expr f ts1 with
        | Some (e, ts2) =>
          match read_block ts2 with
          | Some (b, T LITERAL_INT :: I ne :: ts3) =>
            match read_n read_elif (Z.to_nat ne) ts3 with
            | Some (el, B true :: ts4) =>
                match read_block ts4 with
                | Some (eb, ts5) => loc_finish (fun p => MIf p e b (build_elifs el (Some eb))) ts5
                | None => None
                end
            | Some (el, B false :: ts4) => loc_finish (fun p => MIf p e b (build_elifs el None)) ts4
            | _ => None
            end
          | _ => None
          end
        | None => None
        end
    | _ => None
    end
  end.

Definition read_file (fuel : nat) (ts : list tok) : option (list mstmt * list tok) :=
  match ts with
  | T LITERAL_INT :: I n :: ts1 => read_n (read_stmt fuel) (Z.to_nat n) ts1
  | _ => None
  end.

(* the whole native front end on a stream: every token must be consumed *)
Definition read_native (ts : list tok) : option (list mstmt) :=
  match read_file (List.length ts) ts with
  | Some (l, []) => Some l
  | _ => None
  end.

(* ================================================================ the fragment on which the converters agree *)
(* Where the stream carries no location the reader derives one from the children; this equals CPython's position
   exactly when no parenthesis / keyword precedes the first child or follows the last one. *)
Fixpoint wf_e (e : expr) : Prop :=
  match e with
  | EName _ _ | EInt _ _ | EStr _ _ => True
  | EAttr _ e _ => wf_e e
  | ECall _ f a => wf_e f /\ wf_args a
  | EBin p _ l r => p = span (epos l) (epos r) /\ wf_e l /\ wf_e r
  | EUnary _ _ e => wf_e e
  | ECompare _ l c => wf_e l /\ wf_cmps c
  | EBoolOp _ _ e1 e2 rest => rest = ENil /\ wf_e e1 /\ wf_e e2
  | EIfExp _ t b o => wf_e t /\ wf_e b /\ wf_e o
  | ETuple _ es | EList _ es => wf_es es
  end
with wf_es (es : exprs) : Prop := match es with ENil => True | ECons e es' => wf_e e /\ wf_es es' end
with wf_args (a : args) : Prop := match a with ANil => True | ACons _ e a' => wf_e e /\ wf_args a' end
with wf_cmps (c : cmps) : Prop := match c with CNil => True | CCons _ e c' => wf_e e /\ wf_cmps c' end.

(* sp = p: not a `*args` / `**kwargs` parameter; and not a keyword-only parameter called `__x` (fastparse makes it
   positional-only, the serializer does not) *)
Fixpoint wf_params (ps : params) : Prop :=
  match ps with
  | PNil => True
  | PCons p sp n k d r =>
      sp = p /\ emit_pos_only k n = param_pos_only k n /\ match d with Some e => wf_e e | None => True end /\ wf_params r
  end.

Fixpoint wf_ckws (k : ckws) : Prop := match k with KNil => True | KCons _ e r => wf_e e /\ wf_ckws r end.

Fixpoint wf_s (s : stmt) : Prop :=
  match s with
  | SClass _ _ bases kws decos b0 bs => wf_es bases /\ wf_ckws kws /\ wf_es decos /\ wf_s b0 /\ wf_ss bs
  | SDef _ _ ps b0 bs => wf_params ps /\ wf_s b0 /\ wf_ss bs
  | SExpr p e => p = epos e /\ wf_e e
  | SAssign _ t v => wf_es t /\ wf_e v
  | SReturn _ v => match v with Some e => wf_e e | None => True end
  | SPass _ => True
  | SWhile _ t b0 bs o => wf_e t /\ wf_s b0 /\ wf_ss bs /\ wf_ss o
  | SFor _ t i b0 bs o => wf_e t /\ wf_e i /\ wf_s b0 /\ wf_ss bs /\ wf_ss o
  | SIf _ t b0 bs el o => el = LNil /\ wf_e t /\ wf_s b0 /\ wf_ss bs /\ wf_ss o
  end
with wf_ss (ss : stmts) : Prop := match ss with SNil => True | SCons s ss' => wf_s s /\ wf_ss ss' end.
