(* C14 -- full-strength statement (kept visible; only parts of it are proved: see Properties.v and notes/C14.md).

   "For every source file without type comments, checking with the native parser yields exactly the diagnostics
    obtained with the default parser, and a file is rejected with a blocking syntax error by one exactly when it is
    by the other.  Every diagnostic's location lies inside the file: its line exists, its column lies within that
    line, and a reported end position is not before the start."

   The two front ends, the checker and the external serializer are not modelled as a whole: they are Section
   variables here.  What is proved is (a) the last clause for the span stored by Errors.report and (b) the first
   clause at the level of the ASTs for a syntax fragment.  Everything else is differential search (stage S). *)
From Coq Require Import ZArith List String Bool.
From C14 Require Import Model.
From Gen Require Import Clamp.
Import ListNotations.
Open Scope Z_scope.

Section Full.
  Variable source : Type.                       (* file contents without type comments *)
  Variable config : Type.                       (* target version 3.9 - 3.14, flags *)
  Record diag := { d_line : Z; d_col : Z; d_end_line : Z; d_end_col : Z; d_blocker : bool; d_text : string }.
  Variable check_default check_native : config -> source -> list diag.
  Variable n_lines : source -> Z.
  Variable line_len : source -> Z -> Z.         (* bytes of line i *)

  Definition rejected (ds : list diag) : bool := existsb d_blocker ds.

  Definition same_diagnostics : Prop := forall c s, check_native c s = check_default c s.
  Definition same_rejection : Prop := forall c s, rejected (check_native c s) = rejected (check_default c s).
  Definition position_valid (s : source) (d : diag) : Prop :=
    1 <= d_line d <= n_lines s /\ 0 <= d_col d <= line_len s (d_line d) /\
    (d_end_line d > d_line d \/ (d_end_line d = d_line d /\ d_end_col d > d_col d)).
  Definition positions_valid : Prop :=
    forall c s d, List.In d (check_default c s) \/ List.In d (check_native c s) -> position_valid s d.

  Definition C14_statement : Prop := same_diagnostics /\ same_rejection /\ positions_valid.
End Full.

(* (a) proved for all inputs: Properties.report_clamp_valid *)
Definition clamp_statement : Prop :=
  forall line column end_line end_column,
    let '(l, c, el, ec) := report_clamp line column end_line end_column in
    l = line /\ el >= l /\ (el = l -> ec > c).

(* (b) the fragment.  nconvert t = what nativeparse yields on the serializer's stream for t (proved for EVERY tree:
   Properties.native_reader_correct); convert t = what fastparse yields.  Agreement at full strength over all trees is
   REFUTED by the faithful model (Properties.parsers_agree_all_trees_refuted_*: these are real divergences of the two
   converters, listed as findings); proved on the well-formed trees (wf_ss). *)
Definition native_reader_spec : Prop := forall t : stmts, read_native (emit t) = Some (nconvert t).
Definition parsers_agree_all_trees : Prop := forall t : stmts, read_native (emit t) = Some (convert t).
Definition parsers_agree_on_wf_trees : Prop := forall t : stmts, wf_ss t -> read_native (emit t) = Some (convert t).
(* and for every tree, up to positions: Properties.parsers_agree_up_to_positions *)
