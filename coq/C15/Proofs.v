(* C15 — lemmas: words, tagging, arithmetic fast paths *)
From Coq Require Import ZArith Bool Lia.
From C15 Require Import Model.
Open Scope Z_scope.
Ltac Zify.zify_post_hook ::= Z.to_euclidean_division_equations.

Ltac consts := unfold B7, B8, B15, B16, B31, B32, B62, B63, B64 in *.
Ltac wsolve := unfold slt0, u64, s64 in *; consts; lia.

(* ---------------------------------------------------------------- truncating vs floor division *)
Lemma floor_from_trunc a b : b <> 0 ->
  a / b = if (negb (Bool.eqb (a <? 0) (b <? 0)) && negb (Z.rem a b =? 0))%bool then Z.quot a b - 1 else Z.quot a b.
Proof.
  intros Hb.
  destruct (negb (Bool.eqb (a <? 0) (b <? 0)) && negb (Z.rem a b =? 0))%bool eqn:E; symmetry.
  - apply Z.div_unique with (r := Z.rem a b + b);
    destruct (a <? 0) eqn:Ea; destruct (b <? 0) eqn:Eb; destruct (Z.rem a b =? 0) eqn:Er; cbn in E; try discriminate; lia.
  - apply Z.div_unique with (r := Z.rem a b);
    destruct (a <? 0) eqn:Ea; destruct (b <? 0) eqn:Eb; destruct (Z.rem a b =? 0) eqn:Er; cbn in E; try discriminate; lia.
Qed.
Lemma mod_from_trunc a b : b <> 0 ->
  a mod b = if (negb (Bool.eqb (a <? 0) (b <? 0)) && negb (Z.rem a b =? 0))%bool then Z.rem a b + b else Z.rem a b.
Proof.
  intros Hb.
  destruct (negb (Bool.eqb (a <? 0) (b <? 0)) && negb (Z.rem a b =? 0))%bool eqn:E; symmetry.
  - apply Z.mod_unique with (q := Z.quot a b - 1);
    destruct (a <? 0) eqn:Ea; destruct (b <? 0) eqn:Eb; destruct (Z.rem a b =? 0) eqn:Er; cbn in E; try discriminate; lia.
  - apply Z.mod_unique with (q := Z.quot a b);
    destruct (a <? 0) eqn:Ea; destruct (b <? 0) eqn:Eb; destruct (Z.rem a b =? 0) eqn:Er; cbn in E; try discriminate; lia.
Qed.

(* ---------------------------------------------------------------- words *)
Lemma u64_range x : 0 <= u64 x < B64.
Proof. wsolve. Qed.
Lemma s64_range x : - B63 <= s64 x < B63.
Proof. wsolve. Qed.
Lemma s64_u64 x : s64 (u64 x) = s64 x.
Proof. wsolve. Qed.
Lemma u64_s64 x : u64 (s64 x) = u64 x.
Proof. wsolve. Qed.
Lemma s64_small x : - B63 <= x < B63 -> s64 x = x.
Proof. wsolve. Qed.
Lemma u64_small x : 0 <= x < B64 -> u64 x = x.
Proof. wsolve. Qed.
Lemma u64_mul_r x y : u64 (x * u64 y) = u64 (x * y).
Proof. unfold u64. apply Z.mul_mod_idemp_r. consts; lia. Qed.
Lemma u64_mul_l x y : u64 (u64 x * y) = u64 (x * y).
Proof. unfold u64. apply Z.mul_mod_idemp_l. consts; lia. Qed.
Lemma shiftr1 x : Z.shiftr x 1 = x / 2.
Proof. rewrite Z.shiftr_div_pow2 by lia. reflexivity. Qed.
Lemma shiftl1 x : Z.shiftl x 1 = x * 2.
Proof. rewrite Z.shiftl_mul_pow2 by lia. reflexivity. Qed.

(* the sign bit: (Py_ssize_t)w < 0 iff bit 63 of w is set — for every integer w (two's complement) *)
Lemma slt0_testbit w : slt0 w = Z.testbit w 63.
Proof.
  pose proof (Z.testbit_spec' w 63 ltac:(lia)) as H.
  change (2 ^ 63) with 9223372036854775808 in H.
  destruct (Z.testbit w 63); cbn [Z.b2z] in H; unfold slt0, s64; consts.
  - apply Z.ltb_lt. lia.
  - apply Z.ltb_ge. lia.
Qed.
Lemma slt0_lxor x y : slt0 (Z.lxor x y) = xorb (slt0 x) (slt0 y).
Proof. rewrite !slt0_testbit. apply Z.lxor_spec. Qed.

(* ---------------------------------------------------------------- tagging *)
Lemma fits63_iff v : fits63 v = true <-> - B62 <= v < B62.
Proof. unfold fits63. rewrite andb_true_iff, Z.leb_le, Z.ltb_lt. tauto. Qed.

Lemma short_as_ssize_tagword a : - B62 <= a < B62 -> short_as_ssize (u64 (a * 2)) = a.
Proof. intros. unfold short_as_ssize. rewrite shiftr1. wsolve. Qed.

Theorem untag_tag a : untag (tag a) = a.
Proof.
  unfold untag, tag, from_object. destruct (fits63 a) eqn:E; cbn [as_object]; [|reflexivity].
  apply fits63_iff in E. now apply short_as_ssize_tagword.
Qed.

Theorem tag_wf a : wf (tag a).
Proof.
  unfold tag, from_object. destruct (fits63 a) eqn:E; cbn [wf]; [|exact E].
  wsolve.
Qed.

Theorem tag_canonical a : is_short (tag a) = true <-> - B62 <= a < B62.
Proof. unfold tag, from_object. rewrite <- fits63_iff. destruct (fits63 a); cbn; intuition congruence. Qed.

Lemma wf_tag_untag t : wf t -> t = tag (untag t).
Proof.
  destruct t as [w|v]; cbn [wf untag as_object]; intros H.
  - unfold tag, from_object, short_as_ssize. rewrite shiftr1.
    assert (E : fits63 (s64 w / 2) = true) by (apply fits63_iff; wsolve).
    rewrite E. f_equal. wsolve.
  - unfold tag, from_object. now rewrite H.
Qed.

Lemma tag_inj a b : tag a = tag b -> a = b.
Proof. intros H. rewrite <- (untag_tag a), <- (untag_tag b). now rewrite H. Qed.

(* CPyTagged_FromSsize_t / FromInt64 agree with canonical tagging on the whole ssize_t range *)
Theorem from_ssize_correct v : - B63 <= v < B63 -> from_ssize v = tag v.
Proof.
  intros Hv. unfold from_ssize, too_big, tag, from_object, fits63.
  destruct (B62 - 1 <? u64 v) eqn:E1; destruct (0 <=? v) eqn:E2; destruct (v <? - B62) eqn:E3;
  destruct (- B62 <=? v) eqn:E4; destruct (v <? B62) eqn:E5; cbn [andb orb]; try reflexivity; exfalso; wsolve.
Qed.

(* ---------------------------------------------------------------- generic shape of the binary ops *)
Lemma as_object_tag a : as_object (tag a) = a.
Proof. exact (untag_tag a). Qed.

Lemma slow2_tag f a b : slow2 f (tag a) (tag b) = tag (f a b).
Proof. unfold slow2. now rewrite !as_object_tag. Qed.

Ltac two_tags a b Ea Eb :=
  unfold tag at 1 2, from_object at 1 2;
  destruct (fits63 a) eqn:Ea; destruct (fits63 b) eqn:Eb;
  [ apply fits63_iff in Ea; apply fits63_iff in Eb | | | ].

(* ---------------------------------------------------------------- add / subtract / negate *)
Theorem add_correct a b : tagged_add (tag a) (tag b) = tag (py_add a b).
Proof.
  pose proof (slow2_tag py_add a b) as HS. revert HS.
  remember (tag (py_add a b)) as T eqn:ET. unfold tag, from_object.
  destruct (fits63 a) eqn:Ea; destruct (fits63 b) eqn:Eb; cbn [tagged_add]; intros HS; try exact HS.
  apply fits63_iff in Ea; apply fits63_iff in Eb.
  unfold is_add_overflow. rewrite !slt0_lxor.
  destruct (slt0 (u64 (u64 (a * 2) + u64 (b * 2)))) eqn:S1;
  destruct (slt0 (u64 (a * 2))) eqn:S2; destruct (slt0 (u64 (b * 2))) eqn:S3; cbn [xorb andb negb]; try exact HS;
  subst T; unfold tag, from_object, py_add;
  (assert (E : fits63 (a + b) = true) by (apply fits63_iff; wsolve)); rewrite E; f_equal; wsolve.
Qed.

Theorem subtract_correct a b : tagged_subtract (tag a) (tag b) = tag (py_sub a b).
Proof.
  pose proof (slow2_tag py_sub a b) as HS. revert HS.
  remember (tag (py_sub a b)) as T eqn:ET. unfold tag, from_object.
  destruct (fits63 a) eqn:Ea; destruct (fits63 b) eqn:Eb; cbn [tagged_subtract]; intros HS; try exact HS.
  apply fits63_iff in Ea; apply fits63_iff in Eb.
  unfold is_sub_overflow. rewrite !slt0_lxor.
  destruct (slt0 (u64 (u64 (a * 2) - u64 (b * 2)))) eqn:S1;
  destruct (slt0 (u64 (a * 2))) eqn:S2; destruct (slt0 (u64 (b * 2))) eqn:S3; cbn [xorb andb negb]; try exact HS;
  subst T; unfold tag, from_object, py_sub;
  (assert (E : fits63 (a - b) = true) by (apply fits63_iff; wsolve)); rewrite E; f_equal; wsolve.
Qed.

Theorem negate_correct a : tagged_negate (tag a) = tag (py_neg a).
Proof.
  assert (HS : from_object (py_neg (as_object (tag a))) = tag (py_neg a)) by now rewrite as_object_tag.
  revert HS. remember (tag (py_neg a)) as T eqn:ET. unfold tag, from_object.
  destruct (fits63 a) eqn:Ea; cbn [tagged_negate]; intros HS; try exact HS.
  apply fits63_iff in Ea.
  destruct (u64 (a * 2) =? B63) eqn:E1; cbn [negb]; try exact HS.
  apply Z.eqb_neq in E1. subst T. unfold tag, from_object, py_neg.
  (assert (E : fits63 (- a) = true) by (apply fits63_iff; wsolve)); rewrite E; f_equal; wsolve.
Qed.
