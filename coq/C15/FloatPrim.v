(* C15 — replay of the float witnesses on Coq's primitive (hardware) binary64 floats, and a sample check of the
   correspondence PrimFloat <-> SpecFloat that FloatAxioms postulates.  Everything is by vm_compute on closed terms:
   NO axiom of FloatAxioms is used; `Print Assumptions` lists only the primitive types/operations of the kernel.
   This file is compiled by the harness (stage C), it is not part of Properties.v. *)
From Coq Require Import ZArith Bool List SpecFloat PrimFloat Uint63 FloatOps.
From C15 Require Import Model FloatModel.
Import ListNotations.
Open Scope Z_scope.

(* the double-rounding witness on hardware doubles: (double)a / (double)b = the C model, not the CPython model *)
Lemma prim_truediv_witness :
  FVal (Prim2SF (PrimFloat.div (of_uint63 51302252447955996%uint63) (of_uint63 3%uint63))) = c_truediv (tag 51302252447955996) (tag 3)
  /\ FVal (Prim2SF (PrimFloat.div (of_uint63 51302252447955996%uint63) (of_uint63 3%uint63))) <> py_truediv 51302252447955996 3.
Proof. split; vm_compute; congruence. Qed.
Print Assumptions prim_truediv_witness.

(* (double)(2^62+1) == 2.0^62 on hardware doubles *)
Lemma prim_int_float_eq_witness :
  PrimFloat.eqb (of_uint63 4611686018427387905%uint63) (SF2Prim f_2p62) = true /\ py_int_float_cmp CEq 4611686018427387905 f_2p62 = false.
Proof. split; vm_compute; reflexivity. Qed.

(* FloatAxioms on samples: the kernel's + - * / agree with SpecFloat on boundary bit patterns *)
Definition sample_bits : list Z :=
  [0; 9223372036854775808; 1; 4503599627370495; 4503599627370496; 4607182418800017408; 13830554455654793216;
   4890909195324358656; 4886405595696988160; 4845873199050653696; 4845873199050653697; 9218868437227405311;
   9218868437227405312; 18442240474082181120; 9221120237041090560; 13862012350328176640; 4613937818241073152; 4607182418800017409].
Definition agree (x y : spec_float) : bool :=
  let px := SF2Prim x in let py := SF2Prim y in
  let same (a : spec_float) (b : float) := Z.eqb (sf_to_bits a) (sf_to_bits (Prim2SF b)) in
  same (fadd x y) (PrimFloat.add px py) && same (fsub x y) (PrimFloat.sub px py) &&
  same (fmul x y) (PrimFloat.mul px py) && same (fdiv x y) (PrimFloat.div px py) &&
  Bool.eqb (feq x y) (PrimFloat.eqb px py) && Bool.eqb (flt x y) (PrimFloat.ltb px py) && Bool.eqb (fle x y) (PrimFloat.leb px py).
Lemma prim_spec_agree_on_samples :
  forallb (fun a => forallb (fun b => agree (bits_to_sf a) (bits_to_sf b)) sample_bits) sample_bits = true.
Proof. vm_compute. reflexivity. Qed.
