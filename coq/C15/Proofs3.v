(* C15 — lemmas: bitwise operations and shifts on tagged ints (bit-level reasoning) *)
From Coq Require Import ZArith Bool Lia.
From C15 Require Import Model Proofs Proofs2.
Open Scope Z_scope.
Ltac Zify.zify_post_hook ::= Z.to_euclidean_division_equations.

(* ---------------------------------------------------------------- bitwise operations commute with reduction mod 2^w *)
Lemma modpow_testbit w x n : 0 <= w -> 0 <= n ->
  Z.testbit (x mod 2 ^ w) n = if n <? w then Z.testbit x n else false.
Proof.
  intros Hw Hn. destruct (Z.ltb_spec n w).
  - apply Z.mod_pow2_bits_low. lia.
  - apply Z.mod_pow2_bits_high. lia.
Qed.

Lemma modpow_bitop w (op : Z -> Z -> Z) (f : bool -> bool -> bool) :
  0 <= w ->
  (forall x y n, Z.testbit (op x y) n = f (Z.testbit x n) (Z.testbit y n)) -> f false false = false ->
  forall x y, op (x mod 2 ^ w) (y mod 2 ^ w) = (op x y) mod 2 ^ w.
Proof.
  intros Hw Hs Hf x y. apply Z.bits_inj'. intros n Hn.
  rewrite Hs, !modpow_testbit, Hs by assumption.
  destruct (n <? w); [reflexivity | exact Hf].
Qed.

Lemma u64_land x y : Z.land (u64 x) (u64 y) = u64 (Z.land x y).
Proof. unfold u64. change B64 with (2 ^ 64). apply (modpow_bitop 64 Z.land andb); [lia | apply Z.land_spec | reflexivity]. Qed.
Lemma u64_lor x y : Z.lor (u64 x) (u64 y) = u64 (Z.lor x y).
Proof. unfold u64. change B64 with (2 ^ 64). apply (modpow_bitop 64 Z.lor orb); [lia | apply Z.lor_spec | reflexivity]. Qed.
Lemma u64_lxor x y : Z.lxor (u64 x) (u64 y) = u64 (Z.lxor x y).
Proof. unfold u64. change B64 with (2 ^ 64). apply (modpow_bitop 64 Z.lxor xorb); [lia | apply Z.lxor_spec | reflexivity]. Qed.

(* (2a) op (2b) = 2 (a op b) *)
Lemma dbl_land a b : Z.land (a * 2) (b * 2) = Z.land a b * 2.
Proof. rewrite <- !shiftl1. symmetry. apply Z.shiftl_land. Qed.
Lemma dbl_lor a b : Z.lor (a * 2) (b * 2) = Z.lor a b * 2.
Proof. rewrite <- !shiftl1. symmetry. apply Z.shiftl_lor. Qed.
Lemma dbl_lxor a b : Z.lxor (a * 2) (b * 2) = Z.lxor a b * 2.
Proof. rewrite <- !shiftl1. symmetry. apply Z.shiftl_lxor. Qed.

(* the 63-bit signed range is closed under and / or / xor *)
Lemma fits_shiftr x : (- B62 <= x < B62) <-> (Z.shiftr x 62 = 0 \/ Z.shiftr x 62 = -1).
Proof. rewrite Z.shiftr_div_pow2 by lia. change (2 ^ 62) with 4611686018427387904. consts. lia. Qed.

Lemma land_fits a b : - B62 <= a < B62 -> - B62 <= b < B62 -> - B62 <= Z.land a b < B62.
Proof.
  intros Ha Hb. apply fits_shiftr in Ha. apply fits_shiftr in Hb. apply fits_shiftr. rewrite Z.shiftr_land.
  destruct Ha as [Ha|Ha]; destruct Hb as [Hb|Hb]; rewrite Ha, Hb; cbn; auto.
Qed.
Lemma lor_fits a b : - B62 <= a < B62 -> - B62 <= b < B62 -> - B62 <= Z.lor a b < B62.
Proof.
  intros Ha Hb. apply fits_shiftr in Ha. apply fits_shiftr in Hb. apply fits_shiftr. rewrite Z.shiftr_lor.
  destruct Ha as [Ha|Ha]; destruct Hb as [Hb|Hb]; rewrite Ha, Hb; cbn; auto.
Qed.
Lemma lxor_fits a b : - B62 <= a < B62 -> - B62 <= b < B62 -> - B62 <= Z.lxor a b < B62.
Proof.
  intros Ha Hb. apply fits_shiftr in Ha. apply fits_shiftr in Hb. apply fits_shiftr. rewrite Z.shiftr_lxor.
  destruct Ha as [Ha|Ha]; destruct Hb as [Hb|Hb]; rewrite Ha, Hb; cbn; auto.
Qed.

Theorem and_correct a b : tagged_and (tag a) (tag b) = tag (py_and a b).
Proof.
  pose proof (slow2_tag py_and a b) as HS. revert HS.
  remember (tag (py_and a b)) as T eqn:ET. unfold tag, from_object.
  destruct (fits63 a) eqn:Ea; destruct (fits63 b) eqn:Eb; cbn [tagged_and]; intros HS; try exact HS.
  apply fits63_iff in Ea; apply fits63_iff in Eb.
  subst T. unfold tag, from_object, py_and.
  assert (E : fits63 (Z.land a b) = true) by (apply fits63_iff; now apply land_fits). rewrite E.
  f_equal. now rewrite u64_land, dbl_land.
Qed.

Theorem or_correct a b : tagged_or (tag a) (tag b) = tag (py_or a b).
Proof.
  pose proof (slow2_tag py_or a b) as HS. revert HS.
  remember (tag (py_or a b)) as T eqn:ET. unfold tag, from_object.
  destruct (fits63 a) eqn:Ea; destruct (fits63 b) eqn:Eb; cbn [tagged_or]; intros HS; try exact HS.
  apply fits63_iff in Ea; apply fits63_iff in Eb.
  subst T. unfold tag, from_object, py_or.
  assert (E : fits63 (Z.lor a b) = true) by (apply fits63_iff; now apply lor_fits). rewrite E.
  f_equal. now rewrite u64_lor, dbl_lor.
Qed.

Theorem xor_correct a b : tagged_xor (tag a) (tag b) = tag (py_xor a b).
Proof.
  pose proof (slow2_tag py_xor a b) as HS. revert HS.
  remember (tag (py_xor a b)) as T eqn:ET. unfold tag, from_object.
  destruct (fits63 a) eqn:Ea; destruct (fits63 b) eqn:Eb; cbn [tagged_xor]; intros HS; try exact HS.
  apply fits63_iff in Ea; apply fits63_iff in Eb.
  subst T. unfold tag, from_object, py_xor.
  assert (E : fits63 (Z.lxor a b) = true) by (apply fits63_iff; now apply lxor_fits). rewrite E.
  f_equal. now rewrite u64_lxor, dbl_lxor.
Qed.

(* x & ~CPY_INT_TAG clears bit 0 *)
Lemma land_m2 x : Z.land x (-2) = x / 2 * 2.
Proof.
  change (-2) with (Z.lnot (Z.ones 1)). rewrite <- Z.ldiff_land, Z.ldiff_ones_r by lia.
  now rewrite shiftl1, shiftr1.
Qed.

Theorem invert_correct a : tagged_invert (tag a) = tag (py_invert a).
Proof.
  assert (HS : from_object (py_invert (as_object (tag a))) = tag (py_invert a)) by now rewrite as_object_tag.
  revert HS. remember (tag (py_invert a)) as T eqn:ET. unfold tag, from_object.
  destruct (fits63 a) eqn:Ea; cbn [tagged_invert]; intros HS; try exact HS.
  apply fits63_iff in Ea.
  destruct (u64 (a * 2) =? B62) eqn:E1; cbn [negb]; try exact HS.
  subst T. unfold tag, from_object, py_invert.
  assert (E : fits63 (- a - 1) = true) by (apply fits63_iff; consts; lia). rewrite E. f_equal.
  rewrite u64_land, land_m2. wsolve.
Qed.

(* ---------------------------------------------------------------- shifts *)
Lemma div_pos_fits a P : 0 < P -> - B62 <= a < B62 -> - B62 <= a / P < B62.
Proof.
  intros HP Ha. split.
  - apply Z.div_le_lower_bound; consts; lia.
  - assert (a / P <= B62 - 1); [apply Z.div_le_upper_bound; consts; lia | lia].
Qed.

Theorem rshift_correct a b : tagged_rshift (tag a) (tag b) = rmap tag (py_rshift a b).
Proof.
  assert (HS : slow2r py_rshift (tag a) (tag b) = rmap tag (py_rshift a b)).
  { unfold slow2r. now rewrite !as_object_tag. }
  revert HS. remember (rmap tag (py_rshift a b)) as T eqn:ET. unfold tag, from_object.
  destruct (fits63 a) eqn:Ea; destruct (fits63 b) eqn:Eb; cbn [tagged_rshift]; intros HS; try exact HS.
  apply fits63_iff in Ea; apply fits63_iff in Eb.
  rewrite !s64_tagword, !short_as_ssize_tagword by assumption.
  destruct (0 <=? b * 2) eqn:E0; try exact HS. apply Z.leb_le in E0.
  assert (Hb : 0 <= b) by lia.
  subst T. unfold py_rshift. destruct (Z.ltb_spec b 0); [lia|]. cbn [rmap].
  assert (HP : 0 < 2 ^ b) by (apply Z.pow_pos_nonneg; lia).
  pose proof (div_pos_fits a (2 ^ b) HP Ea) as DF.
  unfold tag, from_object. assert (E : fits63 (a / 2 ^ b) = true) by (now apply fits63_iff). rewrite E.
  destruct (64 <=? b) eqn:E64.
  - apply Z.leb_le in E64.
    assert (HB : B62 < 2 ^ b). { change B62 with (2 ^ 62). apply Z.pow_lt_mono_r; lia. }
    destruct (0 <=? a * 2) eqn:Es.
    + apply Z.leb_le in Es. rewrite Z.div_small by lia. reflexivity.
    + apply Z.leb_gt in Es.
      assert (Q : -1 = a / 2 ^ b) by (apply Z.div_unique with (r := a + 2 ^ b); [left; lia | lia]).
      rewrite <- Q. reflexivity.
  - apply Z.leb_gt in E64. do 3 f_equal.
    rewrite land_m2, Z.shiftr_div_pow2 by lia. f_equal.
    rewrite Z.div_div by lia. apply Z.div_mul_cancel_r; lia.
Qed.

Theorem lshift_correct a b : tagged_lshift (tag a) (tag b) = rmap tag (py_lshift a b).
Proof.
  assert (HS : slow2r py_lshift (tag a) (tag b) = rmap tag (py_lshift a b)).
  { unfold slow2r. now rewrite !as_object_tag. }
  revert HS. remember (rmap tag (py_lshift a b)) as T eqn:ET. unfold tag, from_object.
  destruct (fits63 a) eqn:Ea; destruct (fits63 b) eqn:Eb; cbn [tagged_lshift]; intros HS; try exact HS.
  apply fits63_iff in Ea; apply fits63_iff in Eb.
  rewrite !s64_tagword, !short_as_ssize_tagword by assumption.
  destruct ((0 <=? b * 2) && (u64 (b * 2) <? 128))%bool eqn:E0; try exact HS.
  apply andb_true_iff in E0. destruct E0 as [E0 E1]. apply Z.leb_le in E0. apply Z.ltb_lt in E1.
  assert (Hb : 0 <= b < 64) by wsolve.
  unfold is_short_lshift_overflow.
  destruct (Z.shiftr (s64 (Z.shiftl (a * 2) b)) b =? a * 2) eqn:E2; cbn [negb]; try exact HS.
  apply Z.eqb_eq in E2.
  rewrite Z.shiftl_mul_pow2 in E2 by lia. rewrite Z.shiftl_mul_pow2 by lia. rewrite Z.shiftr_div_pow2 in E2 by lia.
  assert (HP : 0 < 2 ^ b) by (apply Z.pow_pos_nonneg; lia).
  assert (HQ0 : 0 < 2 ^ (64 - b)) by (apply Z.pow_pos_nonneg; lia).
  assert (HQ : B64 = 2 ^ (64 - b) * 2 ^ b).
  { rewrite <- Z.pow_add_r by lia. replace (64 - b + b) with 64 by lia. reflexivity. }
  subst T. unfold py_lshift. destruct (Z.ltb_spec b 0); [lia|]. cbn [rmap].
  remember (2 ^ b) as P eqn:HeqP. remember (2 ^ (64 - b)) as Q eqn:HeqQ.
  assert (Hk : exists k, s64 (a * 2 * P) = a * 2 * P - k * B64 /\ (k = 0 -> - B63 <= a * 2 * P < B63)).
  { exists ((a * 2 * P + B63) / B64). remember (a * 2 * P) as y. clear - y. unfold s64. split; consts; lia. }
  destruct Hk as [k [Hk Hk0]].
  rewrite Hk, HQ in E2.
  replace (a * 2 * P - k * (Q * P)) with ((a * 2 - k * Q) * P) in E2 by ring.
  rewrite Z.div_mul in E2 by lia.
  assert (KQ : k * Q = 0) by lia.
  apply Z.mul_eq_0 in KQ. destruct KQ as [K0|Q0]; [|lia].
  specialize (Hk0 K0).
  unfold tag, from_object.
  assert (E : fits63 (a * P) = true) by (apply fits63_iff; consts; lia). rewrite E.
  do 2 f_equal. rewrite u64_mul_l. f_equal. ring.
Qed.
