(* C15 — lemmas: multiply, floor division, remainder, comparisons of tagged ints *)
From Coq Require Import ZArith Bool Lia.
From C15 Require Import Model Proofs.
Open Scope Z_scope.
Ltac Zify.zify_post_hook ::= Z.to_euclidean_division_equations.

Lemma fits63_false v : fits63 v = false -> ~ (- B62 <= v < B62).
Proof. intros H C. apply fits63_iff in C. congruence. Qed.

Lemma slt0_tagword a : - B62 <= a < B62 -> slt0 (u64 (a * 2)) = (a <? 0).
Proof. intros. destruct (Z.ltb_spec a 0); unfold slt0; [apply Z.ltb_lt | apply Z.ltb_ge]; wsolve. Qed.
Lemma s64_tagword a : - B62 <= a < B62 -> s64 (u64 (a * 2)) = a * 2.
Proof. intros. wsolve. Qed.
Lemma tagword_inj a b : - B62 <= a < B62 -> - B62 <= b < B62 -> u64 (a * 2) = u64 (b * 2) -> a = b.
Proof. intros. wsolve. Qed.

Theorem multiply_correct a b : tagged_multiply (tag a) (tag b) = tag (py_mul a b).
Proof.
  pose proof (slow2_tag py_mul a b) as HS. revert HS.
  remember (tag (py_mul a b)) as T eqn:ET. unfold tag, from_object.
  destruct (fits63 a) eqn:Ea; destruct (fits63 b) eqn:Eb; cbn [tagged_multiply]; intros HS; try exact HS.
  apply fits63_iff in Ea; apply fits63_iff in Eb.
  unfold is_mul_overflow.
  destruct (B31 <=? u64 (a * 2)) eqn:E1; destruct (B31 <=? u64 (b * 2)) eqn:E2; cbn [orb negb]; try exact HS.
  apply Z.leb_gt in E1, E2.
  rewrite (short_as_ssize_tagword b Eb).
  assert (Ha : 0 <= a < 1073741824) by wsolve.
  assert (Hb : 0 <= b < 1073741824) by wsolve.
  assert (Hab : 0 <= a * b < 1073741824 * 1073741824) by nia.
  subst T; unfold tag, from_object, py_mul.
  assert (E : fits63 (a * b) = true) by (apply fits63_iff; consts; lia).
  rewrite E. f_equal.
  assert (H : u64 (a * 2) = a * 2) by wsolve. rewrite H. f_equal. ring.
Qed.

Lemma div_fits a b : - B62 <= a < B62 -> b <> 0 -> a <> - B62 -> - B62 <= a / b < B62.
Proof.
  intros Ha Hb Hn.
  assert (G : forall a b, - B62 < a < B62 -> 0 < b -> - B62 <= a / b < B62).
  { clear. intros a b Ha Hb. split.
    - apply Z.div_le_lower_bound; consts; lia.
    - assert (a / b <= B62 - 1); [apply Z.div_le_upper_bound; consts; lia | lia]. }
  destruct (Z.ltb_spec 0 b).
  - apply G; lia.
  - rewrite <- Z.div_opp_opp by lia. apply G; lia.
Qed.

Theorem floordiv_correct a b : tagged_floordiv (tag a) (tag b) = rmap tag (py_floordiv a b).
Proof.
  assert (HS : slow2r py_floordiv (tag a) (tag b) = rmap tag (py_floordiv a b)).
  { unfold slow2r. now rewrite !as_object_tag. }
  revert HS. remember (rmap tag (py_floordiv a b)) as T eqn:ET. unfold tag, from_object.
  destruct (fits63 a) eqn:Ea; destruct (fits63 b) eqn:Eb; cbn [tagged_floordiv]; intros HS; try exact HS.
  apply fits63_iff in Ea; apply fits63_iff in Eb.
  unfold maybe_floordiv_fault.
  destruct (u64 (b * 2) =? 0) eqn:E1; destruct (u64 (a * 2) =? B63) eqn:E2; cbn [orb negb]; try exact HS.
  apply Z.eqb_neq in E1, E2.
  assert (Hb : b <> 0) by wsolve. assert (Ha : a <> - B62) by wsolve.
  rewrite !short_as_ssize_tagword by assumption.
  rewrite !slt0_tagword by assumption.
  rewrite u64_mul_r.
  assert (Er : (u64 (Z.quot a b * (b * 2)) =? u64 (a * 2)) = (Z.rem a b =? 0)).
  { pose proof (Z.quot_rem' a b) as Q. pose proof (Z.rem_bound_abs a b Hb) as R.
    set (q := Z.quot a b) in *. set (r := Z.rem a b) in *. clearbody q r.
    destruct (Z.eqb_spec r 0); [apply Z.eqb_eq | apply Z.eqb_neq]; wsolve. }
  rewrite Er.
  pose proof (floor_from_trunc a b Hb) as F.
  assert (Res : (if negb (Bool.eqb (a <? 0) (b <? 0)) then if negb (Z.rem a b =? 0) then Z.quot a b - 1 else Z.quot a b else Z.quot a b) = a / b).
  { rewrite F. destruct (negb (Bool.eqb (a <? 0) (b <? 0))); destruct (negb (Z.rem a b =? 0)); reflexivity. }
  rewrite Res. subst T. unfold py_floordiv. destruct (Z.eqb_spec b 0); [contradiction|]. cbn [rmap].
  unfold tag, from_object. pose proof (div_fits a b Ea Hb Ha) as DF.
  assert (E : fits63 (a / b) = true) by (apply fits63_iff; exact DF). now rewrite E.
Qed.

Lemma eqb_comm x y : Bool.eqb x y = Bool.eqb y x.
Proof. destruct x, y; reflexivity. Qed.

Theorem remainder_correct a b : tagged_remainder (tag a) (tag b) = rmap tag (py_mod a b).
Proof.
  assert (HS : slow2r py_mod (tag a) (tag b) = rmap tag (py_mod a b)).
  { unfold slow2r. now rewrite !as_object_tag. }
  revert HS. remember (rmap tag (py_mod a b)) as T eqn:ET. unfold tag, from_object.
  destruct (fits63 a) eqn:Ea; destruct (fits63 b) eqn:Eb; cbn [tagged_remainder]; intros HS; try exact HS.
  apply fits63_iff in Ea; apply fits63_iff in Eb.
  unfold maybe_remainder_fault.
  destruct (u64 (b * 2) =? 0) eqn:E1; cbn [negb]; try exact HS.
  apply Z.eqb_neq in E1.
  assert (Hb : b <> 0) by wsolve.
  rewrite !s64_tagword by assumption.
  rewrite !slt0_tagword by assumption.
  replace (a * 2) with (2 * a) by ring. replace (b * 2) with (2 * b) by ring.
  rewrite Z.mul_rem_distr_l by lia.
  pose proof (mod_from_trunc a b Hb) as F.
  pose proof (Z.rem_bound_abs a b Hb) as R.
  assert (Em : (2 * Z.rem a b =? 0) = (Z.rem a b =? 0)).
  { destruct (Z.eqb_spec (Z.rem a b) 0); [apply Z.eqb_eq | apply Z.eqb_neq]; lia. }
  rewrite Em. rewrite (eqb_comm (b <? 0) (a <? 0)).
  subst T. unfold py_mod. destruct (Z.eqb_spec b 0); [contradiction|]. cbn [rmap].
  assert (MB : - B62 <= a mod b < B62) by (consts; lia).
  unfold tag, from_object.
  assert (E : fits63 (a mod b) = true) by (apply fits63_iff; exact MB). rewrite E.
  rewrite F. set (r := Z.rem a b) in *. clearbody r.
  destruct (negb (Bool.eqb (a <? 0) (b <? 0)) && negb (r =? 0))%bool eqn:C; do 2 f_equal.
  - assert (- B62 <= r + b < B62) by (rewrite <- F; exact MB). wsolve.
  - assert (- B62 <= r < B62) by (rewrite <- F; exact MB). wsolve.
Qed.

(* ---------------------------------------------------------------- comparisons *)
Ltac bool_cases :=
  repeat match goal with
  | |- context [?x =? ?y] => destruct (Z.eqb_spec x y)
  | |- context [?x <? ?y] => destruct (Z.ltb_spec x y)
  | |- context [?x <=? ?y] => destruct (Z.leb_spec x y)
  end; cbn [negb]; try reflexivity; exfalso.

Lemma cmp_prepare a b (P : tagged -> tagged -> Prop) :
  (forall (Ha : - B62 <= a < B62) (Hb : - B62 <= b < B62), P (Short (u64 (a * 2))) (Short (u64 (b * 2)))) ->
  (forall (Ha : - B62 <= a < B62) (Hb : ~ - B62 <= b < B62), P (Short (u64 (a * 2))) (Long b)) ->
  (forall (Ha : ~ - B62 <= a < B62) (Hb : - B62 <= b < B62), P (Long a) (Short (u64 (b * 2)))) ->
  (forall (Ha : ~ - B62 <= a < B62) (Hb : ~ - B62 <= b < B62), P (Long a) (Long b)) ->
  P (tag a) (tag b).
Proof.
  intros H1 H2 H3 H4. unfold tag, from_object.
  destruct (fits63 a) eqn:Ea; destruct (fits63 b) eqn:Eb.
  - apply H1; now apply fits63_iff.
  - apply H2; [now apply fits63_iff | now apply fits63_false].
  - apply H3; [now apply fits63_false | now apply fits63_iff].
  - apply H4; now apply fits63_false.
Qed.

Theorem compare_tagged_correct op a b : compare_tagged op (tag a) (tag b) = py_cmp op a b.
Proof.
  apply (cmp_prepare a b (fun l r => compare_tagged op l r = py_cmp op a b)); intros Ha Hb; destruct op;
  cbv beta iota zeta delta [compare_tagged cmp_mapping is_short negb orb is_eq_ is_lt_ as_object raw_short_variant short_variant py_cmp];
  rewrite ?short_as_ssize_tagword by assumption; rewrite ?s64_tagword by assumption;
  bool_cases; try (consts; lia); try (apply tagword_inj in e; [lia | assumption | assumption]); try (subst; contradiction).
Qed.

Theorem runtime_compare_correct a b :
  tagged_is_eq (tag a) (tag b) = py_cmp CEq a b /\ tagged_is_ne (tag a) (tag b) = py_cmp CNe a b /\
  tagged_is_lt (tag a) (tag b) = py_cmp CLt a b /\ tagged_is_le (tag a) (tag b) = py_cmp CLe a b /\
  tagged_is_gt (tag a) (tag b) = py_cmp CGt a b /\ tagged_is_ge (tag a) (tag b) = py_cmp CGe a b.
Proof.
  apply (cmp_prepare a b (fun l r =>
    tagged_is_eq l r = py_cmp CEq a b /\ tagged_is_ne l r = py_cmp CNe a b /\
    tagged_is_lt l r = py_cmp CLt a b /\ tagged_is_le l r = py_cmp CLe a b /\
    tagged_is_gt l r = py_cmp CGt a b /\ tagged_is_ge l r = py_cmp CGe a b)); intros Ha Hb; repeat split;
  cbv beta iota zeta delta [tagged_is_eq tagged_is_ne tagged_is_lt tagged_is_le tagged_is_gt tagged_is_ge negb is_eq_ is_lt_ as_object py_cmp];
  rewrite ?short_as_ssize_tagword by assumption; rewrite ?s64_tagword by assumption;
  bool_cases; try (consts; lia); try (apply tagword_inj in e; [lia | assumption | assumption]); try (subst; contradiction).
Qed.
