(* C15 — the full-strength statement over the model (parts proved in Properties.v are named there).
   "Compiled arithmetic, comparison, bitwise, shift, division, modulo, negation and conversion operations on int, bool
   and the fixed-width types return exactly the value CPython returns, or raise the same exception type, for all
   operands including every boundary between the unboxed and heap representations; fixed width: whenever the exact
   result fits; int -> native conversion rejected exactly when out of range; u8 wraps modulo 256." *)
From Coq Require Import ZArith Bool.
From C15 Require Import Model.
Open Scope Z_scope.

(* every tagged primitive returns the canonical tagging of the Python result (hence: same value, and the result is
   short iff it fits 63 bits), or raises the same exception *)
Definition tagged_ops_correct : Prop :=
  forall a b,
    tagged_negate (tag a) = tag (py_neg a) /\
    tagged_invert (tag a) = tag (py_invert a) /\
    tagged_add (tag a) (tag b) = tag (py_add a b) /\
    tagged_subtract (tag a) (tag b) = tag (py_sub a b) /\
    tagged_multiply (tag a) (tag b) = tag (py_mul a b) /\
    tagged_floordiv (tag a) (tag b) = rmap tag (py_floordiv a b) /\
    tagged_remainder (tag a) (tag b) = rmap tag (py_mod a b) /\
    tagged_and (tag a) (tag b) = tag (py_and a b) /\
    tagged_or (tag a) (tag b) = tag (py_or a b) /\
    tagged_xor (tag a) (tag b) = tag (py_xor a b) /\
    tagged_lshift (tag a) (tag b) = rmap tag (py_lshift a b) /\
    tagged_rshift (tag a) (tag b) = rmap tag (py_rshift a b).

Definition comparisons_correct : Prop :=
  forall op a b, compare_tagged op (tag a) (tag b) = py_cmp op a b.

Definition representation_canonical : Prop :=
  forall a, untag (tag a) = a /\ wf (tag a) /\ (is_short (tag a) = true <-> - B62 <= a < B62).

(* fixed width: same value whenever the exact result fits, same exception otherwise defined by Python;
   shifts: for counts inside [0, bits) — FOR ALL counts the statement is false of the code (C undefined behaviour),
   see the findings native-shift:* in notes/C15.md *)
Definition fixed_width_correct : Prop :=
  forall t op x y, in_range t x = true -> in_range t y = true ->
    ((op = FShl \/ op = FShr) -> 0 <= y < fw_bits t) ->
    match py_fwop op x y with
    | Ok v => in_range t v = true -> fw_op t op x y = FOk v
    | Raise e => fw_op t op x y = FRaise e
    end.

Definition fixed_width_shift_all_counts : Prop :=      (* what the property text asks; refuted by the model: FUndefined *)
  forall t op x y, (op = FShl \/ op = FShr) -> in_range t x = true -> in_range t y = true ->
    match py_fwop op x y with
    | Ok v => in_range t v = true -> fw_op t op x y = FOk v
    | Raise e => fw_op t op x y = FRaise e
    end.

Definition conversions_correct : Prop :=
  forall t a, coerce_int_to_fw t (tag a) = (if in_range t a then Ok a else Raise ValueError)
           /\ (in_range t a = true -> coerce_fw_to_int t a = tag a).

Definition u8_wraps : Prop :=
  forall op x y v, (op = FAdd \/ op = FSub \/ op = FMul) -> py_fwop op x y = Ok v -> fw_op U8 op x y = FOk (v mod 256).

Definition C15_statement : Prop :=
  tagged_ops_correct /\ comparisons_correct /\ representation_canonical /\ fixed_width_correct /\ conversions_correct /\ u8_wraps.
