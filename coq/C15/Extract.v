From Coq Require Import ZArith List Bool Extraction ExtrOcamlBasic.
From C15 Require Import Model FloatModel.
From Coq Require Import String.
(* zio.ml (shared I/O helpers) mentions the extracted Coq string type; make the extraction contain it *)
Definition io_string_witness : string := EmptyString.
Extraction "c15.ml" tag untag from_object as_object from_ssize too_big
  is_add_overflow is_sub_overflow is_mul_overflow maybe_floordiv_fault maybe_remainder_fault is_short_lshift_overflow
  tagged_negate tagged_invert tagged_add tagged_subtract tagged_multiply tagged_floordiv tagged_remainder
  tagged_bit_length py_bit_length tagged_and tagged_or tagged_xor tagged_rshift tagged_lshift
  tagged_is_eq tagged_is_ne tagged_is_lt tagged_is_le tagged_is_gt tagged_is_ge compare_tagged
  fw_op fw_inline_divide fw_inline_mod fw_neg fw_invert fw_wrap in_range coerce_int_to_fw coerce_fw_to_int long_as_fw
  py_add py_sub py_mul py_neg py_invert py_and py_or py_xor py_floordiv py_mod py_lshift py_rshift py_cmp py_fwop
  bool_to_tagged bool_to_z u64 s64 io_string_witness
  bits_to_sf sf_to_bits c_floordiv py_float_floor_div c_float_mod py_float_rem c_float_truediv py_float_truediv
  c_from_float py_int_of_float c_floor c_ceil ffloor fceil c_from_tagged py_float_of_int c_truediv py_truediv
  c_int_float_cmp py_int_float_cmp fcmp fadd fsub fmul fopp fabs c_fw_to_float c_float_to_fw py_float_to_fw.
