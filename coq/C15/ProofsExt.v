(* C15 — final extension: // and % pair consistency (divmod law), width conversions between native types,
   int -> native -> int round trip, and the error-value rule for MIN // -1 *)
From Coq Require Import ZArith Bool Lia.
From C15 Require Import Model Proofs Proofs2 ProofsFixed ProofsErr.
Open Scope Z_scope.
Ltac Zify.zify_post_hook ::= Z.to_euclidean_division_equations.

Theorem divmod_pair_tagged a b : b <> 0 ->
  exists q r, tagged_floordiv (tag a) (tag b) = Ok (tag q) /\ tagged_remainder (tag a) (tag b) = Ok (tag r) /\
              a = b * q + r /\ (0 <= r < b \/ b < r <= 0).
Proof.
  intros Hb. exists (a / b), (a mod b).
  rewrite floordiv_correct, remainder_correct. unfold py_floordiv, py_mod.
  destruct (Z.eqb_spec b 0); [contradiction|]. cbn [rmap].
  split; [reflexivity|]. split; [reflexivity|]. split.
  - apply Z.div_mod; assumption.
  - destruct (Z.ltb_spec 0 b); [left; apply Z.mod_pos_bound; lia | right; apply Z.mod_neg_bound; lia].
Qed.

Theorem divmod_zero_tagged a :
  tagged_floordiv (tag a) (tag 0) = Raise ZeroDivisionError /\ tagged_remainder (tag a) (tag 0) = Raise ZeroDivisionError.
Proof. rewrite floordiv_correct, remainder_correct. split; reflexivity. Qed.

Theorem divmod_pair_fixed t x y :
  fw_signed t = true -> in_range t x = true -> in_range t y = true -> y <> 0 -> in_range t (x / y) = true ->
  exists q r, fw_op t FDiv x y = FOk q /\ fw_op t FMod x y = FOk r /\ x = y * q + r /\ (0 <= r < y \/ y < r <= 0).
Proof.
  intros S Rx Ry Hy Rq. exists (x / y), (x mod y).
  rewrite (fw_divide_correct t x y S Rx Ry), (fw_remainder_correct t x y S Rx Ry).
  destruct (Z.eqb_spec y 0); [contradiction|]. rewrite Rq.
  split; [reflexivity|]. split; [reflexivity|]. split.
  - apply Z.div_mod; assumption.
  - destruct (Z.ltb_spec 0 y); [left; apply Z.mod_pos_bound; lia | right; apply Z.mod_neg_bound; lia].
Qed.

Theorem divmod_pair_u8 x y :
  in_range U8 x = true -> in_range U8 y = true -> y <> 0 ->
  exists q r, fw_op U8 FDiv x y = FOk q /\ fw_op U8 FMod x y = FOk r /\ x = y * q + r /\ 0 <= r < y.
Proof.
  intros Rx Ry Hy. exists (x / y), (x mod y).
  destruct (u8_divmod_correct x y Rx Ry) as [D M]. rewrite D, M.
  destruct (Z.eqb_spec y 0); [contradiction|].
  apply in_range_iff in Ry. unfold fw_lower, fw_upper in Ry. cbn [fw_signed] in Ry.
  split; [reflexivity|]. split; [reflexivity|]. split; [apply Z.div_mod; assumption | apply Z.mod_pos_bound; lia].
Qed.

(* MIN // -1: the exact quotient does not fit; the C helper raises OverflowError by returning the error value with the
   error indicator set, and the caller (declared ERR_MAGIC_OVERLAPPING) sees an error, never the value *)
Theorem divide_overflow_rule t :
  fw_signed t = true ->
  fw_op t FDiv (fw_lower t) (-1) = FRaise OverflowError /\
  c_return t (FRaise OverflowError) = Some (fw_magic t, true) /\
  caller_sees ErrMagicOverlapping t (fw_magic t, true) = SError.
Proof.
  intros S. split; [|split].
  - destruct t; try discriminate; vm_compute; reflexivity.
  - reflexivity.
  - cbn [caller_sees]. now rewrite Z.eqb_refl.
Qed.

(* explicit conversion between native widths (Truncate / Extend): value preserved when it fits, otherwise wrapped *)
Theorem width_conversion_correct t x :
  in_range t (fw_wrap t x) = true /\ (fw_wrap t x - x) mod fw_modulus t = 0 /\ (in_range t x = true -> fw_wrap t x = x).
Proof.
  split; [apply fw_wrap_in_range|]. split; [|apply fw_wrap_id].
  destruct t; unfold fw_wrap, fw_modulus, fw_upper, fw_signed; consts; lia.
Qed.

(* int -> native -> int is the identity exactly on the range of the native type *)
Theorem int_native_roundtrip t a :
  (in_range t a = true -> exists v, coerce_int_to_fw t (tag a) = Ok v /\ coerce_fw_to_int t v = tag a) /\
  (in_range t a = false -> coerce_int_to_fw t (tag a) = Raise ValueError).
Proof.
  rewrite coerce_int_to_fw_exact. split; intros R; rewrite R; [|reflexivity].
  exists a. split; [reflexivity | now apply coerce_fw_to_int_correct].
Qed.

(* int.bit_length *)
Lemma log2_bound x n : 0 < x < 2 ^ n -> 0 <= n -> 0 <= Z.log2 x < n.
Proof. intros H Hn. split; [apply Z.log2_nonneg|]. apply Z.log2_lt_pow2; lia. Qed.
Theorem bit_length_correct a :
  Z.log2 (Z.abs a) < 2147483647 -> tagged_bit_length (tag a) = tag (py_bit_length a).
Proof.
  intros HL. unfold tag at 1, from_object. destruct (fits63 a) eqn:E; cbn [tagged_bit_length].
  - apply fits63_iff in E. rewrite short_as_ssize_tagword by assumption.
    destruct (Z.eqb_spec (u64 (a * 2)) 0) as [W|W].
    + assert (a = 0) by wsolve. subst. reflexivity.
    + assert (Ha : a <> 0) by (intro; subst; apply W; reflexivity).
      assert (Eabs : (if a <? 0 then - a else a) = Z.abs a) by (destruct (Z.ltb_spec a 0); lia).
      rewrite Eabs. destruct (Z.eqb_spec (Z.abs a) 0); [lia|].
      unfold py_bit_length. destruct (Z.eqb_spec a 0); [contradiction|].
      assert (B : 0 <= Z.log2 (Z.abs a) < 63).
      { apply log2_bound; [|lia]. change (2 ^ 63) with 9223372036854775808. consts. lia. }
      unfold tag, from_object.
      assert (F : fits63 (Z.log2 (Z.abs a) + 1) = true) by (apply fits63_iff; consts; lia). now rewrite F.
  - unfold tag, from_object.
    assert (F : fits63 (py_bit_length a) = true).
    { apply fits63_iff. unfold py_bit_length. destruct (a =? 0); pose proof (Z.log2_nonneg (Z.abs a)); consts; lia. }
    now rewrite F.
Qed.
