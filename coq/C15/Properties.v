(* Property C15 — compiled numeric primitives compute exactly what Python computes.
   Only theorem statements closed by `exact`, each followed by Print Assumptions.
   All theorems quantify over ALL integers (Z): every short/long boundary is covered. *)
From Coq Require Import ZArith Bool List SpecFloat.
From C15 Require Import Model Statement Proofs Proofs2 Proofs3 ProofsFixed ProofsErr ProofsExt FloatModel FloatProofs.
From Gen Require Import C15ErrKinds.
Open Scope Z_scope.

(* representation: tagging is invertible, well formed, and short exactly when the value fits 63 bits *)
Theorem representation_canonical_holds : representation_canonical.
Proof. intro a. exact (conj (untag_tag a) (conj (tag_wf a) (tag_canonical a))). Qed.
Print Assumptions representation_canonical_holds.

Theorem every_wf_value_is_a_tag : forall t, wf t -> t = tag (untag t).
Proof. exact wf_tag_untag. Qed.
Print Assumptions every_wf_value_is_a_tag.

Theorem from_ssize_t_correct : forall v, - B63 <= v < B63 -> from_ssize v = tag v.
Proof. exact from_ssize_correct. Qed.
Print Assumptions from_ssize_t_correct.

(* arithmetic fast paths + overflow tests + slow paths: result = canonical tagging of the Python result *)
Theorem add_op_correct : forall a b, tagged_add (tag a) (tag b) = tag (py_add a b).
Proof. exact add_correct. Qed.
Print Assumptions add_op_correct.

Theorem subtract_op_correct : forall a b, tagged_subtract (tag a) (tag b) = tag (py_sub a b).
Proof. exact subtract_correct. Qed.
Print Assumptions subtract_op_correct.

Theorem negate_op_correct : forall a, tagged_negate (tag a) = tag (py_neg a).
Proof. exact negate_correct. Qed.
Print Assumptions negate_op_correct.

Theorem multiply_op_correct : forall a b, tagged_multiply (tag a) (tag b) = tag (py_mul a b).
Proof. exact multiply_correct. Qed.
Print Assumptions multiply_op_correct.

(* floor division / modulo: Python rounding and sign rules, ZeroDivisionError exactly when b = 0, -2^62 // -1 included *)
Theorem floordiv_op_correct : forall a b, tagged_floordiv (tag a) (tag b) = rmap tag (py_floordiv a b).
Proof. exact floordiv_correct. Qed.
Print Assumptions floordiv_op_correct.

Theorem remainder_op_correct : forall a b, tagged_remainder (tag a) (tag b) = rmap tag (py_mod a b).
Proof. exact remainder_correct. Qed.
Print Assumptions remainder_op_correct.

(* bitwise operations and shifts: fast paths on the tagged words, overflow check by shifting back, slow paths *)
Theorem invert_op_correct : forall a, tagged_invert (tag a) = tag (py_invert a).
Proof. exact invert_correct. Qed.
Print Assumptions invert_op_correct.

Theorem and_op_correct : forall a b, tagged_and (tag a) (tag b) = tag (py_and a b).
Proof. exact and_correct. Qed.
Print Assumptions and_op_correct.

Theorem or_op_correct : forall a b, tagged_or (tag a) (tag b) = tag (py_or a b).
Proof. exact or_correct. Qed.
Print Assumptions or_op_correct.

Theorem xor_op_correct : forall a b, tagged_xor (tag a) (tag b) = tag (py_xor a b).
Proof. exact xor_correct. Qed.
Print Assumptions xor_op_correct.

(* ValueError exactly for a negative count; counts >= 64 give 0 / -1; result canonical *)
Theorem rshift_op_correct : forall a b, tagged_rshift (tag a) (tag b) = rmap tag (py_rshift a b).
Proof. exact rshift_correct. Qed.
Print Assumptions rshift_op_correct.

Theorem lshift_op_correct : forall a b, tagged_lshift (tag a) (tag b) = rmap tag (py_lshift a b).
Proof. exact lshift_correct. Qed.
Print Assumptions lshift_op_correct.

(* the full statement for the tagged primitives: every operation, all integers *)
Theorem tagged_ops_correct_holds : tagged_ops_correct.
Proof.
  intros a b.
  exact (conj (negate_correct a) (conj (invert_correct a) (conj (add_correct a b) (conj (subtract_correct a b)
        (conj (multiply_correct a b) (conj (floordiv_correct a b) (conj (remainder_correct a b)
        (conj (and_correct a b) (conj (or_correct a b) (conj (xor_correct a b)
        (conj (lshift_correct a b) (rshift_correct a b)))))))))))).
Qed.
Print Assumptions tagged_ops_correct_holds.

(* comparisons: the lowering (compare_tagged) and the C runtime versions *)
Theorem comparisons_correct_holds : comparisons_correct.
Proof. exact compare_tagged_correct. Qed.
Print Assumptions comparisons_correct_holds.

Theorem runtime_comparisons_correct : forall a b,
  tagged_is_eq (tag a) (tag b) = py_cmp CEq a b /\ tagged_is_ne (tag a) (tag b) = py_cmp CNe a b /\
  tagged_is_lt (tag a) (tag b) = py_cmp CLt a b /\ tagged_is_le (tag a) (tag b) = py_cmp CLe a b /\
  tagged_is_gt (tag a) (tag b) = py_cmp CGt a b /\ tagged_is_ge (tag a) (tag b) = py_cmp CGe a b.
Proof. exact runtime_compare_correct. Qed.
Print Assumptions runtime_comparisons_correct.

(* conversions int <-> native *)
Theorem conversions_correct_holds : conversions_correct.
Proof. intros t a. exact (conj (coerce_int_to_fw_exact t a) (coerce_fw_to_int_correct t a)). Qed.
Print Assumptions conversions_correct_holds.

Theorem coerce_rejects_iff_out_of_range : forall t a,
  (exists e, coerce_int_to_fw t (tag a) = Raise e) <-> ~ (fw_lower t <= a < fw_upper t).
Proof. exact ProofsFixed.coerce_rejects_iff_out_of_range. Qed.
Print Assumptions coerce_rejects_iff_out_of_range.

(* fixed-width arithmetic *)
Theorem fixed_arith_correct : forall t op x y v,
  (op = FAdd \/ op = FSub \/ op = FMul \/ op = FAnd \/ op = FOr \/ op = FXor) ->
  py_fwop op x y = Ok v -> in_range t v = true -> fw_op t op x y = FOk v.
Proof. exact fw_arith_correct. Qed.
Print Assumptions fixed_arith_correct.

Theorem u8_wraps_mod_256 : u8_wraps.
Proof. exact ProofsFixed.u8_wraps_mod_256. Qed.
Print Assumptions u8_wraps_mod_256.

Theorem fixed_divide_correct : forall t x y,
  fw_signed t = true -> in_range t x = true -> in_range t y = true ->
  fw_op t FDiv x y = if y =? 0 then FRaise ZeroDivisionError
                     else if in_range t (x / y) then FOk (x / y) else FRaise OverflowError.
Proof. exact fw_divide_correct. Qed.
Print Assumptions fixed_divide_correct.

Theorem fixed_remainder_correct : forall t x y,
  fw_signed t = true -> in_range t x = true -> in_range t y = true ->
  fw_op t FMod x y = if y =? 0 then FRaise ZeroDivisionError else FOk (x mod y).
Proof. exact fw_remainder_correct. Qed.
Print Assumptions fixed_remainder_correct.

Theorem u8_divide_remainder_correct : forall x y,
  in_range U8 x = true -> in_range U8 y = true ->
  fw_op U8 FDiv x y = (if y =? 0 then FRaise ZeroDivisionError else FOk (x / y)) /\
  fw_op U8 FMod x y = (if y =? 0 then FRaise ZeroDivisionError else FOk (x mod y)).
Proof. exact u8_divmod_correct. Qed.
Print Assumptions u8_divide_remainder_correct.

Theorem inline_divide_mod_correct : forall t x y,
  fw_signed t = true -> in_range t x = true -> in_range t y = true -> y <> 0 -> y <> -1 ->
  fw_inline_divide t x y = x / y /\ fw_inline_mod t x y = x mod y.
Proof. exact fw_inline_correct. Qed.
Print Assumptions inline_divide_mod_correct.

Theorem fixed_shift_correct_in_range_counts : forall t x y,
  0 <= y < fw_bits t ->
  (in_range t (x * 2 ^ y) = true -> fw_op t FShl x y = FOk (x * 2 ^ y)) /\ fw_op t FShr x y = FOk (x / 2 ^ y).
Proof. exact fw_shift_correct. Qed.
Print Assumptions fixed_shift_correct_in_range_counts.

Theorem fixed_negate_invert_correct : forall t x,
  (in_range t (- x) = true -> fw_neg t x = - x) /\ (fw_signed t = true -> fw_invert t x = py_invert x).
Proof. intros t x. exact (conj (fw_neg_correct t x) (fw_invert_signed_correct t x)). Qed.
Print Assumptions fixed_negate_invert_correct.

Theorem u8_invert_wraps : forall x, in_range U8 x = true -> fw_invert U8 x = (py_invert x) mod 256.
Proof. exact u8_invert_correct. Qed.
Print Assumptions u8_invert_wraps.

(* all fixed-width operators at once (shift counts inside [0, bits)) *)
Theorem fixed_width_correct_holds : fixed_width_correct.
Proof. exact ProofsFixed.fixed_width_correct_holds. Qed.
Print Assumptions fixed_width_correct_holds.

(* the complete statement of Statement.v *)
Theorem C15_statement_holds : C15_statement.
Proof.
  exact (conj tagged_ops_correct_holds (conj comparisons_correct_holds (conj representation_canonical_holds
        (conj fixed_width_correct_holds (conj conversions_correct_holds u8_wraps_mod_256))))).
Qed.
Print Assumptions C15_statement_holds.

(* The property text asks fixed-width shifts to agree with Python for EVERY count whose exact result fits;
   the faithful model refutes it: a count outside [0, bits) is C undefined behaviour (findings native-shift). *)
Theorem fixed_width_shift_all_counts_refuted : ~ fixed_width_shift_all_counts.
Proof.
  intro H.
  assert (G := H I64 FShr 5 64 (or_intror (eq_refl FShr)) (eq_refl true) (eq_refl true)).
  vm_compute in G.
  assert (G2 := G (eq_refl true)).
  discriminate G2.
Qed.
Print Assumptions fixed_width_shift_all_counts_refuted.

(* error-value convention of the native-returning C primitives (table regenerated from /repo on every run) *)
Theorem error_value_convention_sound : forall t r ret,
  c_return t r = Some ret -> Some (caller_sees ErrMagicOverlapping t ret) = expected_seen r.
Proof. exact overlapping_sound. Qed.
Print Assumptions error_value_convention_sound.

(* a primitive declared ERR_MAGIC takes the error path with no exception set when the result is the magic value,
   and that value is a legitimate result (e.g. -113 % -200) *)
Theorem err_magic_would_be_unsound : forall t,
  (exists r ret, c_return t r = Some ret /\ expected_seen r = Some (SValue (fw_magic t)) /\
                 caller_sees ErrMagic t ret = SErrorPathWithoutException) /\
  (exists x y, in_range t x = true /\ in_range t y = true /\ fw_op t FMod x y = FOk (fw_magic t)).
Proof. intro t. exact (conj (magic_unsound t) (magic_reachable t)). Qed.
Print Assumptions err_magic_would_be_unsound.

Theorem declared_error_kinds_sound :
  forallb (fun e => errkind_sound (snd e)) err_table = true /\ (forall t, src_magic t = fw_magic t /\ src_magic_float = -113).
Proof. exact (conj err_table_sound src_magic_matches). Qed.
Print Assumptions declared_error_kinds_sound.

(* ------------------------------------------------------------------ divmod law, width conversions, round trips *)
(* `a // b` and `a % b` as compiled form a consistent pair: a = b*q + r with the remainder taking the sign of the divisor *)
Theorem divmod_pair_correct : forall a b, b <> 0 ->
  exists q r, tagged_floordiv (tag a) (tag b) = Ok (tag q) /\ tagged_remainder (tag a) (tag b) = Ok (tag r) /\
              a = b * q + r /\ (0 <= r < b \/ b < r <= 0).
Proof. exact divmod_pair_tagged. Qed.
Print Assumptions divmod_pair_correct.

Theorem divmod_by_zero_raises : forall a,
  tagged_floordiv (tag a) (tag 0) = Raise ZeroDivisionError /\ tagged_remainder (tag a) (tag 0) = Raise ZeroDivisionError.
Proof. exact divmod_zero_tagged. Qed.
Print Assumptions divmod_by_zero_raises.

Theorem divmod_pair_correct_native : forall t x y,
  fw_signed t = true -> in_range t x = true -> in_range t y = true -> y <> 0 -> in_range t (x / y) = true ->
  exists q r, fw_op t FDiv x y = FOk q /\ fw_op t FMod x y = FOk r /\ x = y * q + r /\ (0 <= r < y \/ y < r <= 0).
Proof. exact divmod_pair_fixed. Qed.
Print Assumptions divmod_pair_correct_native.

Theorem divmod_pair_correct_u8 : forall x y,
  in_range U8 x = true -> in_range U8 y = true -> y <> 0 ->
  exists q r, fw_op U8 FDiv x y = FOk q /\ fw_op U8 FMod x y = FOk r /\ x = y * q + r /\ 0 <= r < y.
Proof. exact divmod_pair_u8. Qed.
Print Assumptions divmod_pair_correct_u8.

(* MIN // -1 raises OverflowError through the error value, decoded as an error under the declared error kind *)
Theorem native_divide_overflow_rule : forall t, fw_signed t = true ->
  fw_op t FDiv (fw_lower t) (-1) = FRaise OverflowError /\
  c_return t (FRaise OverflowError) = Some (fw_magic t, true) /\
  caller_sees ErrMagicOverlapping t (fw_magic t, true) = SError.
Proof. exact divide_overflow_rule. Qed.
Print Assumptions native_divide_overflow_rule.

(* i64/i32/i16/u8 explicit conversions between widths: in range, congruent modulo 2^bits, identity when the value fits *)
Theorem width_conversion_correct : forall t x,
  in_range t (fw_wrap t x) = true /\ (fw_wrap t x - x) mod fw_modulus t = 0 /\ (in_range t x = true -> fw_wrap t x = x).
Proof. exact ProofsExt.width_conversion_correct. Qed.
Print Assumptions width_conversion_correct.

Theorem int_native_int_roundtrip : forall t a,
  (in_range t a = true -> exists v, coerce_int_to_fw t (tag a) = Ok v /\ coerce_fw_to_int t v = tag a) /\
  (in_range t a = false -> coerce_int_to_fw t (tag a) = Raise ValueError).
Proof. exact int_native_roundtrip. Qed.
Print Assumptions int_native_int_roundtrip.

(* int.bit_length: fast path via count-leading-zeros on |value|, boxed path via _PyLong_NumBits; the hypothesis only excludes
   integers of more than 2^31 bits (the C code keeps the count in an `int`) *)
Theorem bit_length_correct : forall a,
  Z.log2 (Z.abs a) < 2147483647 -> tagged_bit_length (tag a) = tag (py_bit_length a).
Proof. exact ProofsExt.bit_length_correct. Qed.
Print Assumptions bit_length_correct.

(* ------------------------------------------------------------------ floats (binary64 = SpecFloat prec 53 emax 1024) *)
(* float // float and float / float: the C code is CPython's algorithm, ZeroDivisionError iff the divisor is +-0 *)
Theorem float_floordiv_correct : forall x y, c_floordiv x y = py_float_floor_div x y.
Proof. exact floordiv_same. Qed.
Print Assumptions float_floordiv_correct.

Theorem float_truediv_correct : forall x y, c_float_truediv x y = py_float_truediv x y.
Proof. exact float_truediv_same. Qed.
Print Assumptions float_truediv_correct.

(* float % float: mypyc's lowering (fmod, sign test on the OPERANDS, copysign for a zero remainder) = float_rem
   (sign test on the REMAINDER), for all operands incl. zeros, infinities and NaN *)
Theorem float_mod_lowering_correct : forall x y, c_float_mod x y = py_float_rem x y.
Proof. exact float_mod_correct. Qed.
Print Assumptions float_mod_lowering_correct.

(* int -> float: exact C cast for short ints, PyLong_AsDouble for boxed ones; OverflowError iff |a| >= 2^1024 - 2^970 *)
Theorem int_to_float_correct : forall a, c_from_tagged (tag a) = py_float_of_int a.
Proof. exact from_tagged_correct. Qed.
Print Assumptions int_to_float_correct.

Theorem native_to_float_correct : forall t x, in_range t x = true -> c_fw_to_float x = py_float_of_int x.
Proof. exact fw_to_float_correct. Qed.
Print Assumptions native_to_float_correct.

(* float -> int: truncation, ValueError for NaN, OverflowError for infinities, canonical tagging of the result *)
Theorem float_to_int_correct : forall f,
  valid_binary fprec femax f = true -> c_from_float f = rmap tag (py_int_of_float f).
Proof. exact from_float_correct. Qed.
Print Assumptions float_to_int_correct.

Theorem float_to_native_correct : forall t f,
  valid_binary fprec femax f = true -> c_float_to_fw t f = py_float_to_fw t f.
Proof. exact float_to_fw_correct. Qed.
Print Assumptions float_to_native_correct.

(* int / int: equal to CPython when both operands are below 2^53 (CPython's own fast path) or one is boxed ... *)
Theorem int_truediv_correct_below_2p53 : forall a b,
  Z.abs a < B53 -> Z.abs b < B53 -> c_truediv (tag a) (tag b) = py_truediv a b.
Proof. exact truediv_small_correct. Qed.
Print Assumptions int_truediv_correct_below_2p53.

Theorem int_truediv_correct_boxed : forall a b,
  fits63 a = false \/ fits63 b = false -> b <> 0 -> c_truediv (tag a) (tag b) = py_truediv a b.
Proof. exact truediv_boxed_correct. Qed.
Print Assumptions int_truediv_correct_boxed.

(* ... and REFUTED for short operands above 2^53 (known finding int-truediv:double-rounding-above-2^53) *)
Theorem int_truediv_refuted :
  exists a b, fits63 a = true /\ fits63 b = true /\ b <> 0 /\ c_truediv (tag a) (tag b) <> py_truediv a b.
Proof. exact truediv_refuted. Qed.
Print Assumptions int_truediv_refuted.

(* int == float: REFUTED (known finding int-float-comparison:int-operand-converted-to-double) *)
Theorem int_float_comparison_refuted :
  (exists a f, c_int_float_cmp CEq (tag a) f = BVal true /\ py_int_float_cmp CEq a f = false) /\
  (exists a f e, c_int_float_cmp CEq (tag a) f = BErr e /\ py_int_float_cmp CEq a f = false).
Proof. exact int_float_cmp_refuted. Qed.
Print Assumptions int_float_comparison_refuted.

(* hypotheses are satisfiable / boundary witnesses *)
Example ex_divmod_hyp : in_range I16 (-32768) = true /\ in_range I16 7 = true /\ in_range I16 (-32768 / 7) = true /\
  fw_op I16 FDiv (-32768) 7 = FOk (-4682) /\ fw_op I16 FMod (-32768) 7 = FOk 6.
Proof. vm_compute. repeat split; reflexivity. Qed.
Example ex_bit_length : Z.log2 (Z.abs (- B62)) < 2147483647 /\ tagged_bit_length (tag (- B62)) = tag 63 /\ tagged_bit_length (tag (B64 + 1)) = tag 65.
Proof. vm_compute. repeat split; reflexivity. Qed.
Example ex_width : fw_wrap U8 300 = 44 /\ fw_wrap I16 40000 = -25536 /\ in_range I32 40000 = true.
Proof. vm_compute. repeat split; reflexivity. Qed.
Example ex_float_valid : valid_binary fprec femax f_2p62 = true /\ c_from_float f_2p62 = Ok (Long B62).
Proof. vm_compute. split; reflexivity. Qed.
Example ex_float_mod : c_float_mod (fopp (of_Z 15)) (of_Z 4) = FVal (of_Z 1) /\ c_float_mod (of_Z 1) fzero = FErr ZeroDivisionError.
Proof. vm_compute. split; reflexivity. Qed.
Example ex_add_boundary : tagged_add (tag (B62 - 1)) (tag 1) = Long B62.
Proof. vm_compute. reflexivity. Qed.
Example ex_floordiv_boundary : tagged_floordiv (tag (- B62)) (tag (-1)) = Ok (Long B62).
Proof. vm_compute. reflexivity. Qed.
Example ex_mul_fast : tagged_multiply (tag 1073741823) (tag 1073741823) = Short (2 * (1073741823 * 1073741823)).
Proof. vm_compute. reflexivity. Qed.
Example ex_div_i64_overflow : fw_op I64 FDiv (- B63) (-1) = FRaise OverflowError.
Proof. vm_compute. reflexivity. Qed.
Example ex_coerce_u8 : coerce_int_to_fw U8 (tag 255) = Ok 255 /\ coerce_int_to_fw U8 (tag 256) = Raise ValueError.
Proof. vm_compute. split; reflexivity. Qed.
Example ex_inline : fw_signed I32 = true /\ in_range I32 (-7) = true /\ in_range I32 3 = true /\ fw_inline_divide I32 (-7) 3 = -3.
Proof. vm_compute. repeat split; reflexivity. Qed.
Example ex_u8_wrap : fw_op U8 FAdd 200 100 = FOk 44.
Proof. vm_compute. reflexivity. Qed.
Example ex_lshift_boundary : tagged_lshift (tag 1) (tag 62) = Ok (Long B62) /\ tagged_lshift (tag 1) (tag 61) = Ok (Short B62).
Proof. vm_compute. split; reflexivity. Qed.
Example ex_rshift_big_count : tagged_rshift (tag (-5)) (tag 70) = Ok (tag (-1)) /\ tagged_rshift (tag 1) (tag (-1)) = Raise ValueError.
Proof. vm_compute. split; reflexivity. Qed.
Example ex_fixed_hyp : in_range I16 (-32768) = true /\ in_range I16 3 = true /\ fw_op I16 FShr (-32768) 3 = FOk (-4096).
Proof. vm_compute. repeat split; reflexivity. Qed.
Example ex_wf : wf (Long B62) /\ wf (Short 10).
Proof. vm_compute. repeat split; intros; discriminate. Qed.
