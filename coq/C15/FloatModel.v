(* C15 — binary64 model of mypyc's float primitives and of the CPython reference semantics (definitions only).

   Floats are Coq's `SpecFloat.spec_float` with prec = 53, emax = 1024: the standard library's IEEE-754 specification,
   i.e. exactly the functions that `FloatAxioms` states `PrimFloat` (the kernel's hardware doubles) to implement.
   Everything here is plain Gallina over Z, so theorems are closed under the global context (no Reals, no FloatAxioms).
   NaN payloads and the sign of NaN are not modelled (spec_float has a single NaN).

   C side (mypyc):   lib-rt/float_ops.c  CPyFloat_FromTagged, CPyFloat_FloorDivide + _float_div_mod, CPyFloat_Floor/Ceil
                     lib-rt/int_ops.c    CPyTagged_FromFloat, CPyTagged_TrueDivide
                     irbuild/ll_builder.py  float_op (zero check), float_mod (fmod + sign fix-up), compare_floats,
                                            int_to_float before int/float comparison, binary_op int/float mixing
   Python side (CPython 3.12, transcribed from Objects/floatobject.c and Objects/longobject.c):
                     _float_div_mod / float_floor_div, float_rem, float___trunc___impl (PyLong_FromDouble),
                     PyLong_AsDouble (overflow at 2^1024 - 2^970), long_true_divide (fast path for |a|,|b| < 2^53; the general
                     shift-and-round path is specified as the correctly rounded quotient: SFdiv on the exact integers),
                     float_richcompare with an int operand (exact comparison). *)
From Coq Require Import ZArith Bool SpecFloat.
From C15 Require Import Model.
Open Scope Z_scope.

Definition fprec : Z := 53.
Definition femax : Z := 1024.
Notation fl := spec_float.

Definition fadd := SFadd fprec femax.
Definition fsub := SFsub fprec femax.
Definition fmul := SFmul fprec femax.
Definition fdiv := SFdiv fprec femax.
Definition fopp := SFopp.
Definition fabs := SFabs.
Definition feq := SFeqb.          (* C `==` on doubles (false when unordered) *)
Definition flt := SFltb.          (* C `<` *)
Definition fle := SFleb.          (* C `<=` *)

Definition fzero : fl := S754_zero false.
Definition f_one : fl := S754_finite false 4503599627370496 (-52).
Definition f_half : fl := S754_finite false 4503599627370496 (-53).
Definition f_2p62 : fl := S754_finite false 4503599627370496 10.       (* (double)CPY_TAGGED_MAX + 1.0 *)
Definition f_m2p62 : fl := S754_finite true 4503599627370496 10.       (* CPY_TAGGED_MIN - 1.0 (rounds to -2^62) *)

Definition truthy (f : fl) : bool := negb (feq f fzero).                (* C `if (x)`: NaN is true *)
Definition is_nan (f : fl) : bool := match f with S754_nan => true | _ => false end.
Definition is_inf (f : fl) : bool := match f with S754_infinity _ => true | _ => false end.
Definition sign_of (f : fl) : bool :=
  match f with S754_zero s | S754_infinity s | S754_finite s _ _ => s | S754_nan => false end.
Definition copysign0 (w : fl) : fl := S754_zero (sign_of w).            (* copysign(0.0, w) *)

(* (double)n for an integer n: round to nearest even (C cast of ssize_t/int64, and PyLong_AsDouble when it does not overflow) *)
Definition of_Z (z : Z) : fl := binary_normalize fprec femax z 0 false.
(* the integer z as an exact (not normalised) binary value, operand of the correctly rounded division *)
Definition exactZ (z : Z) : fl :=
  match z with Z0 => S754_zero false | Zpos p => S754_finite false p 0 | Zneg p => S754_finite true p 0 end.

(* the value R * 2^e (R >= 0, exactly representable) with sign s *)
Definition mk_exact (s : bool) (R e : Z) : fl :=
  match R with
  | Zpos p =>
      match binary_normalize fprec femax (Zpos p) e false with
      | S754_finite _ m' e' => S754_finite s m' e'
      | S754_infinity _ => S754_infinity s
      | _ => S754_zero s
      end
  | _ => S754_zero s
  end.

(* C99 fmod: exact; sign of x; NaN for x infinite or y zero *)
Definition fmod (x y : fl) : fl :=
  match x, y with
  | S754_nan, _ | _, S754_nan => S754_nan
  | S754_infinity _, _ => S754_nan
  | _, S754_zero _ => S754_nan
  | S754_zero s, _ => S754_zero s
  | S754_finite _ _ _, S754_infinity _ => x
  | S754_finite sx mx ex, S754_finite _ my ey =>
      let e := Z.min ex ey in
      mk_exact sx ((Zpos mx * 2 ^ (ex - e)) mod (Zpos my * 2 ^ (ey - e))) e
  end.

Definition ffloor (x : fl) : fl :=
  match x with
  | S754_finite s m e =>
      if 0 <=? e then x
      else
        let k := 2 ^ (- e) in
        let n := if s then - ((Zpos m + k - 1) / k) else Zpos m / k in
        match n with Z0 => S754_zero false | _ => of_Z n end
  | _ => x
  end.
Definition fceil (x : fl) : fl := fopp (ffloor (fopp x)).

(* truncation towards zero of a finite value *)
Definition trunc_Z (f : fl) : Z :=
  match f with
  | S754_finite s m e => cond_Zopp s (if 0 <=? e then Zpos m * 2 ^ e else Zpos m / 2 ^ (- e))
  | _ => 0
  end.

Inductive fr := FVal (f : fl) | FErr (e : exn).

(* ------------------------------------------------------------------ C: float_ops.c *)

(* _float_div_mod (copied into mypyc "From CPython 3.10.0") *)
Definition c_div_mod (vx wx : fl) : fl * fl :=
  let md := fmod vx wx in
  let div := fdiv (fsub vx md) wx in
  let '(md, div) :=
    if truthy md then
      (if negb (Bool.eqb (flt wx fzero) (flt md fzero)) then (fadd md wx, fsub div f_one) else (md, div))
    else (copysign0 wx, div) in
  let floordiv :=
    if truthy div then
      (let f := ffloor div in if flt f_half (fsub div f) then fadd f f_one else f)
    else copysign0 (fdiv vx wx) in
  (floordiv, md).

Definition c_floordiv (x y : fl) : fr :=
  if feq y fzero then FErr ZeroDivisionError else FVal (fst (c_div_mod x y)).

(* ll_builder.float_op (zero check, RaiseStandardError ZERO_DIVISION_ERROR) + ll_builder.float_mod *)
Definition c_float_mod (x y : fl) : fr :=
  if feq y fzero then FErr ZeroDivisionError
  else
    let md := fmod x y in                                     (* FloatOp.MOD: fmod *)
    if feq md fzero then FVal (copysign0 y)                   (* is_zero -> copysign_op(0.0, rhs) *)
    else if Bool.eqb (flt x fzero) (flt y fzero) then FVal md (* is_same_float_signs(lhs, rhs) *)
    else FVal (fadd md y).                                    (* adjust *)

Definition c_float_truediv (x y : fl) : fr :=                 (* float_op DIV *)
  if feq y fzero then FErr ZeroDivisionError else FVal (fdiv x y).

(* CPyTagged_FromFloat *)
Definition c_from_float (f : fl) : res tagged :=
  if flt f f_2p62 && flt f_m2p62 f then Ok (Short (u64 (trunc_Z f * 2)))       (* (Py_ssize_t)f << 1 *)
  else                                                                            (* PyLong_FromDouble, StealFromObject *)
    match f with
    | S754_nan => Raise ValueError
    | S754_infinity _ => Raise OverflowError
    | _ => Ok (from_object (trunc_Z f))
    end.

(* CPyFloat_Floor / CPyFloat_Ceil *)
Definition c_floor (f : fl) : res tagged := c_from_float (ffloor f).
Definition c_ceil (f : fl) : res tagged := c_from_float (fceil f).

(* PyLong_AsDouble: OverflowError when the rounded value would be 2^1024, i.e. |a| >= 2^1024 - 2^970 *)
Definition dbl_overflow_bound : Z := 2 ^ 1024 - 2 ^ 970.
Definition py_float_of_int (a : Z) : fr :=
  if dbl_overflow_bound <=? Z.abs a then FErr OverflowError else FVal (of_Z a).

(* CPyFloat_FromTagged *)
Definition c_from_tagged (x : tagged) : fr :=
  match x with
  | Short w => FVal (of_Z (short_as_ssize w))          (* C cast *)
  | Long v => py_float_of_int v                         (* PyFloat_AsDouble on the int object *)
  end.

(* long_true_divide *)
Definition B53 : Z := 9007199254740992.
Definition py_truediv (a b : Z) : fr :=
  if b =? 0 then FErr ZeroDivisionError
  else if (Z.abs a <? B53) && (Z.abs b <? B53) then FVal (fdiv (of_Z a) (of_Z b))     (* a_is_small && b_is_small *)
  else
    let r := fdiv (exactZ a) (exactZ b) in                                            (* correctly rounded a / b *)
    if is_inf r then FErr OverflowError else FVal r.

(* CPyTagged_TrueDivide *)
Definition c_truediv (x y : tagged) : fr :=
  match y with
  | Short 0 => FErr ZeroDivisionError                                  (* y == 0 on the raw word *)
  | _ =>
    match x, y with
    | Short a, Short b => FVal (fdiv (of_Z (short_as_ssize a)) (of_Z (short_as_ssize b)))
    | _, _ => py_truediv (as_object x) (as_object y)                    (* PyNumber_TrueDivide *)
    end
  end.

(* ------------------------------------------------------------------ Python: floatobject.c *)

Definition py_div_mod (vx wx : fl) : fl * fl :=
  let md := fmod vx wx in
  let div := fdiv (fsub vx md) wx in
  let '(md, div) :=
    if truthy md then
      (if negb (Bool.eqb (flt wx fzero) (flt md fzero)) then (fadd md wx, fsub div f_one) else (md, div))
    else (copysign0 wx, div) in
  let floordiv :=
    if truthy div then
      (let f := ffloor div in if flt f_half (fsub div f) then fadd f f_one else f)
    else copysign0 (fdiv vx wx) in
  (floordiv, md).

Definition py_float_floor_div (x y : fl) : fr :=
  if feq y fzero then FErr ZeroDivisionError else FVal (fst (py_div_mod x y)).

Definition py_float_rem (x y : fl) : fr :=
  if feq y fzero then FErr ZeroDivisionError
  else
    let md := fmod x y in
    if truthy md then
      (if negb (Bool.eqb (flt y fzero) (flt md fzero)) then FVal (fadd md y) else FVal md)
    else FVal (copysign0 y).

Definition py_float_truediv (x y : fl) : fr :=
  if feq y fzero then FErr ZeroDivisionError else FVal (fdiv x y).

(* float.__int__ / float___trunc___impl: PyLong_FromDouble *)
Definition py_int_of_float (f : fl) : res Z :=
  match f with
  | S754_nan => Raise ValueError
  | S754_infinity _ => Raise OverflowError
  | _ => Ok (trunc_Z f)
  end.

(* comparisons *)
Definition fcmp (op : cmpop) (x y : fl) : bool :=               (* C operators / FloatComparisonOp; same as float_richcompare on two floats *)
  match op with
  | CEq => feq x y | CNe => negb (feq x y) | CLt => flt x y | CLe => fle x y | CGt => flt y x | CGe => fle y x
  end.

(* float_richcompare with an int operand: exact comparison of the integer a with the value of f *)
Definition cmp_int_float (a : Z) (f : fl) : option comparison :=
  match f with
  | S754_nan => None
  | S754_infinity s => Some (if s then Gt else Lt)
  | S754_zero _ => Some (a ?= 0)
  | S754_finite s m e =>
      let v := cond_Zopp s (Zpos m) in
      Some (if 0 <=? e then a ?= v * 2 ^ e else a * 2 ^ (- e) ?= v)
  end.
Definition py_int_float_cmp (op : cmpop) (a : Z) (f : fl) : bool :=
  match cmp_int_float a f with
  | None => match op with CNe => true | _ => false end
  | Some c =>
      match op, c with
      | CEq, Eq => true | CNe, Eq => false | CNe, _ => true
      | CLt, Lt => true | CLe, Lt => true | CLe, Eq => true
      | CGt, Gt => true | CGe, Gt => true | CGe, Eq => true
      | _, _ => false
      end
  end.
Inductive bres := BVal (b : bool) | BErr (e : exn).
(* mypyc: binary_op converts the int operand with int_to_float (CPyFloat_FromTagged), then compares two doubles *)
Definition c_int_float_cmp (op : cmpop) (a : tagged) (f : fl) : bres :=
  match c_from_tagged a with FErr e => BErr e | FVal g => BVal (fcmp op g f) end.

(* native int <-> float *)
Definition c_fw_to_float (x : Z) : fr := FVal (of_Z x).                       (* C cast of int64_t/int32_t/... *)
Definition c_float_to_fw (t : fw) (f : fl) : res Z :=                          (* int(f) then coerce_int_to_fixed_width *)
  match c_from_float f with Raise e => Raise e | Ok tg => coerce_int_to_fw t tg end.
Definition py_float_to_fw (t : fw) (f : fl) : res Z :=
  match py_int_of_float f with Raise e => Raise e | Ok z => if in_range t z then Ok z else Raise ValueError end.

(* ------------------------------------------------------------------ 64-bit patterns (I/O of the correspondence) *)
Definition bits_to_sf (b : Z) : fl :=
  let s := 9223372036854775808 <=? b in
  let ef := (b / 4503599627370496) mod 2048 in
  let frac := b mod 4503599627370496 in
  if ef =? 0 then (match frac with Zpos p => S754_finite s p (-1074) | _ => S754_zero s end)
  else if ef =? 2047 then (if frac =? 0 then S754_infinity s else S754_nan)
  else match frac + 4503599627370496 with Zpos p => S754_finite s p (ef - 1075) | _ => S754_nan end.
Definition sf_to_bits (f : fl) : Z :=
  let sb (s : bool) := if s then 9223372036854775808 else 0 in
  match f with
  | S754_zero s => sb s
  | S754_infinity s => sb s + 9218868437227405312
  | S754_nan => 9221120237041090560
  | S754_finite s m e =>
      sb s + (if Zpos m <? 4503599627370496 then Zpos m else (e + 1075) * 4503599627370496 + (Zpos m - 4503599627370496))
  end.
