(* C15 — lemmas: fixed-width native integers (i64, i32, i16, u8) and int <-> native conversions *)
From Coq Require Import ZArith Bool Lia.
From C15 Require Import Model Statement Proofs Proofs2 Proofs3.
Open Scope Z_scope.
Ltac Zify.zify_post_hook ::= Z.to_euclidean_division_equations.

Ltac fwunf := unfold in_range, fw_wrap, fw_lower, fw_upper, fw_modulus, fw_signed, fw_bits, fw_size in *.

Lemma in_range_iff t v : in_range t v = true <-> fw_lower t <= v < fw_upper t.
Proof. unfold in_range. rewrite andb_true_iff, Z.leb_le, Z.ltb_lt. tauto. Qed.

Lemma fw_wrap_id t v : in_range t v = true -> fw_wrap t v = v.
Proof. intros H. apply in_range_iff in H. destruct t; fwunf; cbn [negb] in *; consts; lia. Qed.

Lemma fw_wrap_in_range t v : in_range t (fw_wrap t v) = true.
Proof. apply in_range_iff. destruct t; fwunf; consts; lia. Qed.

(* ---------------------------------------------------------------- conversions *)
Theorem coerce_int_to_fw_exact t a :
  coerce_int_to_fw t (tag a) = if in_range t a then Ok a else Raise ValueError.
Proof.
  unfold tag, from_object.
  destruct (fits63 a) eqn:Ea.
  - apply fits63_iff in Ea. cbn [coerce_int_to_fw].
    rewrite s64_tagword by assumption. rewrite shiftr1. replace (a * 2 / 2) with a by lia.
    destruct (in_range t a) eqn:R.
    + pose proof (fw_wrap_id t a R) as W. apply in_range_iff in R.
      destruct t; cbn [fw_size Z.ltb Z.compare Pos.compare Pos.compare_cont] in *; try reflexivity;
      fwunf; cbn [negb] in *;
      (destruct (a * 2 <? _) eqn:E1; [| apply Z.ltb_ge in E1; exfalso; consts; lia]);
      (destruct (_ <=? a * 2) eqn:E2; [| apply Z.leb_gt in E2; exfalso; consts; lia]);
      f_equal; consts; lia.
    + assert (R' : ~ (fw_lower t <= a < fw_upper t)) by (intro C; apply in_range_iff in C; congruence).
      destruct t; cbn [fw_size Z.ltb Z.compare Pos.compare Pos.compare_cont] in *;
      fwunf; cbn [negb] in *; try (exfalso; consts; lia);
      (destruct (a * 2 <? _) eqn:E1; [| reflexivity]);
      (destruct (_ <=? a * 2) eqn:E2; [| reflexivity]);
      apply Z.ltb_lt in E1; apply Z.leb_le in E2; exfalso; consts; lia.
  - apply fits63_false in Ea. cbn [coerce_int_to_fw].
    destruct (in_range t a) eqn:R.
    + apply in_range_iff in R. destruct t; unfold long_as_fw; fwunf; cbn [negb] in *; try (exfalso; consts; lia).
      destruct ((- B63 <=? a) && (a <? B63))%bool eqn:E; [reflexivity|].
      apply andb_false_iff in E. destruct E as [E|E]; [apply Z.leb_gt in E | apply Z.ltb_ge in E]; exfalso; consts; lia.
    + destruct t; try reflexivity. unfold long_as_fw. now rewrite R.
Qed.

Theorem coerce_rejects_iff_out_of_range t a :
  (exists e, coerce_int_to_fw t (tag a) = Raise e) <-> ~ (fw_lower t <= a < fw_upper t).
Proof.
  rewrite coerce_int_to_fw_exact, <- in_range_iff.
  destruct (in_range t a); split; intros H.
  - destruct H as [e H]. discriminate.
  - exfalso. now apply H.
  - congruence.
  - now exists ValueError.
Qed.

Theorem coerce_fw_to_int_correct t x : in_range t x = true -> coerce_fw_to_int t x = tag x.
Proof.
  intros R. apply in_range_iff in R. unfold tag, from_object, fits63.
  destruct t; cbn [coerce_fw_to_int]; rewrite ?shiftl1.
  - destruct (x <=? B62 - 1) eqn:E1; destruct (- B62 <=? x) eqn:E2.
    + apply Z.leb_le in E1, E2. assert (E3 : x <? B62 = true) by (apply Z.ltb_lt; lia). now rewrite E3.
    + rewrite from_ssize_correct by (fwunf; cbn [negb] in *; consts; lia). unfold tag, from_object, fits63. now rewrite E2.
    + rewrite from_ssize_correct by (fwunf; cbn [negb] in *; consts; lia). unfold tag, from_object, fits63. now rewrite E2.
    + rewrite from_ssize_correct by (fwunf; cbn [negb] in *; consts; lia). unfold tag, from_object, fits63. now rewrite E2.
  - fwunf; cbn [negb] in *.
    assert (E : ((- B62 <=? x) && (x <? B62))%bool = true) by (apply andb_true_iff; rewrite Z.leb_le, Z.ltb_lt; consts; lia). now rewrite E.
  - fwunf; cbn [negb] in *.
    assert (E : ((- B62 <=? x) && (x <? B62))%bool = true) by (apply andb_true_iff; rewrite Z.leb_le, Z.ltb_lt; consts; lia). now rewrite E.
  - fwunf; cbn [negb] in *.
    assert (E : ((- B62 <=? x) && (x <? B62))%bool = true) by (apply andb_true_iff; rewrite Z.leb_le, Z.ltb_lt; consts; lia). now rewrite E.
Qed.

(* ---------------------------------------------------------------- arithmetic *)
Theorem fw_arith_correct t op x y v :
  (op = FAdd \/ op = FSub \/ op = FMul \/ op = FAnd \/ op = FOr \/ op = FXor) ->
  py_fwop op x y = Ok v -> in_range t v = true -> fw_op t op x y = FOk v.
Proof.
  intros Hop Hp Hv. pose proof (fw_wrap_id t v Hv) as W.
  repeat (destruct Hop as [Hop|Hop]); subst op; cbn [py_fwop fw_op] in *; injection Hp as <-; now rewrite ?W.
Qed.

Theorem u8_wraps_mod_256 op x y v :
  (op = FAdd \/ op = FSub \/ op = FMul) -> py_fwop op x y = Ok v -> fw_op U8 op x y = FOk (v mod 256).
Proof.
  intros Hop Hp. repeat (destruct Hop as [Hop|Hop]); subst op; cbn [py_fwop fw_op] in *; injection Hp as <-; reflexivity.
Qed.

Theorem fw_neg_correct t x : in_range t (- x) = true -> fw_neg t x = - x.
Proof. intros H. unfold fw_neg. replace (0 - x) with (- x) by lia. now apply fw_wrap_id. Qed.

Theorem u8_neg_wraps x : fw_neg U8 x = (- x) mod 256.
Proof. unfold fw_neg. replace (0 - x) with (- x) by lia. reflexivity. Qed.

Theorem fw_invert_signed_correct t x : fw_signed t = true -> fw_invert t x = py_invert x.
Proof.
  intros H. unfold fw_invert, py_invert. rewrite H. rewrite Z.lxor_m1_r. unfold Z.lnot. lia.
Qed.

(* division and modulo: CPyInt64_Divide / CPyInt64_Remainder etc. *)
Lemma signed_cases t : fw_signed t = true -> t = I64 \/ t = I32 \/ t = I16.
Proof. destruct t; cbn; intros; auto; discriminate. Qed.

Lemma quot_mul_in_range t x y :
  fw_signed t = true -> fw_lower t <= x < fw_upper t -> fw_lower t <= y < fw_upper t -> y <> 0 ->
  in_range t (Z.quot x y * y) = true /\ (Z.quot x y * y =? x) = (Z.rem x y =? 0).
Proof.
  intros S Rx Ry Hy.
  pose proof (Z.quot_rem' x y) as Q. pose proof (Z.rem_bound_abs x y Hy) as RB.
  assert (RS : (0 <= x -> 0 <= Z.rem x y) /\ (x <= 0 -> Z.rem x y <= 0)).
  { split; intros; [apply Z.rem_nonneg | apply Z.rem_nonpos]; lia. }
  split.
  - apply in_range_iff. set (q := Z.quot x y) in *. set (r := Z.rem x y) in *. clearbody q r.
    destruct (signed_cases t S) as [St|[St|St]]; subst t; fwunf; cbn [negb] in *; consts; lia.
  - destruct (Z.eqb_spec (Z.rem x y) 0); [apply Z.eqb_eq | apply Z.eqb_neq]; lia.
Qed.

Lemma div_in_range t x y :
  fw_signed t = true -> fw_lower t <= x < fw_upper t -> fw_lower t <= y < fw_upper t -> y <> 0 ->
  ~ (y = -1 /\ x = fw_lower t) -> in_range t (x / y) = true.
Proof.
  intros S Rx Ry Hy NM. apply in_range_iff.
  destruct (Z.ltb_spec 0 y).
  - split.
    + apply Z.div_le_lower_bound; [lia|]. destruct (signed_cases t S) as [St|[St|St]]; subst t; fwunf; cbn [negb] in *; consts; lia.
    + assert (x / y <= fw_upper t - 1); [|lia]. apply Z.div_le_upper_bound; [lia|].
      destruct (signed_cases t S) as [St|[St|St]]; subst t; fwunf; cbn [negb] in *; consts; lia.
  - rewrite <- Z.div_opp_opp by lia. split.
    + apply Z.div_le_lower_bound; [lia|]. destruct (signed_cases t S) as [St|[St|St]]; subst t; fwunf; cbn [negb] in *; consts; lia.
    + assert (- x / - y <= fw_upper t - 1); [|lia]. apply Z.div_le_upper_bound; [lia|].
      destruct (signed_cases t S) as [St|[St|St]]; subst t; fwunf; cbn [negb] in *; consts; lia.
Qed.

Theorem fw_divide_correct t x y :
  fw_signed t = true -> in_range t x = true -> in_range t y = true ->
  fw_op t FDiv x y =
    if y =? 0 then FRaise ZeroDivisionError
    else if in_range t (x / y) then FOk (x / y) else FRaise OverflowError.
Proof.
  intros S Rx Ry. apply in_range_iff in Rx, Ry.
  assert (E : fw_op t FDiv x y = fw_divide_c t x y) by (destruct t; try reflexivity; discriminate).
  rewrite E. clear E. unfold fw_divide_c.
  destruct (Z.eqb_spec y 0) as [|Hy]; [reflexivity|].
  destruct ((y =? -1) && (x =? fw_lower t))%bool eqn:E1.
  - apply andb_true_iff in E1. destruct E1 as [E1 E2]. apply Z.eqb_eq in E1, E2. subst y.
    assert (Q : x / -1 = - x) by (rewrite <- Z.div_opp_opp, Z.div_1_r by lia; lia). rewrite Q.
    assert (F : in_range t (- x) = false).
    { destruct (in_range t (- x)) eqn:F; [|reflexivity]. apply in_range_iff in F.
      destruct (signed_cases t S) as [St|[St|St]]; subst t; fwunf; cbn [negb] in *; exfalso; consts; lia. }
    now rewrite F.
  - pose proof (floor_from_trunc x y Hy) as F.
    assert (NM : ~ (y = -1 /\ x = fw_lower t)).
    { intros [A B]. subst. rewrite Z.eqb_refl in E1. rewrite Z.eqb_refl in E1. discriminate. }
    destruct (quot_mul_in_range t x y S Rx Ry Hy) as [IR Er].
    rewrite (fw_wrap_id _ _ IR). rewrite Er, <- F.
    pose proof (div_in_range t x y S Rx Ry Hy NM) as IQ.
    rewrite IQ. now rewrite (fw_wrap_id _ _ IQ).
Qed.

Theorem fw_remainder_correct t x y :
  fw_signed t = true -> in_range t x = true -> in_range t y = true ->
  fw_op t FMod x y = if y =? 0 then FRaise ZeroDivisionError else FOk (x mod y).
Proof.
  intros S Rx Ry. apply in_range_iff in Rx, Ry.
  assert (E : fw_op t FMod x y = fw_remainder_c t x y) by (destruct t; try reflexivity; discriminate).
  rewrite E. clear E. unfold fw_remainder_c.
  destruct (Z.eqb_spec y 0) as [|Hy]; [reflexivity|].
  destruct ((y =? -1) && (x =? fw_lower t))%bool eqn:E1.
  - apply andb_true_iff in E1. destruct E1 as [E1 _]. apply Z.eqb_eq in E1. subst y. f_equal. lia.
  - pose proof (mod_from_trunc x y Hy) as F. rewrite F.
    destruct (negb (Bool.eqb (x <? 0) (y <? 0)) && negb (Z.rem x y =? 0))%bool eqn:C; [|reflexivity].
    f_equal. apply fw_wrap_id. apply in_range_iff. rewrite <- F.
    destruct (signed_cases t S) as [St|[St|St]]; subst t; fwunf; cbn [negb] in *; consts; lia.
Qed.

Theorem u8_divmod_correct x y :
  in_range U8 x = true -> in_range U8 y = true ->
  fw_op U8 FDiv x y = (if y =? 0 then FRaise ZeroDivisionError else FOk (x / y)) /\
  fw_op U8 FMod x y = (if y =? 0 then FRaise ZeroDivisionError else FOk (x mod y)).
Proof.
  intros Rx Ry. apply in_range_iff in Rx, Ry. fwunf. cbn [negb fw_op] in *.
  destruct (Z.eqb_spec y 0); [split; reflexivity|].
  rewrite Z.quot_div_nonneg, Z.rem_mod_nonneg by (consts; lia). split; reflexivity.
Qed.

(* inline_fixed_width_divide / inline_fixed_width_mod (literal divisor not in {-1, 0}) *)
Theorem fw_inline_correct t x y :
  fw_signed t = true -> in_range t x = true -> in_range t y = true -> y <> 0 -> y <> -1 ->
  fw_inline_divide t x y = x / y /\ fw_inline_mod t x y = x mod y.
Proof.
  intros S Rx Ry Hy Hy1. apply in_range_iff in Rx, Ry.
  destruct (quot_mul_in_range t x y S Rx Ry Hy) as [IR Er].
  assert (NM : ~ (y = -1 /\ x = fw_lower t)) by tauto.
  pose proof (div_in_range t x y S Rx Ry Hy NM) as IQ.
  pose proof (floor_from_trunc x y Hy) as F. pose proof (mod_from_trunc x y Hy) as M.
  unfold fw_inline_divide, fw_inline_mod. rewrite (fw_wrap_id _ _ IR), Er.
  destruct (Bool.eqb (x <? 0) (y <? 0)); cbn [negb andb] in *.
  - split; congruence.
  - destruct (Z.rem x y =? 0); cbn [negb] in *.
    + split; congruence.
    + split.
      * rewrite <- F. now apply fw_wrap_id.
      * rewrite <- M. apply fw_wrap_id. apply in_range_iff.
        destruct (signed_cases t S) as [St|[St|St]]; subst t; fwunf; cbn [negb] in *; consts; lia.
Qed.

(* shifts with a count inside [0, bits) *)
Theorem fw_shift_correct t x y :
  0 <= y < fw_bits t ->
  (in_range t (x * 2 ^ y) = true -> fw_op t FShl x y = FOk (x * 2 ^ y)) /\
  fw_op t FShr x y = FOk (x / 2 ^ y).
Proof.
  intros Hy. cbn [fw_op].
  assert (E : ((0 <=? y) && (y <? fw_bits t))%bool = true) by (apply andb_true_iff; rewrite Z.leb_le, Z.ltb_lt; lia).
  rewrite E. split.
  - intros R. rewrite Z.shiftl_mul_pow2 by lia. now rewrite fw_wrap_id.
  - now rewrite Z.shiftr_div_pow2 by lia.
Qed.

(* u8 invert: x ^ 0xff = (~x) mod 256 = 255 - x *)
Theorem u8_invert_correct x : in_range U8 x = true -> fw_invert U8 x = (py_invert x) mod 256.
Proof.
  intros R. apply in_range_iff in R. unfold fw_invert, py_invert. cbn [fw_signed fw_modulus].
  unfold fw_lower, fw_upper in R. cbn [fw_signed] in R.
  replace (Z.lxor x (B8 - 1)) with (Z.lxor (x mod 2 ^ 8) ((-1) mod 2 ^ 8)).
  2:{ f_equal. apply Z.mod_small. change (2 ^ 8) with 256. consts; lia. }
  rewrite (modpow_bitop 8 Z.lxor xorb ltac:(lia) Z.lxor_spec eq_refl).
  rewrite Z.lxor_m1_r. unfold Z.lnot. change (2 ^ 8) with 256. f_equal; try lia.
Qed.

(* the whole fixed-width statement (Statement.fixed_width_correct) *)
Theorem fixed_width_correct_holds : fixed_width_correct.
Proof.
  intros t op x y Rx Ry Hs.
  destruct op; cbn [py_fwop].
  - intros Hv. apply (fw_arith_correct t FAdd x y); [auto | reflexivity | exact Hv].
  - intros Hv. apply (fw_arith_correct t FSub x y); [auto | reflexivity | exact Hv].
  - intros Hv. apply (fw_arith_correct t FMul x y); [auto | reflexivity | exact Hv].
  - unfold py_floordiv. destruct (fw_signed t) eqn:S.
    + rewrite (fw_divide_correct t x y S Rx Ry). destruct (y =? 0); [reflexivity|]. intros Hv. now rewrite Hv.
    + assert (t = U8) by (destruct t; try discriminate; reflexivity). subst t.
      destruct (u8_divmod_correct x y Rx Ry) as [D _]. rewrite D. destruct (y =? 0); [reflexivity|]. reflexivity.
  - unfold py_mod. destruct (fw_signed t) eqn:S.
    + rewrite (fw_remainder_correct t x y S Rx Ry). destruct (y =? 0); reflexivity.
    + assert (t = U8) by (destruct t; try discriminate; reflexivity). subst t.
      destruct (u8_divmod_correct x y Rx Ry) as [_ M]. rewrite M. destruct (y =? 0); reflexivity.
  - intros Hv. apply (fw_arith_correct t FAnd x y); [auto 10 | reflexivity | exact Hv].
  - intros Hv. apply (fw_arith_correct t FOr x y); [auto 10 | reflexivity | exact Hv].
  - intros Hv. apply (fw_arith_correct t FXor x y); [auto 10 | reflexivity | exact Hv].
  - specialize (Hs (or_introl eq_refl)). unfold py_lshift. destruct (Z.ltb_spec y 0); [lia|].
    intros Hv. now apply (fw_shift_correct t x y Hs).
  - specialize (Hs (or_intror eq_refl)). unfold py_rshift. destruct (Z.ltb_spec y 0); [lia|].
    intros _. now apply (fw_shift_correct t x y Hs).
Qed.
