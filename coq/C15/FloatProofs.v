(* C15 — lemmas about the binary64 model (all closed under the global context) *)
From Coq Require Import ZArith Bool Lia SpecFloat.
From C15 Require Import Model Proofs Proofs2 ProofsFixed FloatModel.
Open Scope Z_scope.
Set Default Timeout 300.

(* ---------------------------------------------------------------- floor division: the C copy is CPython's algorithm *)
Theorem floordiv_same x y : c_floordiv x y = py_float_floor_div x y.
Proof. reflexivity. Qed.

Theorem float_truediv_same x y : c_float_truediv x y = py_float_truediv x y.
Proof. reflexivity. Qed.

(* ---------------------------------------------------------------- modulo: mypyc's lowering vs float_rem *)
Lemma flt_finite_zero s m e : flt (S754_finite s m e) fzero = s.
Proof. destruct s; reflexivity. Qed.
Lemma flt_inf_zero s : flt (S754_infinity s) fzero = s.
Proof. destruct s; reflexivity. Qed.

(* a non-zero, non-NaN fmod result has the sign of the dividend *)
Lemma fmod_sign x y :
  fmod x y = S754_nan \/ feq (fmod x y) fzero = true \/ flt (fmod x y) fzero = flt x fzero.
Proof.
  destruct x as [sx|sx| |sx mx ex]; destruct y as [sy|sy| |sy my ey]; cbn [fmod];
    try (left; reflexivity); try (right; left; destruct sx; reflexivity); try (right; right; reflexivity).
  unfold mk_exact.
    destruct ((Zpos mx * 2 ^ (ex - Z.min ex ey)) mod (Zpos my * 2 ^ (ey - Z.min ex ey))) as [|p|p].
    + right; left. destruct sx; reflexivity.
    + destruct (binary_normalize fprec femax (Zpos p) (Z.min ex ey) false) as [s'|s'| |s' m' e'].
      * right; left. destruct sx; reflexivity.
      * right; right. now rewrite flt_inf_zero, flt_finite_zero.
      * right; left. destruct sx; reflexivity.
      * right; right. now rewrite !flt_finite_zero.
    + right; left. destruct sx; reflexivity.
Qed.

Lemma fadd_nan_l y : fadd S754_nan y = S754_nan.
Proof. reflexivity. Qed.

Theorem float_mod_correct x y : c_float_mod x y = py_float_rem x y.
Proof.
  unfold c_float_mod, py_float_rem, truthy.
  destruct (feq y fzero); [reflexivity|].
  destruct (fmod_sign x y) as [N|[Z|S]].
  - rewrite N. cbn. destruct (Bool.eqb (flt x fzero) (flt y fzero)); destruct (flt y fzero); reflexivity.
  - rewrite Z. reflexivity.
  - destruct (feq (fmod x y) fzero); [reflexivity|]. cbn [negb]. rewrite S.
    destruct (flt x fzero); destruct (flt y fzero); reflexivity.
Qed.

(* ---------------------------------------------------------------- int -> float *)
Lemma overflow_bound_big a : - B63 <= a <= B63 -> (dbl_overflow_bound <=? Z.abs a) = false.
Proof.
  intros H. apply Z.leb_gt. unfold dbl_overflow_bound.
  assert (B63 < 2 ^ 1024 - 2 ^ 970) by (vm_compute; reflexivity). lia.
Qed.

Theorem from_tagged_correct a : c_from_tagged (tag a) = py_float_of_int a.
Proof.
  unfold tag, from_object. destruct (fits63 a) eqn:E; cbn [c_from_tagged]; [|reflexivity].
  apply fits63_iff in E. rewrite short_as_ssize_tagword by assumption.
  unfold py_float_of_int. rewrite overflow_bound_big; [reflexivity|]. consts; lia.
Qed.

Theorem fw_to_float_correct t x : in_range t x = true -> c_fw_to_float x = py_float_of_int x.
Proof.
  intros R. apply in_range_iff in R. unfold c_fw_to_float, py_float_of_int.
  rewrite overflow_bound_big; [reflexivity|].
  destruct t; unfold fw_lower, fw_upper, fw_signed in R; cbn [negb] in R; consts; lia.
Qed.

(* ---------------------------------------------------------------- int / int *)
Lemma tag_zero_iff b : tag b = Short 0 <-> b = 0.
Proof.
  split; intros H.
  - apply (f_equal untag) in H. rewrite untag_tag in H. exact H.
  - subst. reflexivity.
Qed.

Theorem truediv_small_correct a b :
  Z.abs a < B53 -> Z.abs b < B53 -> c_truediv (tag a) (tag b) = py_truediv a b.
Proof.
  intros Ha Hb. unfold py_truediv.
  destruct (Z.eqb_spec b 0) as [->|Hb0].
  - reflexivity.
  - assert (Ea : fits63 a = true) by (apply fits63_iff; unfold B53 in *; consts; lia).
    assert (Eb : fits63 b = true) by (apply fits63_iff; unfold B53 in *; consts; lia).
    assert (Sa : (Z.abs a <? B53) = true) by (apply Z.ltb_lt; lia).
    assert (Sb : (Z.abs b <? B53) = true) by (apply Z.ltb_lt; lia).
    rewrite Sa, Sb. cbn [andb].
    assert (NZ : tag b <> Short 0) by (intro C; apply tag_zero_iff in C; contradiction).
    revert NZ. unfold tag, from_object. rewrite Ea, Eb. intros NZ. cbn [c_truediv].
    apply fits63_iff in Ea. apply fits63_iff in Eb.
    destruct (u64 (b * 2)) eqn:W; [contradiction NZ; reflexivity| |];
    rewrite <- W, !short_as_ssize_tagword by assumption; reflexivity.
Qed.

(* with a boxed operand the C code calls PyNumber_TrueDivide *)
Theorem truediv_boxed_correct a b :
  fits63 a = false \/ fits63 b = false -> b <> 0 -> c_truediv (tag a) (tag b) = py_truediv a b.
Proof.
  intros H Hb.
  assert (NZ : tag b <> Short 0) by (intro C; apply tag_zero_iff in C; contradiction).
  assert (G : forall x y, (is_short x = false \/ is_short y = false) -> y <> Short 0 ->
              c_truediv x y = py_truediv (as_object x) (as_object y)).
  { intros x y Hs Hy. destruct y as [w|v]; [destruct w; [contradiction Hy; reflexivity| |]|];
    destruct x; cbn in Hs; cbn [c_truediv]; try reflexivity; destruct Hs; discriminate. }
  rewrite G, !as_object_tag; [reflexivity| |exact NZ].
  unfold tag, from_object. destruct H as [H|H]; rewrite H; cbn; auto.
Qed.

(* THE FINDING int-truediv:double-rounding-above-2^53: both operands short, C differs from CPython *)
Theorem truediv_refuted :
  exists a b, fits63 a = true /\ fits63 b = true /\ b <> 0 /\ c_truediv (tag a) (tag b) <> py_truediv a b.
Proof.
  exists 51302252447955996, 3. repeat split; try (vm_compute; congruence).
Qed.

(* ---------------------------------------------------------------- int vs float comparison *)
(* THE FINDING int-float-comparison:int-operand-converted-to-double *)
Theorem int_float_cmp_refuted :
  (exists a f, c_int_float_cmp CEq (tag a) f = BVal true /\ py_int_float_cmp CEq a f = false) /\
  (exists a f e, c_int_float_cmp CEq (tag a) f = BErr e /\ py_int_float_cmp CEq a f = false).
Proof.
  split.
  - exists (B62 + 1), f_2p62. split; vm_compute; reflexivity.
  - exists (10 ^ 400), fzero, OverflowError. split; vm_compute; reflexivity.
Qed.

(* ---------------------------------------------------------------- float -> int *)
Lemma digits2_pos_bound m : Zpos m < 2 ^ Zpos (digits2_pos m).
Proof.
  induction m as [p IH|p IH|]; cbn [digits2_pos].
  - rewrite Pos2Z.inj_succ, Z.pow_succ_r by lia. lia.
  - rewrite Pos2Z.inj_succ, Z.pow_succ_r by lia. lia.
  - reflexivity.
Qed.

Lemma valid_mantissa_bound s m e :
  valid_binary fprec femax (S754_finite s m e) = true -> Zpos m < 2 ^ 53.
Proof.
  cbn [valid_binary]. unfold bounded, canonical_mantissa. intros H.
  apply andb_true_iff in H. destruct H as [H _]. apply Zeq_bool_eq in H.
  unfold fexp, fprec, femax, emin in H.
  pose proof (digits2_pos_bound m) as D.
  assert (Zpos (digits2_pos m) <= 53) by lia.
  eapply Z.lt_le_trans; [exact D|]. apply Z.pow_le_mono_r; lia.
Qed.

Lemma fast_cond s m e :
  flt (S754_finite s m e) f_2p62 && flt f_m2p62 (S754_finite s m e) = true ->
  e < 10 \/ (e = 10 /\ Zpos m < 4503599627370496).
Proof.
  unfold flt, SFltb, SFcompare, f_2p62, f_m2p62. destruct s; cbv beta iota.
  - destruct (10 ?= e) eqn:E; cbv beta iota; cbn [andb]; intros H.
    + apply Z.compare_eq in E. subst e. right. split; [reflexivity|].
      destruct (Pos.compare_cont Eq 4503599627370496 m) eqn:C; cbn [CompOpp] in H; cbv beta iota in H; try discriminate H.
      apply Pos.compare_gt_iff in C. apply Pos2Z.pos_lt_pos in C. exact C.
    + discriminate H.
    + left. apply Z.compare_gt_iff in E. exact E.
  - destruct (e ?= 10) eqn:E; cbv beta iota; intros H.
    + apply Z.compare_eq in E. subst e. right. split; [reflexivity|].
      destruct (Pos.compare_cont Eq m 4503599627370496) eqn:C; cbv beta iota in H; cbn [andb] in H; try discriminate H.
      apply Pos.compare_lt_iff in C. apply Pos2Z.pos_lt_pos in C. exact C.
    + left. apply Z.compare_lt_iff in E. exact E.
    + cbn [andb] in H. discriminate H.
Qed.

Lemma trunc_fast_fits s m e :
  Zpos m < 2 ^ 53 -> e < 10 \/ (e = 10 /\ Zpos m < 4503599627370496) ->
  fits63 (trunc_Z (S754_finite s m e)) = true.
Proof.
  intros Hm Hc. apply fits63_iff. cbn [trunc_Z].
  change (2 ^ 53) with 9007199254740992 in Hm.
  assert (T : 0 <= (if 0 <=? e then Zpos m * 2 ^ e else Zpos m / 2 ^ (- e)) < B62).
  { destruct (Z.leb_spec 0 e).
    - destruct Hc as [Hc|[-> Hc]].
      + assert (P : 0 < 2 ^ e <= 2 ^ 9) by (split; [apply Z.pow_pos_nonneg; lia | apply Z.pow_le_mono_r; lia]).
        change (2 ^ 9) with 512 in P. consts. nia.
      + change (2 ^ 10) with 1024. consts. lia.
    - assert (P : 0 < 2 ^ (- e)) by (apply Z.pow_pos_nonneg; lia).
      split; [apply Z.div_pos; lia|].
      assert (Zpos m / 2 ^ (- e) <= Zpos m) by (apply Z.div_le_upper_bound; nia).
      consts. lia. }
  destruct s; cbn [cond_Zopp]; consts; lia.
Qed.

Theorem from_float_correct f :
  valid_binary fprec femax f = true -> c_from_float f = rmap tag (py_int_of_float f).
Proof.
  intros V. destruct f as [s|s| |s m e].
  - destruct s; reflexivity.
  - destruct s; reflexivity.
  - reflexivity.
  - unfold c_from_float.
    destruct (flt (S754_finite s m e) f_2p62 && flt f_m2p62 (S754_finite s m e)) eqn:C.
    + cbn [py_int_of_float rmap]. unfold tag, from_object.
      rewrite (trunc_fast_fits s m e (valid_mantissa_bound s m e V) (fast_cond s m e C)). reflexivity.
    + reflexivity.
Qed.

Theorem float_to_fw_correct t f :
  valid_binary fprec femax f = true -> c_float_to_fw t f = py_float_to_fw t f.
Proof.
  intros V. unfold c_float_to_fw, py_float_to_fw. rewrite (from_float_correct f V).
  destruct (py_int_of_float f) as [z|e]; cbn [rmap]; [|reflexivity].
  apply coerce_int_to_fw_exact.
Qed.

(* floor / ceil go through the same conversion *)
Theorem floor_ceil_correct f :
  valid_binary fprec femax (ffloor f) = true -> valid_binary fprec femax (fceil f) = true ->
  c_floor f = rmap tag (py_int_of_float (ffloor f)) /\ c_ceil f = rmap tag (py_int_of_float (fceil f)).
Proof. intros V1 V2. split; [exact (from_float_correct _ V1) | exact (from_float_correct _ V2)]. Qed.
