(* C15 — model of mypyc's numeric primitives (executable definitions only, no proofs).

   Sources transcribed (all in /repo/mypyc):
     lib-rt/mypyc_util.h   CPY_TAGGED_MAX/MIN, CPY_INT_TAG, CPyTagged_ShortFromInt
     lib-rt/CPy.h          CPyTagged_{CheckShort,ShortAsSsize_t,FromObject,StealFromObject,TooBig,
                           IsAddOverflow,IsSubtractOverflow,IsMultiplyOverflow,MaybeFloorDivideFault,
                           MaybeRemainderFault,IsEq,IsNe,IsLt,IsGe,IsGt,IsLe,Negate,Add,Subtract,Multiply,
                           FloorDivide,Remainder,Invert,And,Or,Xor,Rshift,Lshift}, IsShortLshiftOverflow
     lib-rt/int_ops.c      the `_` slow paths (Python long operation, then CPyTagged_StealFromObject),
                           CPyTagged_FromSsize_t/FromInt64, CPyTagged_IsEq_/IsLt_, CPyInt{64,32,16}_Divide/Remainder,
                           CPyLong_AsInt64_/AsInt32_/..., CPyInt32_Overflow ...
     lower/int_ops.py      compare_tagged + int_comparison_op_mapping
     irbuild/ll_builder.py fixed_width_int_op, inline_fixed_width_divide/mod, check_for_zero_division,
                           coerce_int_to_fixed_width, check_fixed_width_range,
                           coerce_tagged_to_fixed_width_with_range_check, coerce_fixed_width_to_int, unary_minus/invert
     codegen/emitfunc.py   visit_int_op / visit_comparison_op / visit_truncate / visit_extend (C emitted for IntOp)

   Conventions: a machine word is a Z in [0, 2^64) (C `size_t`/`CPyTagged`); `u64` is the conversion to
   size_t (reduction mod 2^64), `s64` the conversion to Py_ssize_t (two's complement reinterpretation).
   A boxed (heap) integer is modelled by its exact mathematical value: `Long v`.
   The slow paths call CPython's own long arithmetic; they are modelled by the exact Z operation. *)
From Coq Require Import ZArith Bool.
Open Scope Z_scope.

Definition B7  : Z := 128.
Definition B8  : Z := 256.
Definition B15 : Z := 32768.
Definition B16 : Z := 65536.
Definition B31 : Z := 2147483648.
Definition B32 : Z := 4294967296.
Definition B62 : Z := 4611686018427387904.
Definition B63 : Z := 9223372036854775808.
Definition B64 : Z := 18446744073709551616.

Definition u64 (x : Z) : Z := x mod B64.
Definition s64 (x : Z) : Z := (x + B63) mod B64 - B63.

Inductive exn := ZeroDivisionError | ValueError | OverflowError.
Inductive res (A : Type) := Ok (a : A) | Raise (e : exn).
Arguments Ok {A} a.
Arguments Raise {A} e.

Definition rmap {A B} (f : A -> B) (r : res A) : res B :=
  match r with Ok a => Ok (f a) | Raise e => Raise e end.

(* ------------------------------------------------------------------ Python semantics (the specification) *)

Definition py_add (a b : Z) : Z := a + b.
Definition py_sub (a b : Z) : Z := a - b.
Definition py_mul (a b : Z) : Z := a * b.
Definition py_neg (a : Z) : Z := - a.
Definition py_invert (a : Z) : Z := - a - 1.
Definition py_and (a b : Z) : Z := Z.land a b.
Definition py_or (a b : Z) : Z := Z.lor a b.
Definition py_xor (a b : Z) : Z := Z.lxor a b.
(* Coq's Z.div / Z.modulo round towards minus infinity, the remainder has the sign of the divisor: Python's rule *)
Definition py_floordiv (a b : Z) : res Z := if b =? 0 then Raise ZeroDivisionError else Ok (a / b).
Definition py_mod (a b : Z) : res Z := if b =? 0 then Raise ZeroDivisionError else Ok (a mod b).
(* memory exhaustion for astronomically large shift counts (MemoryError/OverflowError in CPython) is not modelled *)
Definition py_lshift (a b : Z) : res Z := if b <? 0 then Raise ValueError else Ok (a * 2 ^ b).
Definition py_rshift (a b : Z) : res Z := if b <? 0 then Raise ValueError else Ok (a / 2 ^ b).

Inductive cmpop := CEq | CNe | CLt | CLe | CGt | CGe.
Definition py_cmp (op : cmpop) (a b : Z) : bool :=
  match op with
  | CEq => a =? b | CNe => negb (a =? b) | CLt => a <? b | CLe => a <=? b | CGt => b <? a | CGe => b <=? a
  end.

(* ------------------------------------------------------------------ tagged representation *)

Inductive tagged :=
| Short (w : Z)     (* unboxed: the raw word, tag bit (bit 0) clear, value = (Py_ssize_t)w >> 1 *)
| Long (v : Z).     (* boxed: pointer | CPY_INT_TAG, v = exact value of the PyLong *)

(* range of CPyLong_AsSsize_tAndOverflow: "the overflow check knows about CPyTagged's width" *)
Definition fits63 (v : Z) : bool := (- B62 <=? v) && (v <? B62).

(* CPyTagged_FromObject / CPyTagged_StealFromObject / CPyTagged_BorrowFromObject (refcounts not modelled) *)
Definition from_object (v : Z) : tagged := if fits63 v then Short (u64 (v * 2)) else Long v.
Definition tag : Z -> tagged := from_object.

(* CPyTagged_ShortAsSsize_t: (Py_ssize_t)x >> 1, arithmetic shift *)
Definition short_as_ssize (w : Z) : Z := Z.shiftr (s64 w) 1.
(* CPyTagged_AsObject *)
Definition as_object (t : tagged) : Z := match t with Short w => short_as_ssize w | Long v => v end.
Definition untag : tagged -> Z := as_object.

(* a tagged value is well formed (normalised): "A small integer must not have the tag bit set" and
   a boxed integer is never one that fits *)
Definition wf (t : tagged) : Prop :=
  match t with Short w => 0 <= w < B64 /\ w mod 2 = 0 | Long v => fits63 v = false end.

(* CPyTagged_TooBig / CPyTagged_TooBigInt64 on a Py_ssize_t / int64_t value *)
Definition too_big (v : Z) : bool := (B62 - 1 <? u64 v) && ((0 <=? v) || (v <? - B62)).
(* CPyTagged_FromSsize_t / CPyTagged_FromInt64 *)
Definition from_ssize (v : Z) : tagged := if too_big v then Long v else Short (u64 (v * 2)).

(* (Py_ssize_t)x < 0 *)
Definition slt0 (w : Z) : bool := s64 w <? 0.

Definition is_add_overflow (sum l r : Z) : bool := slt0 (Z.lxor sum l) && slt0 (Z.lxor sum r).
Definition is_sub_overflow (diff l r : Z) : bool := slt0 (Z.lxor diff l) && negb (slt0 (Z.lxor diff r)).
Definition is_mul_overflow (l r : Z) : bool := (B31 <=? l) || (B31 <=? r).
Definition maybe_floordiv_fault (l r : Z) : bool := (r =? 0) || (l =? B63).
Definition maybe_remainder_fault (l r : Z) : bool := r =? 0.

(* slow paths: Python long operation on the boxed operands, then StealFromObject *)
Definition slow2 (f : Z -> Z -> Z) (l r : tagged) : tagged := from_object (f (as_object l) (as_object r)).
Definition slow2r (f : Z -> Z -> res Z) (l r : tagged) : res tagged := rmap from_object (f (as_object l) (as_object r)).

Definition tagged_negate (x : tagged) : tagged :=
  match x with
  | Short w => if negb (w =? B63) then Short (u64 (- w)) else from_object (py_neg (as_object x))
  | Long _ => from_object (py_neg (as_object x))
  end.

Definition tagged_add (l r : tagged) : tagged :=
  match l, r with
  | Short a, Short b =>
      let sum := u64 (a + b) in
      if negb (is_add_overflow sum a b) then Short sum else slow2 py_add l r
  | _, _ => slow2 py_add l r
  end.

Definition tagged_subtract (l r : tagged) : tagged :=
  match l, r with
  | Short a, Short b =>
      let diff := u64 (a - b) in
      if negb (is_sub_overflow diff a b) then Short diff else slow2 py_sub l r
  | _, _ => slow2 py_sub l r
  end.

Definition tagged_multiply (l r : tagged) : tagged :=
  match l, r with
  | Short a, Short b =>
      if negb (is_mul_overflow a b) then Short (u64 (a * short_as_ssize b)) else slow2 py_mul l r
  | _, _ => slow2 py_mul l r
  end.

Definition tagged_floordiv (l r : tagged) : res tagged :=
  match l, r with
  | Short a, Short b =>
      if negb (maybe_floordiv_fault a b) then
        let result := Z.quot (short_as_ssize a) (short_as_ssize b) in      (* C `/` truncates *)
        let result :=
          if negb (Bool.eqb (slt0 a) (slt0 b)) then
            (if negb (u64 (result * b) =? a) then result - 1 else result)
          else result in
        Ok (Short (u64 (result * 2)))
      else slow2r py_floordiv l r
  | _, _ => slow2r py_floordiv l r
  end.

Definition tagged_remainder (l r : tagged) : res tagged :=
  match l, r with
  | Short a, Short b =>
      if negb (maybe_remainder_fault a b) then
        let result := Z.rem (s64 a) (s64 b) in                              (* C `%` on the still-tagged words *)
        let result :=
          if negb (Bool.eqb (slt0 b) (slt0 a)) && negb (result =? 0) then s64 (result + b) else result in
        Ok (Short (u64 result))
      else slow2r py_mod l r
  | _, _ => slow2r py_mod l r
  end.

Definition tagged_invert (x : tagged) : tagged :=
  match x with
  | Short w =>
      if negb (w =? B62)      (* num != CPY_TAGGED_ABS_MIN *)
      then Short (Z.land (u64 (- w - 1)) (u64 (- 2)))       (* ~num & ~CPY_INT_TAG *)
      else from_object (py_invert (as_object x))
  | Long _ => from_object (py_invert (as_object x))
  end.

(* CPyTagged_BitwiseLongOp_: digit loops for non-negative operands, PyNumber_And/Or/Xor otherwise; modelled
   by the exact operation (the digit loops are covered by the raw-word correspondence only) *)
Definition tagged_and (l r : tagged) : tagged :=
  match l, r with Short a, Short b => Short (Z.land a b) | _, _ => slow2 py_and l r end.
Definition tagged_or (l r : tagged) : tagged :=
  match l, r with Short a, Short b => Short (Z.lor a b) | _, _ => slow2 py_or l r end.
Definition tagged_xor (l r : tagged) : tagged :=
  match l, r with Short a, Short b => Short (Z.lxor a b) | _, _ => slow2 py_xor l r end.

Definition tagged_rshift (l r : tagged) : res tagged :=
  match l, r with
  | Short a, Short b =>
      if 0 <=? s64 b then
        let count := short_as_ssize b in
        if 64 <=? count then (if 0 <=? s64 a then Ok (Short 0) else Ok (Short (u64 (-1 * 2))))
        else Ok (Short (u64 (Z.land (Z.shiftr (s64 a) count) (- 2))))
      else slow2r py_rshift l r
  | _, _ => slow2r py_rshift l r
  end.

(* IsShortLshiftOverflow(Py_ssize_t short_int, Py_ssize_t shift) *)
Definition is_short_lshift_overflow (x shift : Z) : bool :=
  negb (Z.shiftr (s64 (Z.shiftl x shift)) shift =? x).

Definition tagged_lshift (l r : tagged) : res tagged :=
  match l, r with
  | Short a, Short b =>
      if (0 <=? s64 b) && (b <? 128) then          (* right < CPY_INT_BITS * 2 *)
        let shift := short_as_ssize b in
        if negb (is_short_lshift_overflow (s64 a) shift) then Ok (Short (u64 (Z.shiftl a shift)))
        else slow2r py_lshift l r
      else slow2r py_lshift l r
  | _, _ => slow2r py_lshift l r
  end.

(* ---- comparisons: C runtime versions (CPy.h) *)
Definition is_eq_ (l r : tagged) : bool :=
  match r with Short _ => false | Long _ => as_object l =? as_object r end.
Definition is_lt_ (l r : tagged) : bool := as_object l <? as_object r.

Definition tagged_is_eq (l r : tagged) : bool :=
  match l with
  | Short a => (match r with Short b => a =? b | Long _ => false end)   (* left == right on raw words: an even word never equals an odd one *)
  | Long _ => is_eq_ l r
  end.
Definition tagged_is_ne (l r : tagged) : bool :=
  match l with
  | Short a => (match r with Short b => negb (a =? b) | Long _ => true end)
  | Long _ => negb (is_eq_ l r)
  end.
Definition tagged_is_lt (l r : tagged) : bool :=
  match l, r with Short a, Short b => s64 a <? s64 b | _, _ => is_lt_ l r end.
Definition tagged_is_ge (l r : tagged) : bool :=
  match l, r with Short a, Short b => s64 b <=? s64 a | _, _ => negb (is_lt_ l r) end.
Definition tagged_is_gt (l r : tagged) : bool :=
  match l, r with Short a, Short b => s64 b <? s64 a | _, _ => is_lt_ r l end.
Definition tagged_is_le (l r : tagged) : bool :=
  match l, r with Short a, Short b => s64 a <=? s64 b | _, _ => negb (is_lt_ r l) end.

(* ---- comparisons: lowering (mypyc/lower/int_ops.py compare_tagged, general `int` operands) *)
Definition short_variant (op : cmpop) (a b : Z) : bool :=    (* ComparisonOp.EQ/NEQ/SLT/SLE/SGT/SGE on raw words *)
  match op with
  | CEq => a =? b | CNe => negb (a =? b)
  | CLt => s64 a <? s64 b | CLe => s64 a <=? s64 b | CGt => s64 b <? s64 a | CGe => s64 b <=? s64 a
  end.
(* int_comparison_op_mapping: (c function is IsEq_?, negated, swap operands) *)
Definition cmp_mapping (op : cmpop) : bool * bool * bool :=
  match op with
  | CEq => (true, false, false) | CNe => (true, true, false)
  | CLt => (false, false, false) | CLe => (false, true, true)
  | CGt => (false, false, true) | CGe => (false, true, false)
  end.
Definition is_short (t : tagged) : bool := match t with Short _ => true | Long _ => false end.
Definition raw_short_variant (op : cmpop) (l r : tagged) : bool :=
  match l, r with
  | Short a, Short b => short_variant op a b
  | _, _ => match op with CNe => true | _ => false end   (* only reached for ==/!= with an even and an odd word *)
  end.
Definition compare_tagged (op : cmpop) (l r : tagged) : bool :=
  let '(use_eq, negated, swap) := cmp_mapping op in
  let go_int_block :=
    match op with
    | CEq | CNe => negb (is_short l)                       (* only lhs is checked *)
    | _ => negb (is_short l) || negb (is_short r)
    end in
  if go_int_block then
    let a1 := if swap then r else l in
    let a2 := if swap then l else r in
    let call := if use_eq then is_eq_ a1 a2 else is_lt_ a1 a2 in
    if negated then negb call else call
  else raw_short_variant op l r.

(* ------------------------------------------------------------------ fixed-width native integers *)

Inductive fw := I64 | I32 | I16 | U8.
Definition fw_signed (t : fw) : bool := match t with U8 => false | _ => true end.
Definition fw_size (t : fw) : Z := match t with I64 => 8 | I32 => 4 | I16 => 2 | U8 => 1 end.
Definition fw_bits (t : fw) : Z := match t with I64 => 64 | I32 => 32 | I16 => 16 | U8 => 8 end.
(* check_fixed_width_range: upper_bound = 1 << (size*8-1), doubled when unsigned; lower = -upper or 0 *)
Definition fw_upper (t : fw) : Z := match t with I64 => B63 | I32 => B31 | I16 => B15 | U8 => B8 end.
Definition fw_lower (t : fw) : Z := if fw_signed t then - fw_upper t else 0.
Definition fw_modulus (t : fw) : Z := match t with I64 => B64 | I32 => B32 | I16 => B16 | U8 => B8 end.
Definition in_range (t : fw) (v : Z) : bool := (fw_lower t <=? v) && (v <? fw_upper t).
(* conversion of an exact C `int`/wider value to the C type (truncation / wrap-around on assignment) *)
Definition fw_wrap (t : fw) (v : Z) : Z :=
  if fw_signed t then (v + fw_upper t) mod fw_modulus t - fw_upper t else v mod fw_modulus t.

Inductive fwop := FAdd | FSub | FMul | FDiv | FMod | FAnd | FOr | FXor | FShl | FShr.

Inductive fres := FOk (v : Z) | FRaise (e : exn) | FUndefined.   (* FUndefined: C undefined behaviour (shift count) *)

(* CPyInt64_Divide / CPyInt32_Divide / CPyInt16_Divide *)
Definition fw_divide_c (t : fw) (x y : Z) : fres :=
  if y =? 0 then FRaise ZeroDivisionError
  else if (y =? -1) && (x =? fw_lower t) then FRaise OverflowError
  else
    let d := Z.quot x y in
    let d := if negb (Bool.eqb (x <? 0) (y <? 0)) && negb (fw_wrap t (d * y) =? x) then d - 1 else d in
    FOk (fw_wrap t d).
(* CPyInt64_Remainder / ... *)
Definition fw_remainder_c (t : fw) (x y : Z) : fres :=
  if y =? 0 then FRaise ZeroDivisionError
  else if (y =? -1) && (x =? fw_lower t) then FOk 0
  else
    let d := Z.rem x y in
    let d := if negb (Bool.eqb (x <? 0) (y <? 0)) && negb (d =? 0) then fw_wrap t (d + y) else d in
    FOk d.

(* fixed_width_int_op with non-constant operands (operands already coerced, both in range of t) *)
Definition fw_op (t : fw) (op : fwop) (x y : Z) : fres :=
  match op with
  | FAdd => FOk (fw_wrap t (x + y))
  | FSub => FOk (fw_wrap t (x - y))
  | FMul => FOk (fw_wrap t (x * y))
  | FAnd => FOk (Z.land x y)
  | FOr => FOk (Z.lor x y)
  | FXor => FOk (Z.lxor x y)
  | FDiv =>
      match t with
      | U8 => if y =? 0 then FRaise ZeroDivisionError else FOk (Z.quot x y)   (* check_for_zero_division + IntOp.DIV *)
      | _ => fw_divide_c t x y
      end
  | FMod =>
      match t with
      | U8 => if y =? 0 then FRaise ZeroDivisionError else FOk (Z.rem x y)
      | _ => fw_remainder_c t x y
      end
  | FShl => if (0 <=? y) && (y <? fw_bits t) then FOk (fw_wrap t (Z.shiftl x y)) else FUndefined
  | FShr => if (0 <=? y) && (y <? fw_bits t) then FOk (Z.shiftr x y) else FUndefined
  end.

(* inline_fixed_width_divide / inline_fixed_width_mod: used when the divisor is a literal not in {-1, 0} *)
Definition fw_inline_divide (t : fw) (x y : Z) : Z :=
  let res := Z.quot x y in
  if Bool.eqb (x <? 0) (y <? 0) then res
  else if fw_wrap t (res * y) =? x then res else fw_wrap t (res - 1).
Definition fw_inline_mod (t : fw) (x y : Z) : Z :=
  let res := Z.rem x y in
  if Bool.eqb (x <? 0) (y <? 0) then res
  else if res =? 0 then res else fw_wrap t (res + y).

(* unary_minus: 0 - x ; unary_invert: x ^ -1 (signed) or x ^ 0xff (u8) *)
Definition fw_neg (t : fw) (x : Z) : Z := fw_wrap t (0 - x).
Definition fw_invert (t : fw) (x : Z) : Z :=
  if fw_signed t then Z.lxor x (-1) else Z.lxor x (fw_modulus t - 1).

(* Python result of the same operation on the same values *)
Definition py_fwop (op : fwop) (x y : Z) : res Z :=
  match op with
  | FAdd => Ok (x + y) | FSub => Ok (x - y) | FMul => Ok (x * y)
  | FAnd => Ok (Z.land x y) | FOr => Ok (Z.lor x y) | FXor => Ok (Z.lxor x y)
  | FDiv => py_floordiv x y | FMod => py_mod x y
  | FShl => py_lshift x y | FShr => py_rshift x y
  end.

(* coerce_int_to_fixed_width (int -> i64/i32/i16/u8), incl. the slow paths CPyLong_AsInt64 / CPyInt32_Overflow ... *)
Definition long_as_fw (t : fw) (v : Z) : res Z :=           (* CPyLong_AsInt64 and friends on an object *)
  if in_range t v then Ok v else Raise ValueError.
Definition coerce_int_to_fw (t : fw) (x : tagged) : res Z :=
  match x with
  | Short w =>
      if fw_size t <? 8 then
        (* check_fixed_width_range on the tagged word: Integer(bound, int_rprimitive).value = bound * 2 *)
        if s64 w <? 2 * fw_upper t then
          if 2 * fw_lower t <=? s64 w then Ok (fw_wrap t (Z.shiftr (s64 w) 1))    (* shift, Truncate *)
          else (match t with I64 => long_as_fw t (as_object x) | _ => Raise ValueError end)
        else (match t with I64 => long_as_fw t (as_object x) | _ => Raise ValueError end)
      else Ok (Z.shiftr (s64 w) 1)
  | Long v =>
      match t with
      | I64 => long_as_fw t v
      | _ => Raise ValueError            (* "Slow path just always generates an OverflowError" (CPyInt32_Overflow: ValueError) *)
      end
  end.

(* coerce_fixed_width_to_int *)
Definition coerce_fw_to_int (t : fw) (x : Z) : tagged :=
  match t with
  | I64 =>
      if x <=? B62 - 1 then
        if - B62 <=? x then Short (u64 (Z.shiftl x 1)) else from_ssize x       (* CPyTagged_FromInt64 *)
      else from_ssize x
  | _ => Short (u64 (Z.shiftl x 1))                                            (* Extend, << 1 *)
  end.

(* bool -> int: shift left by one, zero-extend; bool -> fixed width: zero-extend *)
Definition bool_to_tagged (b : bool) : tagged := Short (if b then 2 else 0).
Definition bool_to_z (b : bool) : Z := if b then 1 else 0.

(* ------------------------------------------------------------------ error-value ("magic") calling convention *)
(* A C primitive returning a native value signals an exception by returning the type's error value (rtypes.py
   c_undefined: -113 for signed, 239 for unsigned, -113.0 for double) with the Python error indicator set.
   The caller generated by mypyc (transform/exceptions.py) decides from the declared error_kind:
   ERR_MAGIC: error iff result == magic;  ERR_MAGIC_OVERLAPPING: error iff result == magic && PyErr_Occurred(). *)
Inductive errkind := ErrNever | ErrMagic | ErrFalse | ErrAlways | ErrMagicOverlapping.
Inductive rkind := RFw (t : fw) | RFloat.
Definition fw_magic (t : fw) : Z := match t with U8 => 239 | _ => -113 end.

(* what the callee hands back: (returned word, error indicator set) *)
Definition c_return (t : fw) (r : fres) : option (Z * bool) :=
  match r with FOk v => Some (v, false) | FRaise _ => Some (fw_magic t, true) | FUndefined => None end.

Inductive seen := SValue (v : Z) | SError | SErrorPathWithoutException.   (* the last one: NULL exception is propagated -> crash *)
Definition caller_sees (k : errkind) (t : fw) (ret : Z * bool) : seen :=
  let '(v, err) := ret in
  match k with
  | ErrMagic => if v =? fw_magic t then (if err then SError else SErrorPathWithoutException) else SValue v
  | ErrMagicOverlapping => if (v =? fw_magic t) && err then SError else SValue v
  | ErrNever => SValue v
  | ErrFalse | ErrAlways => SError
  end.
Definition expected_seen (r : fres) : option seen :=
  match r with FOk v => Some (SValue v) | FRaise _ => Some SError | FUndefined => None end.

(* every native-returning primitive of int_ops.py / float_ops.py that can fail can also legitimately return the
   magic value (full result range), so only ERR_MAGIC_OVERLAPPING (or ERR_NEVER for infallible ones) is sound *)
Definition errkind_sound (k : errkind) : bool :=
  match k with ErrMagicOverlapping | ErrNever => true | _ => false end.

(* ------------------------------------------------------------------ int.bit_length (CPyTagged_BitLength) *)
Definition py_bit_length (a : Z) : Z := if a =? 0 then 0 else Z.log2 (Z.abs a) + 1.
(* short: absval = |value|, bits = 64 - clz(absval) = log2(absval) + 1; boxed: _PyLong_NumBits; `int bits` returned as bits << 1 *)
Definition tagged_bit_length (x : tagged) : tagged :=
  match x with
  | Short w =>
      if w =? 0 then Short 0
      else
        let v := short_as_ssize w in
        let absval := if v <? 0 then - v else v in
        let bits := if absval =? 0 then 0 else Z.log2 absval + 1 in
        Short (u64 (bits * 2))
  | Long v => Short (u64 (py_bit_length v * 2))
  end.
