(* C15 — the error-value calling convention of native-returning primitives, and the table extracted from /repo *)
From Coq Require Import ZArith Bool List String Lia.
From C15 Require Import Model.
From Gen Require Import C15ErrKinds.
Open Scope Z_scope.

Lemma overlapping_sound t r ret :
  c_return t r = Some ret -> Some (caller_sees ErrMagicOverlapping t ret) = expected_seen r.
Proof.
  destruct r as [v|e|]; cbn [c_return]; intros H; inversion H; subst; cbn [caller_sees expected_seen].
  - now rewrite Bool.andb_false_r.
  - now rewrite Z.eqb_refl.
Qed.

Lemma never_sound_on_values t v : caller_sees ErrNever t (v, false) = SValue v.
Proof. reflexivity. Qed.

Lemma magic_unsound t :
  exists r ret, c_return t r = Some ret /\ expected_seen r = Some (SValue (fw_magic t)) /\
                caller_sees ErrMagic t ret = SErrorPathWithoutException.
Proof.
  exists (FOk (fw_magic t)), (fw_magic t, false). repeat split. cbn [caller_sees]. now rewrite Z.eqb_refl.
Qed.

(* the magic value IS a legitimate result of the fallible fixed-width primitives *)
Lemma magic_reachable t :
  exists x y, in_range t x = true /\ in_range t y = true /\ fw_op t FMod x y = FOk (fw_magic t).
Proof. destruct t; [exists (-113), (-200) | exists (-113), (-200) | exists (-113), (-200) | exists 239, 240]; vm_compute; auto. Qed.

Lemma src_magic_matches t : src_magic t = fw_magic t /\ src_magic_float = -113.
Proof. destruct t; split; reflexivity. Qed.

Lemma err_table_sound : forallb (fun e => errkind_sound (snd e)) err_table = true.
Proof. vm_compute. reflexivity. Qed.

Lemma err_table_covers :
  forall n, In n ("CPyInt64_Divide" :: "CPyInt64_Remainder" :: "CPyInt32_Divide" :: "CPyInt32_Remainder" ::
                  "CPyInt16_Divide" :: "CPyInt16_Remainder" :: "CPyLong_AsInt64" :: "CPyLong_AsInt32" ::
                  "CPyTagged_TrueDivide" :: "CPyFloat_FloorDivide" :: "CPyFloat_FromTagged" :: nil)%string ->
  existsb (fun e => String.eqb (fst (fst e)) n) err_table = true.
Proof. intros n H. cbn [In] in H. repeat (destruct H as [<-|H]; [vm_compute; reflexivity|]). contradiction. Qed.
