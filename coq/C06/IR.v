(* C06 — mypyc IR abstracted to what matters for ownership, and its CONCRETE ownership semantics.

   The abstraction of every op is taken from the real op object at dump time (tools/harness/C06.py):
   dest, dest.type.is_refcounted, is_borrowed, sources(), stolen(), error_kind, op kind.  An op is compiled
   (function [compile_op], executable, part of the extracted validator) to a short list of MICRO actions;
   the semantics below is given per micro action.

   Concrete state: every IR value (register or op result) holds
      CUninit            never assigned: its C variable is uninitialised memory
      CNull u            the error value (NULL / tagged-int error / ...); u = it stands for "undefined local"
      CObj k b           a real object; this NAME holds k references to it; b says why the pointer is valid
                         even with k = 0 (a borrowed reference):
                           BAlways   argument / static / literal / non-refcounted value
                           BFrom w   borrowed from the object held through value w: valid only while w still
                                     holds it; when w gives up its last reference the borrowers inherit w's own
                                     justification (or become BNone), when w's reference MOVES to d (Assign)
                                     they follow it (BFrom d)
                           BNone     no justification
   CObj 0 BNone is a released (possibly dangling) pointer: any use of it is a violation
   ("no use after the owner's last release").                                                        *)
From Coq Require Import PArith List Bool Arith.
Import ListNotations.

Definition val := positive.
Definition label := positive.

Inductive bor := BNone | BAlways | BFrom (w : val).
Definition valid (b : bor) : bool := match b with BNone => false | _ => true end.
Inductive cval := CUninit | CNull (u : bool) | CObj (k : nat) (b : bor).

Definition cstate := val -> cval.
Definition cset (v : val) (c : cval) (s : cstate) : cstate := fun x => if Pos.eqb x v then c else s x.

Definition owned (c : cval) : nat := match c with CObj k _ => k | _ => 0 end.

(* micro actions *)
Inductive micro :=
| MRead (v : val)                         (* generic operand of an op *)
| MTouch (v : val)                        (* raw machine-level operand (pointer comparison): not dereferenced *)
| MRelease (v : val)                      (* stolen operand (consumes one reference); NULL: nothing to consume *)
| MForget (v : val)                       (* KeepAlive(steal): the name gives up a reference WITHOUT a run-time
                                             dec_ref; what was borrowed from it stays alive (BAlways) *)
| MDec (v : val) (x : bool)               (* dec_ref / xdec_ref *)
| MInc (v : val)                          (* inc_ref *)
| MAssume (v : val)                       (* trusted irbuild invariant: v is not the error value here *)
| MDef (d : val) (own maynull : bool) (ow : option val)
                                          (* result of an op: own = refcounted and not borrowed;
                                             ow = the value a borrowed result is borrowed from (None: static) *)
| MDefNull (d : val)                      (* LoadErrorValue *)
| MSlotInit (t : val)                     (* an INITIALIZING attribute store (SetAttr.is_init: the old slot value is
                                             not released) or a call that will perform one: legal only while the
                                             token t of that (object, attribute) slot is provably UNSET; consumes it *)
| MSlotKill (t : val)                     (* the slot may be set from now on (store through any name, object escaped) *)
| MMove (d s : val) (mv own undef : bool) (* Assign d := s; mv = the reference moves (both refcounted);
                                             undef = s is LoadErrorValue(undefines=True) *).

Inductive brkind := BBool | BIsError.
Inductive term :=
| TGoto (l : label)
| TBranch (k : brkind) (v : option val) (neg : bool) (lt lf : label)
| TReturn (v : option val) (rc : bool)
| TUnreachable.

Record block := { bops : list micro; bterm : term }.

(* op alphabet as dumped *)
Inductive opkind := KOther | KAssign | KAssignLit | KAssignMulti | KIncRef | KDecRef | KLoadErr | KUnborrow
                  | KLoadAddress | KKeepAlive | KHeapRef | KAssume | KRawRead.

Record op := { okind : opkind; odest : option val; orc : bool; oborrowed : bool; omaynull : bool;
               oflag : bool; osrcs : list val; ostolen : list val; oowner : option val;
               oslot : list val;    (* slot tokens this op needs UNSET (init store / call of an __init__ that init-stores) *)
               okill : list val }.  (* slot tokens that are possibly set after this op *)

Definition generic (o : op) (bor : bool) : list micro :=
  map MRead (osrcs o) ++ map MRelease (ostolen o) ++
  match odest o with Some d => [MDef d (orc o && negb bor) (omaynull o) (oowner o)] | None => [] end.

Definition compile_core (o : op) : list micro :=
  match okind o with
  | KOther | KAssignMulti | KHeapRef => generic o (oborrowed o)
  | KKeepAlive => map MRead (osrcs o) ++ map MForget (ostolen o)
  | KRawRead => map MTouch (osrcs o) ++
                match odest o with Some d => [MDef d (orc o && negb (oborrowed o)) (omaynull o) (oowner o)] | None => [] end
  | KUnborrow => generic o false
  | KLoadAddress => match odest o with Some d => [MDef d false false None] | None => [] end
  | KLoadErr => match odest o with Some d => [MDefNull d] | None => [] end
  | KAssignLit => match odest o with Some d => [MDef d (orc o) false None] | None => [] end
  | KAssign => match odest o, osrcs o with
               | Some d, s :: _ => [MMove d s (match ostolen o with [] => false | _ => true end) (orc o) (oflag o)]
               | _, _ => []
               end
  | KIncRef => match osrcs o with s :: _ => [MInc s] | [] => [] end
  | KDecRef => match osrcs o with s :: _ => [MDec s (oflag o)] | [] => [] end
  | KAssume => match osrcs o with s :: _ => [MAssume s] | [] => [] end
  end.

(* Slot tokens live in the same state as IR values: CNull = the slot is unset, anything else = possibly set. *)
Definition compile_op (o : op) : list micro :=
  compile_core o ++ map MSlotInit (oslot o) ++ map MSlotKill (okill o).

(* ---- concrete semantics of one micro action ------------------------------------------------- *)
Inductive res (A : Type) := Viol | Blocked | Next (a : A).
Arguments Viol {A}. Arguments Blocked {A}. Arguments Next {A} a.

(* may the pointer be dereferenced / handed to an op *)
Definition usable (c : cval) : bool := match c with CObj k b => (0 <? k) || valid b | _ => false end.
(* generic operand: a usable object, or a NULL that does not stand for an undefined local *)
Definition readable (c : cval) : bool :=
  match c with CObj _ _ => usable c | CNull u => negb u | CUninit => false end.

(* everything borrowed from w now depends on nb instead *)
Definition retarget (w : val) (nb : bor) (s : cstate) : cstate :=
  fun x => match s x with
           | CObj k (BFrom w') => if Pos.eqb w' w then CObj k nb else s x
           | c => c
           end.
Definition inherit (b succ : bor) : bor := match succ with BNone => b | _ => succ end.
(* what a value borrowed from w depends on *)
Definition croot (s : cstate) (w : val) : bor :=
  match s w with CObj (S _) _ => BFrom w | CObj 0 b => b | _ => BNone end.

(* consume one reference held through v; strict: NULL is a violation (plain dec_ref);
   succ: BFrom d when the reference moves to d (Assign), BNone otherwise *)
Definition crelease (strict : bool) (v : val) (succ : bor) (s : cstate) : res cstate :=
  match s v with
  | CObj (S k) b => let s1 := cset v (CObj k b) s in
                    Next (match k with 0 => retarget v (inherit b succ) s1 | _ => s1 end)
  | CObj 0 _ => Viol                          (* release of a reference this name does not own *)
  | CNull _ => if strict then Viol else Next s
  | CUninit => Viol
  end.

(* oc: the nondeterministic outcome of an op that may produce the error value (true = it does) *)
Definition cmicro (m : micro) (oc : bool) (s : cstate) : res cstate :=
  match m with
  | MRead v => if readable (s v) then Next s else Viol
  | MTouch v => match s v with CUninit | CNull true => Viol | _ => Next s end
  | MRelease v => crelease false v BNone s
  | MForget v => crelease false v BAlways s
  | MDec v x => crelease (negb x) v BNone s
  | MInc v => match s v with
              | CObj k b => if usable (s v) then Next (cset v (CObj (S k) b) s) else Viol
              | _ => Viol
              end
  | MAssume v => match s v with CNull _ => Blocked | _ => Next s end
  | MDef d own maynull ow =>
      if Nat.eqb (owned (s d)) 0
      then Next (cset d (if maynull && oc then CNull false
                         else if own then CObj 1 BNone
                         else CObj 0 (match ow with Some w => croot s w | None => BAlways end)) s)
      else Viol                                (* the old reference in d is overwritten: leak *)
  | MDefNull d => if Nat.eqb (owned (s d)) 0 then Next (cset d (CNull false) s) else Viol
  | MSlotInit t => match s t with
                   | CNull _ => Next (cset t CUninit s)
                   | _ => Viol             (* init store to a possibly-set slot: the old value leaks *)
                   end
  | MSlotKill t => Next (cset t CUninit s)
  | MMove d sv mv own undef =>
      if readable (s sv) then
        match (if mv then crelease false sv (BFrom d) s else Next s) with
        | Next s1 =>
            if Nat.eqb (owned (s1 d)) 0
            then Next (cset d (match s sv with
                               | CNull u => CNull (u || undef)
                               | _ => if own then CObj 1 BNone else CObj 0 BAlways
                               end) s1)
            else Viol
        | r => r
        end
      else Viol
  end.

(* ---- control flow ----------------------------------------------------------------------------- *)
Inductive tres := TViol | TDone | TJump (l : label) (s : cstate).

Definition leak_free (s : cstate) : Prop := forall v, owned (s v) = 0.

(* ch: nondeterministic direction of a boolean branch *)
Definition cterm (t : term) (ch : bool) (s : cstate) : tres :=
  match t with
  | TGoto l => TJump l s
  | TBranch BBool None _ lt lf => TJump (if ch then lt else lf) s
  | TBranch BBool (Some v) _ lt lf => if readable (s v) then TJump (if ch then lt else lf) s else TViol
  | TBranch BIsError None _ lt lf => TJump (if ch then lt else lf) s
  | TBranch BIsError (Some v) neg lt lf =>
      match s v with
      | CUninit => TViol
      | CNull _ => TJump (if neg then lf else lt) s
      | CObj _ _ => TJump (if neg then lt else lf) s
      end
  | TReturn None _ => TDone
  | TReturn (Some v) rc =>
      if readable (s v) then
        if rc then match crelease false v BNone s with Next _ => TDone | _ => TViol end else TDone
      else TViol
  | TUnreachable => TDone
  end.

(* state in which the function returns (after the returned reference was handed to the caller) *)
Definition cterm_final (t : term) (s : cstate) : cstate :=
  match t with
  | TReturn (Some v) true => match crelease false v BNone s with Next s' => s' | _ => s end
  | _ => s
  end.
Definition is_return (t : term) : bool := match t with TReturn _ _ => true | _ => false end.

(* A function: blocks by label (entry = 1), arguments with (refcounted, may be NULL = optional). *)
From Coq Require Import FMapPositive.
Record func := { fblocks : PositiveMap.t block; fargs : list (val * bool);
                 ftokens : list val   (* slot tokens that are unset on entry (fresh self of __init__) *) }.

(* program point = the rest of the current block *)
Record config := Cfg { crest : list micro; cterm_ : term; cst : cstate }.

Inductive step (f : func) : config -> config -> Prop :=
| step_micro : forall m ms t s oc s',
    cmicro m oc s = Next s' -> step f (Cfg (m :: ms) t s) (Cfg ms t s')
| step_jump : forall t s ch l s' b,
    cterm t ch s = TJump l s' -> PositiveMap.find l (fblocks f) = Some b ->
    step f (Cfg [] t s) (Cfg (bops b) (bterm b) s').

Inductive steps (f : func) : config -> config -> Prop :=
| steps_refl : forall c, steps f c c
| steps_step : forall c1 c2 c3, steps f c1 c2 -> step f c2 c3 -> steps f c1 c3.

(* something goes wrong AT this program point (for some outcome of the environment) *)
Definition violates (f : func) (c : config) : Prop :=
  match crest c with
  | m :: _ => exists oc, cmicro m oc (cst c) = Viol
  | [] => (exists ch, cterm (cterm_ c) ch (cst c) = TViol)                 (* bad release / undefined read *)
          \/ (exists ch l s', cterm (cterm_ c) ch (cst c) = TJump l s'
                              /\ PositiveMap.find l (fblocks f) = None)      (* jump out of the function *)
          \/ (is_return (cterm_ c) = true /\ ~ leak_free (cterm_final (cterm_ c) (cst c)))   (* leak *)
  end.

(* arguments are borrowed from the caller: valid, not owned; optional ones may be NULL *)
Definition arg_ok (opt : bool) (c : cval) : Prop := c = CObj 0 BAlways \/ (opt = true /\ c = CNull false).
Fixpoint lookup_arg (l : list (val * bool)) (v : val) : option bool :=
  match l with [] => None | (a, o) :: r => if Pos.eqb v a then Some o else lookup_arg r v end.
Definition initial_state (f : func) (s : cstate) : Prop :=
  forall v, match lookup_arg (fargs f) v with
            | Some opt => arg_ok opt (s v)
            | None => if existsb (Pos.eqb v) (ftokens f) then s v = CNull false else s v = CUninit
            end.

Definition initial_config (f : func) (c : config) : Prop :=
  exists b, PositiveMap.find 1%positive (fblocks f) = Some b /\ crest c = bops b /\ cterm_ c = bterm b
            /\ initial_state f (cst c).
