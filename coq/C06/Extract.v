From Coq Require Import PArith List Bool FMapPositive Extraction ExtrOcamlBasic.
From C06 Require Import IR Checker AttrDef.
Extraction "c06.ml" check_func mk_func mk_block compile_op acheck mk_cls mk_ablock.
