From Coq Require Import PArith List Bool Arith FMapPositive.
From C06 Require Import AttrDef.
Import ListNotations.

Definition agam (d : list attr) (s : ast) : Prop := forall a, mem a d = true -> s a = true.

Lemma mem_cons : forall a b l, mem a (b :: l) = Pos.eqb a b || mem a l.
Proof. reflexivity. Qed.
Lemma mem_app : forall a l1 l2, mem a (l1 ++ l2) = mem a l1 || mem a l2.
Proof. intros. unfold mem. apply existsb_app. Qed.

Lemma subset_mem : forall l1 l2 a, subset l1 l2 = true -> mem a l1 = true -> mem a l2 = true.
Proof.
  intros l1 l2 a H M. unfold subset in H. rewrite forallb_forall in H.
  unfold mem in M. apply existsb_exists in M. destruct M as [x [Hin E]].
  apply Pos.eqb_eq in E. subst. apply H. exact Hin.
Qed.

Lemma agam_subset : forall d d' s, subset d' d = true -> agam d s -> agam d' s.
Proof. intros d d' s H G a M. apply G. eapply subset_mem; eauto. Qed.

Lemma agam_tr : forall o d s, agam d s -> agam (aop_tr o d) (aexec o s).
Proof.
  intros o d s G a M. destruct o; unfold aop_tr, aexec in *; auto.
  - unfold aset1. rewrite mem_cons in M. destruct (Pos.eqb a a0); auto.
  - unfold asetl. rewrite mem_app in M. destruct (mem a attrs); auto.
Qed.

Lemma aop_ok_sound : forall c o d s, aop_ok c o d = true -> agam d s -> ~ abad c o s.
Proof.
  intros c o d s H G B. destruct o as [a|a| |lk l]; simpl in *; auto.
  - destruct B as [M F]. rewrite M in H. simpl in H. apply G in H. congruence.
  - destruct B as [a [M F]]. pose proof (subset_mem _ _ _ H M) as M2. apply G in M2. congruence.
  - destruct lk; auto. destruct B as [a [M [F N]]]. pose proof (subset_mem _ _ _ H M) as M2.
    rewrite mem_app in M2. rewrite N in M2. simpl in M2. apply G in M2. congruence.
Qed.

Section S.
Variable c : cls.
Variable ann : aann.
Hypothesis CHK : acheck_ann c ann = true.

Definition ainv (x : acfg) : Prop := exists d, agam d (asta x) /\ ablock_ok c ann (arest x) (atm_ x) d = true.

Lemma aedge_target : forall d s l, aedge_ok ann d l = true -> agam d s ->
  exists b, PositiveMap.find l (cblocks c) = Some b /\ ainv (ACfg (aops b) (atrm b) s).
Proof.
  intros d s l H G. unfold aedge_ok in H. destruct (PositiveMap.find l ann) as [an|] eqn:E; try discriminate.
  pose proof CHK as C0. unfold acheck_ann in C0. apply andb_prop in C0. destruct C0 as [_ C2].
  rewrite forallb_forall in C2. apply PositiveMap.elements_correct in E. specialize (C2 _ E). simpl in C2.
  destruct (PositiveMap.find l (cblocks c)) as [b|]; try discriminate.
  exists b. split; auto. exists an. split; auto. simpl. eapply agam_subset; eauto.
Qed.

Lemma ainv_init : forall x, ainitial c x -> ainv x.
Proof.
  intros x [b [Hb [Hr [Ht Hs]]]].
  pose proof CHK as C0. unfold acheck_ann in C0. apply andb_prop in C0. destruct C0 as [C1 _].
  assert (G : agam (defaults c) (asta x)) by (intros a M; rewrite Hs; exact M).
  destruct (aedge_target _ _ _ C1 G) as [b' [Hb' I]]. rewrite Hb in Hb'. inversion Hb'; subst b'.
  destruct x as [r t s]. simpl in *. subst. exact I.
Qed.

Lemma ainv_step : forall x y, ainv x -> astep c x y -> ainv y.
Proof.
  intros x y [d [G H]] ST. inversion ST; subst; simpl in *.
  - apply andb_prop in H. destruct H as [_ H]. exists (aop_tr o d). split; auto. simpl. apply agam_tr; auto.
  - assert (HE : aedge_ok ann d l = true).
    { destruct t; simpl in *; try contradiction.
      - subst. exact H.
      - apply andb_prop in H. destruct H as [K1 K2]. destruct H0; subst; auto. }
    destruct (aedge_target _ _ _ HE G) as [b' [Hb' I]].
    match goal with F : PositiveMap.find l (cblocks c) = Some b |- _ => rewrite F in Hb' end.
    inversion Hb'; subst. exact I.
Qed.

Lemma ainv_safe : forall x, ainv x -> ~ aviolates c x.
Proof.
  intros [os t s] [d [G H]] V. unfold aviolates in V. simpl in *. destruct os as [|o os].
  - destruct t; simpl in *.
    + destruct V as [l' [E F]]. subst. destruct (aedge_target _ _ _ H G) as [b [Hb _]]. congruence.
    + apply andb_prop in H. destruct H as [H1 H2]. destruct V as [l' [[E|E] F]]; subst.
      * destruct (aedge_target _ _ _ H1 G) as [b [Hb _]]. congruence.
      * destruct (aedge_target _ _ _ H2 G) as [b [Hb _]]. congruence.
    + destruct V as [a [M F]]. pose proof (subset_mem _ _ _ H M) as M2. apply G in M2. congruence.
    + destruct V as [l' [[] _]].
  - simpl in H. apply andb_prop in H. destruct H as [H _]. eapply aop_ok_sound; eauto.
Qed.
End S.

Theorem acheck_sound : forall c fuel, acheck c fuel = true ->
  forall x0 x, ainitial c x0 -> asteps c x0 x -> ~ aviolates c x.
Proof.
  intros c fuel H x0 x I ST. unfold acheck in H.
  destruct (aiter c fuel _ _) as [ann|]; try discriminate.
  eapply ainv_safe; eauto. clear -H I ST. induction ST.
  - eapply ainv_init; eauto.
  - eapply ainv_step; eauto.
Qed.
