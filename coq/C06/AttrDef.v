(* C06 — always-defined attributes (mypyc/analysis/attrdefined.py): an independent, verified check of the
   RESULT of that analysis.  Per class we are given the claimed set (ClassIR._always_initialized_attrs), the
   attributes with class-body defaults, and __init__ abstracted to: assignments self.a = .., reads self.a,
   ops that leak self to arbitrary code, calls of a base-class __init__ (which initialises the base's own
   always-defined attributes, and may itself leak self), Return (self escapes to the caller).            *)
From Coq Require Import PArith List Bool Arith FMapPositive.
Import ListNotations.

Definition attr := positive.
Definition lbl := positive.

Inductive aop := ASet (a : attr) | ARead (a : attr) | ALeak | AInit (leaks : bool) (attrs : list attr).
Inductive atm := AGoto (l : lbl) | ABranch (l1 l2 : lbl) | AReturn | AUnreach.
Record ablock := { aops : list aop; atrm : atm }.
Record cls := { cblocks : PositiveMap.t ablock; claimed : list attr; defaults : list attr }.

Definition mem (a : attr) (l : list attr) : bool := existsb (Pos.eqb a) l.

(* ---- concrete semantics: which attributes have been assigned so far on this path ---------------- *)
Definition ast := attr -> bool.
Definition aset1 (a : attr) (s : ast) : ast := fun x => if Pos.eqb x a then true else s x.
Definition asetl (l : list attr) (s : ast) : ast := fun x => if mem x l then true else s x.

Definition aexec (o : aop) (s : ast) : ast :=
  match o with ASet a => aset1 a s | AInit _ l => asetl l s | _ => s end.

(* an attribute claimed always-defined is observable while unassigned *)
Definition abad (c : cls) (o : aop) (s : ast) : Prop :=
  match o with
  | ARead a => mem a (claimed c) = true /\ s a = false
  | ALeak => exists a, mem a (claimed c) = true /\ s a = false
  | AInit true l => exists a, mem a (claimed c) = true /\ s a = false /\ mem a l = false
  | _ => False
  end.

Record acfg := ACfg { arest : list aop; atm_ : atm; asta : ast }.

Definition asucc (t : atm) (l : lbl) : Prop :=
  match t with AGoto l' => l = l' | ABranch l1 l2 => l = l1 \/ l = l2 | _ => False end.

Inductive astep (c : cls) : acfg -> acfg -> Prop :=
| astep_op : forall o os t s, astep c (ACfg (o :: os) t s) (ACfg os t (aexec o s))
| astep_jump : forall t s l b, asucc t l -> PositiveMap.find l (cblocks c) = Some b ->
    astep c (ACfg [] t s) (ACfg (aops b) (atrm b) s).
Inductive asteps (c : cls) : acfg -> acfg -> Prop :=
| asteps_refl : forall x, asteps c x x
| asteps_step : forall x y z, asteps c x y -> astep c y z -> asteps c x z.

Definition aviolates (c : cls) (x : acfg) : Prop :=
  match arest x with
  | o :: _ => abad c o (asta x)
  | [] => match atm_ x with
          | AReturn => exists a, mem a (claimed c) = true /\ asta x a = false
          | t => exists l, asucc t l /\ PositiveMap.find l (cblocks c) = None
          end
  end.

Definition ainitial (c : cls) (x : acfg) : Prop :=
  exists b, PositiveMap.find 1%positive (cblocks c) = Some b /\ arest x = aops b /\ atm_ x = atrm b /\
            forall a, asta x a = mem a (defaults c).

(* ---- checker ----------------------------------------------------------------------------------- *)
Definition subset (l1 l2 : list attr) : bool := forallb (fun a => mem a l2) l1.

Definition aop_ok (c : cls) (o : aop) (d : list attr) : bool :=
  match o with
  | ARead a => negb (mem a (claimed c)) || mem a d
  | ALeak => subset (claimed c) d
  | AInit true l => subset (claimed c) (l ++ d)
  | _ => true
  end.
Definition aop_tr (o : aop) (d : list attr) : list attr :=
  match o with ASet a => a :: d | AInit _ l => l ++ d | _ => d end.

Definition aann := PositiveMap.t (list attr).
Definition aedge_ok (ann : aann) (d : list attr) (l : lbl) : bool :=
  match PositiveMap.find l ann with Some an => subset an d | None => false end.

Fixpoint ablock_ok (c : cls) (ann : aann) (os : list aop) (t : atm) (d : list attr) : bool :=
  match os with
  | o :: os' => aop_ok c o d && ablock_ok c ann os' t (aop_tr o d)
  | [] => match t with
          | AGoto l => aedge_ok ann d l
          | ABranch l1 l2 => aedge_ok ann d l1 && aedge_ok ann d l2
          | AReturn => subset (claimed c) d
          | AUnreach => true
          end
  end.

Definition acheck_ann (c : cls) (ann : aann) : bool :=
  aedge_ok ann (defaults c) 1%positive &&
  forallb (fun p => match PositiveMap.find (fst p) (cblocks c) with
                    | Some b => ablock_ok c ann (aops b) (atrm b) (snd p)
                    | None => false end) (PositiveMap.elements ann).

(* inference (untrusted): must-analysis by worklist, intersection at merges *)
Fixpoint aout (os : list aop) (d : list attr) : list attr :=
  match os with o :: os' => aout os' (aop_tr o d) | [] => d end.
Definition atargets (t : atm) : list lbl :=
  match t with AGoto l => [l] | ABranch l1 l2 => [l1; l2] | _ => [] end.

Fixpoint aiter (c : cls) (fuel : nat) (wl : list lbl) (ann : aann) : option aann :=
  match fuel with
  | 0 => None
  | S fuel' =>
      match wl with
      | [] => Some ann
      | l :: wl' =>
          match PositiveMap.find l (cblocks c), PositiveMap.find l ann with
          | Some b, Some d =>
              let o := aout (aops b) d in
              let r := fold_left (fun (acc : aann * list lbl) t =>
                         match PositiveMap.find t (fst acc) with
                         | None => (PositiveMap.add t o (fst acc), t :: snd acc)
                         | Some old => let nw := filter (fun a => mem a o) old in
                                       if Nat.eqb (length nw) (length old) then acc
                                       else (PositiveMap.add t nw (fst acc), t :: snd acc)
                         end) (atargets (atrm b)) (ann, wl') in
              aiter c fuel' (snd r) (fst r)
          | _, _ => None
          end
      end
  end.

Definition acheck (c : cls) (fuel : nat) : bool :=
  match aiter c fuel [1%positive] (PositiveMap.add 1%positive (defaults c) (PositiveMap.empty _)) with
  | Some ann => acheck_ann c ann
  | None => false
  end.

Definition mk_cls (blocks : list (lbl * ablock)) (cl df : list attr) : cls :=
  {| cblocks := fold_left (fun m p => PositiveMap.add (fst p) (snd p) m) blocks (PositiveMap.empty ablock);
     claimed := cl; defaults := df |}.
Definition mk_ablock (os : list aop) (t : atm) : ablock := {| aops := os; atrm := t |}.
