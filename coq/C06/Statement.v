(* C06 — full-strength statement.

   Property: every reference a compiled function acquires is released exactly once on every path incl.
   exceptional exits; reads of never-assigned locals/attributes raise instead of touching uninitialised
   memory; no accepted program crashes the interpreter.

   STATIC HALF (proved for the validator, then established per function by running it):           *)
From Coq Require Import PArith List Bool FMapPositive.
From C06 Require Import IR Checker.

(* For one function IR: on EVERY path of unbounded length from the entry, at every program point, for every
   outcome of the environment (which ops fail, which way boolean branches go):
   no release of a reference the name does not own, no dec_ref/inc_ref of NULL or of a released pointer, no
   operand read that is uninitialised / an undefined local / a released pointer, no overwrite of an owned
   reference, no jump outside the function, and at every Return nothing is still owned (no leak).        *)
Definition memory_safe_ir (f : func) : Prop :=
  forall c0 c, initial_config f c0 -> steps f c0 c -> ~ violates f c.

(* what the validator must guarantee *)
Definition validator_sound : Prop :=
  forall f fuel, check_func f fuel = Accept -> memory_safe_ir f.

(* FULL PROPERTY (not a Coq theorem): "for every program P accepted by mypyc and every function g of P,
   memory_safe_ir (abstract (refcount_pass (exceptions (uninit (irbuild P g)))))" plus "the C code emitted
   for each op implements its declared ownership contract (steals / is_borrowed / error_kind)".
   The first part is established per function, on every run, by executing the extracted validator on the
   FuncIR the real pipeline produces (translation validation); the second part is monitored dynamically.
   Idioms whose justification lies outside this abstraction are listed in notes/C06.md and counted. *)
(* always-defined attributes: the claim of attrdefined.py for one class is justified by its __init__ *)
From C06 Require Import AttrDef.
Definition always_defined_claim_justified (c : cls) : Prop :=
  forall x0 x, ainitial c x0 -> asteps c x0 x -> ~ aviolates c x.
Definition attr_validator_sound : Prop := forall c fuel, acheck c fuel = true -> always_defined_claim_justified c.

Definition full_statement_is_established_by_translation_validation : Prop := validator_sound.
