(* C06 — the validator: abstract interpreter over the CFG with per-edge consistency check.

   Abstract value of an IR value:
     AUninit | ANull u | AObj k b | AMaybe k b u (error value, or an object with k owned refs) |
     ADead (anything that owns nothing: may not be touched).
   [infer] computes block-entry states by a worklist with fuel (untrusted); [check_ann] re-checks the
   candidate annotation edge by edge (this is what the soundness proof is about); [check_func] = both. *)
From Coq Require Import PArith List Bool Arith FMapPositive.
From C06 Require Import IR.
Import ListNotations.

Inductive aval := AUninit | ANull (u : bool) | AObj (k : nat) (b : bor) | AMaybe (k : nat) (b : bor) (u : bool) | ADead.

Definition astate := PositiveMap.t aval.
Definition aget (a : astate) (v : val) : aval :=
  match PositiveMap.find v a with Some x => x | None => AUninit end.
Definition aset (v : val) (x : aval) (a : astate) : astate := PositiveMap.add v x a.

Definition aowned (x : aval) : nat := match x with AObj k _ | AMaybe k _ _ => k | _ => 0 end.

Definition ble (b1 b2 : bool) : bool := implb b1 b2.
(* borrow justification: [weak] promises no more than [strong] *)
Definition bor_leb (weak strong : bor) : bool :=
  match weak, strong with
  | BNone, _ => true
  | BAlways, BAlways => true
  | BFrom w, BAlways => true
  | BFrom w, BFrom w' => Pos.eqb w w'
  | _, _ => false
  end.

(* inclusion of concretisations *)
Definition ale (x y : aval) : bool :=
  match x, y with
  | AUninit, AUninit => true
  | ANull u, ANull u' => ble u u'
  | ANull u, AMaybe _ _ u' => ble u u'
  | AObj k b, AObj k' b' => Nat.eqb k k' && bor_leb b' b
  | AObj k b, AMaybe k' b' _ => Nat.eqb k k' && bor_leb b' b
  | AMaybe k b u, AMaybe k' b' u' => Nat.eqb k k' && bor_leb b' b && ble u u'
  | _, ADead => Nat.eqb (aowned x) 0
  | _, _ => false
  end.

Definition ale_state (a1 a2 : astate) : bool :=
  forallb (fun p => ale (snd p) (aget a2 (fst p))) (PositiveMap.elements a1) &&
  forallb (fun p => ale (aget a1 (fst p)) (snd p)) (PositiveMap.elements a2).

Definition ausable (x : aval) : bool := match x with AObj k b => (0 <? k) || valid b | _ => false end.
Definition areadable (x : aval) : bool :=
  match x with
  | AObj k b => (0 <? k) || valid b
  | ANull u => negb u
  | AMaybe k b u => ((0 <? k) || valid b) && negb u
  | _ => false
  end.

(* error codes: 1 read, 2 release of unowned, 3 release of null/undefined/dead, 4 inc_ref, 5 overwrite of an
   owned reference, 6 leak at return, 7 error check on garbage, 8 inconsistent edge, 9 missing block/annotation,
   10 out of fuel *)
Definition err := (nat * val)%type.

Definition aretarget (w : val) (nb : bor) (a : astate) : astate :=
  PositiveMap.map (fun x => match x with
                            | AObj k (BFrom w') => if Pos.eqb w' w then AObj k nb else x
                            | AMaybe k (BFrom w') u => if Pos.eqb w' w then AMaybe k nb u else x
                            | _ => x
                            end) a.
Definition aroot (a : astate) (w : val) : bor :=
  match aget a w with AObj (S _) _ => BFrom w | AObj 0 b => b | _ => BNone end.

Definition arelease (strict : bool) (v : val) (succ : bor) (a : astate) : astate + err :=
  match aget a v with
  | AObj (S k) b => let a1 := aset v (AObj k b) a in
                    inl (match k with 0 => aretarget v (inherit b succ) a1 | _ => a1 end)
  | AObj 0 _ => inr (2, v)
  | ANull _ => if strict then inr (3, v) else inl a
  | AMaybe (S k) b u => if strict then inr (3, v)
                        else let a1 := aset v (AMaybe k b u) a in
                             inl (match k with 0 => aretarget v BNone a1 | _ => a1 end)
  | AMaybe 0 _ _ => if strict then inr (3, v) else inr (2, v)
  | _ => inr (3, v)
  end.

Definition amicro (m : micro) (a : astate) : astate + err :=
  match m with
  | MRead v => if areadable (aget a v) then inl a else inr (1, v)
  | MTouch v => match aget a v with
                | AObj _ _ | ANull false | AMaybe _ _ false => inl a
                | _ => inr (1, v)
                end
  | MRelease v => arelease false v BNone a
  | MForget v => arelease false v BAlways a
  | MDec v x => arelease (negb x) v BNone a
  | MInc v => match aget a v with
              | AObj k b => if (0 <? k) || valid b then inl (aset v (AObj (S k) b) a) else inr (4, v)
              | _ => inr (4, v)
              end
  | MAssume v => match aget a v with
                 | AMaybe k b _ => inl (aset v (AObj k b) a)
                 | _ => inl a
                 end
  | MDef d own maynull ow =>
      if Nat.eqb (aowned (aget a d)) 0 then
        let b := match ow with Some w => aroot a w | None => BAlways end in
        inl (aset d (if own then (if maynull then AMaybe 1 BNone false else AObj 1 BNone)
                     else (if maynull then AMaybe 0 b false else AObj 0 b)) a)
      else inr (5, d)
  | MDefNull d => if Nat.eqb (aowned (aget a d)) 0 then inl (aset d (ANull false) a) else inr (5, d)
  | MSlotInit t => match aget a t with ANull _ => inl (aset t AUninit a) | _ => inr (11, t) end
  | MSlotKill t => inl (aset t AUninit a)
  | MMove d sv mv own undef =>
      let x := aget a sv in
      if areadable x then
        match (if mv then arelease false sv (BFrom d) a else inl a) with
        | inl a1 =>
            if Nat.eqb (aowned (aget a1 d)) 0 then
              inl (aset d (match x with
                           | ANull u => ANull (u || undef)
                           | AMaybe _ _ u => if own then AMaybe 1 BNone (u || undef) else AMaybe 0 BAlways (u || undef)
                           | _ => if own then AObj 1 BNone else AObj 0 BAlways
                           end) a1)
            else inr (5, d)
        | inr e => inr e
        end
      else inr (1, sv)
  end.

Definition aleak_free (a : astate) : option val :=
  match filter (fun p => negb (Nat.eqb (aowned (snd p)) 0)) (PositiveMap.elements a) with
  | [] => None | p :: _ => Some (fst p) end.

(* outgoing edges of a terminator *)
Definition edges := list (label * astate).
Definition no_edges : edges + err := inl [].
Definition aterm (t : term) (a : astate) : edges + err :=
  match t with
  | TGoto l => inl [(l, a)]
  | TBranch BBool None _ lt lf => inl [(lt, a); (lf, a)]
  | TBranch BBool (Some v) _ lt lf => if areadable (aget a v) then inl [(lt, a); (lf, a)] else inr (1, v)
  | TBranch BIsError None _ lt lf => inl [(lt, a); (lf, a)]
  | TBranch BIsError (Some v) neg lt lf =>
      let lnull := if neg then lf else lt in
      let lobj := if neg then lt else lf in
      match aget a v with
      | AObj _ _ => inl [(lobj, a)]
      | ANull _ => inl [(lnull, a)]
      | AMaybe k b u => inl [(lnull, aset v (ANull u) a); (lobj, aset v (AObj k b) a)]
      | _ => inr (7, v)
      end
  | TReturn None _ => match aleak_free a with None => no_edges | Some w => inr (6, w) end
  | TReturn (Some v) rc =>
      if areadable (aget a v) then
        match (if rc then arelease false v BNone a else inl a) with
        | inl a' => match aleak_free a' with None => no_edges | Some w => inr (6, w) end
        | inr e => inr e
        end
      else inr (1, v)
  | TUnreachable => no_edges
  end.

Definition dead_assume (m : micro) (a : astate) : bool :=
  match m with MAssume v => match aget a v with ANull _ => true | _ => false end | _ => false end.

(* abstract run of the rest of a block; the nat is the index of the micro action (for diagnostics) *)
Fixpoint aflow (ms : list micro) (t : term) (i : nat) (a : astate) : edges + (nat * err) :=
  match ms with
  | [] => match aterm t a with inl es => inl es | inr e => inr (i, e) end
  | m :: ms' =>
      if dead_assume m a then inl []     (* the trusted invariant excludes this path: nothing flows on *)
      else match amicro m a with inl a' => aflow ms' t (S i) a' | inr e => inr (i, e) end
  end.

Definition annot := PositiveMap.t astate.

Definition edge_ok (ann : annot) (e : label * astate) : bool :=
  match PositiveMap.find (fst e) ann with Some an => ale_state (snd e) an | None => false end.

Definition block_ok (ann : annot) (ms : list micro) (t : term) (a : astate) : bool :=
  match aflow ms t 0 a with inl es => forallb (edge_ok ann) es | inr _ => false end.

Definition init_astate0 (args : list (val * bool)) (base : astate) : astate :=
  fold_right (fun (p : val * bool) (a : astate) => aset (fst p) (if snd p then AMaybe 0 BAlways false else AObj 0 BAlways) a)
             base args.
Definition init_tokens (ts : list val) : astate :=
  fold_right (fun (t : val) (a : astate) => aset t (ANull false) a) (PositiveMap.empty aval) ts.
Definition init_astate (f : func) : astate := init_astate0 (fargs f) (init_tokens (ftokens f)).

Definition check_ann (f : func) (ann : annot) : bool :=
  edge_ok ann (1%positive, init_astate f) &&
  forallb (fun p => match PositiveMap.find (fst p) (fblocks f) with
                    | Some b => block_ok ann (bops b) (bterm b) (snd p)
                    | None => false
                    end) (PositiveMap.elements ann).

(* ---- inference (untrusted: its result is re-checked by check_ann) --------------------------------- *)
Definition bor_meet (b b' : bor) : bor :=
  if bor_leb b b' then b else if bor_leb b' b then b' else BNone.
Definition ajoin (x y : aval) : option aval :=
  if ale x y then Some y else if ale y x then Some x else
  match x, y with
  | ANull u, ANull u' => Some (ANull (u || u'))
  | AObj k b, AObj k' b' => if Nat.eqb k k' then Some (AObj k (bor_meet b b')) else None
  | AObj k b, ANull u | ANull u, AObj k b => Some (AMaybe k b u)
  | AMaybe k b u, ANull u' | ANull u', AMaybe k b u => Some (AMaybe k b (u || u'))
  | AMaybe k b u, AObj k' b' | AObj k' b', AMaybe k b u =>
      if Nat.eqb k k' then Some (AMaybe k (bor_meet b b') u) else None
  | AMaybe k b u, AMaybe k' b' u' => if Nat.eqb k k' then Some (AMaybe k (bor_meet b b') (u || u')) else None
  | _, _ => if Nat.eqb (aowned x) 0 && Nat.eqb (aowned y) 0 then Some ADead else None
  end.

(* join the incoming state [s] into [old]; None = inconsistent ownership of the returned value *)
Definition join_state (old s : astate) : (astate * bool) + val :=
  let step1 := fold_left (fun (acc : (astate * bool) + val) p =>
      match acc with
      | inr e => inr e
      | inl (m, ch) =>
          let o := aget m (fst p) in
          match ajoin o (snd p) with
          | None => inr (fst p)
          | Some j => if ale j o then inl (m, ch) else inl (aset (fst p) j m, true)
          end
      end) (PositiveMap.elements s) (inl (old, false)) in
  fold_left (fun (acc : (astate * bool) + val) p =>
      match acc with
      | inr e => inr e
      | inl (m, ch) =>
          match PositiveMap.find (fst p) s with
          | Some _ => inl (m, ch)
          | None => match ajoin (snd p) AUninit with
                    | None => inr (fst p)
                    | Some j => if ale j (snd p) then inl (m, ch) else inl (aset (fst p) j m, true)
                    end
          end
      end) (PositiveMap.elements old) step1.

Inductive verdict := Accept | Reject (l : label) (i : nat) (code : nat) (v : val).

Fixpoint iter (f : func) (fuel : nat) (wl : list label) (ann : annot) : annot + verdict :=
  match fuel with
  | 0 => inr (Reject 1%positive 0 10 1%positive)
  | S fuel' =>
      match wl with
      | [] => inl ann
      | l :: wl' =>
          match PositiveMap.find l (fblocks f), PositiveMap.find l ann with
          | Some b, Some a =>
              match aflow (bops b) (bterm b) 0 a with
              | inr (i, (c, v)) => inr (Reject l i c v)
              | inl es =>
                  let r := fold_left (fun (acc : (annot * list label) + verdict) e =>
                      match acc with
                      | inr x => inr x
                      | inl (an, w) =>
                          match PositiveMap.find (fst e) an with
                          | None => inl (PositiveMap.add (fst e) (snd e) an, fst e :: w)
                          | Some old =>
                              match join_state old (snd e) with
                              | inr v => inr (Reject l (length (bops b)) 8 v)
                              | inl (j, true) => inl (PositiveMap.add (fst e) j an, fst e :: w)
                              | inl (_, false) => inl (an, w)
                              end
                          end
                      end) es (inl (ann, wl')) in
                  match r with
                  | inr x => inr x
                  | inl (an, w) => iter f fuel' w an
                  end
              end
          | _, _ => inr (Reject l 0 9 1%positive)
          end
      end
  end.

Definition infer (f : func) (fuel : nat) : annot + verdict :=
  iter f fuel [1%positive] (PositiveMap.add 1%positive (init_astate f) (PositiveMap.empty astate)).

Definition check_func (f : func) (fuel : nat) : verdict :=
  match infer f fuel with
  | inr (Reject l i c v) => Reject l i c v
  | inr Accept => Reject 1%positive 0 10 1%positive
  | inl ann => if check_ann f ann then Accept else Reject 1%positive 0 8 1%positive
  end.

(* building a function from the dumped op list *)
Definition mk_block (ops : list op) (t : term) : block := {| bops := flat_map compile_op ops; bterm := t |}.
Definition mk_func (blocks : list (label * block)) (args : list (val * bool)) (tokens : list val) : func :=
  {| fblocks := fold_left (fun m p => PositiveMap.add (fst p) (snd p) m) blocks (PositiveMap.empty block);
     fargs := args; ftokens := tokens |}.
