(* Property C06 (static half): soundness of the ownership / definedness validator.
   Only theorem statements closed by `exact`, each followed by Print Assumptions. *)
From Coq Require Import PArith List Bool FMapPositive.
From C06 Require Import IR Checker Proofs Statement AttrDef ProofsAttr.
Import ListNotations.

(* If the validator accepts a function, then on every path (any length) from its entry nothing goes wrong:
   see Statement.memory_safe_ir / IR.violates for the list of excluded events. *)
Theorem checker_sound : forall f fuel, check_func f fuel = Accept ->
  forall c0 c, initial_config f c0 -> steps f c0 c -> ~ violates f c.
Proof. exact check_func_sound. Qed.
Print Assumptions checker_sound.

(* the trusted core is the per-edge check of a candidate annotation, whoever computed it *)
Theorem annotation_check_sound : forall f ann, check_ann f ann = true ->
  forall c0 c, initial_config f c0 -> steps f c0 c -> ~ violates f c.
Proof. exact check_ann_sound. Qed.
Print Assumptions annotation_check_sound.

Theorem validator_is_sound : validator_sound.
Proof. exact check_func_sound. Qed.
Print Assumptions validator_is_sound.

(* Exception paths.  At an error check `if is_error(v)` whose value is the error value: the edge to the error target is a
   legal step, the failed op's result owns nothing there (state unchanged), and everything the function still owns at that
   point is released exactly once on EVERY continuation: no continuation violates (no double release, no dec_ref of the
   NULL result, no use after release) and every Return reached afterwards finds nothing owned.  Corollary of checker_sound. *)
Theorem error_edge_releases_owned : forall f fuel, check_func f fuel = Accept ->
  forall c0 c1 c2 v, initial_config f c0 -> steps f c0 c1 -> error_edge f v c1 c2 ->
    step f c1 c2 /\ owned (cst c2 v) = 0 /\ cst c2 = cst c1 /\
    forall c3, steps f c2 c3 ->
      ~ violates f c3 /\ (at_return c3 -> leak_free (cterm_final (cterm_ c3) (cst c3))).
Proof. exact error_edge_sound. Qed.
Print Assumptions error_edge_releases_owned.

(* Borrowed references, generalised over all ops: no operand read that is ever reached sees a pointer whose owner has given up
   its last reference (CObj 0 BNone), nor uninitialised memory, nor an undefined local.  Corollary of checker_sound. *)
Theorem borrowed_value_not_used_after_owner_release : forall f fuel, check_func f fuel = Accept ->
  forall c0 c v ms, initial_config f c0 -> steps f c0 c -> crest c = MRead v :: ms ->
    readable (cst c v) = true /\ cst c v <> CObj 0 BNone /\ cst c v <> CUninit /\ cst c v <> CNull true.
Proof. exact reads_are_valid. Qed.
Print Assumptions borrowed_value_not_used_after_owner_release.

(* borrowed-reference lifetime is part of [violates]: reading a value borrowed from w after w released its
   last reference is a violation of the concrete semantics (hence excluded by checker_sound) *)
Theorem use_after_owner_release_violates : forall s w v s' oc,
  s w = CObj 1 BNone -> s v = CObj 0 (BFrom w) -> v <> w ->
  cmicro (MDec w false) oc s = Next s' -> cmicro (MRead v) oc s' = Viol.
Proof. exact use_after_owner_release_is_violation. Qed.
Print Assumptions use_after_owner_release_violates.

(* initializing stores: an init store to a slot whose token is not provably unset is a violation of the
   concrete semantics (hence excluded by checker_sound); a slot is unset only on entry (fresh self) and
   until the first store / escape *)
Theorem init_store_to_possibly_set_slot_violates : forall s t oc,
  (forall u, s t <> CNull u) -> cmicro (MSlotInit t) oc s = Viol.
Proof. intros s t oc H. simpl. destruct (s t) eqn:E; auto. exfalso. eapply H; eauto. Qed.
Print Assumptions init_store_to_possibly_set_slot_violates.

(* Always-defined attributes: if the check accepts (claimed set, defaults, abstracted __init__), then on every
   path of __init__ no attribute claimed always-defined is read, or visible to code that self leaked to
   (incl. the caller at Return), before it was assigned. *)
Theorem always_defined_check_sound : forall c fuel, acheck c fuel = true ->
  forall x0 x, ainitial c x0 -> asteps c x0 x -> ~ aviolates c x.
Proof. exact acheck_sound. Qed.
Print Assumptions always_defined_check_sound.

(* x, y assigned on both branches, z only on one; self leaks afterwards *)
Definition ex_cls (claim : list attr) : cls := mk_cls
  [ (1, mk_ablock [ASet 1] (ABranch 2 3));
    (2, mk_ablock [ASet 2] (AGoto 4));
    (3, mk_ablock [ASet 2; ASet 3] (AGoto 4));
    (4, mk_ablock [ARead 1; ALeak] AReturn) ]%positive claim [].
Example ex_cls_accepted : acheck (ex_cls [1; 2]%positive) 100 = true.
Proof. vm_compute. reflexivity. Qed.
Example ex_cls_rejected : acheck (ex_cls [1; 2; 3]%positive) 100 = false.
Proof. vm_compute. reflexivity. Qed.

(* ---- examples -------------------------------------------------------------------------------- *)
Definition O (k : opkind) (d : option val) (rc bor mn fl : bool) (src st : list val) : op :=
  {| okind := k; odest := d; orc := rc; oborrowed := bor; omaynull := mn; oflag := fl; osrcs := src; ostolen := st;
     oowner := None; oslot := []; okill := [] |}.
Definition OB (d : val) (src : list val) (w : val) : op :=     (* borrowed refcounted result, borrowed from w *)
  {| okind := KOther; odest := Some d; orc := true; oborrowed := true; omaynull := false; oflag := false;
     osrcs := src; ostolen := []; oowner := Some w; oslot := []; okill := [] |}.

(* def f(x): r2 = g(x) [may fail]; if is_error(r2) goto L3 else L2;  L2: dec_ref r2; return 1
                                                                     L3: r3 = <error>; return r3       *)
Definition ex_ok : func := mk_func
  [ (1, mk_block [O KOther (Some 2) true false true false [1] []] (TBranch BIsError (Some 2) false 3 2));
    (2, mk_block [O KDecRef None false false false false [2] []] (TReturn None false));
    (3, mk_block [O KLoadErr (Some 3) true false false false [] []] (TReturn (Some 3) true)) ]%positive
  [(1%positive, false)] [].
Example ex_ok_accepted : check_func ex_ok 100 = Accept.
Proof. vm_compute. reflexivity. Qed.

(* the same with the dec_ref placed on the error edge too (NULL is dec_ref'ed): rejected, code 3 *)
Definition ex_bad_errdec : func := mk_func
  [ (1, mk_block [O KOther (Some 2) true false true false [1] []] (TBranch BIsError (Some 2) false 3 2));
    (2, mk_block [O KDecRef None false false false false [2] []] (TReturn None false));
    (3, mk_block [O KDecRef None false false false false [2] []; O KLoadErr (Some 3) true false false false [] []]
                 (TReturn (Some 3) true)) ]%positive
  [(1%positive, false)] [].
Example ex_bad_errdec_rejected : check_func ex_bad_errdec 100 = Reject 3%positive 0 3 2%positive.
Proof. vm_compute. reflexivity. Qed.

(* returning a borrowed argument without inc_ref: rejected (release of a reference not owned, code 2) *)
Definition ex_bad_borrowed_return : func := mk_func
  [ (1, mk_block [] (TReturn (Some 1) true)) ]%positive [(1%positive, false)] [].
Example ex_bad_borrowed_return_rejected : check_func ex_bad_borrowed_return 100 = Reject 1%positive 0 2 1%positive.
Proof. vm_compute. reflexivity. Qed.

(* a loop with a reassigned borrowed argument: x = arg; while c: inc_ref?; ... consistent at the loop head *)
Definition ex_loop : func := mk_func
  [ (1, mk_block [O KIncRef None false false false false [1] []] (TGoto 2));
    (2, mk_block [O KOther (Some 2) false false false false [1] []] (TBranch BBool (Some 2) false 3 4));
    (3, mk_block [O KOther (Some 3) true false false false [1] [];
                  O KDecRef None false false false false [1] [];
                  O KAssign (Some 1) true false false false [3] [3]] (TGoto 2));
    (4, mk_block [] (TReturn (Some 1) true)) ]%positive [(1%positive, false)] [].
Example ex_loop_accepted : check_func ex_loop 100 = Accept.
Proof. vm_compute. reflexivity. Qed.

(* forgetting the dec_ref of the old value inside the loop: the owned reference is overwritten, code 5 *)
Definition ex_loop_leak : func := mk_func
  [ (1, mk_block [O KIncRef None false false false false [1] []] (TGoto 2));
    (2, mk_block [O KOther (Some 2) false false false false [1] []] (TBranch BBool (Some 2) false 3 4));
    (3, mk_block [O KOther (Some 3) true false false false [1] [];
                  O KAssign (Some 1) true false false false [3] [3]] (TGoto 2));
    (4, mk_block [] (TReturn (Some 1) true)) ]%positive [(1%positive, false)] [].
Example ex_loop_leak_rejected : check_func ex_loop_leak 100 = Reject 3%positive 2 5 1%positive.
Proof. vm_compute. reflexivity. Qed.

(* borrowed-reference lifetime: r2 = g() owned; r3 = borrow r2.attr; use r3; dec_ref r2  -- accepted *)
Definition ex_borrow_ok : func := mk_func
  [ (1, mk_block [O KOther (Some 2) true false false false [] []; OB 3 [2] 2;
                  O KOther None false false false false [3] [];
                  O KDecRef None false false false false [2] []] (TReturn None false)) ]%positive [] [].
Example ex_borrow_ok_accepted : check_func ex_borrow_ok 100 = Accept.
Proof. vm_compute. reflexivity. Qed.

(* ... dec_ref r2 BEFORE the use of r3: use after the owner's last release, code 1 *)
Definition ex_borrow_bad : func := mk_func
  [ (1, mk_block [O KOther (Some 2) true false false false [] []; OB 3 [2] 2;
                  O KDecRef None false false false false [2] [];
                  O KOther None false false false false [3] []] (TReturn None false)) ]%positive [] [].
Example ex_borrow_bad_rejected : check_func ex_borrow_bad 100 = Reject 1%positive 4 1 3%positive.
Proof. vm_compute. reflexivity. Qed.

(* the owner's reference moves to a register (x = r2): the borrower follows it and stays usable *)
Definition ex_borrow_move : func := mk_func
  [ (1, mk_block [O KOther (Some 2) true false false false [] []; OB 3 [2] 2;
                  O KAssign (Some 4) true false false false [2] [2];
                  O KOther None false false false false [3] [];
                  O KDecRef None false false false false [4] []] (TReturn None false)) ]%positive [] [].
Example ex_borrow_move_accepted : check_func ex_borrow_move 100 = Accept.
Proof. vm_compute. reflexivity. Qed.

(* initializing attribute stores (SetAttr.is_init does not release the old slot value).
   v1 = self of __init__, token 9 = slot (self, t), unset on entry.  An op with oslot = [9] is an init store. *)
Definition OS (src : list val) (st : list val) (slot kill : list val) : op :=
  {| okind := KOther; odest := None; orc := false; oborrowed := false; omaynull := false; oflag := false;
     osrcs := src; ostolen := st; oowner := None; oslot := slot; okill := kill |}.
(* r2 = T(); self.t = r2 [init]; return *)
Definition ex_init_ok : func := mk_func
  [ (1, mk_block [O KOther (Some 2) true false false false [] []; OS [1; 2] [2] [9] []] (TReturn None false)) ]%positive
  [(1%positive, false)] [9%positive].
Example ex_init_ok_accepted : check_func ex_init_ok 100 = Accept.
Proof. vm_compute. reflexivity. Qed.
(* two init stores to the same slot on one path: the first value leaks, code 11 *)
Definition ex_init_twice : func := mk_func
  [ (1, mk_block [O KOther (Some 2) true false false false [] []; OS [1; 2] [2] [9] [];
                  O KOther (Some 3) true false false false [] []; OS [1; 3] [3] [9] []] (TReturn None false)) ]%positive
  [(1%positive, false)] [9%positive].
Example ex_init_twice_rejected : check_func ex_init_twice 100 = Reject 1%positive 9 11 9%positive.
Proof. vm_compute. reflexivity. Qed.
(* init store through a value that is not the fresh self (no unset token exists for it): code 11 *)
Definition ex_init_other : func := mk_func
  [ (1, mk_block [O KOther (Some 3) true false false false [] []; OS [2; 3] [3] [8] []] (TReturn None false)) ]%positive
  [(1%positive, false); (2%positive, false)] [9%positive].
Example ex_init_other_rejected : check_func ex_init_other 100 = Reject 1%positive 4 11 8%positive.
Proof. vm_compute. reflexivity. Qed.
(* self.t = r2 [init]; Base.__init__(self) where Base.__init__ init-stores t as well: the call needs slot 9 unset *)
Definition ex_init_super : func := mk_func
  [ (1, mk_block [O KOther (Some 2) true false false false [] []; OS [1; 2] [2] [9] [];
                  OS [1] [] [9] [9]] (TReturn None false)) ]%positive
  [(1%positive, false)] [9%positive].
Example ex_init_super_rejected : check_func ex_init_super 100 = Reject 1%positive 6 11 9%positive.
Proof. vm_compute. reflexivity. Qed.

(* non-vacuity of the hypotheses of checker_sound: an accepted function, an initial configuration, a step *)
Example hypotheses_satisfiable :
  check_func ex_ok 100 = Accept /\
  exists c0 c1, initial_config ex_ok c0 /\ steps ex_ok c0 c1 /\ crest c1 = [] /\ ~ violates ex_ok c1.
Proof.
  split; [vm_compute; reflexivity|].
  pose (s0 := fun v : val => if Pos.eqb v 1 then CObj 0 BAlways else CUninit).
  assert (I0 : initial_config ex_ok (Cfg [MRead 1%positive; MDef 2%positive true true None]
                                         (TBranch BIsError (Some 2%positive) false 3%positive 2%positive) s0)).
  { exists {| bops := [MRead 1%positive; MDef 2%positive true true None];
               bterm := TBranch BIsError (Some 2%positive) false 3%positive 2%positive |}.
    split; [vm_compute; reflexivity|]. split; [reflexivity|]. split; [reflexivity|].
    unfold initial_state. intro v. unfold s0, arg_ok. destruct v; cbn; auto. }
  assert (ST : steps ex_ok (Cfg [MRead 1%positive; MDef 2%positive true true None]
                                (TBranch BIsError (Some 2%positive) false 3%positive 2%positive) s0)
                           (Cfg [] (TBranch BIsError (Some 2%positive) false 3%positive 2%positive)
                                (cset 2%positive (CNull false) s0))).
  { eapply steps_step; [eapply steps_step; [apply steps_refl|]|].
    - eapply (step_micro _ _ _ _ _ false). reflexivity.
    - eapply (step_micro _ _ _ _ _ true). reflexivity. }
  eexists. eexists. split; [exact I0|]. split; [exact ST|]. split; [reflexivity|].
  eapply checker_sound with (fuel := 100); [vm_compute; reflexivity | exact I0 | exact ST].
Qed.

(* the hypotheses of error_edge_releases_owned are satisfiable: in ex_ok the call r2 = g(x) fails, the error edge L1 -> L3 is
   taken, and L3 (r3 = <error>; return r3) is reached owning nothing *)
Example error_edge_example :
  exists c0 c1 c2, initial_config ex_ok c0 /\ steps ex_ok c0 c1 /\ error_edge ex_ok 2%positive c1 c2 /\
                   check_func ex_ok 100 = Accept.
Proof.
  pose (s0 := fun v : val => if Pos.eqb v 1 then CObj 0 BAlways else CUninit).
  exists (Cfg [MRead 1%positive; MDef 2%positive true true None]
              (TBranch BIsError (Some 2%positive) false 3%positive 2%positive) s0).
  exists (Cfg [] (TBranch BIsError (Some 2%positive) false 3%positive 2%positive) (cset 2%positive (CNull false) s0)).
  exists (Cfg [MDefNull 3%positive] (TReturn (Some 3%positive) true) (cset 2%positive (CNull false) s0)).
  split; [|split; [|split; [|vm_compute; reflexivity]]].
  - exists {| bops := [MRead 1%positive; MDef 2%positive true true None];
              bterm := TBranch BIsError (Some 2%positive) false 3%positive 2%positive |}.
    split; [vm_compute; reflexivity|]. split; [reflexivity|]. split; [reflexivity|].
    unfold initial_state. intro v. unfold s0, arg_ok. destruct v; cbn; auto.
  - eapply steps_step; [eapply steps_step; [apply steps_refl|]|].
    + eapply (step_micro _ _ _ _ _ false). reflexivity.
    + eapply (step_micro _ _ _ _ _ true). reflexivity.
  - exists false, 3%positive, 2%positive, (cset 2%positive (CNull false) s0), false,
           {| bops := [MDefNull 3%positive]; bterm := TReturn (Some 3%positive) true |}.
    split; [reflexivity|]. split; [reflexivity|]. split; [vm_compute; reflexivity | reflexivity].
Qed.

(* hypotheses of borrowed_value_not_used_after_owner_release are satisfiable: the entry of ex_ok stands at an operand read *)
Example reads_example :
  exists c0 ms, initial_config ex_ok c0 /\ steps ex_ok c0 c0 /\ crest c0 = MRead 1%positive :: ms /\
                check_func ex_ok 100 = Accept.
Proof.
  pose (s0 := fun v : val => if Pos.eqb v 1 then CObj 0 BAlways else CUninit).
  exists (Cfg [MRead 1%positive; MDef 2%positive true true None]
              (TBranch BIsError (Some 2%positive) false 3%positive 2%positive) s0).
  exists [MDef 2%positive true true None].
  split; [|split; [apply steps_refl|split; [reflexivity|vm_compute; reflexivity]]].
  exists {| bops := [MRead 1%positive; MDef 2%positive true true None];
            bterm := TBranch BIsError (Some 2%positive) false 3%positive 2%positive |}.
  split; [vm_compute; reflexivity|]. split; [reflexivity|]. split; [reflexivity|].
  unfold initial_state. intro v. unfold s0, arg_ok. destruct v; cbn; auto.
Qed.
