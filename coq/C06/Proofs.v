(* C06 — soundness of the validator: concretisation, per-micro / per-terminator soundness, invariant. *)
From Coq Require Import PArith List Bool Arith FMapPositive Lia.
From C06 Require Import IR Checker.
Import ListNotations.

Definition gam (x : aval) (c : cval) : Prop :=
  match x, c with
  | AUninit, CUninit => True
  | ANull u, CNull u' => ble u' u = true
  | AObj k b, CObj k' b' => k = k' /\ bor_leb b b' = true
  | AMaybe k b u, CNull u' => ble u' u = true
  | AMaybe k b u, CObj k' b' => k = k' /\ bor_leb b b' = true
  | ADead, c => owned c = 0
  | _, _ => False
  end.

Definition gams (a : astate) (s : cstate) : Prop := forall v, gam (aget a v) (s v).

Ltac bsimp :=
  repeat match goal with
  | H : _ && _ = true |- _ => apply andb_prop in H; destruct H
  | H : Nat.eqb _ _ = true |- _ => apply Nat.eqb_eq in H
  | H : Pos.eqb _ _ = true |- _ => apply Pos.eqb_eq in H
  | H : _ /\ _ |- _ => destruct H
  end.

Lemma bor_leb_refl : forall b, bor_leb b b = true.
Proof. destruct b; simpl; auto. apply Pos.eqb_refl. Qed.

Lemma bor_leb_trans : forall c b a, bor_leb c b = true -> bor_leb b a = true -> bor_leb c a = true.
Proof.
  intros c b a H1 H2. destruct c, b, a; simpl in *; try discriminate; auto.
  apply Pos.eqb_eq in H1. apply Pos.eqb_eq in H2. subst. apply Pos.eqb_refl.
Qed.

Lemma valid_le : forall b c, bor_leb b c = true -> valid b = true -> valid c = true.
Proof. intros b c H V. destruct b, c; simpl in *; auto; discriminate. Qed.

Lemma ble_trans : forall a b c, ble a b = true -> ble b c = true -> ble a c = true.
Proof. intros a b c. destruct a, b, c; simpl; auto. Qed.

Lemma ale_sound : forall x y c, ale x y = true -> gam x c -> gam y c.
Proof.
  intros x y c H G.
  destruct x as [|u|k b|k b u|], y as [|u'|k' b'|k' b' u'|], c as [|cu|ck cb];
    simpl in *; try discriminate; try contradiction; try exact I; bsimp; subst;
    try lia; try (split; [reflexivity|]); eauto using bor_leb_trans, ble_trans.
Qed.

Lemma gam_owned0 : forall x c, aowned x = 0 -> gam x c -> owned c = 0.
Proof.
  intros x c H G. destruct x, c; simpl in *; try contradiction; try reflexivity; bsimp; try lia.
Qed.

Lemma aget_aset : forall a v x w, aget (aset v x a) w = if Pos.eqb w v then x else aget a w.
Proof.
  intros. unfold aget, aset. destruct (Pos.eqb_spec w v).
  - subst. rewrite PositiveMap.gss. reflexivity.
  - rewrite PositiveMap.gso by assumption. reflexivity.
Qed.

Lemma gams_set : forall a s v x c, gams a s -> gam x c -> gams (aset v x a) (cset v c s).
Proof.
  intros a s v x c G Gx w. rewrite aget_aset. unfold cset. destruct (Pos.eqb w v); auto.
Qed.

Lemma ale_state_get : forall a1 a2 v, ale_state a1 a2 = true -> ale (aget a1 v) (aget a2 v) = true.
Proof.
  intros a1 a2 v H. unfold ale_state in H. apply andb_prop in H. destruct H as [H1 H2].
  rewrite forallb_forall in H1, H2.
  destruct (PositiveMap.find v a1) as [x|] eqn:E1.
  - apply PositiveMap.elements_correct in E1. specialize (H1 _ E1). simpl in H1.
    unfold aget at 1. apply PositiveMap.elements_complete in E1. rewrite E1. exact H1.
  - destruct (PositiveMap.find v a2) as [y|] eqn:E2.
    + apply PositiveMap.elements_correct in E2. specialize (H2 _ E2). simpl in H2.
      unfold aget at 2. apply PositiveMap.elements_complete in E2. rewrite E2. exact H2.
    + unfold aget. rewrite E1, E2. reflexivity.
Qed.

Lemma ale_state_sound : forall a1 a2 s, ale_state a1 a2 = true -> gams a1 s -> gams a2 s.
Proof.
  intros a1 a2 s H G v. eapply ale_sound. apply ale_state_get; eassumption. apply G.
Qed.

Lemma usable_sound : forall k b cb, (0 <? k) || valid b = true -> bor_leb b cb = true -> (0 <? k) || valid cb = true.
Proof.
  intros k b cb H L. apply orb_true_iff in H. apply orb_true_iff. destruct H; auto.
  right. eapply valid_le; eauto.
Qed.

Lemma areadable_sound : forall x c, areadable x = true -> gam x c -> readable c = true.
Proof.
  intros x c H G. destruct x as [|u|k b|k b u|], c as [|cu|ck cb]; simpl in *;
    try discriminate; try contradiction; bsimp; subst; eauto using usable_sound;
    unfold ble in *; repeat match goal with b : bool |- _ => destruct b end; simpl in *; auto; discriminate.
Qed.

(* ---- borrow bookkeeping ---------------------------------------------------------------------- *)
Definition aret_f (w : val) (nb : bor) (x : aval) : aval :=
  match x with
  | AObj k (BFrom w') => if Pos.eqb w' w then AObj k nb else x
  | AMaybe k (BFrom w') u => if Pos.eqb w' w then AMaybe k nb u else x
  | _ => x
  end.

Lemma aget_aretarget : forall w nb a v, aget (aretarget w nb a) v = aret_f w nb (aget a v).
Proof.
  intros. unfold aget, aretarget, PositiveMap.map. rewrite PositiveMap.gmapi.
  destruct (PositiveMap.find v a); reflexivity.
Qed.

(* weakening only: the concrete state is unchanged *)
Lemma gams_retarget_none : forall w a s, gams a s -> gams (aretarget w BNone a) s.
Proof.
  intros w a s G v. rewrite aget_aretarget. specialize (G v).
  destruct (aget a v) as [|u|k b|k b u|]; simpl; auto;
    destruct b as [| |w']; simpl; auto; destruct (Pos.eqb w' w); auto;
    destruct (s v); simpl in *; auto; destruct G; split; auto.
Qed.

Lemma bor_le_always : forall b, bor_leb b BAlways = true.
Proof. destruct b; reflexivity. Qed.

Ltac retarget_case L :=
  simpl in *; try discriminate;
  try match goal with H : Pos.eqb _ _ = true |- _ => apply Pos.eqb_eq in H; subst end;
  repeat match goal with |- context [Pos.eqb ?x ?y] => destruct (Pos.eqb x y) end;
  simpl; try split; auto using bor_le_always, Pos.eqb_refl.

Lemma gams_retarget : forall w nba nbc a s, bor_leb nba nbc = true -> gams a s ->
  gams (aretarget w nba a) (retarget w nbc s).
Proof.
  intros w nba nbc a s L G v. rewrite aget_aretarget. specialize (G v). unfold retarget.
  destruct (aget a v) as [|u|k b|k b u|], (s v) as [|cu|ck cb]; simpl in *; try contradiction; auto.
  - destruct G as [<- Hb]. destruct b as [| |w1], cb as [| |w2]; retarget_case L.
  - destruct b as [| |w1]; retarget_case L.
  - destruct G as [<- Hb]. destruct b as [| |w1], cb as [| |w2]; retarget_case L.
  - destruct cb as [| |w2]; retarget_case L.
Qed.

Lemma aroot_sound : forall a s w, gams a s -> bor_leb (aroot a w) (croot s w) = true.
Proof.
  intros a s w G. unfold aroot, croot. specialize (G w).
  destruct (aget a w) as [|u|k b|k b u|], (s w) as [|cu|ck cb]; simpl in *; try contradiction; auto;
    try (destruct k; reflexivity).
  destruct G as [<- Hb]. destruct k; auto. simpl. apply Pos.eqb_refl.
Qed.

Lemma inherit_le : forall b cb succ, bor_leb b cb = true -> bor_leb (inherit b succ) (inherit cb succ) = true.
Proof. intros b cb succ H. destruct succ; simpl; auto. apply Pos.eqb_refl. Qed.

Lemma arelease_sound : forall strict v succ a a' s,
  arelease strict v succ a = inl a' -> gams a s ->
  exists s', crelease strict v succ s = Next s' /\ gams a' s'.
Proof.
  intros strict v succ a a' s H G. unfold arelease in H. pose proof (G v) as Gv. unfold crelease.
  destruct (aget a v) as [|u|k b|k b u|] eqn:E; try discriminate.
  - (* ANull *) destruct strict; try discriminate. inversion H; subst.
    destruct (s v); simpl in Gv; try contradiction. eauto.
  - (* AObj *) destruct k; try discriminate. inversion H; subst.
    destruct (s v) as [|cu|ck cb]; simpl in Gv; try contradiction. destruct Gv as [<- Hb].
    eexists; split; [reflexivity|].
    assert (G1 : gams (aset v (AObj k b) a) (cset v (CObj k cb) s)) by (apply gams_set; simpl; auto).
    destruct k; auto. apply gams_retarget; auto. apply inherit_le; auto.
  - (* AMaybe *) destruct k; destruct strict; try discriminate. inversion H; subst.
    destruct (s v) as [|cu|ck cb] eqn:E2; simpl in Gv; try contradiction.
    + eexists; split; [reflexivity|].
      assert (G1 : gams (aset v (AMaybe k b u) a) s).
      { intro w. rewrite aget_aset. destruct (Pos.eqb_spec w v); [subst; rewrite E2; simpl; exact Gv | apply G]. }
      destruct k; auto. apply gams_retarget_none; auto.
    + destruct Gv as [<- Hb]. eexists; split; [reflexivity|].
      assert (G1 : gams (aset v (AMaybe k b u) a) (cset v (CObj k cb) s)) by (apply gams_set; simpl; auto).
      destruct k; auto. apply gams_retarget; auto.
Qed.

Lemma owned0_of : forall a s d, gams a s -> Nat.eqb (aowned (aget a d)) 0 = true -> Nat.eqb (owned (s d)) 0 = true.
Proof.
  intros a s d G H. apply Nat.eqb_eq in H. apply Nat.eqb_eq. eapply gam_owned0; eauto.
Qed.

Lemma amicro_sound : forall m a a' s oc,
  amicro m a = inl a' -> gams a s ->
  cmicro m oc s = Blocked \/ exists s', cmicro m oc s = Next s' /\ gams a' s'.
Proof.
  intros m a a' s oc H G. destruct m as [v|v|v|v|v x|v|v|d own maynull ow|d|t|t|d sv mv own undef]; simpl in *.
  - (* MRead *) destruct (areadable (aget a v)) eqn:E; try discriminate. inversion H; subst.
    right. rewrite (areadable_sound _ _ E (G v)). eauto.
  - (* MTouch *) pose proof (G v) as Gv. right.
    destruct (aget a v) as [|u|k b|k b u|] eqn:E; try discriminate;
      try (destruct u; try discriminate); inversion H; subst;
      destruct (s v) as [|cu|ck cb]; simpl in Gv; try contradiction; eauto;
      destruct cu; simpl in Gv; try discriminate; eauto.
  - (* MRelease *) right. eapply arelease_sound; eauto.
  - (* MForget *) right. eapply arelease_sound; eauto.
  - (* MDec *) right. eapply arelease_sound; eauto.
  - (* MInc *) pose proof (G v) as Gv. destruct (aget a v) as [|u|k b|k b u|] eqn:E; try discriminate.
    destruct ((0 <? k) || valid b) eqn:E2; try discriminate. inversion H; subst.
    destruct (s v) as [|cu|ck cb] eqn:E3; simpl in Gv; try contradiction. destruct Gv as [<- Hb].
    right. simpl. rewrite (usable_sound _ _ _ E2 Hb).
    eexists; split; [reflexivity|]. apply gams_set; auto. simpl. auto.
  - (* MAssume *) pose proof (G v) as Gv.
    destruct (s v) as [|cu|ck cb] eqn:E3.
    + right. eexists; split; [reflexivity|].
      destruct (aget a v) eqn:E; simpl in Gv; try contradiction; inversion H; subst; auto;
      (intro w; rewrite aget_aset; destruct (Pos.eqb_spec w v); [subst; rewrite E3; simpl; auto | apply G]).
    + left. reflexivity.
    + right. eexists; split; [reflexivity|].
      destruct (aget a v) eqn:E; simpl in Gv; try contradiction; inversion H; subst; auto;
      (intro w; rewrite aget_aset; destruct (Pos.eqb_spec w v); [subst; rewrite E3; simpl; auto | apply G]).
  - (* MDef *) destruct (Nat.eqb (aowned (aget a d)) 0) eqn:E; try discriminate. inversion H; subst.
    rewrite (owned0_of _ _ _ G E). right. eexists; split; [reflexivity|]. apply gams_set; auto.
    assert (HB : bor_leb (match ow with Some w => aroot a w | None => BAlways end)
                         (match ow with Some w => croot s w | None => BAlways end) = true).
    { destruct ow; [apply aroot_sound; auto | reflexivity]. }
    destruct own, maynull, oc; simpl; auto.
  - (* MDefNull *) destruct (Nat.eqb (aowned (aget a d)) 0) eqn:E; try discriminate. inversion H; subst.
    rewrite (owned0_of _ _ _ G E). right. eexists; split; [reflexivity|]. apply gams_set; auto. simpl. auto.
  - (* MSlotInit *) pose proof (G t) as Gt. right.
    destruct (aget a t) as [|u|k b|k b u|] eqn:E; try discriminate. inversion H; subst.
    destruct (s t); simpl in Gt; try contradiction.
    eexists; split; [reflexivity|]. apply gams_set; simpl; auto.
  - (* MSlotKill *) right. inversion H; subst. eexists; split; [reflexivity|]. apply gams_set; simpl; auto.
  - (* MMove *) destruct (areadable (aget a sv)) eqn:ER; try discriminate.
    rewrite (areadable_sound _ _ ER (G sv)). right.
    assert (HR : exists a1, (if mv then arelease false sv (BFrom d) a else inl a) = inl a1 /\
                 exists s1, (if mv then crelease false sv (BFrom d) s else Next s) = Next s1 /\ gams a1 s1).
    { destruct mv.
      - destruct (arelease false sv (BFrom d) a) as [a1|e] eqn:ER2; try discriminate.
        destruct (arelease_sound _ _ _ _ _ _ ER2 G) as [s1 [Hs1 G1]]. eauto.
      - eauto. }
    destruct HR as [a1 [Ha1 [s1 [Hs1 G1]]]]. rewrite Ha1 in H. rewrite Hs1.
    destruct (Nat.eqb (aowned (aget a1 d)) 0) eqn:E; try discriminate. inversion H; subst.
    rewrite (owned0_of _ _ _ G1 E). eexists; split; [reflexivity|]. apply gams_set; auto.
    pose proof (G sv) as Gv.
    destruct (aget a sv) as [|u|k b|k b u|] eqn:E4, (s sv) as [|cu|ck cb] eqn:E5; simpl in *;
      try discriminate; try contradiction; destruct own; simpl; auto;
      unfold ble in *; repeat match goal with b : bool |- _ => destruct b end; simpl in *; auto.
Qed.

(* the excluded event "use after the owner's last release", made explicit in the concrete semantics:
   once w has given up its last (unjustified) reference, reading a value borrowed from w is a violation *)
Lemma use_after_owner_release_is_violation : forall s w v s' oc,
  s w = CObj 1 BNone -> s v = CObj 0 (BFrom w) -> v <> w ->
  cmicro (MDec w false) oc s = Next s' -> cmicro (MRead v) oc s' = Viol.
Proof.
  intros s w v s' oc Hw Hv Hne H. simpl in H. unfold crelease in H. rewrite Hw in H. simpl in H.
  inversion H; subst. simpl. unfold retarget, cset.
  destruct (Pos.eqb_spec v w); [contradiction|]. rewrite Hv. rewrite Pos.eqb_refl. reflexivity.
Qed.

Lemma aleak_free_sound : forall a s, aleak_free a = None -> gams a s -> leak_free s.
Proof.
  intros a s H G v. unfold aleak_free in H.
  destruct (filter _ (PositiveMap.elements a)) eqn:E; try discriminate.
  eapply gam_owned0; [| apply G]. unfold aget.
  destruct (PositiveMap.find v a) as [x|] eqn:E2; [|reflexivity].
  apply PositiveMap.elements_correct in E2.
  destruct (Nat.eqb (aowned x) 0) eqn:E3; [apply Nat.eqb_eq; assumption|].
  assert (In (v, x) (filter (fun p => negb (Nat.eqb (aowned (snd p)) 0)) (PositiveMap.elements a))).
  { apply filter_In. split; auto. simpl. rewrite E3. reflexivity. }
  rewrite E in H0. contradiction.
Qed.

Lemma aterm_sound : forall t a es s ch,
  aterm t a = inl es -> gams a s ->
  cterm t ch s <> TViol /\
  (forall l s', cterm t ch s = TJump l s' -> exists a', In (l, a') es /\ gams a' s') /\
  (is_return t = true -> leak_free (cterm_final t s)).
Proof.
  intros t a es s ch H G. destruct t as [l|k v neg lt lf|v rc|]; simpl in *.
  - inversion H; subst. repeat split; try discriminate.
    intros l0 s' E. inversion E; subst. eexists; split; [left; reflexivity|auto].
  - destruct k, v as [v|]; simpl in *.
    + destruct (areadable (aget a v)) eqn:ER; try discriminate. inversion H; subst.
      rewrite (areadable_sound _ _ ER (G v)). repeat split; try discriminate.
      intros l s' E. inversion E; subst. destruct ch; eexists; split; simpl; eauto.
    + inversion H; subst. repeat split; try discriminate.
      intros l s' E. inversion E; subst. destruct ch; eexists; split; simpl; eauto.
    + pose proof (G v) as Gv.
      destruct (aget a v) as [|u|k b|k b u|] eqn:E4; try discriminate; inversion H; subst;
        destruct (s v) as [|cu|ck cb] eqn:E5; simpl in Gv; try contradiction;
        (repeat split; try discriminate); intros l s' E; inversion E; subst.
      * eexists; split; [left; reflexivity|auto].
      * eexists; split; [left; reflexivity|auto].
      * eexists; split; [left; reflexivity|].
        intro w. rewrite aget_aset. destruct (Pos.eqb_spec w v); [subst; rewrite E5; simpl; auto | apply G].
      * eexists; split; [right; left; reflexivity|].
        intro w. rewrite aget_aset. destruct (Pos.eqb_spec w v); [subst; rewrite E5; simpl; auto | apply G].
    + inversion H; subst. repeat split; try discriminate.
      intros l s' E. inversion E; subst. destruct ch; eexists; split; simpl; eauto.
  - destruct v as [v|]; simpl in *.
    + destruct (areadable (aget a v)) eqn:ER; try discriminate.
      rewrite (areadable_sound _ _ ER (G v)).
      destruct rc.
      * destruct (arelease false v BNone a) as [a1|e] eqn:ER2; try discriminate.
        destruct (arelease_sound _ _ _ _ _ _ ER2 G) as [s1 [Hs1 G1]]. rewrite Hs1.
        destruct (aleak_free a1) eqn:EL; try discriminate. inversion H; subst.
        repeat split; try discriminate. intros _. eapply aleak_free_sound; eauto.
      * destruct (aleak_free a) eqn:EL; try discriminate. inversion H; subst.
        repeat split; try discriminate. intros _. eapply aleak_free_sound; eauto.
    + destruct (aleak_free a) eqn:EL; try discriminate. inversion H; subst.
      repeat split; try discriminate. intros _. eapply aleak_free_sound; eauto.
  - inversion H; subst. repeat split; try discriminate.
Qed.

(* ---- the invariant --------------------------------------------------------------------------- *)
Section Sound.
Variable f : func.
Variable ann : annot.
Hypothesis CHK : check_ann f ann = true.

Definition flows (ms : list micro) (t : term) (a : astate) : Prop :=
  exists i es, aflow ms t i a = inl es /\ forallb (edge_ok ann) es = true.

Definition inv (c : config) : Prop := exists a, gams a (cst c) /\ flows (crest c) (cterm_ c) a.

Lemma ann_block : forall l an, PositiveMap.find l ann = Some an ->
  exists b, PositiveMap.find l (fblocks f) = Some b /\ flows (bops b) (bterm b) an.
Proof.
  intros l an H. pose proof CHK as C0. unfold check_ann in C0. apply andb_prop in C0. destruct C0 as [_ H2].
  rewrite forallb_forall in H2. apply PositiveMap.elements_correct in H. specialize (H2 _ H). simpl in H2.
  destruct (PositiveMap.find l (fblocks f)) as [b|]; try discriminate.
  exists b. split; auto. unfold block_ok in H2. unfold flows.
  destruct (aflow (bops b) (bterm b) 0 an) as [es|] eqn:E; try discriminate. eauto.
Qed.

Lemma edge_target : forall l a' s', edge_ok ann (l, a') = true -> gams a' s' ->
  exists b, PositiveMap.find l (fblocks f) = Some b /\ inv (Cfg (bops b) (bterm b) s').
Proof.
  intros l a' s' H G. unfold edge_ok in H. simpl in H.
  destruct (PositiveMap.find l ann) as [an|] eqn:E; try discriminate.
  destruct (ann_block _ _ E) as [b [Hb Hf]]. exists b. split; auto.
  exists an. split; auto. simpl. eapply ale_state_sound; eauto.
Qed.

Lemma inv_init : forall c, initial_config f c -> inv c.
Proof.
  intros c [b [Hb [Hr [Ht Hs]]]].
  assert (G0 : gams (init_astate f) (cst c)).
  { intro v. specialize (Hs v). revert Hs. unfold init_astate. generalize (fargs f).
    induction l as [|[a o] r IH]; simpl.
    - generalize (ftokens f). induction l as [|t r IH]; simpl.
      + intro E. unfold aget. rewrite PositiveMap.gempty. rewrite E. exact I.
      + rewrite aget_aset. destruct (Pos.eqb v t); simpl.
        * intro E. rewrite E. reflexivity.
        * exact IH.
    - rewrite aget_aset. destruct (Pos.eqb v a).
      + intros [E|[Ho E]]; rewrite E; destruct o; simpl; auto; discriminate.
      + exact IH. }
  pose proof CHK as C0. unfold check_ann in C0. apply andb_prop in C0. destruct C0 as [H1 _].
  destruct (edge_target _ _ _ H1 G0) as [b' [Hb' Hi]].
  rewrite Hb in Hb'. inversion Hb'; subst b'. destruct c as [r t s]. simpl in *. subst. exact Hi.
Qed.

Lemma inv_step : forall c c', inv c -> step f c c' -> inv c'.
Proof.
  intros c c' [a [G [i [es [HF HE]]]]] ST. inversion ST; subst; simpl in *.
  - (* micro *) destruct (dead_assume m a) eqn:ED.
    + exfalso. destruct m; simpl in ED; try discriminate. simpl in H.
      pose proof (G v) as Gv. destruct (aget a v); try discriminate.
      destruct (s v); simpl in Gv; try contradiction; discriminate.
    + destruct (amicro m a) as [a1|e] eqn:EM; try discriminate.
      destruct (amicro_sound _ _ _ _ oc EM G) as [B|[s1 [Hs1 G1]]]; [rewrite H in B; discriminate|].
      rewrite H in Hs1. inversion Hs1; subst. exists a1. split; auto. exists (S i), es. auto.
  - (* jump *) destruct (aterm t a) as [es'|e] eqn:ET; try discriminate. inversion HF; subst.
    destruct (aterm_sound _ _ _ _ ch ET G) as [_ [HJ _]].
    destruct (HJ _ _ H) as [a' [Hin G']]. rewrite forallb_forall in HE. specialize (HE _ Hin).
    destruct (edge_target _ _ _ HE G') as [b' [Hb' Hi]]. rewrite H0 in Hb'. inversion Hb'; subst. exact Hi.
Qed.

Lemma inv_safe : forall c, inv c -> ~ violates f c.
Proof.
  intros c [a [G [i [es [HF HE]]]]] V. destruct c as [ms t s]. unfold violates in V. simpl in *.
  destruct ms as [|m ms].
  - simpl in HF. destruct (aterm t a) as [es'|e] eqn:ET; try discriminate. inversion HF; subst.
    destruct V as [[ch V]|[[ch [l [s' [V1 V2]]]]|[V1 V2]]].
    + destruct (aterm_sound _ _ _ _ ch ET G) as [HV _]. contradiction.
    + destruct (aterm_sound _ _ _ _ ch ET G) as [_ [HJ _]].
      destruct (HJ _ _ V1) as [a' [Hin G']]. rewrite forallb_forall in HE. specialize (HE _ Hin).
      destruct (edge_target _ _ _ HE G') as [b' [Hb' _]]. rewrite V2 in Hb'. discriminate.
    + destruct (aterm_sound _ _ _ _ true ET G) as [_ [_ HL]]. apply V2. apply HL. exact V1.
  - simpl in HF. destruct V as [oc V]. destruct (dead_assume m a) eqn:ED.
    + destruct m; simpl in ED; try discriminate. simpl in V. destruct (s v); discriminate.
    + destruct (amicro m a) as [a1|e] eqn:EM; try discriminate.
      destruct (amicro_sound _ _ _ _ oc EM G) as [B|[s1 [Hs1 _]]]; rewrite V in *; discriminate.
Qed.

Lemma inv_steps : forall c c', inv c -> steps f c c' -> inv c'.
Proof. intros c c' I ST. induction ST; auto. eapply inv_step; [apply IHST; exact I | eassumption]. Qed.

End Sound.

Theorem check_ann_sound : forall f ann, check_ann f ann = true ->
  forall c0 c, initial_config f c0 -> steps f c0 c -> ~ violates f c.
Proof.
  intros f ann H c0 c I S. eapply inv_safe; eauto. eapply inv_steps; eauto. eapply inv_init; eauto.
Qed.

Theorem check_func_sound : forall f fuel, check_func f fuel = Accept ->
  forall c0 c, initial_config f c0 -> steps f c0 c -> ~ violates f c.
Proof.
  intros f fuel H. unfold check_func in H. destruct (infer f fuel) as [ann|v]; [|destruct v; discriminate].
  destruct (check_ann f ann) eqn:E; try discriminate. eapply check_ann_sound; eauto.
Qed.

(* ---- error edges ----------------------------------------------------------------------------- *)
Lemma steps_trans : forall f a b c, steps f a b -> steps f b c -> steps f a c.
Proof.
  intros f a b c H1 H2. induction H2; [exact H1|]. eapply steps_step; [apply IHsteps; exact H1 | eassumption].
Qed.

(* c1 stands at an error check `if is_error(v)` whose value IS the error value; c2 is the entry of the error target *)
Definition error_edge (f : func) (v : val) (c1 c2 : config) : Prop :=
  exists neg lt lf s u b,
    c1 = Cfg [] (TBranch BIsError (Some v) neg lt lf) s /\ s v = CNull u /\
    PositiveMap.find (if neg then lf else lt) (fblocks f) = Some b /\
    c2 = Cfg (bops b) (bterm b) s.

Definition at_return (c : config) : Prop := crest c = [] /\ is_return (cterm_ c) = true.

Lemma error_edge_step : forall f v c1 c2, error_edge f v c1 c2 -> step f c1 c2.
Proof.
  intros f v c1 c2 [neg [lt [lf [s [u [b [E1 [Ev [Hb E2]]]]]]]]]. subst.
  eapply step_jump with (ch := true) (l := if neg then lf else lt); [simpl; rewrite Ev; reflexivity | exact Hb].
Qed.

Lemma not_violates_leak_free : forall f c, ~ violates f c -> at_return c ->
  leak_free (cterm_final (cterm_ c) (cst c)).
Proof.
  intros f c NV [Hr Ht] v. destruct (Nat.eq_dec (owned (cterm_final (cterm_ c) (cst c) v)) 0) as [E|E]; auto.
  exfalso. apply NV. unfold violates. rewrite Hr. right. right. split; [exact Ht | intro LF; apply E; apply LF].
Qed.

(* On the error edge of a failing op the result holds nothing (it is the error value, untouched by the branch),
   the edge itself is a legal step, and WHATEVER the function still owns at that point is released exactly once on
   every continuation: no continuation violates (no double release, no dec_ref of the NULL result, ...) and every
   Return reached afterwards finds nothing owned. *)
Theorem error_edge_sound : forall f fuel, check_func f fuel = Accept ->
  forall c0 c1 c2 v, initial_config f c0 -> steps f c0 c1 -> error_edge f v c1 c2 ->
    step f c1 c2 /\ owned (cst c2 v) = 0 /\ cst c2 = cst c1 /\
    forall c3, steps f c2 c3 ->
      ~ violates f c3 /\ (at_return c3 -> leak_free (cterm_final (cterm_ c3) (cst c3))).
Proof.
  intros f fuel H c0 c1 c2 v I S01 EE.
  pose proof (error_edge_step _ _ _ _ EE) as ST.
  destruct EE as [neg [lt [lf [s [u [b [E1 [Ev [Hb E2]]]]]]]]]. subst. simpl.
  split; [exact ST|]. split; [rewrite Ev; reflexivity|]. split; [reflexivity|].
  intros c3 S23.
  assert (NV : ~ violates f c3).
  { eapply check_func_sound; eauto. eapply steps_trans; [|exact S23]. eapply steps_step; eauto. }
  split; auto. intro AR. eapply not_violates_leak_free; eauto.
Qed.

(* every operand read that is ever reached finds a usable value: in particular never a pointer whose owner
   gave up its last reference (CObj 0 BNone), never uninitialised memory, never an undefined local *)
Theorem reads_are_valid : forall f fuel, check_func f fuel = Accept ->
  forall c0 c v ms, initial_config f c0 -> steps f c0 c -> crest c = MRead v :: ms ->
    readable (cst c v) = true /\ cst c v <> CObj 0 BNone /\ cst c v <> CUninit /\ cst c v <> CNull true.
Proof.
  intros f fuel H c0 c v ms I S Hc. destruct (readable (cst c v)) eqn:E.
  - split; [reflexivity|]. repeat split; intro X; rewrite X in E; discriminate.
  - exfalso. eapply check_func_sound; eauto. unfold violates. rewrite Hc. exists true. simpl. rewrite E. reflexivity.
Qed.
