(* Property C05 core (c): wrapper argument parsing vs CPython binding.  BOUNDED theorems: the domain
   (sigs_with _ 5, calls 5: every parameter list of <= 5 parameters, <= 6 positional and <= 3 keyword actuals over
   the parameter names and one foreign name) is enumerated completely; the bound is part of each statement. *)
From Coq Require Import List Arith Bool.
From C12 Require Import Bind.
From C05 Require Import ArgParse ArgParseProofs.
Import ListNotations.

(* for every signature WITHOUT positional-only parameters the compiled wrapper (with its fast paths) and the
   general C parser bind every call exactly as CPython does: same TypeError-or-not, same actual in every
   parameter, same *args and **kwargs (same_outcome_spec says what same_outcome = true means) *)
Theorem argparse_eq_python_bind_upto5 : forall ps c, In ps (sigs_with false 5) -> In c (calls 5) ->
  same_outcome ps (parse_wrapper ps c) (py_bind ps c) = true
  /\ same_outcome ps (parse_general (make_parser ps) (npos c) (kws c)) (py_bind ps c) = true.
Proof. exact argparse_eq_python_upto5. Qed.
Print Assumptions argparse_eq_python_bind_upto5.

Theorem same_outcome_meaning : forall ps a b, same_outcome ps a b = true ->
  match a, b with
  | None, None => True
  | Some x, Some y =>
    (forall p, In p ps -> is_star (pk p) = false -> slot_of (b_slots x) (pname p) = slot_of (b_slots y) (pname p))
    /\ b_star x = b_star y /\ b_kwstar x = b_kwstar y
  | _, _ => False
  end.
Proof. exact same_outcome_spec. Qed.
Print Assumptions same_outcome_meaning.

(* the value-level reference accepts exactly the calls C12's transcription of ceval.c accepts (with or without `/`) *)
Theorem py_bind_accepts_iff_cpython_bind_upto4 : forall ps c,
  In ps (sigs_with true 4 ++ sigs_with false 4) -> In c (calls 4) ->
  (py_bind ps c <> None <-> cpython_bind (map to_formal ps) c = BindOk).
Proof. exact ArgParseProofs.py_bind_accepts_iff_cpython_bind_upto4. Qed.
Print Assumptions py_bind_accepts_iff_cpython_bind_upto4.

(* with positional-only parameters the statement is REFUTED by the faithful model (finding
   wrapper-ignores-positional-only; both witnesses are replayed on the compiled code by the harness) *)
Theorem argparse_posonly_refuted :
  (exists ps c, parse_wrapper ps c = None /\ py_bind ps c <> None) /\
  (exists ps c, parse_wrapper ps c <> None /\ py_bind ps c = None).
Proof.
  destruct argparse_posonly_refuted_witness as [H1 [H2 [H3 H4]]]. split.
  - exists po_sig1, (mkCall 1 [1]). split; [exact H1|rewrite H2; discriminate].
  - exists po_sig2, (mkCall 0 [1]). split; [rewrite H3; discriminate|exact H4].
Qed.
Print Assumptions argparse_posonly_refuted.

Example argparse_example :
  parse_wrapper [mkP ARG_POS 1 false; mkP ARG_OPT 2 false; mkP ARG_STAR 3 false; mkP ARG_NAMED 4 false; mkP ARG_STAR2 5 false]
                (mkCall 3 [99; 4])
  = Some (mkBound [(1, Some (SPos 0)); (2, Some (SPos 1)); (4, Some (SKw 4))] [2] [99]).
Proof. vm_compute. reflexivity. Qed.
Example argparse_domain_nonempty : length (sigs_with false 5) = 459 /\ length (sigs_with true 4) = 228 /\ length (calls 5) = 1099.
Proof. vm_compute. auto. Qed.
