(* Property C05 core (c): wrapper argument parsing vs CPython binding.  BOUNDED theorems: the domain
   (sigs_with _ 5, calls 5: every parameter list of <= 5 parameters, <= 6 positional and <= 3 keyword actuals over
   the parameter names and one foreign name) is enumerated completely; the bound is part of each statement. *)
From Coq Require Import List Arith Bool.
From C12 Require Import Bind.
From C05 Require Import ArgParse ArgParseProofs ArgParseUnb ArgParseUnb2 ArgParseUnb3 ArgParseUnb4.
Import ListNotations.

(* for every signature WITHOUT positional-only parameters the compiled wrapper (with its fast paths) and the
   general C parser bind every call exactly as CPython does: same TypeError-or-not, same actual in every
   parameter, same *args and **kwargs (same_outcome_spec says what same_outcome = true means) *)
Theorem argparse_eq_python_bind_upto5 : forall ps c, In ps (sigs_with false 5) -> In c (calls 5) ->
  same_outcome ps (parse_wrapper ps c) (py_bind ps c) = true
  /\ same_outcome ps (parse_general (make_parser ps) (npos c) (kws c)) (py_bind ps c) = true.
Proof. exact argparse_eq_python_upto5. Qed.
Print Assumptions argparse_eq_python_bind_upto5.

Theorem same_outcome_meaning : forall ps a b, same_outcome ps a b = true ->
  match a, b with
  | None, None => True
  | Some x, Some y =>
    (forall p, In p ps -> is_star (pk p) = false -> slot_of (b_slots x) (pname p) = slot_of (b_slots y) (pname p))
    /\ b_star x = b_star y /\ b_kwstar x = b_kwstar y
  | _, _ => False
  end.
Proof. exact same_outcome_spec. Qed.
Print Assumptions same_outcome_meaning.

(* the value-level reference accepts exactly the calls C12's transcription of ceval.c accepts (with or without `/`) *)
Theorem py_bind_accepts_iff_cpython_bind_upto4 : forall ps c,
  In ps (sigs_with true 4 ++ sigs_with false 4) -> In c (calls 4) ->
  (py_bind ps c <> None <-> cpython_bind (map to_formal ps) c = BindOk).
Proof. exact ArgParseProofs.py_bind_accepts_iff_cpython_bind_upto4. Qed.
Print Assumptions py_bind_accepts_iff_cpython_bind_upto4.

(* with positional-only parameters the statement is REFUTED by the faithful model (finding
   wrapper-ignores-positional-only; both witnesses are replayed on the compiled code by the harness) *)
Theorem argparse_posonly_refuted :
  (exists ps c, parse_wrapper ps c = None /\ py_bind ps c <> None) /\
  (exists ps c, parse_wrapper ps c <> None /\ py_bind ps c = None).
Proof.
  destruct argparse_posonly_refuted_witness as [H1 [H2 [H3 H4]]]. split.
  - exists po_sig1, (mkCall 1 [1]). split; [exact H1|rewrite H2; discriminate].
  - exists po_sig2, (mkCall 0 [1]). split; [rewrite H3; discriminate|exact H4].
Qed.
Print Assumptions argparse_posonly_refuted.

(* UNBOUNDED (partial): for EVERY parameter list -- any number of positional-only / positional-or-keyword parameters with
   or without defaults, *args, keyword-only parameters, **kwargs; required positional parameters first (Python syntax),
   distinct names -- and EVERY purely positional call (any number of arguments, no keywords), the vectorcall wrapper
   (with its NoArgs/OneArg/Simple fast paths) and the general C parser raise TypeError exactly when CPython's binding
   rule does.  Proved by induction over the parameter list; no enumeration.  (Bindings: next theorem.  Missing for the
   full statement: calls WITH keyword arguments -- those stay covered by the bounded theorems above.) *)
Theorem argparse_positional_accept_unbounded_partial : forall P1 R n,
  Forall (fun p => kind_eqb (pk p) ARG_POS = true) P1 ->
  Forall (fun p => kind_eqb (pk p) ARG_POS = false) R ->
  NoDup (map pname (P1 ++ R)) ->
  accepted (parse_wrapper (P1 ++ R) (mkCall n [])) = accepted (py_bind (P1 ++ R) (mkCall n []))
  /\ accepted (parse_general (make_parser (P1 ++ R)) n []) = accepted (py_bind (P1 ++ R) (mkCall n [])).
Proof. exact positional_accept_both. Qed.
Print Assumptions argparse_positional_accept_unbounded_partial.

(* UNBOUNDED (partial), bindings: for every parameter list of the Python shape -- required positional parameters, then
   optional positional ones, then *args / keyword-only / **kwargs in any order; positional-only or not; distinct names --
   and every purely positional call, the general C parser and CPython's rule have the same outcome: both TypeError, or
   the same actual in every parameter, the same *args tuple and an empty **kwargs (same_outcome_meaning). *)
Theorem argparse_positional_bind_unbounded_partial : forall P1 O K n,
  Forall (fun p => kind_eqb (pk p) ARG_POS = true) P1 ->
  Forall (fun p => kind_eqb (pk p) ARG_OPT = true) O ->
  Forall (fun p => is_pos_param p = false) K ->
  NoDup (map pname (P1 ++ O ++ K)) ->
  same_outcome (P1 ++ O ++ K) (parse_general (make_parser (P1 ++ O ++ K)) n []) (py_bind (P1 ++ O ++ K) (mkCall n [])) = true.
Proof. exact positional_bind_unbounded. Qed.
Print Assumptions argparse_positional_bind_unbounded_partial.

(* UNBOUNDED (partial): on positional calls the value-level reference accepts exactly what C12's transcription of
   ceval.c accepts, for every parameter list with distinct names (so the two theorems above also hold against cpython_bind) *)
Theorem py_bind_accepts_iff_cpython_bind_positional_unbounded_partial : forall ps n, NoDup (map pname ps) ->
  accepted (py_bind ps (mkCall n [])) = bind_ok (cpython_bind (map to_formal ps) (mkCall n [])).
Proof. exact positional_reference_unbounded. Qed.
Print Assumptions py_bind_accepts_iff_cpython_bind_positional_unbounded_partial.

(* UNBOUNDED, keywords included: the value-level reference py_bind (which actual lands where) accepts exactly the calls
   C12's transcription of ceval.c accepts -- for EVERY parameter list with distinct names (positional-only or not, any
   kinds in any order) and EVERY call with distinct keyword names.  Supersedes py_bind_accepts_iff_cpython_bind_upto4. *)
Theorem py_bind_accepts_iff_cpython_bind_unbounded : forall ps c, NoDup (map pname ps) -> NoDup (kws c) ->
  accepted (py_bind ps c) = bind_ok (cpython_bind (map to_formal ps) c).
Proof. exact reference_accept_unbounded. Qed.
Print Assumptions py_bind_accepts_iff_cpython_bind_unbounded.

Example reference_unbounded_example :
  NoDup (map pname [mkP ARG_POS 1 true; mkP ARG_OPT 2 false; mkP ARG_NAMED 3 false; mkP ARG_STAR2 4 false]) /\ NoDup [3; 9; 2] /\
  accepted (py_bind [mkP ARG_POS 1 true; mkP ARG_OPT 2 false; mkP ARG_NAMED 3 false; mkP ARG_STAR2 4 false] (mkCall 1 [3; 9; 2])) = true.
Proof. repeat split; try (vm_compute; reflexivity); repeat constructor; simpl; intuition discriminate. Qed.

Example argparse_unbounded_bind_example :
  let P1 := [mkP ARG_POS 1 true] in let O := [mkP ARG_OPT 2 false] in
  let K := [mkP ARG_STAR 3 false; mkP ARG_NAMED_OPT 4 false; mkP ARG_STAR2 5 false] in
  parse_general (make_parser (P1 ++ O ++ K)) 4 [] = Some (mkBound [(1, Some (SPos 0)); (2, Some (SPos 1)); (4, None)] [2; 3] [])
  /\ forallb (fun p => kind_eqb (pk p) ARG_POS) P1 && forallb (fun p => kind_eqb (pk p) ARG_OPT) O
     && forallb (fun p => negb (is_pos_param p)) K = true.
Proof. vm_compute. split; reflexivity. Qed.

(* the hypotheses are satisfiable: def f(a, b, /, c=.., *args, k, o=.., **kw) *)
Example argparse_unbounded_hyps :
  let P1 := [mkP ARG_POS 1 true; mkP ARG_POS 2 true] in
  let R := [mkP ARG_OPT 3 false; mkP ARG_STAR 4 false; mkP ARG_NAMED 5 false; mkP ARG_NAMED_OPT 6 false; mkP ARG_STAR2 7 false] in
  Forall (fun p => kind_eqb (pk p) ARG_POS = true) P1 /\ Forall (fun p => kind_eqb (pk p) ARG_POS = false) R
  /\ NoDup (map pname (P1 ++ R)) /\ accepted (py_bind (P1 ++ [mkP ARG_OPT 3 false; mkP ARG_STAR 4 false]) (mkCall 5 [])) = true.
Proof.
  simpl. repeat split; repeat constructor; simpl; try (intro H; repeat (destruct H as [H|H]; [discriminate|]); exact H).
Qed.

Example argparse_example :
  parse_wrapper [mkP ARG_POS 1 false; mkP ARG_OPT 2 false; mkP ARG_STAR 3 false; mkP ARG_NAMED 4 false; mkP ARG_STAR2 5 false]
                (mkCall 3 [99; 4])
  = Some (mkBound [(1, Some (SPos 0)); (2, Some (SPos 1)); (4, Some (SKw 4))] [2] [99]).
Proof. vm_compute. reflexivity. Qed.
Example argparse_domain_nonempty : length (sigs_with false 5) = 459 /\ length (sigs_with true 4) = 228 /\ length (calls 5) = 1099.
Proof. vm_compute. auto. Qed.
