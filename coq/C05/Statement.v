(* C05 — full-strength statement, and the statements of the cores (proved ones are in Properties.v). *)
From Coq Require Import List PArith Bool.
From C05 Require Import Vtable PassValidators.
Import ListNotations.

(* FULL PROPERTY (NOT proved; only searched by the differential oracle S): for every accepted program,
   configuration (opt level x grouping) and driver input, the observable behaviour of the compiled
   extension equals that of the interpreted source up to the documented differences. *)
Definition compiled_behaves_like_interpreted
  (program config input behaviour : Type)
  (accepted : program -> Prop)                          (* mypy accepts it and mypyc compiles it *)
  (interpreted : program -> input -> behaviour)         (* CPython running the .py *)
  (compiled : config -> program -> input -> behaviour)  (* importing and running the extension *)
  (same_up_to_documented_differences : behaviour -> behaviour -> Prop) : Prop :=
  forall p c i, accepted p -> same_up_to_documented_differences (compiled c p i) (interpreted p i).

(* (a) which layouts a reference of static class/trait p may be used with: p is on the base chain of the
   run-time class c (class-typed reference: c's own vtable), or p is a trait in the mro of the concrete
   class c (trait-typed reference: c's trait vtable for p). *)
Definition ancestor (ct : ctable) (p c : cname) : Prop :=
  (is_trait ct p = false /\ base_chain ct c p)
  \/ (is_trait ct p = true /\ exists cl, find_cls ct c = Some cl /\ c_trait cl = false /\ In p (c_mro cl)).

(* (a) an indexed virtual call is Python's attribute lookup.  Proved: Properties.vtable_dispatch_eq_mro_lookup *)
Definition vtable_dispatch_statement : Prop :=
  forall ct res c p n i,
    wf_ct ct = true -> compute_all ct = Some res -> (exists cl, find_cls ct c = Some cl) ->
    ancestor ct p c -> slot_of res p n = Some i ->
    exists es e, view ct res c p = Some es /\ nth_error es i = Some e /\ e_name e = n
                 /\ Some (resolve (e_meth e)) = mro_lookup ct c n.

(* (b) what a pass must satisfy, for every interpretation of the uninterpreted ops.  Proved for every
   before/after pair the validators accept: Properties.validate_copyprop_sound / validate_flagelim_sound;
   whether the validators accept everything the real passes emit is CHECKED on the corpus, not proved. *)
Definition pass_preserves_semantics (before after : func) : Prop :=
  forall (val world : Type) lit_val op_sem truthy br_eff,
    equivalent val world lit_val op_sem truthy br_eff before after.

(* (c) wrapper argument parsing (CPyArg_ParseStackAndKeywords family, emitwrapper.py) binds arguments as CPython does.
   FULL statement (ArgParse.v definitions): for every parameter list of the Python shape with distinct names and WITHOUT
   positional-only parameters, and every call (any number of positional arguments, any list of distinct keyword names),
   wrapper = general parser = py_bind.  Status:
   - positional-only parameters: REFUTED (PropertiesC.argparse_posonly_refuted), hence the guard;
   - calls WITHOUT keyword arguments: PROVED UNBOUNDED, with or without positional-only parameters
     (PropertiesC.argparse_positional_accept_unbounded_partial: accept/reject incl. the wrapper fast paths;
      PropertiesC.argparse_positional_bind_unbounded_partial: same bindings, *args, **kwargs);
   - the reference itself: py_bind accepts exactly what C12's cpython_bind accepts, PROVED UNBOUNDED for every parameter
     list and every call, keywords included (PropertiesC.py_bind_accepts_iff_cpython_bind_unbounded);
   - the C parser on calls WITH keyword arguments: only the bounded sweep (argparse_eq_python_bind_upto5: <= 5 parameters,
     <= 6 positional and <= 3 keyword actuals).  MISSING for an unbounded proof of that part: the invariant of the `nkwargs`
     counter of vgetargskeywordsfast_impl (nk = #keywords - #keywords matched so far, and nk > 0 whenever an unmatched
     parameter name is among the keywords -- a counting argument over duplicate-free lists), the pigeonhole behind its
     first check (nargs + nkwargs > len), the equivalence of its final "given by name and position" / unknown-keyword scans
     with CPython's per-keyword slot test, and the permutation between the reordered kwlist and the source order. *)
From C12 Require Import Bind.
From C05 Require Import ArgParse.
Definition argparse_full_statement : Prop :=
  forall ps c, Bind.shape (map to_formal ps) = true -> NoDup (map pname ps) -> NoDup (kws c) ->
  forallb (fun p => negb (posonly p)) ps = true ->
  same_outcome ps (parse_wrapper ps c) (py_bind ps c) = true
  /\ same_outcome ps (parse_general (make_parser ps) (npos c) (kws c)) (py_bind ps c) = true.
