(* C05 (b2): guarded-block IR for the check-inserting passes (transform/uninit.py, transform/exceptions.py).

   Both passes split basic blocks to insert checks whose continuation block has the check as its only
   predecessor.  The harness re-merges such a chain into ONE block in which a check is a pseudo-op (a guard:
   "if the test holds leave to block `exit`, else fall through"); that normalisation is done -- and undone and
   compared -- outside Coq and is TRUSTED (notes/C05.md).  Everything else (which guards must be there, what they
   test, what else may change) is checked by the Gallina validators and proved against this semantics.

   Registers may be UNDEFINED (None): uninitialised locals, `del x`, LoadErrorValue(undefines=True).  Reading an
   undefined variable is the outcome UndefRead, except (as in uninit.py) by an IS_ERROR test and when an
   untracked temporary holding "undefined" is copied by an Assign (that is how `x = <error>` is written). *)
From Coq Require Import List PArith Arith Bool.
From C05 Require Import PassValidators.
Import ListNotations.

Inductive gop :=
| GOp (o : op)
| GUndef (d : positive)                                            (* d = <error> :: undefines *)
| GGuard (k : positive) (neg : bool) (v : operand) (exit : positive)
| GGuard2 (k1 : positive) (neg1 : bool) (v1 : operand) (inner : list op)
          (k2 : positive) (neg2 : bool) (v2 : operand) (exit : positive)   (* if test1 then (inner; if test2 then exit) *)
| GBmInit (B : positive)                                           (* B = 0 *)
| GBmSet (B : positive) (i : nat)                                  (* B = B | (1 << i) *)
| GBmClr (B : positive) (i : nat)                                  (* B = B & ~(1 << i) *)
| GBmGuard (B : positive) (i : nat) (exit : positive).             (* if B & (1 << i) == 0 goto exit *)

Record gblock := mkG { g_ops : list gop; g_term : term }.
Definition gfunc := list (positive * gblock).

Fixpoint gfind (f : gfunc) (l : positive) : option gblock :=
  match f with
  | [] => None
  | (l', b) :: r => if Pos.eqb l l' then Some b else gfind r l
  end.
Definition gentry (f : gfunc) : positive := match f with (l, _) :: _ => l | [] => 1%positive end.

Section GSem.
  Variables val world : Type.
  Variable lit_val : positive -> val.
  Variable op_sem : positive -> list val -> world -> val * world.
  Variable truthy : positive -> val -> bool.
  Variable br_eff : positive -> bool -> world -> world.
  Variable tracked : positive -> bool.       (* named registers: reading them undefined is an error *)
  Variable iserr : positive -> bool.         (* branch kinds that are IS_ERROR tests *)

  Definition oenv := positive -> option val.
  Definition bmaps := positive -> nat -> bool.
  Record gst := mkSt { s_env : oenv; s_bm : bmaps; s_w : world }.

  Definition oeval (e : oenv) (o : operand) : option val :=
    match o with OVar x => e x | OLit k => Some (lit_val k) end.
  Definition oset (e : oenv) (d : positive) (v : option val) : oenv :=
    fun x => if Pos.eqb x d then v else e x.
  Definition bmset (b : bmaps) (B : positive) (f : nat -> bool) : bmaps :=
    fun x => if Pos.eqb x B then f else b x.

  Fixpoint all_some (l : list (option val)) : option (list val) :=
    match l with
    | [] => Some []
    | Some v :: r => match all_some r with Some vs => Some (v :: vs) | None => None end
    | None :: _ => None
    end.

  (* value of a test; None = the test reads an undefined variable although it is not an IS_ERROR test *)
  Definition gtest (k : positive) (ov : option val) : option bool :=
    match ov with
    | Some x => Some (truthy k x)
    | None => if iserr k then Some true else None
    end.

  Inductive gres := GCont (s : gst) | GExit (l : positive) (s : gst) | GUndefRead (w : world).

  Definition exec_plain (o : op) (s : gst) : gres :=
    match o with
    | Assign d (OLit k) => GCont (mkSt (oset (s_env s) d (Some (lit_val k))) (s_bm s) (s_w s))
    | Assign d (OVar x) =>
      match s_env s x with
      | Some v => GCont (mkSt (oset (s_env s) d (Some v)) (s_bm s) (s_w s))
      | None => if tracked x then GUndefRead (s_w s)
                else GCont (mkSt (oset (s_env s) d None) (s_bm s) (s_w s))
      end
    | Op d f args =>
      match all_some (map (oeval (s_env s)) args) with
      | Some vs => let r := op_sem f vs (s_w s) in
                   GCont (mkSt (oset (s_env s) d (Some (fst r))) (s_bm s) (snd r))
      | None => GUndefRead (s_w s)
      end
    end.

  Fixpoint exec_plains (os : list op) (s : gst) : gres :=
    match os with
    | [] => GCont s
    | o :: r => match exec_plain o s with GCont s' => exec_plains r s' | x => x end
    end.

  Definition gexec_op (g : gop) (s : gst) : gres :=
    match g with
    | GOp o => exec_plain o s
    | GUndef d => GCont (mkSt (oset (s_env s) d None) (s_bm s) (s_w s))
    | GGuard k neg v ex =>
      match gtest k (oeval (s_env s) v) with
      | None => GUndefRead (s_w s)
      | Some c => let s' := mkSt (s_env s) (s_bm s) (br_eff k c (s_w s)) in
                  if xorb neg c then GExit ex s' else GCont s'
      end
    | GGuard2 k1 neg1 v1 inner k2 neg2 v2 ex =>
      match gtest k1 (oeval (s_env s) v1) with
      | None => GUndefRead (s_w s)
      | Some c1 =>
        let s1 := mkSt (s_env s) (s_bm s) (br_eff k1 c1 (s_w s)) in
        if xorb neg1 c1 then
          match exec_plains inner s1 with
          | GCont s2 =>
            match gtest k2 (oeval (s_env s2) v2) with
            | None => GUndefRead (s_w s2)
            | Some c2 => let s3 := mkSt (s_env s2) (s_bm s2) (br_eff k2 c2 (s_w s2)) in
                         if xorb neg2 c2 then GExit ex s3 else GCont s3
            end
          | x => x
          end
        else GCont s1
      end
    | GBmInit B => GCont (mkSt (s_env s) (bmset (s_bm s) B (fun _ => false)) (s_w s))
    | GBmSet B i => GCont (mkSt (s_env s) (bmset (s_bm s) B (fun j => Nat.eqb j i || s_bm s B j)) (s_w s))
    | GBmClr B i => GCont (mkSt (s_env s) (bmset (s_bm s) B (fun j => negb (Nat.eqb j i) && s_bm s B j)) (s_w s))
    | GBmGuard B i ex => if s_bm s B i then GCont s else GExit ex s
    end.

  Fixpoint gexec (gs : list gop) (s : gst) : gres :=
    match gs with
    | [] => GCont s
    | g :: r => match gexec_op g s with GCont s' => gexec r s' | x => x end
    end.

  Inductive goutcome :=
  | GRet (v : val) (w : world) | GUnreach (w : world) | GStuck (w : world) | GUndefinedRead (w : world) | GOutOfFuel.

  Fixpoint grun (f : gfunc) (fuel : nat) (l : positive) (s : gst) : goutcome :=
    match fuel with
    | O => GOutOfFuel
    | S n =>
      match gfind f l with
      | None => GStuck (s_w s)
      | Some b =>
        match gexec (g_ops b) s with
        | GUndefRead w => GUndefinedRead w
        | GExit ex s' => grun f n ex s'
        | GCont s' =>
          match g_term b with
          | Goto l' => grun f n l' s'
          | Branch k neg v lt lf =>
            match gtest k (oeval (s_env s') v) with
            | None => GUndefinedRead (s_w s')
            | Some c => grun f n (if xorb neg c then lt else lf)
                             (mkSt (s_env s') (s_bm s') (br_eff k c (s_w s')))
            end
          | Return v => match oeval (s_env s') v with
                        | Some x => GRet x (s_w s')
                        | None => GUndefinedRead (s_w s')
                        end
          | Unreachable => GUnreach (s_w s')
          end
        end
      end
    end.
End GSem.
