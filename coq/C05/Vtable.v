(* C05 (a): executable model of mypyc/irbuild/vtable.py (compute_vtable, specialize_parent_vtable)
   and of ClassIR.get_method / get_method_and_class (mypyc/ir/class_ir.py) over arbitrary class
   tables (single inheritance + traits).  Definitions only; proofs are in VtableProofs.v. *)
From Coq Require Import List PArith Bool.
Import ListNotations.

Definition cname := positive.
Definition mname := positive.
Definition sigid := positive.      (* class of a signature under is_same_method_signature *)

(* method name 1 is reserved for "__init__" (specialize_parent_vtable special-cases it) *)
Definition init_name : mname := 1%positive.

Record cls := mkCls {
  c_name : cname;
  c_trait : bool;
  c_base : option cname;                 (* ClassIR.base: first non-trait proper ancestor *)
  c_mro : list cname;                    (* ClassIR.mro: linearisation, the class itself first *)
  c_methods : list (mname * sigid);      (* ClassIR.methods, in definition order *)
  c_glue : list (cname * mname)          (* keys of ClassIR.glue_methods (non-shadow) *)
}.
Definition ctable := list cls.

(* what a vtable slot points to: a method body, or the glue function of class d that adapts the
   signature declared in t to d's own method n and then calls it *)
Inductive impl := Impl (d : cname) (n : mname) | Glue (d : cname) (t : cname) (n : mname).
Record entry := mkE { e_cls : cname; e_name : mname; e_meth : impl }.
Record vt := mkVt {
  v_entries : list entry;                (* ClassIR.vtable_entries *)
  v_index : list (mname * nat);          (* ClassIR.vtable : name -> slot (latest binding first) *)
  v_traits : list (cname * list entry)   (* ClassIR.trait_vtables *)
}.
Definition empty_vt := mkVt [] [] [].

Fixpoint passoc {A} (k : positive) (l : list (positive * A)) : option A :=
  match l with
  | [] => None
  | (k', a) :: r => if Pos.eqb k k' then Some a else passoc k r
  end.

Fixpoint find_cls (ct : ctable) (c : cname) : option cls :=
  match ct with
  | [] => None
  | cl :: r => if Pos.eqb c (c_name cl) then Some cl else find_cls r c
  end.

(* ClassIR.get_method_and_class(name, prefer_method=True) run on an mro: Python's attribute lookup *)
Fixpoint lookup (ct : ctable) (mro : list cname) (n : mname) : option (cname * sigid) :=
  match mro with
  | [] => None
  | d :: r =>
    match find_cls ct d with
    | Some dc => match passoc n (c_methods dc) with
                 | Some s => Some (d, s)
                 | None => lookup ct r n
                 end
    | None => lookup ct r n
    end
  end.

Definition get_method (ct : ctable) (c : cname) (n : mname) : option (cname * sigid) :=
  match find_cls ct c with
  | Some cl => lookup ct (c_mro cl) n
  | None => None
  end.

Definition pair_mem (t : cname) (n : mname) (l : list (cname * mname)) : bool :=
  existsb (fun p => Pos.eqb t (fst p) && Pos.eqb n (snd p)) l.

(* one iteration of the loop of specialize_parent_vtable; None = the Python code raises
   (assert orig_parent_method / KeyError on glue_methods) *)
Definition specialize1 (ct : ctable) (cl : cls) (e : entry) : option entry :=
  match get_method ct (e_cls e) (e_name e) with
  | None => None
  | Some (_, osig) =>
    match lookup ct (c_mro cl) (e_name e) with
    | None => Some e
    | Some (d, csig) =>
      if Pos.eqb osig csig || Pos.eqb (e_name e) init_name
      then Some (mkE (e_cls e) (e_name e) (Impl d (e_name e)))
      else match find_cls ct d with
           | Some dc => if pair_mem (e_cls e) (e_name e) (c_glue dc)
                        then Some (mkE (e_cls e) (e_name e) (Glue d (e_cls e) (e_name e)))
                        else None
           | None => None
           end
    end
  end.

Fixpoint specialize (ct : ctable) (cl : cls) (es : list entry) : option (list entry) :=
  match es with
  | [] => Some []
  | e :: r => match specialize1 ct cl e, specialize ct cl r with
              | Some e', Some r' => Some (e' :: r')
              | _, _ => None
              end
  end.

Definition is_trait (ct : ctable) (c : cname) : bool :=
  match find_cls ct c with Some cl => c_trait cl | None => false end.

Definition all_traits (ct : ctable) (cl : cls) : list cname := filter (is_trait ct) (c_mro cl).

(* the classes whose methods may get a fresh slot: [cls] + [t for t in all_traits if t is not cls] *)
Definition slot_sources (ct : ctable) (cl : cls) : list cname :=
  c_name cl :: filter (fun t => negb (Pos.eqb t (c_name cl))) (all_traits ct cl).

(* "if fn == cls.get_method(fn.name, prefer_method=True)": t's own method n is what cl resolves n to *)
Definition resolves_to (ct : ctable) (cl : cls) (t : cname) (n : mname) : bool :=
  match lookup ct (c_mro cl) n with
  | Some (d, _) => Pos.eqb d t
  | None => false
  end.

Fixpoint add_methods (ct : ctable) (cl : cls) (t : cname) (ms : list (mname * sigid))
         (acc : list entry * list (mname * nat)) : list entry * list (mname * nat) :=
  match ms with
  | [] => acc
  | (n, _) :: r =>
    let acc' := if resolves_to ct cl t n
                then (fst acc ++ [mkE t n (Impl t n)], (n, length (fst acc)) :: snd acc)
                else acc in
    add_methods ct cl t r acc'
  end.

Fixpoint add_sources (ct : ctable) (cl : cls) (ts : list cname)
         (acc : list entry * list (mname * nat)) : list entry * list (mname * nat) :=
  match ts with
  | [] => acc
  | t :: r =>
    let ms := match find_cls ct t with Some tc => c_methods tc | None => [] end in
    add_sources ct cl r (add_methods ct cl t ms acc)
  end.

Fixpoint trait_views (ct : ctable) (res : list (cname * vt)) (cl : cls) (ts : list cname)
  : option (list (cname * list entry)) :=
  match ts with
  | [] => Some []
  | t :: r =>
    match passoc t res with
    | None => None
    | Some tv => match specialize ct cl (v_entries tv), trait_views ct res cl r with
                 | Some es, Some rest => Some ((t, es) :: rest)
                 | _, _ => None
                 end
    end
  end.

(* compute_vtable for one class, given the results for all classes defined before it *)
Definition compute_one (ct : ctable) (res : list (cname * vt)) (cl : cls) : option vt :=
  match (match c_base cl with
         | None => Some ([], [])
         | Some b => match passoc b res with
                     | Some bv => match specialize ct cl (v_entries bv) with
                                  | Some es => Some (es, v_index bv)
                                  | None => None
                                  end
                     | None => None
                     end
         end) with
  | None => None
  | Some start =>
    let '(es, idx) := add_sources ct cl (slot_sources ct cl) start in
    match (if c_trait cl then Some [] else trait_views ct res cl (all_traits ct cl)) with
    | Some tvs => Some (mkVt es idx tvs)
    | None => None
    end
  end.

Fixpoint compute_from (ct : ctable) (todo : list cls) (res : list (cname * vt)) : option (list (cname * vt)) :=
  match todo with
  | [] => Some res
  | cl :: r => match compute_one ct res cl with
               | Some v => compute_from ct r ((c_name cl, v) :: res)
               | None => None
               end
  end.

Definition compute_all (ct : ctable) : option (list (cname * vt)) := compute_from ct ct [].

(* ---- how compiled code uses the tables (mypyc/codegen/emitfunc.py visit_method_call,
   lib-rt CPY_GET_METHOD / CPY_GET_METHOD_TRAIT): the slot number comes from the STATIC class p
   (p.vtable[name]); the table comes from the RUN-TIME class c: its own vtable when p is a
   class, its trait vtable for p when p is a trait. *)
Definition view (ct : ctable) (res : list (cname * vt)) (c p : cname) : option (list entry) :=
  match passoc c res with
  | None => None
  | Some cv => if is_trait ct p then passoc p (v_traits cv) else Some (v_entries cv)
  end.

Definition slot_of (res : list (cname * vt)) (p : cname) (n : mname) : option nat :=
  match passoc p res with Some pv => passoc n (v_index pv) | None => None end.

(* the method body a slot finally runs *)
Definition resolve (i : impl) : cname * mname :=
  match i with Impl d n => (d, n) | Glue d _ n => (d, n) end.

(* Python's MRO attribute lookup of method n on an instance of c: defining class *)
Definition mro_lookup (ct : ctable) (c : cname) (n : mname) : option (cname * mname) :=
  match get_method ct c n with Some (d, _) => Some (d, n) | None => None end.

(* ---- well-formedness of a class table (what prepare.py establishes; checked on real ClassIRs) *)
Definition pmem (x : positive) (l : list positive) : bool := existsb (Pos.eqb x) l.
Definition incl_b (a b : list positive) : bool := forallb (fun x => pmem x b) a.

Definition wf_cls (ct : ctable) (earlier : list cname) (cl : cls) : bool :=
  match c_mro cl with
  | [] => false
  | h :: rest =>
    Pos.eqb h (c_name cl)
    && negb (pmem (c_name cl) earlier)
    && forallb (fun p => pmem p earlier
                         && match find_cls ct p with
                            | Some pc => incl_b (c_mro pc) (c_mro cl)
                            | None => false
                            end) rest
    && match c_base cl with
       | None => true
       | Some b => pmem b rest && negb (is_trait ct b)
       end
  end.

Fixpoint wf_from (ct : ctable) (earlier : list cname) (todo : list cls) : bool :=
  match todo with
  | [] => true
  | cl :: r => wf_cls ct earlier cl && wf_from ct (c_name cl :: earlier) r
  end.

Definition wf_ct (ct : ctable) : bool := wf_from ct [] ct.

(* base chain: c, c.base, c.base.base, ...  (ClassIR.base_mro) *)
Inductive base_chain (ct : ctable) : cname -> cname -> Prop :=
| bc_refl : forall c, base_chain ct c c
| bc_step : forall c cl b p, find_cls ct c = Some cl -> c_base cl = Some b -> base_chain ct b p -> base_chain ct c p.
