From Coq Require Import List PArith Bool Extraction ExtrOcamlBasic.
From C12 Require Import Bind.
From C05 Require Import Vtable PassValidators ArgParse Guarded Uninit Exc Final.
Extraction "c05.ml" compute_all wf_ct view Vtable.slot_of mro_lookup resolve
  validate_copyprop validate_flagelim
  parse_wrapper parse_general make_parser py_bind cpython_bind to_formal
  validate_uninit validate_exceptions is_method_final find_cls.
