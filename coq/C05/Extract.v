From Coq Require Import List PArith Bool Extraction ExtrOcamlBasic.
From C05 Require Import Vtable PassValidators.
Extraction "c05.ml" compute_all wf_ct view slot_of mro_lookup resolve
  validate_copyprop validate_flagelim.
