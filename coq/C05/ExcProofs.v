(* C05 (b3): an accepted AFTER behaves exactly like BEFORE under the implicit-exception semantics. *)
From Coq Require Import List PArith Arith Bool.
From C05 Require Import PassValidators PassProofs Guarded Exc.
Import ListNotations.

Lemma gop_eqb_eq : forall a b, gop_eqb a b = true -> a = b.
Proof.
  destruct a, b; simpl; intro H; try discriminate.
  - apply op_eqb_eq in H. subst. reflexivity.
  - apply peqb_eq in H. subst. reflexivity.
  - repeat (apply andb_true_iff in H; destruct H as [H ?]).
    apply peqb_eq in H. apply Bool.eqb_prop in H2. apply operand_eqb_eq in H1. apply peqb_eq in H0. subst. reflexivity.
  - repeat (apply andb_true_iff in H; destruct H as [H ?]).
    apply peqb_eq in H. apply Bool.eqb_prop in H6. apply operand_eqb_eq in H5. apply (list_eqb_eq _ _ op_eqb_eq) in H4.
    apply peqb_eq in H3. apply Bool.eqb_prop in H2. apply operand_eqb_eq in H1. apply peqb_eq in H0. subst. reflexivity.
  - apply peqb_eq in H. subst. reflexivity.
  - apply andb_true_iff in H. destruct H as [H1 H2]. apply peqb_eq in H1. apply Nat.eqb_eq in H2. subst. reflexivity.
  - apply andb_true_iff in H. destruct H as [H1 H2]. apply peqb_eq in H1. apply Nat.eqb_eq in H2. subst. reflexivity.
  - repeat (apply andb_true_iff in H; destruct H as [H ?]). apply peqb_eq in H. apply Nat.eqb_eq in H1. apply peqb_eq in H0. subst. reflexivity.
Qed.

Lemma gblock_eqb_eq : forall a b, gblock_eqb a b = true -> a = b.
Proof.
  intros [o t] [o' t'] H. unfold gblock_eqb in H. simpl in H. apply andb_true_iff in H. destruct H as [H1 H2].
  apply (list_eqb_eq _ _ gop_eqb_eq) in H1. apply term_eqb_eq in H2. subst. reflexivity.
Qed.

Lemma gfunc_eqb_eq : forall a b, gfunc_eqb a b = true -> a = b.
Proof.
  unfold gfunc_eqb. apply list_eqb_eq. intros [l b] [l' b'] H. simpl in H. apply andb_true_iff in H. destruct H as [H1 H2].
  apply peqb_eq in H1. apply gblock_eqb_eq in H2. subst. reflexivity.
Qed.

Section XProofs.
  Variables val world : Type.
  Variable lit_val : positive -> val.
  Variable op_sem : positive -> list val -> world -> val * world.
  Variable truthy : positive -> val -> bool.
  Variable br_eff : positive -> bool -> world -> world.
  Variable tracked : positive -> bool.
  Variable iserr : positive -> bool.

  Notation gexec := (gexec val world lit_val op_sem truthy br_eff tracked iserr).
  Notation gexec_op := (gexec_op val world lit_val op_sem truthy br_eff tracked iserr).
  Notation grun := (grun val world lit_val op_sem truthy br_eff tracked iserr).
  Notation xexec := (xexec val world lit_val op_sem truthy br_eff tracked iserr).
  Notation xrun := (xrun val world lit_val op_sem truthy br_eff tracked iserr).
  Notation finish := (finish val world lit_val truthy br_eff iserr).

  Lemma gexec_app : forall a b s,
    gexec (a ++ b) s = match gexec a s with GCont _ _ s' => gexec b s' | y => y end.
  Proof.
    induction a as [|g a IH]; intros b s; simpl; [reflexivity|].
    destruct (gexec_op g s); try reflexivity. apply IH.
  Qed.

  Lemma expand_ops_exec : forall exit xs s, gexec (expand_ops exit xs) s = xexec xs exit s.
  Proof.
    intros exit. induction xs as [|x xs IH]; intro s; [reflexivity|].
    unfold expand_ops in *. simpl flat_map. simpl gexec. cbn [Guarded.gexec_op].
    simpl xexec. destruct (exec_plain val world lit_val op_sem tracked (x_op x) s) as [s1| |]; try reflexivity.
    rewrite gexec_app. destruct (gexec (guard_of (x_ek x) (op_dest (x_op x)) exit) s1); try reflexivity. apply IH.
  Qed.

  Lemma grun_S : forall f n l s,
    grun f (S n) l s = match gfind f l with
                       | None => GStuck val world (s_w _ _ s)
                       | Some b => finish (gexec (g_ops b) s) (g_term b) (grun f n)
                       end.
  Proof.
    intros. simpl. destruct (gfind f l) as [b|]; [|reflexivity].
    destruct (gexec (g_ops b) s); simpl; try reflexivity.
  Qed.

  Lemma gfind_expand : forall df f tail l,
    gfind (expand_blocks df f ++ tail) l =
    match xfind f l with Some b => Some (expand_block df l b) | None => gfind tail l end.
  Proof.
    intros df. induction f as [|[l' b] f IH]; intros tail l; simpl; [reflexivity|].
    destruct (Pos.eqb l l') eqn:E; [apply peqb_eq in E; subst; reflexivity|apply IH].
  Qed.

  Lemma finish_ext : forall r t (k1 k2 : positive -> gst val world -> goutcome val world),
    (forall l s, k1 l s = k2 l s) -> finish r t k1 = finish r t k2.
  Proof.
    intros r t k1 k2 H. destruct r; simpl; auto. destruct t; auto.
    destruct (gtest val truthy iserr k (oeval val lit_val (s_env val world s) v)); auto.
  Qed.

  Lemma xrun_expand : forall df f n l s, xrun f df n l s = grun (expand df f) n l s.
  Proof.
    intros df f. induction n as [|n IH]; intros l s; [reflexivity|].
    rewrite grun_S. unfold expand. rewrite gfind_expand. simpl xrun.
    destruct (xfind f l) as [b|].
    - unfold expand_block. simpl g_ops. simpl g_term. rewrite expand_ops_exec.
      apply finish_ext. exact IH.
    - destruct df as [[dl db]|]; simpl; [|reflexivity].
      destruct (Pos.eqb l dl); [|reflexivity]. apply finish_ext. exact IH.
  Qed.

  Theorem validate_exceptions_run : forall df errsyms before after,
    validate_exceptions df errsyms before after = true ->
    forall n l s, xrun before df n l s = grun after n l s.
  Proof.
    intros df errsyms before after H n l s. unfold validate_exceptions in H.
    repeat (apply andb_true_iff in H; destruct H as [H ?]). apply gfunc_eqb_eq in H. subst after. apply xrun_expand.
  Qed.
End XProofs.
