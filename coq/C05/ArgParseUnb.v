(* C05 (c), UNBOUNDED part: for EVERY signature and EVERY purely positional call (any number of arguments, no keywords)
   the C parser accepts exactly the calls CPython's binding rule accepts.  Induction over the parameter list; no bound. *)
From Coq Require Import List Arith Bool PeanoNat Lia.
From C12 Require Import Bind.
From C05 Require Import ArgParse.
Import ListNotations.

(* ------------------------------------------------------------------ the C loop without keywords *)
Section Loop0.
  Variable P : parser.
  Variable nargs : nat.

  Definition idx_ok (x : nat) : bool :=
    ((x <? nargs) && (x <? p_max P)) || negb ((x <? p_min P) || (p_rk_start P <=? x)).

  Lemma loop0_char : forall names i acc,
    (p_has_req P = false -> i + length names <= p_rk_start P) ->
    match loop P nargs [] names i 0 acc with
    | None => forallb idx_ok (seq i (length names)) = false
    | Some _ => forallb idx_ok (seq i (length names)) = true
    end.
  Proof.
    induction names as [|n rest IH]; intros i acc Hrk; [reflexivity|].
    simpl loop. simpl length. simpl seq. simpl forallb. unfold idx_ok at 1 3.
    destruct ((i <? nargs) && (i <? p_max P)) eqn:E1.
    - simpl. apply IH. intro H. specialize (Hrk H). simpl in Hrk. lia.
    - simpl. destruct ((i <? p_min P) || (p_rk_start P <=? i)) eqn:E2; [reflexivity|]. simpl.
      destruct (negb (p_has_req P) && negb (p_args P) && negb (p_kwargs P)) eqn:E3.
      + (* early return: every later index is fine as well *)
        apply forallb_forall. intros x Hx. apply in_seq in Hx. unfold idx_ok.
        apply orb_false_iff in E2. destruct E2 as [E2a E2b]. apply Nat.ltb_ge in E2a. apply Nat.leb_gt in E2b.
        apply andb_true_iff in E3. destruct E3 as [E3 _]. apply andb_true_iff in E3. destruct E3 as [E3 _].
        apply negb_true_iff in E3. specialize (Hrk E3). simpl in Hrk.
        assert (A : (x <? p_min P) = false) by (apply Nat.ltb_ge; lia).
        assert (B : (p_rk_start P <=? x) = false) by (apply Nat.leb_gt; lia).
        rewrite A, B. simpl. apply orb_true_r.
      + apply IH. intro H. specialize (Hrk H). simpl in Hrk. lia.
  Qed.
End Loop0.

(* acceptance of the index test over 0 .. len-1 for the parser make_parser builds: a required, b optional positional,
   c optional and d required keyword-only parameters *)
Lemma idx_all : forall a b c d star star2 kl nargs,
  forallb (idx_ok (mkParser (a + b + c + d) 0 a (a + b) (a + b + c) (negb (Nat.eqb d 0)) star star2 kl) nargs)
          (seq 0 (a + b + c + d)) = (a <=? nargs) && Nat.eqb d 0.
Proof.
  intros. destruct ((a <=? nargs) && Nat.eqb d 0) eqn:E.
  - apply andb_true_iff in E. destruct E as [E1 E2]. apply Nat.leb_le in E1. apply Nat.eqb_eq in E2. subst d.
    apply forallb_forall. intros x Hx. apply in_seq in Hx. unfold idx_ok. simpl.
    destruct (x <? a) eqn:Xa.
    + apply Nat.ltb_lt in Xa. assert (A : (x <? nargs) = true) by (apply Nat.ltb_lt; lia).
      assert (B : (x <? a + b) = true) by (apply Nat.ltb_lt; lia). rewrite A, B. reflexivity.
    + assert (B : (a + b + c <=? x) = false) by (apply Nat.leb_gt; lia). rewrite B. simpl. apply orb_true_r.
  - apply andb_false_iff in E. destruct (forallb _ _) eqn:F; [|reflexivity]. exfalso. rewrite forallb_forall in F.
    destruct E as [E|E].
    + apply Nat.leb_gt in E. assert (Hin : In (a - 1) (seq 0 (a + b + c + d))) by (apply in_seq; lia).
      specialize (F _ Hin). unfold idx_ok in F. simpl in F.
      assert (A : (a - 1 <? nargs) = false) by (apply Nat.ltb_ge; lia).
      assert (B : (a - 1 <? a) = true) by (apply Nat.ltb_lt; lia). rewrite A, B in F. simpl in F. discriminate.
    + apply Nat.eqb_neq in E. assert (Hin : In (a + b + c) (seq 0 (a + b + c + d))) by (apply in_seq; lia).
      specialize (F _ Hin). unfold idx_ok in F. simpl in F.
      assert (A : (a + b + c <? a + b) = false) by (apply Nat.ltb_ge; lia).
      assert (B : (a + b + c <=? a + b + c) = true) by (apply Nat.leb_le; lia).
      rewrite A, B in F. rewrite andb_false_r, orb_true_r in F. simpl in F. discriminate.
Qed.

Definition accepted (r : option bound) : bool := match r with Some _ => true | None => false end.

Ltac bconv := repeat match goal with
  | H : (_ <? _) = true |- _ => apply Nat.ltb_lt in H
  | H : (_ <? _) = false |- _ => apply Nat.ltb_ge in H
  | H : (_ <=? _) = true |- _ => apply Nat.leb_le in H
  | H : (_ <=? _) = false |- _ => apply Nat.leb_gt in H
  | H : (_ =? _) = true |- _ => apply Nat.eqb_eq in H
  | H : (_ =? _) = false |- _ => apply Nat.eqb_neq in H
  end.
Ltac bcases := repeat match goal with
  | |- context [?x <? ?y] => let E := fresh "E" in destruct (x <? y) eqn:E
  | |- context [?x <=? ?y] => let E := fresh "E" in destruct (x <=? y) eqn:E
  | |- context [?x =? ?y] => let E := fresh "E" in destruct (x =? y) eqn:E
  end.

Lemma loop0_nk : forall P nargs names i acc sl nk e, loop P nargs [] names i 0 acc = Some (sl, nk, e) -> nk = 0.
Proof.
  intros P nargs. induction names as [|n rest IH]; intros i acc sl nk e H; simpl in H.
  - inversion H. reflexivity.
  - destruct ((i <? nargs) && (i <? p_max P)); [eapply IH; eauto|]. simpl in H.
    destruct ((i <? p_min P) || (p_rk_start P <=? i)); [discriminate|].
    destruct (negb (p_has_req P) && negb (p_args P) && negb (p_kwargs P)); [inversion H; reflexivity|eapply IH; eauto].
Qed.

(* the C parser on a positional call: accepted iff not too many (unless *args), all required positional given, and no
   required keyword-only parameter -- for EVERY parameter list *)
Lemma parse_general_positional : forall ps n,
  accepted (parse_general (make_parser ps) n []) =
  ((n <=? length (grp ARG_POS ps) + length (grp ARG_OPT ps)) || has ARG_STAR ps)
  && (length (grp ARG_POS ps) <=? n) && Nat.eqb (length (grp ARG_NAMED ps)) 0.
Proof.
  intros ps n. unfold parse_general, make_parser.
  set (a := length (grp ARG_POS ps)). set (b := length (grp ARG_OPT ps)).
  set (c := length (grp ARG_NAMED_OPT ps)). set (d := length (grp ARG_NAMED ps)).
  set (kl := map pname (reordered ps)).
  assert (Hlen : length kl = a + b + c + d).
  { unfold kl, reordered. rewrite map_length. rewrite !app_length. unfold a, b, c, d. lia. }
  cbn [p_len p_pos p_min p_max p_rk_start p_has_req p_args p_kwargs p_kwlist length].
  rewrite Nat.add_0_r.
  set (P := mkParser (a + b + c + d) 0 a (a + b) (a + b + c) (negb (Nat.eqb d 0)) (has ARG_STAR ps) (has ARG_STAR2 ps) kl).
  pose proof (loop0_char P n kl 0 []) as HL.
  rewrite Hlen in HL. pose proof (idx_all a b c d (has ARG_STAR ps) (has ARG_STAR2 ps) kl n) as HI. fold P in HI. rewrite HI in HL. clear HI.
  assert (Hrk : p_has_req P = false -> 0 + (a + b + c + d) <= p_rk_start P).
  { simpl. intro H. apply negb_false_iff in H. apply Nat.eqb_eq in H. lia. }
  specialize (HL Hrk). clear Hrk.
  destruct (loop P n [] kl 0 0 []) as [[[sl nk] early]|] eqn:EL.
  - apply loop0_nk in EL. subst nk. rewrite (Nat.ltb_irrefl 0).
    apply andb_true_iff in HL. destruct HL as [H1 H2]. rewrite H1, H2.
    destruct (has ARG_STAR ps); destruct (has ARG_STAR2 ps); destruct early; cbn [negb andb orb];
      bcases; cbn [negb andb orb accepted]; try reflexivity; try (exfalso; bconv; lia).
  - destruct (has ARG_STAR ps); destruct (has ARG_STAR2 ps); cbn [negb andb orb];
      bcases; cbn [negb andb orb accepted] in *; try reflexivity; try discriminate.
Qed.

(* ------------------------------------------------------------------ CPython's rule on a positional call *)
Lemma npar_groups : forall ps, length (filter is_pos_param ps) = length (grp ARG_POS ps) + length (grp ARG_OPT ps).
Proof.
  induction ps as [|p ps IH]; [reflexivity|]. unfold grp in *. simpl. unfold is_pos_param at 1.
  destruct (pk p); simpl; lia.
Qed.

Definition has_slot (sl : list (nat * option src)) (n : nat) : bool :=
  match slot_of sl n with Some _ => true | None => false end.

Fixpoint req_ok (ps : list param) (i n : nat) : bool :=
  match ps with
  | [] => true
  | p :: r =>
    if is_pos_param p then (negb (is_required (pk p)) || (i <? n)) && req_ok r (S i) n
    else if is_kwonly p then negb (is_required (pk p)) && req_ok r i n
    else req_ok r i n
  end.

Lemma forallb_ext_in : forall A (f g : A -> bool) l, (forall x, In x l -> f x = g x) -> forallb f l = forallb g l.
Proof.
  induction l as [|x l IH]; intro H; [reflexivity|]. simpl. rewrite (H x (or_introl eq_refl)). f_equal. apply IH.
  intros y Hy. apply H. right. exact Hy.
Qed.

Lemma slot_of_head : forall k v sl, slot_of ((k, v) :: sl) k = v.
Proof. intros. unfold slot_of. simpl. rewrite Nat.eqb_refl. reflexivity. Qed.
Lemma slot_of_other : forall k v sl m, m <> k -> slot_of ((k, v) :: sl) m = slot_of sl m.
Proof. intros. unfold slot_of. simpl. destruct (Nat.eqb k m) eqn:E; [apply Nat.eqb_eq in E; congruence|reflexivity]. Qed.

Lemma required_slots : forall n ps i, NoDup (map pname ps) ->
  forallb (fun p => negb (is_required (pk p)) || has_slot (assign_pos ps i n) (pname p)) ps = req_ok ps i n.
Proof.
  intros n. induction ps as [|p r IH]; intros i Hnd; [reflexivity|].
  simpl map in Hnd. inversion Hnd as [|x l Hnot Hnd']. subst.
  assert (Hne : forall q, In q r -> pname q <> pname p).
  { intros q Hq E. apply Hnot. rewrite <- E. apply in_map. exact Hq. }
  simpl forallb. simpl assign_pos. simpl req_ok.
  destruct (is_pos_param p) eqn:Ep.
  - unfold has_slot at 1. rewrite slot_of_head.
    replace (match (if i <? n then Some (SPos i) else None) with Some _ => true | None => false end) with (i <? n)
      by (destruct (i <? n); reflexivity).
    f_equal. rewrite <- (IH (S i) Hnd'). apply forallb_ext_in. intros q Hq. unfold has_slot.
    rewrite slot_of_other by (apply Hne; exact Hq). reflexivity.
  - destruct (is_kwonly p) eqn:Ek.
    + unfold has_slot at 1. rewrite slot_of_head. rewrite orb_false_r. f_equal.
      rewrite <- (IH i Hnd'). apply forallb_ext_in. intros q Hq. unfold has_slot.
      rewrite slot_of_other by (apply Hne; exact Hq). reflexivity.
    + assert (Hr : is_required (pk p) = false).
      { unfold is_pos_param, is_kwonly in *. destruct (pk p); simpl in *; try discriminate; reflexivity. }
      rewrite Hr. simpl. apply IH. exact Hnd'.
Qed.

Definition not_named (p : param) : bool := negb (kind_eqb (pk p) ARG_NAMED).

Lemma req_ok_nopos : forall n R i, Forall (fun p => kind_eqb (pk p) ARG_POS = false) R ->
  req_ok R i n = forallb not_named R.
Proof.
  intros n. induction R as [|p R IH]; intros i H; [reflexivity|]. inversion H. subst. simpl.
  unfold is_pos_param, is_kwonly, not_named. destruct (pk p) eqn:K; simpl in *; try discriminate; rewrite ?IH; auto.
Qed.

Lemma req_ok_split : forall n P1 R i, Forall (fun p => kind_eqb (pk p) ARG_POS = true) P1 ->
  Forall (fun p => kind_eqb (pk p) ARG_POS = false) R ->
  req_ok (P1 ++ R) i n = (Nat.eqb (length P1) 0 || (i + length P1 <=? n)) && forallb not_named R.
Proof.
  intros n. induction P1 as [|p P1 IH]; intros R i H1 H2.
  - simpl. apply req_ok_nopos. exact H2.
  - inversion H1. subst. simpl app. simpl req_ok. unfold is_pos_param. destruct (pk p) eqn:K; simpl in H3; try discriminate.
    simpl. rewrite (IH R (S i) H4 H2). simpl length.
    destruct (forallb not_named R); rewrite ?andb_true_r, ?andb_false_r; [|reflexivity].
    change (Nat.eqb (S (length P1)) 0) with false. cbn [orb andb].
    destruct (Nat.eqb (length P1) 0) eqn:E0; cbn [orb andb]; bcases; cbn [orb andb]; try reflexivity; exfalso; bconv; lia.
Qed.

Lemma named_count : forall ps, Nat.eqb (length (grp ARG_NAMED ps)) 0 = forallb not_named ps.
Proof.
  induction ps as [|p ps IH]; [reflexivity|]. unfold grp, not_named in *. simpl. destruct (kind_eqb (pk p) ARG_NAMED); simpl; auto.
Qed.

Lemma grp_pos_split : forall P1 R, Forall (fun p => kind_eqb (pk p) ARG_POS = true) P1 ->
  Forall (fun p => kind_eqb (pk p) ARG_POS = false) R -> length (grp ARG_POS (P1 ++ R)) = length P1.
Proof.
  induction P1 as [|p P1 IH]; intros R H1 H2.
  - simpl. unfold grp. induction R as [|q R IHR]; [reflexivity|]. inversion H2. subst. simpl. rewrite H3. apply IHR. exact H4.
  - inversion H1. subst. unfold grp in *. simpl. rewrite H3. simpl. f_equal. apply IH; assumption.
Qed.

Lemma py_bind_positional : forall ps n,
  accepted (py_bind ps (mkCall n [])) =
  negb ((length (filter is_pos_param ps) <? n) && negb (has ARG_STAR ps))
  && forallb (fun p => negb (is_required (pk p)) || has_slot (assign_pos ps 0 n) (pname p)) ps.
Proof.
  intros ps n. unfold py_bind. simpl npos. simpl kws. simpl py_kws.
  destruct ((length (filter is_pos_param ps) <? n) && negb (has ARG_STAR ps)); [reflexivity|]. simpl.
  unfold has_slot. destruct (forallb _ ps); reflexivity.
Qed.

(* MAIN (unbounded): any parameter list whose required positional parameters come first (Python syntax), names distinct *)
Theorem positional_accept_unbounded : forall P1 R n,
  Forall (fun p => kind_eqb (pk p) ARG_POS = true) P1 ->
  Forall (fun p => kind_eqb (pk p) ARG_POS = false) R ->
  NoDup (map pname (P1 ++ R)) ->
  accepted (parse_general (make_parser (P1 ++ R)) n []) = accepted (py_bind (P1 ++ R) (mkCall n [])).
Proof.
  intros P1 R n H1 H2 Hnd. rewrite parse_general_positional, py_bind_positional.
  rewrite (required_slots n (P1 ++ R) 0 Hnd). rewrite (req_ok_split n P1 R 0 H1 H2).
  rewrite npar_groups. rewrite (grp_pos_split P1 R H1 H2). rewrite named_count.
  rewrite forallb_app. assert (HP : forallb not_named P1 = true).
  { apply forallb_forall. intros p Hp. rewrite Forall_forall in H1. specialize (H1 p Hp). unfold not_named.
    destruct (pk p); simpl in *; try discriminate; reflexivity. }
  rewrite HP. simpl.
  destruct (forallb not_named R); rewrite ?andb_true_r, ?andb_false_r; [|reflexivity].
  destruct (has ARG_STAR (P1 ++ R)); simpl; rewrite ?orb_true_r, ?orb_false_r, ?andb_true_r, ?andb_false_r; simpl.
  - destruct (length P1); simpl; bcases; try reflexivity; exfalso; bconv; lia.
  - destruct (length P1); simpl; bcases; simpl; try reflexivity; exfalso; bconv; lia.
Qed.

(* the wrapper's fast paths (NoArgs / OneArg / Simple) accept only what the general parser accepts *)
Lemma wrapper_positional_accept : forall ps n,
  accepted (parse_wrapper ps (mkCall n [])) = accepted (parse_general (make_parser ps) n []).
Proof.
  intros ps n. unfold parse_wrapper. cbn [npos kws null andb].
  destruct (null ps) eqn:Np.
  - destruct ps; [|discriminate]. destruct (Nat.eqb n 0) eqn:E; [|reflexivity]. apply Nat.eqb_eq in E. subst. reflexivity.
  - destruct (Nat.eqb (length ps) 1 && Nat.eqb (length (grp ARG_POS ps)) 1) eqn:One.
    + destruct (Nat.eqb n 1) eqn:E; [|reflexivity]. apply Nat.eqb_eq in E. subst n.
      apply andb_true_iff in One. destruct One as [O1 O2]. destruct ps as [|p [|q r]]; try discriminate.
      rewrite parse_general_positional. unfold grp, has, grp in *. simpl in *. destruct (pk p); simpl in *; try discriminate; reflexivity.
    + destruct (Nat.eqb (length (grp ARG_STAR ps) + length (grp ARG_STAR2 ps)) 0 && Nat.eqb (p_len (make_parser ps)) (p_max (make_parser ps))) eqn:Si; [|reflexivity].
      destruct ((p_min (make_parser ps) <=? n) && (n <=? p_max (make_parser ps))) eqn:Rg; [|reflexivity].
      rewrite parse_general_positional. simpl in *. apply andb_true_iff in Si. destruct Si as [_ S2].
      apply andb_true_iff in Rg. destruct Rg as [R1 R2]. bconv.
      assert (D : length (grp ARG_NAMED ps) = 0) by lia. rewrite D.
      assert (A : (n <=? length (grp ARG_POS ps) + length (grp ARG_OPT ps)) = true) by (apply Nat.leb_le; lia).
      assert (B : (length (grp ARG_POS ps) <=? n) = true) by (apply Nat.leb_le; lia). rewrite A, B. reflexivity.
Qed.

Theorem positional_accept_wrapper_unbounded : forall P1 R n,
  Forall (fun p => kind_eqb (pk p) ARG_POS = true) P1 ->
  Forall (fun p => kind_eqb (pk p) ARG_POS = false) R ->
  NoDup (map pname (P1 ++ R)) ->
  accepted (parse_wrapper (P1 ++ R) (mkCall n [])) = accepted (py_bind (P1 ++ R) (mkCall n [])).
Proof. intros. rewrite wrapper_positional_accept. apply positional_accept_unbounded; assumption. Qed.

Lemma positional_accept_both : forall P1 R n,
  Forall (fun p => kind_eqb (pk p) ARG_POS = true) P1 ->
  Forall (fun p => kind_eqb (pk p) ARG_POS = false) R ->
  NoDup (map pname (P1 ++ R)) ->
  accepted (parse_wrapper (P1 ++ R) (mkCall n [])) = accepted (py_bind (P1 ++ R) (mkCall n []))
  /\ accepted (parse_general (make_parser (P1 ++ R)) n []) = accepted (py_bind (P1 ++ R) (mkCall n [])).
Proof.
  intros P1 R n H1 H2 H3. split; [apply positional_accept_wrapper_unbounded|apply positional_accept_unbounded]; assumption.
Qed.
