(* C05 (b2): soundness of the uninit validator. *)
From Coq Require Import List PArith Arith Bool Lia FunctionalExtensionality.
From C05 Require Import PassValidators PassProofs Guarded Uninit.
Import ListNotations.

Arguments pmem x l : simpl never.

Lemma pmem_premove : forall x d l, pmem x (premove d l) = true -> pmem x l = true /\ x <> d.
Proof.
  intros x d l H. unfold premove in H. apply pmem_filter in H. destruct H as [H1 H2]. split; [exact H1|].
  intro. subst. rewrite Pos.eqb_refl in H2. discriminate.
Qed.

Lemma pmem_head : forall x l, pmem x (x :: l) = true.
Proof. intros. rewrite pmem_cons. rewrite Pos.eqb_refl. reflexivity. Qed.

Lemma pmem_cons_inv : forall x y l, pmem x (y :: l) = true -> x = y \/ pmem x l = true.
Proof.
  intros x y l H. rewrite pmem_cons in H. apply orb_true_iff in H. destruct H as [H|H]; [left; apply peqb_eq; exact H|right; exact H].
Qed.

Lemma slot_eqb_eq : forall a b, slot_eqb a b = true -> a = b.
Proof.
  intros [a1 a2] [b1 b2] H. unfold slot_eqb in H. simpl in H. apply andb_true_iff in H. destruct H as [H1 H2].
  apply peqb_eq in H1. apply Nat.eqb_eq in H2. subst. reflexivity.
Qed.

Section UProofs.
  Variables val world : Type.
  Variable lit_val : positive -> val.
  Variable op_sem : positive -> list val -> world -> val * world.
  Variable truthy : positive -> val -> bool.
  Variable br_eff : positive -> bool -> world -> world.
  Variable tracked : positive -> bool.
  Variable iserr : positive -> bool.
  Variable h : uhint.

  Hypothesis Htr : forall x, tracked x = pmem x (u_tracked h).
  Hypothesis Hie : forall k, iserr k = pmem k (u_iserrk h).
  (* contract of the inserted IS_ERROR guards: a DEFINED value of a type with a spare error value is not the
     error value, and a branch without traceback entry has no effect *)
  Hypothesis Hdef_val : forall k x, pmem k (u_defk h) = true -> truthy k x = false.
  Hypothesis Hdef_eff : forall k c w, pmem k (u_defk h) = true -> br_eff k c w = w.

  Notation gst := (gst val world).
  Notation mkSt := (mkSt val world).
  Notation exec_plain := (exec_plain val world lit_val op_sem tracked).
  Notation gexec_op := (gexec_op val world lit_val op_sem truthy br_eff tracked iserr).
  Notation gexec := (gexec val world lit_val op_sem truthy br_eff tracked iserr).
  Notation grun := (grun val world lit_val op_sem truthy br_eff tracked iserr).
  Notation gtest := (gtest val truthy iserr).
  Notation oeval := (oeval val lit_val).
  Notation oset := (oset val).
  Notation GCont := (GCont val world).
  Notation GExit := (GExit val world).
  Notation GUndefRead := (GUndefRead val world).

  Definition BmInv (e : oenv val) (bm : bmaps) : Prop :=
    forall r B i, passoc r (u_bmt h) = Some (B, i) -> (bm B i = true <-> e r <> None).

  Definition Inv (D U : list positive) (e : oenv val) (bm : bmaps) : Prop :=
    (forall x, pmem x D = true -> e x <> None) /\
    (forall x, pmem x U = true -> e x = None /\ tracked x = false) /\
    BmInv e bm.

  (* the terminator of BEFORE reads an undefined variable in environment e *)
  Definition term_ur (t : term) (e : oenv val) : Prop :=
    match t with
    | Branch k _ v _ _ => gtest k (oeval e v) = None
    | Return v => oeval e v = None
    | _ => False
    end.

  Lemma oset_same : forall e d v, oset e d v d = v.
  Proof. intros. unfold Guarded.oset. rewrite Pos.eqb_refl. reflexivity. Qed.
  Lemma oset_other : forall e d v x, x <> d -> oset e d v x = e x.
  Proof. intros. unfold Guarded.oset. destruct (Pos.eqb x d) eqn:E; [apply peqb_eq in E; contradiction|reflexivity]. Qed.

  Hypothesis Hbmt : bmt_ok (u_bmt h) = true.

  Lemma slots_distinct : forall r r' s s', passoc r (u_bmt h) = Some s -> passoc r' (u_bmt h) = Some s' -> r <> r' -> s <> s'.
  Proof.
    intros r r' s s' H1 H2 Hn Heq. subst s'. apply passoc_In in H1. apply passoc_In in H2.
    unfold bmt_ok in Hbmt. rewrite forallb_forall in Hbmt. specialize (Hbmt _ H1). rewrite forallb_forall in Hbmt.
    specialize (Hbmt _ H2). simpl in Hbmt. apply orb_true_iff in Hbmt. destruct Hbmt as [X|X].
    - apply peqb_eq in X. contradiction.
    - unfold slot_eqb in X. rewrite Pos.eqb_refl, Nat.eqb_refl in X. discriminate.
  Qed.

  (* the environment changes at a register that is not bitmap-tracked *)
  Lemma bminv_other : forall e bm d v, BmInv e bm -> passoc d (u_bmt h) = None -> BmInv (oset e d v) bm.
  Proof.
    intros e bm d v HB Hd r B i Hr. rewrite oset_other; [apply HB; exact Hr|]. intro. subst. rewrite Hd in Hr. discriminate.
  Qed.

  Lemma bminv_set : forall e bm d v B i, BmInv e bm -> passoc d (u_bmt h) = Some (B, i) -> v <> None ->
    BmInv (oset e d v) (bmset bm B (fun j => Nat.eqb j i || bm B j)).
  Proof.
    intros e bm d v B i HB Hd Hv r B' i' Hr. destruct (Pos.eqb r d) eqn:E.
    - apply peqb_eq in E. subst r. rewrite Hd in Hr. inversion Hr. subst B' i'. rewrite oset_same.
      unfold bmset. rewrite Pos.eqb_refl, Nat.eqb_refl. simpl. split; intro; [exact Hv|reflexivity].
    - assert (Hn : r <> d) by (intro; subst; rewrite Pos.eqb_refl in E; discriminate).
      rewrite oset_other by exact Hn. pose proof (slots_distinct r d _ _ Hr Hd Hn) as Hs.
      unfold bmset. destruct (Pos.eqb B' B) eqn:EB.
      + apply peqb_eq in EB. subst B'. destruct (Nat.eqb i' i) eqn:Ei.
        * apply Nat.eqb_eq in Ei. subst. contradiction Hs. reflexivity.
        * simpl. apply HB. exact Hr.
      + apply HB. exact Hr.
  Qed.

  Lemma bminv_clr : forall e bm d B i, BmInv e bm -> passoc d (u_bmt h) = Some (B, i) ->
    BmInv (oset e d None) (bmset bm B (fun j => negb (Nat.eqb j i) && bm B j)).
  Proof.
    intros e bm d B i HB Hd r B' i' Hr. destruct (Pos.eqb r d) eqn:E.
    - apply peqb_eq in E. subst r. rewrite Hd in Hr. inversion Hr. subst B' i'. rewrite oset_same.
      unfold bmset. rewrite Pos.eqb_refl, Nat.eqb_refl. simpl. split; intro X; [discriminate|contradiction X; reflexivity].
    - assert (Hn : r <> d) by (intro; subst; rewrite Pos.eqb_refl in E; discriminate).
      rewrite oset_other by exact Hn. pose proof (slots_distinct r d _ _ Hr Hd Hn) as Hs.
      unfold bmset. destruct (Pos.eqb B' B) eqn:EB.
      + apply peqb_eq in EB. subst B'. destruct (Nat.eqb i' i) eqn:Ei.
        * apply Nat.eqb_eq in Ei. subst. contradiction Hs. reflexivity.
        * simpl. apply HB. exact Hr.
      + apply HB. exact Hr.
  Qed.

  Lemma inv_define : forall D U e bm d v, Inv D U e bm -> v <> None ->
    forall bm', BmInv (oset e d v) bm' -> Inv (d :: D) (premove d U) (oset e d v) bm'.
  Proof.
    intros D U e bm d v [I1 [I2 I3]] Hv bm' HB. split; [|split; [|exact HB]].
    - intros x Hx. apply pmem_cons_inv in Hx. destruct (Pos.eqb x d) eqn:E.
      + apply peqb_eq in E. subst. rewrite oset_same. exact Hv.
      + assert (x <> d) by (intro; subst; rewrite Pos.eqb_refl in E; discriminate). rewrite oset_other by assumption.
        destruct Hx as [Hx|Hx]; [contradiction|apply I1; exact Hx].
    - intros x Hx. apply pmem_premove in Hx. destruct Hx as [Hx Hn]. rewrite oset_other by exact Hn. apply I2. exact Hx.
  Qed.

  Lemma inv_undefine : forall D U e bm d, Inv D U e bm ->
    forall bm', BmInv (oset e d None) bm' -> Inv (premove d D) (premove d U) (oset e d None) bm'.
  Proof.
    intros D U e bm d [I1 [I2 I3]] bm' HB. split; [|split; [|exact HB]].
    - intros x Hx. apply pmem_premove in Hx. destruct Hx as [Hx Hn]. rewrite oset_other by exact Hn. apply I1. exact Hx.
    - intros x Hx. apply pmem_premove in Hx. destruct Hx as [Hx Hn]. rewrite oset_other by exact Hn. apply I2. exact Hx.
  Qed.

  Lemma all_some_defined : forall D U e bm args, Inv D U e bm -> forallb (arg_defined D) args = true ->
    exists vs, all_some val (map (oeval e) args) = Some vs.
  Proof.
    intros D U e bm args [I1 _]. induction args as [|a args IH]; simpl; intro H; [eauto|].
    apply andb_true_iff in H. destruct H as [H1 H2]. destruct (IH H2) as [vs Hvs]. rewrite Hvs.
    destruct a as [x|k]; simpl in *.
    - destruct (e x) eqn:E; [eauto|]. exfalso. apply (I1 x H1). exact E.
    - eauto.
  Qed.

  Lemma all_some_none : forall e args r, existsb (fun a => operand_eqb a (OVar r)) args = true -> e r = None ->
    all_some val (map (oeval e) args) = None.
  Proof.
    intros e args r. induction args as [|a args IH]; simpl; intros H Hr; [discriminate|].
    apply orb_true_iff in H. destruct H as [H|H].
    - apply operand_eqb_eq in H. subst a. simpl. rewrite Hr. reflexivity.
    - destruct (oeval e a); [|reflexivity]. rewrite (IH H Hr). reflexivity.
  Qed.

  Lemma reads_undef_sound : forall o r e bm w, op_reads_undef h o r = true -> e r = None ->
    exec_plain o (mkSt e bm w) = GUndefRead w.
  Proof.
    intros o r e bm w H Hr. destruct o as [d [x|k]|d f args]; simpl in H; try discriminate.
    - apply andb_true_iff in H. destruct H as [H1 H2]. apply peqb_eq in H1. subst x. simpl. rewrite Hr. rewrite Htr, H2. reflexivity.
    - simpl. rewrite (all_some_none e args r H Hr). reflexivity.
  Qed.

  Lemma term_reads_undef_sound : forall t r e, term_reads_undef h t r = true -> e r = None -> term_ur t e.
  Proof.
    intros t r e H Hr. destruct t as [|k neg [x|] lt lf|[x|]|]; simpl in H; try discriminate.
    - apply andb_true_iff in H. destruct H as [H1 H2]. apply peqb_eq in H1. subst x. simpl. rewrite Hr. unfold Guarded.gtest.
      rewrite Hie. destruct (pmem k (u_iserrk h)); [discriminate|reflexivity].
    - apply peqb_eq in H. subst x. simpl. exact Hr.
  Qed.

  Lemma gexec_cons : forall g r s,
    gexec (g :: r) s = match gexec_op g s with Guarded.GCont _ _ s' => gexec r s' | x => x end.
  Proof. reflexivity. Qed.

  Variable after : gfunc.
  Section Walk.
  Variable bterm : term.

  Lemma uwalk_sound_n : forall n aops, length aops <= n -> forall bops D U Dout Uout,
    uwalk h after bterm D U bops aops = Some (Dout, Uout) ->
    forall e bmb bma w, Inv D U e bma ->
    match gexec bops (mkSt e bmb w) with
    | Guarded.GCont _ _ sb =>
      (exists bma', gexec aops (mkSt e bma w) = GCont (mkSt (s_env _ _ sb) bma' (s_w _ _ sb))
                    /\ Inv Dout Uout (s_env _ _ sb) bma')
      \/ (exists ex sa, gexec aops (mkSt e bma w) = GExit ex sa /\ exit_ok h after ex = true
                        /\ s_w _ _ sa = s_w _ _ sb /\ term_ur bterm (s_env _ _ sb))
    | Guarded.GUndefRead _ _ w' =>
      exists ex sa, gexec aops (mkSt e bma w) = GExit ex sa /\ exit_ok h after ex = true /\ s_w _ _ sa = w'
    | Guarded.GExit _ _ _ _ => False
    end.
  Proof.
    induction n as [|n IHn]; intros aops Hlen bops D U Dout Uout Hw e bmb bma w HI;
      (destruct aops as [|g ar]; [simpl in Hw; destruct bops; [|discriminate]; inversion Hw; subst; simpl; left; exists bma; auto|]);
      [simpl in Hlen; lia|].
    assert (IH : forall ar0, length ar0 <= length ar -> forall bops D U Dout Uout,
               uwalk h after bterm D U bops ar0 = Some (Dout, Uout) ->
               forall e bmb bma w, Inv D U e bma ->
               match gexec bops (mkSt e bmb w) with
               | Guarded.GCont _ _ sb =>
                 (exists bma', gexec ar0 (mkSt e bma w) = GCont (mkSt (s_env _ _ sb) bma' (s_w _ _ sb))
                               /\ Inv Dout Uout (s_env _ _ sb) bma')
                 \/ (exists ex sa, gexec ar0 (mkSt e bma w) = GExit ex sa /\ exit_ok h after ex = true
                                   /\ s_w _ _ sa = s_w _ _ sb /\ term_ur bterm (s_env _ _ sb))
               | Guarded.GUndefRead _ _ w' =>
                 exists ex sa, gexec ar0 (mkSt e bma w) = GExit ex sa /\ exit_ok h after ex = true /\ s_w _ _ sa = w'
               | Guarded.GExit _ _ _ _ => False
               end).
    { intros ar0 Hl. apply IHn. simpl in Hlen. lia. }
    clear IHn.
    destruct g as [o'|e'|k neg v ex| | | | |B i ex]; simpl in Hw; try discriminate.
      + (* an original op *)
        destruct bops as [|[o|?|?|?|?|?|?|?] br]; try discriminate.
        destruct (op_eqb o o' && reads_defined h D U o) eqn:C; [|discriminate].
        apply andb_true_iff in C. destruct C as [C1 C2]. apply op_eqb_eq in C1. subst o'.
        destruct o as [d s|d f args].
        * (* Assign *)
          assert (Hex : exists ov, exec_plain (Assign d s) (mkSt e bmb w) = GCont (mkSt (oset e d ov) bmb w)
                                   /\ exec_plain (Assign d s) (mkSt e bma w) = GCont (mkSt (oset e d ov) bma w)
                                   /\ (undef_src U s = true -> ov = None) /\ (undef_src U s = false -> ov <> None)).
          { destruct s as [x|k]; simpl.
            - simpl in C2. destruct HI as [I1 [I2 I3]]. destruct (pmem x U) eqn:EU.
              + destruct (I2 x EU) as [Hn Ht]. rewrite Hn, Ht. exists None. repeat split; auto. intro; discriminate.
              + rewrite orb_false_r in C2. destruct (e x) as [v0|] eqn:Ex; [|exfalso; apply (I1 x C2); exact Ex].
                exists (Some v0). repeat split; auto; [intro; discriminate|intros _; discriminate].
            - exists (Some (lit_val k)). repeat split; auto; [intro; discriminate|intros _; discriminate]. }
          destruct Hex as [ov [Eb [Ea [Hu1 Hu2]]]].
          destruct (passoc d (u_bmt h)) as [[B i]|] eqn:Pd.
          -- destruct ar as [|[| | | | |B' i'|B' i'|] ar']; try discriminate.
             ++ (* set *)
                destruct (negb (undef_src U s) && slot_eqb (B, i) (B', i')) eqn:G; [|discriminate].
                apply andb_true_iff in G. destruct G as [G1 G2]. apply slot_eqb_eq in G2. inversion G2. subst B' i'.
                destruct (undef_src U s) eqn:Eu; [discriminate|].
                specialize (IH ar' ltac:(simpl; lia) br (d :: D) (premove d U) Dout Uout Hw (oset e d ov) bmb
                               (bmset bma B (fun j => Nat.eqb j i || bma B j)) w).
                assert (HI' : Inv (d :: D) (premove d U) (oset e d ov) (bmset bma B (fun j => Nat.eqb j i || bma B j))).
                { apply (inv_define D U e bma d ov HI (Hu2 eq_refl)). destruct HI as [_ [_ I3]]. apply bminv_set; auto. }
                specialize (IH HI'). rewrite !gexec_cons. cbn [Guarded.gexec_op]. rewrite Eb, Ea. cbn [Guarded.gexec_op s_env s_bm s_w]. exact IH.
             ++ (* clear *)
                destruct (undef_src U s && slot_eqb (B, i) (B', i')) eqn:G; [|discriminate].
                apply andb_true_iff in G. destruct G as [G1 G2]. apply slot_eqb_eq in G2. inversion G2. subst B' i'.
                rewrite G1 in Hw. pose proof (Hu1 G1) as Hov. subst ov.
                specialize (IH ar' ltac:(simpl; lia) br (premove d D) (premove d U) Dout Uout Hw (oset e d None) bmb
                               (bmset bma B (fun j => negb (Nat.eqb j i) && bma B j)) w).
                assert (HI' : Inv (premove d D) (premove d U) (oset e d None) (bmset bma B (fun j => negb (Nat.eqb j i) && bma B j))).
                { apply (inv_undefine D U e bma d HI). destruct HI as [_ [_ I3]]. apply bminv_clr; auto. }
                specialize (IH HI'). rewrite !gexec_cons. cbn [Guarded.gexec_op]. rewrite Eb, Ea. cbn [Guarded.gexec_op s_env s_bm s_w]. exact IH.
          -- rewrite !gexec_cons. cbn [Guarded.gexec_op]. rewrite Eb, Ea.
             destruct (undef_src U s) eqn:Eu.
             ++ pose proof (Hu1 eq_refl) as Hov. subst ov.
                apply (IH ar (le_n _) br _ _ Dout Uout Hw (oset e d None) bmb bma w).
                apply (inv_undefine D U e bma d HI). destruct HI as [_ [_ I3]]. apply bminv_other; auto.
             ++ apply (IH ar (le_n _) br _ _ Dout Uout Hw (oset e d ov) bmb bma w).
                apply (inv_define D U e bma d ov HI (Hu2 eq_refl)). destruct HI as [_ [_ I3]]. apply bminv_other; auto.
        * (* Op *)
          simpl in C2. destruct (all_some_defined D U e bma args HI C2) as [vs Hvs].
          destruct (passoc d (u_bmt h)) eqn:Pd; [discriminate|].
          rewrite !gexec_cons. cbn [Guarded.gexec_op Guarded.exec_plain s_env s_bm s_w]. rewrite Hvs.
          apply (IH ar (le_n _) br _ _ Dout Uout Hw _ bmb bma _).
          apply (inv_define D U e bma d _ HI); [discriminate|]. destruct HI as [_ [_ I3]]. apply bminv_other; auto.
      + (* GUndef *)
        destruct bops as [|[?|e0|?|?|?|?|?|?] br]; try discriminate.
        destruct (Pos.eqb e0 e' && negb (pmem e0 (u_tracked h))
                  && match passoc e0 (u_bmt h) with None => true | Some _ => false end) eqn:C; [|discriminate].
        apply andb_true_iff in C. destruct C as [C C3]. apply andb_true_iff in C. destruct C as [C1 C2].
        apply peqb_eq in C1. subst e'. destruct (passoc e0 (u_bmt h)) eqn:Pe; [discriminate|].
        rewrite !gexec_cons. cbn [Guarded.gexec_op s_env s_bm s_w]. apply (IH ar (le_n _) br _ _ Dout Uout Hw (oset e e0 None) bmb bma w).
        destruct HI as [I1 [I2 I3]]. split; [|split].
        * intros x Hx. apply pmem_premove in Hx. destruct Hx as [Hx Hn]. rewrite oset_other by exact Hn. apply I1. exact Hx.
        * intros x Hx. apply pmem_cons_inv in Hx. destruct (Pos.eqb x e0) eqn:E.
          -- apply peqb_eq in E. subst. rewrite oset_same. split; [reflexivity|]. rewrite Htr. destruct (pmem e0 (u_tracked h)); [discriminate|reflexivity].
          -- assert (x <> e0) by (intro; subst; rewrite Pos.eqb_refl in E; discriminate). rewrite oset_other by assumption.
             destruct Hx as [Hx|Hx]; [contradiction|apply I2; exact Hx].
        * apply bminv_other; auto.
      + (* plain guard *)
        destruct v as [r|]; [|discriminate].
        destruct (negb neg && pmem k (u_defk h) && pmem k (u_iserrk h)
                  && match passoc r (u_bmt h) with None => true | Some _ => false end
                  && exit_ok h after ex && next_reads h bterm bops r) eqn:C; [|discriminate].
        repeat (apply andb_true_iff in C; destruct C as [C ?]).
        destruct neg; [discriminate|].
        rewrite (gexec_cons _ ar). cbn [Guarded.gexec_op Guarded.oeval s_env s_bm s_w].
        destruct (e r) as [x|] eqn:Er.
        * cbn [Guarded.gtest]. rewrite (Hdef_val k x H3). rewrite (Hdef_eff k false w H3). cbn [xorb].
          apply (IH ar (le_n _) bops _ _ Dout Uout Hw e bmb bma w).
          destruct HI as [I1 [I2 I3]]. split; [|split; [|exact I3]].
          -- intros y Hy. apply pmem_cons_inv in Hy. destruct Hy as [Hy|Hy]; [subst; rewrite Er; discriminate|apply I1; exact Hy].
          -- intros y Hy. apply pmem_premove in Hy. destruct Hy as [Hy _]. apply I2. exact Hy.
        * cbn [Guarded.gtest]. rewrite Hie, H2. rewrite (Hdef_eff k true w H3). cbn [xorb].
          destruct bops as [|[o| | | | | | |] br]; simpl in H; try discriminate.
          -- simpl. right. exists ex, (mkSt e bma w). repeat split; auto. eapply term_reads_undef_sound; eauto.
          -- rewrite gexec_cons. cbn [Guarded.gexec_op]. rewrite (reads_undef_sound o r e bmb w H Er). exists ex, (mkSt e bma w). auto.
      + (* bitmap guard *)
        destruct (bm_reg (u_bmt h) B i) as [r|] eqn:Br; [|discriminate].
        destruct (exit_ok h after ex && next_reads h bterm bops r
                  && match passoc r (u_bmt h) with Some s => slot_eqb s (B, i) | None => false end) eqn:C; [|discriminate].
        repeat (apply andb_true_iff in C; destruct C as [C ?]).
        destruct (passoc r (u_bmt h)) as [s|] eqn:Pr; [|discriminate]. apply slot_eqb_eq in H. subst s.
        rewrite (gexec_cons _ ar). cbn [Guarded.gexec_op s_env s_bm s_w].
        destruct HI as [I1 [I2 I3]]. pose proof (I3 r B i Pr) as Hbit.
        destruct (bma B i) eqn:Eb.
        * apply (IH ar (le_n _) bops _ _ Dout Uout Hw e bmb bma w). split; [|split; [|exact I3]].
          -- intros y Hy. apply pmem_cons_inv in Hy. destruct Hy as [Hy|Hy]; [subst; apply Hbit; reflexivity|apply I1; exact Hy].
          -- intros y Hy. apply pmem_premove in Hy. destruct Hy as [Hy _]. apply I2. exact Hy.
        * assert (Er : e r = None).
          { destruct (e r) eqn:E; [|reflexivity]. assert (X : false = true) by (apply Hbit; discriminate). discriminate. }
          destruct bops as [|[o| | | | | | |] br]; simpl in H0; try discriminate.
          -- simpl. right. exists ex, (mkSt e bma w). repeat split; auto. eapply term_reads_undef_sound; eauto.
          -- rewrite gexec_cons. cbn [Guarded.gexec_op]. rewrite (reads_undef_sound o r e bmb w H0 Er). exists ex, (mkSt e bma w). auto.
  Qed.

  Lemma uwalk_sound : forall aops bops D U Dout Uout,
    uwalk h after bterm D U bops aops = Some (Dout, Uout) ->
    forall e bmb bma w, Inv D U e bma ->
    match gexec bops (mkSt e bmb w) with
    | Guarded.GCont _ _ sb =>
      (exists bma', gexec aops (mkSt e bma w) = GCont (mkSt (s_env _ _ sb) bma' (s_w _ _ sb))
                    /\ Inv Dout Uout (s_env _ _ sb) bma')
      \/ (exists ex sa, gexec aops (mkSt e bma w) = GExit ex sa /\ exit_ok h after ex = true
                        /\ s_w _ _ sa = s_w _ _ sb /\ term_ur bterm (s_env _ _ sb))
    | Guarded.GUndefRead _ _ w' =>
      exists ex sa, gexec aops (mkSt e bma w) = GExit ex sa /\ exit_ok h after ex = true /\ s_w _ _ sa = w'
    | Guarded.GExit _ _ _ _ => False
    end.
  Proof. intros aops. apply (uwalk_sound_n (length aops) aops (le_n _)). Qed.

  End Walk.

  (* ---------------------------------------------------------------- blocks and runs *)
  Notation GRet := (GRet val world).
  Notation GUnreach := (GUnreach val world).
  Notation GStuck := (GStuck val world).
  Notation GUndefinedRead := (GUndefinedRead val world).
  Notation GOutOfFuel := (GOutOfFuel val world).

  (* BEFORE's outcome ob with n blocks of fuel, against AFTER (as a function of its fuel) *)
  Definition usim (n : nat) (ob : goutcome val world) (ra : nat -> goutcome val world) : Prop :=
    match ob with
    | Guarded.GUndefinedRead _ _ w' =>
      exists f, pmem f (u_raise h) = true /\ ra (S n) = GUnreach (snd (op_sem f [] w'))
    | Guarded.GOutOfFuel _ _ => True
    | Guarded.GStuck _ _ _ => True
    | o => ra n = o
    end.

  Lemma exit_run : forall ex sa n, exit_ok h after ex = true ->
    exists f, pmem f (u_raise h) = true /\ grun after (S n) ex sa = GUnreach (snd (op_sem f [] (s_w _ _ sa))).
  Proof.
    intros ex sa n H. unfold exit_ok in H. destruct (gfind after ex) as [[ops t]|] eqn:F; [|discriminate].
    destruct ops as [|[[|d f [|]]| | | | | | |] [|]]; try discriminate. destruct t; try discriminate.
    exists f. split; [exact H|]. simpl. rewrite F. simpl. reflexivity.
  Qed.

  Lemma term_defined_ok : forall D U e bm t, Inv D U e bm -> term_defined h D t = true ->
    match t with
    | Branch k _ v _ _ => exists c, gtest k (oeval e v) = Some c
    | Return v => exists x, oeval e v = Some x
    | _ => True
    end.
  Proof.
    intros D U e bm t [I1 _] H. destruct t as [|k neg [x|lk] lt lf|[x|lk]|]; simpl in *; auto.
    - unfold Guarded.gtest. destruct (e x) eqn:E; [eauto|]. rewrite Hie. apply orb_true_iff in H. destruct H as [H|H].
      + rewrite H. eauto.
      + exfalso. apply (I1 x H). exact E.
    - eauto.
    - destruct (e x) eqn:E; [eauto|]. exfalso. apply (I1 x H). exact E.
    - eauto.
  Qed.

  Variable before : gfunc.

  (* one block: BEFORE block bb at l, AFTER executes aops (its block minus a possible prelude) from the same
     environment; succ = what is known about the successors *)
  Lemma block_sim : forall n l bb ba aops e bmb bma w sa0,
    gfind before l = Some bb -> gfind after l = Some ba ->
    ucheck_block h after l bb ba aops = true ->
    gexec (g_ops ba) sa0 = gexec aops (mkSt e bma w) ->
    Inv (uann h l) [] e bma ->
    (forall l' e' bmb' bma' w', In l' (succs (g_term bb)) -> Inv (uann h l') [] e' bma' ->
        usim n (grun before n l' (mkSt e' bmb' w')) (fun m => grun after m l' (mkSt e' bma' w'))) ->
    usim (S n) (grun before (S n) l (mkSt e bmb w)) (fun m => grun after m l sa0).
  Proof.
    intros n l bb ba aops e bmb bma w sa0 Fb Fa Hc Hpre HI Hsucc.
    unfold ucheck_block in Hc.
    destruct (uwalk h after (g_term bb) (uann h l) [] (g_ops bb) aops) as [[Dout Uout]|] eqn:Hw; [|discriminate].
    apply andb_true_iff in Hc. destruct Hc as [Hc Hs]. apply andb_true_iff in Hc. destruct Hc as [Ht Htd].
    apply term_eqb_eq in Ht.
    pose proof (uwalk_sound (g_term bb) aops (g_ops bb) _ _ _ _ Hw e bmb bma w HI) as HS.
    cbn [Guarded.grun]. rewrite Fb.
    destruct (gexec (g_ops bb) (mkSt e bmb w)) as [sb|lx sx|w'] eqn:Eb.
    - destruct HS as [[bma' [Ea HI']]|[ex [sa [Ea [Hex [Hw' Htu]]]]]].
      + (* both fall through to the terminator *)
        assert (Hrun : forall m, grun after (S m) l sa0 =
                  match g_term bb with
                  | Goto l' => grun after m l' (mkSt (s_env _ _ sb) bma' (s_w _ _ sb))
                  | Branch k neg v lt lf =>
                    match gtest k (oeval (s_env _ _ sb) v) with
                    | None => GUndefinedRead (s_w _ _ sb)
                    | Some c => grun after m (if xorb neg c then lt else lf) (mkSt (s_env _ _ sb) bma' (br_eff k c (s_w _ _ sb)))
                    end
                  | Return v => match oeval (s_env _ _ sb) v with Some x => GRet x (s_w _ _ sb) | None => GUndefinedRead (s_w _ _ sb) end
                  | Unreachable => GUnreach (s_w _ _ sb)
                  end).
        { intro m. cbn [Guarded.grun]. rewrite Fa, Hpre, Ea. rewrite <- Ht. reflexivity. }
        pose proof (term_defined_ok _ _ _ _ (g_term bb) HI' Htd) as Htok.
        destruct (g_term bb) as [l'|k neg v lt lf|v|] eqn:Et.
        * simpl in Hs. apply andb_true_iff in Hs. destruct Hs as [Hs _].
          assert (HIs : Inv (uann h l') [] (s_env _ _ sb) bma').
          { destruct HI' as [I1 [I2 I3]]. split; [|split; [|exact I3]].
            - intros x Hx. apply I1. eapply pmem_incl; eauto.
            - intros x Hx. cbv in Hx. discriminate. }
          specialize (Hsucc l' (s_env _ _ sb) (s_bm _ _ sb) bma' (s_w _ _ sb) (or_introl eq_refl) HIs).
          destruct sb as [eb bb' wb]. cbn [s_env s_bm s_w] in *.
          unfold usim in *. destruct (grun before n l' (mkSt eb bb' wb)); auto.
          -- rewrite Hrun. exact Hsucc.
          -- rewrite Hrun. exact Hsucc.
          -- destruct Hsucc as [f [Hf Hr]]. exists f. split; [exact Hf|]. rewrite Hrun. exact Hr.
        * destruct Htok as [c Hc']. rewrite Hc'.
          simpl in Hs. apply andb_true_iff in Hs. destruct Hs as [Hs1 Hs2]. apply andb_true_iff in Hs2. destruct Hs2 as [Hs2 _].
          assert (HIs : forall l', In l' [lt; lf] -> incl_b (uann h l') Dout = true -> Inv (uann h l') [] (s_env _ _ sb) bma').
          { intros l' _ Hi. destruct HI' as [I1 [I2 I3]]. split; [|split; [|exact I3]].
            - intros x Hx. apply I1. eapply pmem_incl; eauto.
            - intros x Hx. cbv in Hx. discriminate. }
          set (tgt := if xorb neg c then lt else lf).
          assert (Hin : In tgt [lt; lf]) by (unfold tgt; destruct (xorb neg c); simpl; auto).
          assert (Hit : incl_b (uann h tgt) Dout = true) by (unfold tgt; destruct (xorb neg c); assumption).
          specialize (Hsucc tgt (s_env _ _ sb) (s_bm _ _ sb) bma' (br_eff k c (s_w _ _ sb)) Hin (HIs tgt Hin Hit)).
          destruct sb as [eb bb' wb]. cbn [s_env s_bm s_w] in *.
          unfold usim in *. fold tgt. destruct (grun before n tgt (mkSt eb bb' (br_eff k c wb))); auto.
          -- rewrite Hrun, Hc'. exact Hsucc.
          -- rewrite Hrun, Hc'. exact Hsucc.
          -- destruct Hsucc as [f [Hf Hr]]. exists f. split; [exact Hf|]. rewrite Hrun, Hc'. exact Hr.
        * destruct Htok as [x Hx]. rewrite Hx. unfold usim. rewrite Hrun, Hx. reflexivity.
        * unfold usim. rewrite Hrun. reflexivity.
      + (* AFTER leaves at a guard for the terminator's register; BEFORE reads it undefined in the terminator *)
        destruct (exit_run ex sa n Hex) as [f [Hf Hr]].
        assert (Hrun : grun after (S (S n)) l sa0 = GUnreach (snd (op_sem f [] (s_w _ _ sb)))).
        { cbn [Guarded.grun]. rewrite Fa, Hpre, Ea. cbn [Guarded.grun] in Hr. rewrite <- Hw'. exact Hr. }
        destruct (g_term bb) as [l'|k neg v lt lf|v|] eqn:Et; simpl in Htu; try contradiction.
        * rewrite Htu. unfold usim. exists f. auto.
        * rewrite Htu. unfold usim. exists f. auto.
    - contradiction.
    - destruct HS as [ex [sa [Ea [Hex Hw']]]]. destruct (exit_run ex sa n Hex) as [f [Hf Hr]].
      unfold usim. exists f. split; [exact Hf|]. cbn [Guarded.grun]. rewrite Fa, Hpre, Ea. cbn [Guarded.grun] in Hr.
      rewrite <- Hw'. exact Hr.
  Qed.

  (* ---------------------------------------------------------------- whole function *)
  Lemma gfind_In : forall (f : gfunc) l b, gfind f l = Some b -> In (l, b) f.
  Proof.
    induction f as [|[l' b'] f IH]; simpl; intros l b H; [discriminate|].
    destruct (Pos.eqb l l') eqn:E; [apply peqb_eq in E; inversion H; subst; left; reflexivity|right; apply IH; exact H].
  Qed.

  Lemma ucheck_rest_lookup : forall rest l bb, ucheck_rest h after rest = true -> gfind rest l = Some bb ->
    exists ba, gfind after l = Some ba /\ ucheck_block h after l bb ba (g_ops ba) = true.
  Proof.
    induction rest as [|[l' b'] rest IH]; simpl; intros l bb H F; [discriminate|].
    destruct (gfind after l') as [ba'|] eqn:Fa; [|discriminate]. apply andb_true_iff in H. destruct H as [H1 H2].
    destruct (Pos.eqb l l') eqn:E.
    - apply peqb_eq in E. subst l'. inversion F. subst b'. exists ba'. auto.
    - apply IH; assumption.
  Qed.

  Variable l0 : positive.
  Variable b0 : gblock.
  Variable rest : gfunc.
  Hypothesis Hbefore : before = (l0, b0) :: rest.
  Hypothesis Hrest : ucheck_rest h after rest = true.
  Hypothesis Hnj : no_jump_to l0 after = true.

  Lemma succ_not_entry : forall l ba l', gfind after l = Some ba -> In l' (succs (g_term ba)) -> l' <> l0.
  Proof.
    intros l ba l' F Hin Heq. subst l'. apply gfind_In in F. unfold no_jump_to in Hnj. rewrite forallb_forall in Hnj.
    specialize (Hnj _ F). simpl in Hnj. apply andb_true_iff in Hnj. destruct Hnj as [H1 _].
    assert (pmem l0 (succs (g_term ba)) = true); [|rewrite H in H1; discriminate].
    unfold pmem. apply existsb_exists. exists l0. split; [exact Hin|apply Pos.eqb_refl].
  Qed.

  Lemma ucheck_block_term : forall l bb ba aops, ucheck_block h after l bb ba aops = true -> g_term bb = g_term ba.
  Proof.
    intros l bb ba aops H. unfold ucheck_block in H. destruct (uwalk h after (g_term bb) (uann h l) [] (g_ops bb) aops) as [[? ?]|]; [|discriminate].
    apply andb_true_iff in H. destruct H as [H _]. apply andb_true_iff in H. destruct H as [H _]. apply term_eqb_eq. exact H.
  Qed.

  Lemma run_sim_rest : forall n l e bmb bma w, l <> l0 -> Inv (uann h l) [] e bma ->
    usim n (grun before n l (mkSt e bmb w)) (fun m => grun after m l (mkSt e bma w)).
  Proof.
    induction n as [|n IH]; intros l e bmb bma w Hl HI; [exact I|].
    assert (Fb : gfind before l = gfind rest l).
    { rewrite Hbefore. simpl. destruct (Pos.eqb l l0) eqn:E; [apply peqb_eq in E; contradiction|reflexivity]. }
    destruct (gfind rest l) as [bb|] eqn:Fr.
    - destruct (ucheck_rest_lookup rest l bb Hrest Fr) as [ba [Fa Hc]].
      apply (block_sim n l bb ba (g_ops ba) e bmb bma w (mkSt e bma w)); auto.
      intros l' e' bmb' bma' w' Hin HI'. apply IH; [|exact HI'].
      rewrite (ucheck_block_term _ _ _ _ Hc) in Hin. eapply succ_not_entry; eauto.
    - cbn [Guarded.grun]. rewrite Fb. exact I.
  Qed.

  (* entry state: arguments defined, every other variable undefined *)
  Definition entry_state (e : oenv val) : Prop :=
    (forall x, pmem x (u_args h) = false -> e x = None) /\ (forall x, pmem x (u_args h) = true -> e x <> None).

  Lemma oset_none_id : forall e x, e x = None -> oset e x None = e.
  Proof.
    intros e x H. apply functional_extensionality. intro y. unfold Guarded.oset. destruct (Pos.eqb y x) eqn:E; [|reflexivity].
    apply peqb_eq in E. subst. symmetry. exact H.
  Qed.

  Lemma strip_prelude_sound : forall n aops0, length aops0 <= n -> forall inits aops inits',
    strip_prelude h aops0 inits = Some (aops, inits') ->
    forall e bm w, entry_state e -> (forall B, pmem B inits = true -> forall i, bm B i = false) ->
    exists bm', gexec aops0 (mkSt e bm w) = gexec aops (mkSt e bm' w)
                /\ (forall B, pmem B inits' = true -> forall i, bm' B i = false).
  Proof.
    induction n as [|n IH]; intros aops0 Hlen inits aops inits' H e bm w He Hb.
    - destruct aops0; [|simpl in Hlen; lia]. simpl in H. inversion H. subst. exists bm. auto.
    - destruct aops0 as [|g ar]; [simpl in H; inversion H; subst; exists bm; auto|].
      destruct g as [o|e1| | | B| | |]; simpl in H; try (inversion H; subst; exists bm; auto; fail).
      + destruct ar as [|[[r [e2|]|]| | | | | | |] ar']; try (inversion H; subst; exists bm; auto; fail).
        destruct (Pos.eqb e1 e2 && negb (pmem r (u_args h)) && negb (pmem e1 (u_args h)) && negb (pmem e1 (u_tracked h))) eqn:C; [|discriminate].
        repeat (apply andb_true_iff in C; destruct C as [C ?]). apply peqb_eq in C. subst e2.
        destruct He as [He1 He2].
        assert (E1 : e e1 = None) by (apply He1; destruct (pmem e1 (u_args h)); [discriminate|reflexivity]).
        assert (Er : e r = None) by (apply He1; destruct (pmem r (u_args h)); [discriminate|reflexivity]).
        destruct (IH ar' ltac:(simpl in Hlen; lia) inits aops inits' H e bm w (conj He1 He2) Hb) as [bm' [G1 G2]].
        exists bm'. split; [|exact G2]. rewrite !gexec_cons. cbn [Guarded.gexec_op s_env s_bm s_w].
        rewrite (oset_none_id e e1 E1). rewrite gexec_cons. cbn [Guarded.gexec_op Guarded.exec_plain s_env s_bm s_w]. rewrite E1. rewrite Htr.
        destruct (pmem e1 (u_tracked h)); [discriminate|]. rewrite (oset_none_id e r Er). exact G1.
      + destruct (IH ar ltac:(simpl in Hlen; lia) (B :: inits) aops inits' H e (bmset bm B (fun _ => false)) w He) as [bm' [G1 G2]].
        * intros B' HB' i. unfold bmset. destruct (Pos.eqb B' B) eqn:E; [reflexivity|]. apply Hb.
          apply pmem_cons_inv in HB'. destruct HB' as [X|X]; [subst; rewrite Pos.eqb_refl in E; discriminate|exact X].
        * exists bm'. split; [|exact G2]. rewrite gexec_cons. cbn [Guarded.gexec_op s_env s_bm s_w]. exact G1.
  Qed.

  Theorem validate_uninit_run : validate_uninit h before after = true ->
    forall n e bmb bma w, entry_state e ->
    usim n (grun before n (gentry before) (mkSt e bmb w)) (fun m => grun after m (gentry after) (mkSt e bma w)).
  Proof.
    intros Hv n e bmb bma w He. unfold validate_uninit in Hv. rewrite Hbefore in Hv.
    repeat (apply andb_true_iff in Hv; destruct Hv as [Hv ?]).
    destruct (gfind after l0) as [a0|] eqn:Fa; [|discriminate].
    destruct (strip_prelude h (g_ops a0) []) as [[aops inits]|] eqn:Sp; [|discriminate].
    apply andb_true_iff in H0. destruct H0 as [Hinit Hcb].
    apply peqb_eq in H5. rewrite H5. rewrite Hbefore. cbn [gentry]. rewrite <- Hbefore.
    destruct n as [|n]; [exact I|].
    destruct (strip_prelude_sound (length (g_ops a0)) (g_ops a0) (le_n _) [] aops inits Sp e bma w He) as [bm' [G1 G2]].
    { intros B HB. cbv in HB. discriminate. }
    apply (block_sim n l0 b0 a0 aops e bmb bm' w (mkSt e bma w)); auto.
    - rewrite Hbefore. simpl. rewrite Pos.eqb_refl. reflexivity.
    - destruct He as [He1 He2]. split; [|split].
      + intros x Hx. apply He2. eapply pmem_incl; eauto.
      + intros x Hx. cbv in Hx. discriminate.
      + intros r B i Hr. rewrite forallb_forall in Hinit. pose proof (passoc_In _ _ _ _ Hr) as Hin.
        specialize (Hinit _ Hin). simpl in Hinit. rewrite (G2 B Hinit i).
        rewrite forallb_forall in H2. specialize (H2 _ Hin). simpl in H2.
        rewrite (He1 r) by (destruct (pmem r (u_args h)); [discriminate|reflexivity]).
        split; intro X; [discriminate|contradiction X; reflexivity].
    - intros l' e' bmb' bma' w' Hin HI'. apply run_sim_rest; [|exact HI'].
      rewrite (ucheck_block_term _ _ _ _ Hcb) in Hin. eapply succ_not_entry; eauto.
  Qed.
End UProofs.
