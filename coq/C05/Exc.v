(* C05 (b3): transform/exceptions.py (insert_exception_handling) -- implicit-exception semantics of the IR
   BEFORE the pass, the expansion the pass must produce, and the validator (AFTER, normalised to guarded
   blocks, must be exactly that expansion).

   Before the pass an op may fail without any control flow in the IR: its `error_kind` says how failure shows
   in its result, the block's `error_handler` says where control then goes (no handler: the function returns
   its error value).  Per error kind (mypyc/ir/ops.py, exceptions.py):
     ERR_MAGIC              failed iff the result is the error value        -> IS_ERROR test of the result
     ERR_FALSE              failed iff the result is false                  -> negated BOOL test of the result
     ERR_ALWAYS             always fails                                    -> negated BOOL test of literal false
     ERR_MAGIC_OVERLAPPING  the error value is also a legal value: failed iff result == error value (compared
                            through TupleGet(.,0)* for tuples) AND PyErr_Occurred() -> the comparison ops, a rare
                            BOOL branch, then a call of err_occurred whose NULL result means "no error"
   The branch symbol k of every test (variant, traceback entry (function, line), line) is computed by the dumper
   from the BEFORE op alone; the ids of the fresh values of the inserted ops are hints. *)
From Coq Require Import List PArith Arith Bool.
From C05 Require Import PassValidators Guarded.
Import ListNotations.

Inductive ekind :=
| ENever
| EMagic (k : positive)
| EFalse (k : positive)
| EAlways (k : positive) (z : positive)
| EOverlap (probes : list op) (k1 : positive) (call : op) (k2 : positive).

Record xop := mkX { x_op : op; x_ek : ekind }.
Record xblock := mkXB { xb_ops : list xop; xb_term : term; xb_handler : option positive }.
Definition xfunc := list (positive * xblock).

Fixpoint xfind (f : xfunc) (l : positive) : option xblock :=
  match f with
  | [] => None
  | (l', b) :: r => if Pos.eqb l l' then Some b else xfind r l
  end.

Definition op_dest (o : op) : positive := match o with Assign d _ => d | Op d _ _ => d end.
Definition last_dest (d0 : positive) (ps : list op) : positive := fold_left (fun _ o => op_dest o) ps d0.

(* the check that follows an op with result d; exit = where a failure goes *)
Definition guard_of (ek : ekind) (d exit : positive) : list gop :=
  match ek with
  | ENever => []
  | EMagic k => [GGuard k false (OVar d) exit]
  | EFalse k => [GGuard k true (OVar d) exit]
  | EAlways k z => [GGuard k true (OLit z) exit]
  | EOverlap ps k1 call k2 =>
    map GOp ps ++ [GGuard2 k1 false (OVar (last_dest d ps)) [call] k2 true (OVar (op_dest call)) exit]
  end.

(* the default handler: `e = <error value of the return type>; return e` at label dl *)
Definition dflt := option (positive * gblock).
Definition exit_of (df : dflt) (l : positive) (b : xblock) : positive :=
  match xb_handler b with
  | Some hd => hd
  | None => match df with Some (dl, _) => dl | None => l end
  end.

Definition expand_ops (exit : positive) (xs : list xop) : list gop :=
  flat_map (fun x => GOp (x_op x) :: guard_of (x_ek x) (op_dest (x_op x)) exit) xs.
Definition expand_block (df : dflt) (l : positive) (b : xblock) : gblock :=
  mkG (expand_ops (exit_of df l b) (xb_ops b)) (xb_term b).
Fixpoint expand_blocks (df : dflt) (f : xfunc) : gfunc :=
  match f with
  | [] => []
  | (l, b) :: r => (l, expand_block df l b) :: expand_blocks df r
  end.
Definition expand (df : dflt) (f : xfunc) : gfunc :=
  expand_blocks df f ++ match df with Some (dl, db) => [(dl, db)] | None => [] end.

(* ------------------------------------------------------------------ implicit-exception semantics *)
Section XSem.
  Variables val world : Type.
  Variable lit_val : positive -> val.
  Variable op_sem : positive -> list val -> world -> val * world.
  Variable truthy : positive -> val -> bool.
  Variable br_eff : positive -> bool -> world -> world.
  Variable tracked : positive -> bool.
  Variable iserr : positive -> bool.

  Notation gst := (gst val world).
  Notation gres := (gres val world).
  Notation gexec := (gexec val world lit_val op_sem truthy br_eff tracked iserr).
  Notation exec_plain := (exec_plain val world lit_val op_sem tracked).

  (* run the ops of a block; after each op perform the failure test of its error kind *)
  Fixpoint xexec (xs : list xop) (exit : positive) (s : gst) : gres :=
    match xs with
    | [] => GCont val world s
    | x :: r =>
      match exec_plain (x_op x) s with
      | GCont _ _ s1 =>
        match gexec (guard_of (x_ek x) (op_dest (x_op x)) exit) s1 with
        | GCont _ _ s2 => xexec r exit s2
        | y => y
        end
      | y => y
      end
    end.

  (* what happens after the ops of a block (shared by xrun and the unfolding of grun) *)
  Definition finish (r : gres) (t : term) (rec : positive -> gst -> goutcome val world) : goutcome val world :=
    match r with
    | GUndefRead _ _ w => GUndefinedRead val world w
    | GExit _ _ ex s' => rec ex s'
    | GCont _ _ s' =>
      match t with
      | Goto l' => rec l' s'
      | Branch k neg v lt lf =>
        match gtest val truthy iserr k (oeval val lit_val (s_env _ _ s') v) with
        | None => GUndefinedRead val world (s_w _ _ s')
        | Some c => rec (if xorb neg c then lt else lf) (mkSt val world (s_env _ _ s') (s_bm _ _ s') (br_eff k c (s_w _ _ s')))
        end
      | Return v => match oeval val lit_val (s_env _ _ s') v with
                    | Some x => GRet val world x (s_w _ _ s')
                    | None => GUndefinedRead val world (s_w _ _ s')
                    end
      | Unreachable => GUnreach val world (s_w _ _ s')
      end
    end.

  Fixpoint xrun (f : xfunc) (df : dflt) (fuel : nat) (l : positive) (s : gst) : goutcome val world :=
    match fuel with
    | O => GOutOfFuel val world
    | S n =>
      match xfind f l with
      | Some b => finish (xexec (xb_ops b) (exit_of df l b) s) (xb_term b) (xrun f df n)
      | None =>
        match df with
        | Some (dl, db) => if Pos.eqb l dl then finish (gexec (g_ops db) s) (g_term db) (xrun f df n)
                           else GStuck val world (s_w _ _ s)
        | None => GStuck val world (s_w _ _ s)
        end
      end
    end.
End XSem.

(* ------------------------------------------------------------------ validator *)
Definition gop_eqb (a b : gop) : bool :=
  match a, b with
  | GOp o, GOp o' => op_eqb o o'
  | GUndef d, GUndef d' => Pos.eqb d d'
  | GGuard k n v e, GGuard k' n' v' e' => Pos.eqb k k' && Bool.eqb n n' && operand_eqb v v' && Pos.eqb e e'
  | GGuard2 k1 n1 v1 i k2 n2 v2 e, GGuard2 k1' n1' v1' i' k2' n2' v2' e' =>
    Pos.eqb k1 k1' && Bool.eqb n1 n1' && operand_eqb v1 v1' && list_eqb op_eqb i i'
    && Pos.eqb k2 k2' && Bool.eqb n2 n2' && operand_eqb v2 v2' && Pos.eqb e e'
  | GBmInit B, GBmInit B' => Pos.eqb B B'
  | GBmSet B i, GBmSet B' i' => Pos.eqb B B' && Nat.eqb i i'
  | GBmClr B i, GBmClr B' i' => Pos.eqb B B' && Nat.eqb i i'
  | GBmGuard B i e, GBmGuard B' i' e' => Pos.eqb B B' && Nat.eqb i i' && Pos.eqb e e'
  | _, _ => false
  end.
Definition gblock_eqb (a b : gblock) : bool :=
  list_eqb gop_eqb (g_ops a) (g_ops b) && term_eqb (g_term a) (g_term b).
Definition gfunc_eqb (a b : gfunc) : bool :=
  list_eqb (fun x y => Pos.eqb (fst x) (fst y) && gblock_eqb (snd x) (snd y)) a b.

(* variables of BEFORE, and the fresh values the expansion introduces *)
Definition operand_vars (o : operand) : list positive := match o with OVar x => [x] | OLit _ => [] end.
Definition op_vars (o : op) : list positive :=
  match o with Assign d s => d :: operand_vars s | Op d _ args => d :: flat_map operand_vars args end.
Definition term_vars (t : term) : list positive :=
  match t with Branch _ _ v _ _ => operand_vars v | Return v => operand_vars v | _ => [] end.
Definition before_vars (f : xfunc) : list positive :=
  flat_map (fun lb => flat_map (fun x => op_vars (x_op x)) (xb_ops (snd lb)) ++ term_vars (xb_term (snd lb))) f.
Definition inserted (f : xfunc) : list positive :=
  flat_map (fun lb => flat_map (fun x => match x_ek x with
                                         | EOverlap ps _ call _ => map op_dest ps ++ [op_dest call]
                                         | _ => [] end) (xb_ops (snd lb))) f.
Fixpoint nodup_b (l : list positive) : bool :=
  match l with [] => true | x :: r => negb (pmem x r) && nodup_b r end.

Definition dflt_ok (df : dflt) (f : xfunc) (errsyms : list positive) : bool :=
  match df with
  | None => true
  | Some (dl, mkG [GOp (Op e fe [])] (Return (OVar e'))) =>
    Pos.eqb e e' && pmem fe errsyms && negb (pmem e (before_vars f ++ inserted f))
    && negb (existsb (fun lb => Pos.eqb (fst lb) dl) f)
  | Some _ => false
  end.

(* a function that cannot raise is left alone: then no default handler may be needed *)
Definition needs_default (f : xfunc) : bool :=
  existsb (fun lb => existsb (fun x => match x_ek x with ENever => false | _ => true end) (xb_ops (snd lb))) f.

Definition validate_exceptions (df : dflt) (errsyms : list positive) (before : xfunc) (after : gfunc) : bool :=
  gfunc_eqb (expand df before) after
  && dflt_ok df before errsyms
  && Bool.eqb (needs_default before) (match df with Some _ => true | None => false end)
  && nodup_b (inserted before)
  && forallb (fun i => negb (pmem i (before_vars before))) (inserted before).
