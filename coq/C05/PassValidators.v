(* C05 (b): IR subset, its semantics, and the two translation validators (definitions only).

   IR after lowering, as the two late passes see it (mypyc/ir/ops.py): a function is a list of
   labelled basic blocks; a block is a list of non-control ops followed by one control op.
   The passes only inspect/alter Assign, Goto, Branch (flag elimination) and the SOURCES of every
   op (copy propagation); every other op is an uninterpreted function of its source values and of
   an abstract world (heap, exceptions state, output ...) -- which is what makes a sound validator
   possible without modelling 40 op classes.  Proofs are in PassProofs.v. *)
From Coq Require Import List PArith Bool.
Import ListNotations.

Inductive operand := OVar (v : positive) | OLit (k : positive).
Inductive op :=
| Assign (d : positive) (s : operand)                       (* ops.Assign: register := value *)
| Op (d : positive) (f : positive) (args : list operand).   (* any other op; f = everything but the sources *)
Inductive term :=
| Goto (l : positive)
| Branch (k : positive) (neg : bool) (v : operand) (lt lf : positive)
| Return (v : operand)
| Unreachable.
Record block := mkB { b_ops : list op; b_term : term }.
Definition func := list (positive * block).     (* the entry block is the first one *)

Fixpoint find_block (f : func) (l : positive) : option block :=
  match f with
  | [] => None
  | (l', b) :: r => if Pos.eqb l l' then Some b else find_block r l
  end.

Definition entry_label (f : func) : positive := match f with (l, _) :: _ => l | [] => 1%positive end.

(* ------------------------------------------------------------------ semantics *)
Section Semantics.
  Variables val world : Type.
  Variable lit_val : positive -> val.                               (* value of a literal *)
  Variable op_sem : positive -> list val -> world -> val * world.   (* any op: result and effect *)
  Variable truthy : positive -> val -> bool.                        (* Branch.BOOL / IS_ERROR test *)
  Variable br_eff : positive -> bool -> world -> world.             (* traceback entry added by a branch *)

  Definition env := positive -> val.
  Definition eval (e : env) (o : operand) : val :=
    match o with OVar v => e v | OLit k => lit_val k end.
  Definition upd (e : env) (d : positive) (v : val) : env :=
    fun x => if Pos.eqb x d then v else e x.

  Definition exec_op (o : op) (st : env * world) : env * world :=
    match o with
    | Assign d s => (upd (fst st) d (eval (fst st) s), snd st)
    | Op d f args =>
      let r := op_sem f (map (eval (fst st)) args) (snd st) in
      (upd (fst st) d (fst r), snd r)
    end.

  Fixpoint exec_ops (os : list op) (st : env * world) : env * world :=
    match os with
    | [] => st
    | o :: r => exec_ops r (exec_op o st)
    end.

  Inductive outcome :=
  | Ret (v : val) (w : world)      (* Return *)
  | Unreach (w : world)            (* ran into Unreachable *)
  | Stuck (w : world)              (* jump to a label that is not in the function *)
  | OutOfFuel.

  (* fuel = number of basic blocks executed *)
  Fixpoint run (f : func) (fuel : nat) (l : positive) (e : env) (w : world) : outcome :=
    match fuel with
    | O => OutOfFuel
    | S n =>
      match find_block f l with
      | None => Stuck w
      | Some b =>
        let st := exec_ops (b_ops b) (e, w) in
        match b_term b with
        | Goto l' => run f n l' (fst st) (snd st)
        | Branch k neg v lt lf =>
          let c := xorb neg (truthy k (eval (fst st) v)) in
          run f n (if c then lt else lf) (fst st) (br_eff k c (snd st))
        | Return v => Ret (eval (fst st) v) (snd st)
        | Unreachable => Unreach (snd st)
        end
      end
    end.

  (* big-step: the function started at its entry with register file e and world w ends with o *)
  Definition runs (f : func) (e : env) (w : world) (o : outcome) : Prop :=
    exists n, run f n (entry_label f) e w = o /\ o <> OutOfFuel.
  Definition diverges (f : func) (e : env) (w : world) : Prop :=
    forall n, run f n (entry_label f) e w = OutOfFuel.

  (* observational equivalence of two function bodies: same result, same final world, same
     divergence, from every initial register file (arguments, uninitialised registers) and world *)
  Definition equivalent (f g : func) : Prop :=
    forall e w, (forall o, runs f e w o <-> runs g e w o) /\ (diverges f e w <-> diverges g e w).
End Semantics.

(* ------------------------------------------------------------------ syntactic helpers *)
Definition operand_eqb (a b : operand) : bool :=
  match a, b with
  | OVar x, OVar y => Pos.eqb x y
  | OLit x, OLit y => Pos.eqb x y
  | _, _ => false
  end.

Fixpoint list_eqb {A} (eqb : A -> A -> bool) (a b : list A) : bool :=
  match a, b with
  | [], [] => true
  | x :: a', y :: b' => eqb x y && list_eqb eqb a' b'
  | _, _ => false
  end.

Definition op_eqb (a b : op) : bool :=
  match a, b with
  | Assign d s, Assign d' s' => Pos.eqb d d' && operand_eqb s s'
  | Op d f xs, Op d' f' xs' => Pos.eqb d d' && Pos.eqb f f' && list_eqb operand_eqb xs xs'
  | _, _ => false
  end.

Definition term_eqb (a b : term) : bool :=
  match a, b with
  | Goto l, Goto l' => Pos.eqb l l'
  | Branch k n v t f, Branch k' n' v' t' f' =>
    Pos.eqb k k' && Bool.eqb n n' && operand_eqb v v' && Pos.eqb t t' && Pos.eqb f f'
  | Return v, Return v' => operand_eqb v v'
  | Unreachable, Unreachable => true
  | _, _ => false
  end.

Definition block_eqb (a b : block) : bool :=
  list_eqb op_eqb (b_ops a) (b_ops b) && term_eqb (b_term a) (b_term b).

Fixpoint passoc {A} (k : positive) (l : list (positive * A)) : option A :=
  match l with
  | [] => None
  | (k', a) :: r => if Pos.eqb k k' then Some a else passoc k r
  end.
Definition pmem (x : positive) (l : list positive) : bool := existsb (Pos.eqb x) l.
Definition incl_b (a b : list positive) : bool := forallb (fun x => pmem x b) a.

Definition succs (t : term) : list positive :=
  match t with
  | Goto l => [l]
  | Branch _ _ _ lt lf => [lt; lf]
  | _ => []
  end.

(* ================================================================== copy propagation *)
(* hint: removed register y |-> the operand that replaces every use of y.   ann: for each block
   label, the removed registers y for which "y currently equals its replacement" is claimed to
   hold on entry.  Both are UNTRUSTED inputs (computed outside Coq); the validator checks them. *)
Definition chint := list (positive * operand).
Definition cann := list (positive * list positive).

(* replacements are not themselves removed registers *)
Definition hint_ok (h : chint) : bool :=
  forallb (fun p => match snd p with
                    | OVar z => match passoc z h with None => true | Some _ => false end
                    | OLit _ => true
                    end) h.

(* the operand of the AFTER program that holds the value of s, if that is known at this point *)
Definition val_of (h : chint) (A : list positive) (s : operand) : option operand :=
  match s with
  | OLit _ => Some s
  | OVar x => match passoc x h with
              | None => Some s
              | Some t => if pmem x A then Some t else None
              end
  end.

Fixpoint vals_of (h : chint) (A : list positive) (ss : list operand) : option (list operand) :=
  match ss with
  | [] => Some []
  | s :: r => match val_of h A s, vals_of h A r with
              | Some t, Some r' => Some (t :: r')
              | _, _ => None
              end
  end.

(* facts destroyed by (re)defining d *)
Definition kill (h : chint) (d : positive) (A : list positive) : list positive :=
  filter (fun y => negb (Pos.eqb y d)
                   && match passoc y h with
                      | Some (OVar z) => negb (Pos.eqb z d)
                      | _ => true
                      end) A.

(* walk the ops of a BEFORE block and of the corresponding AFTER block in parallel;
   result: facts valid at the end of the block, or None = reject *)
Fixpoint check_ops (h : chint) (A : list positive) (bs afs : list op) : option (list positive) :=
  match bs with
  | [] => match afs with [] => Some A | _ => None end
  | Assign d s :: bs' =>
    match passoc d h with
    | Some t =>                       (* an assignment the pass deleted *)
      let A1 := kill h d A in
      let gen := match val_of h A s with
                 | Some t' => operand_eqb t' t && negb (operand_eqb t (OVar d))
                 | None => false
                 end in
      check_ops h (if gen then d :: A1 else A1) bs' afs
    | None =>
      match afs, val_of h A s with
      | Assign d' s' :: afs', Some t' =>
        if Pos.eqb d d' && operand_eqb s' t' then check_ops h (kill h d A) bs' afs' else None
      | _, _ => None
      end
    end
  | Op d f args :: bs' =>
    match afs, vals_of h A args with
    | Op d' f' args' :: afs', Some ts =>
      if Pos.eqb d d' && Pos.eqb f f' && list_eqb operand_eqb args' ts
      then check_ops h (kill h d A) bs' afs' else None
    | _, _ => None
    end
  end.

Definition check_term (h : chint) (A : list positive) (tb ta : term) : bool :=
  match tb, ta with
  | Goto l, Goto l' => Pos.eqb l l'
  | Branch k n v t f, Branch k' n' v' t' f' =>
    match val_of h A v with
    | Some u => Pos.eqb k k' && Bool.eqb n n' && operand_eqb v' u && Pos.eqb t t' && Pos.eqb f f'
    | None => false
    end
  | Return v, Return v' =>
    match val_of h A v with Some u => operand_eqb v' u | None => false end
  | Unreachable, Unreachable => true
  | _, _ => false
  end.

Definition ann_of (ann : cann) (l : positive) : list positive :=
  match passoc l ann with Some A => A | None => [] end.

Definition check_block (h : chint) (ann : cann) (l : positive) (bb ba : block) : bool :=
  match check_ops h (ann_of ann l) (b_ops bb) (b_ops ba) with
  | None => false
  | Some Aout =>
    check_term h Aout (b_term bb) (b_term ba)
    && forallb (fun l' => incl_b (ann_of ann l') Aout) (succs (b_term bb))
  end.

Fixpoint check_blocks (h : chint) (ann : cann) (fb fa : func) : bool :=
  match fb, fa with
  | [], [] => true
  | (l, bb) :: rb, (l', ba) :: ra => Pos.eqb l l' && check_block h ann l bb ba && check_blocks h ann rb ra
  | _, _ => false
  end.

Definition validate_copyprop (h : chint) (ann : cann) (before after : func) : bool :=
  hint_ok h
  && match ann_of ann (entry_label before) with [] => true | _ => false end
  && Pos.eqb (entry_label before) (entry_label after)
  && check_blocks h ann before after.

(* ================================================================== flag elimination *)
(* hint: flag register b |-> label of the block that consists only of "if b goto .. else goto ..".
   UNTRUSTED input. *)
Definition fhint := list (positive * positive).

Definition is_flag (fh : fhint) (x : positive) : bool :=
  match passoc x fh with Some _ => true | None => false end.
Fixpoint flag_of_label (fh : fhint) (l : positive) : option positive :=
  match fh with
  | [] => None
  | (b, l') :: r => if Pos.eqb l l' then Some b else flag_of_label r l
  end.

Fixpoint split_last {A} (l : list A) : option (list A * A) :=
  match l with
  | [] => None
  | [x] => Some ([], x)
  | x :: r => match split_last r with Some (i, z) => Some (x :: i, z) | None => None end
  end.

(* what the AFTER version of a block (l, bb) that is not a flag-branch block must be; None = reject *)
Definition fe_expected (fh : fhint) (before : func) (l : positive) (bb : block) : option block :=
  match b_term bb with
  | Goto L =>
    match flag_of_label fh L with
    | None => Some bb
    | Some b =>
      match split_last (b_ops bb), find_block before L with
      | Some (ops0, Assign b' s), Some (mkB [] (Branch k neg (OVar b'') lt lf)) =>
        if Pos.eqb b' b && Pos.eqb b'' b then Some (mkB ops0 (Branch k neg s lt lf)) else None
      | _, _ => None
      end
    end
  | _ => Some bb
  end.

Definition operand_noflag (fh : fhint) (o : operand) : bool :=
  match o with OVar x => negb (is_flag fh x) | OLit _ => true end.
Definition op_noflag (fh : fhint) (o : op) : bool :=
  match o with
  | Assign _ s => operand_noflag fh s
  | Op _ _ args => forallb (operand_noflag fh) args
  end.
Definition label_noflag (fh : fhint) (l : positive) : bool :=
  match flag_of_label fh l with Some _ => false | None => true end.
Definition term_ok (fh : fhint) (t : term) : bool :=
  match t with
  | Goto l => label_noflag fh l
  | Branch _ _ v lt lf => operand_noflag fh v && label_noflag fh lt && label_noflag fh lf
  | Return v => operand_noflag fh v
  | Unreachable => true
  end.
(* in AFTER: no op reads a flag register and no jump targets a former flag-branch block *)
Definition block_ok (fh : fhint) (b : block) : bool :=
  forallb (op_noflag fh) (b_ops b) && term_ok fh (b_term b).

(* shape of a former flag-branch block in BEFORE: nothing but "if b goto .. else goto .." *)
Definition flag_block_shape (b : positive) (bb : block) : bool :=
  match b_ops bb, b_term bb with
  | [], Branch _ _ (OVar b') _ _ => Pos.eqb b' b
  | _, _ => false
  end.

(* BEFORE and AFTER blocks in parallel.  IRTransform deletes a block that became a lone
   Unreachable, so a former flag-branch block may be missing from AFTER; if it is present its
   content is irrelevant (nothing jumps to it, see block_ok, and it is not the entry). *)
Fixpoint fe_blocks (fh : fhint) (whole : func) (fb fa : func) : bool :=
  match fb with
  | [] => match fa with [] => true | _ => false end
  | (l, bb) :: rb =>
    match flag_of_label fh l with
    | Some b =>
      flag_block_shape b bb
      && fe_blocks fh whole rb (match fa with
                                | (l', _) :: ra => if Pos.eqb l l' then ra else fa
                                | [] => []
                                end)
    | None =>
      match fa with
      | (l', ba) :: ra =>
        Pos.eqb l l'
        && match fe_expected fh whole l bb with Some x => block_eqb x ba | None => false end
        && block_ok fh ba
        && fe_blocks fh whole rb ra
      | [] => false
      end
    end
  end.

Definition validate_flagelim (fh : fhint) (before after : func) : bool :=
  label_noflag fh (entry_label before)
  && Pos.eqb (entry_label before) (entry_label after)
  && fe_blocks fh before before after.
