(* C05 (c), UNBOUNDED part 4: the value-level reference py_bind accepts exactly the calls C12's cpython_bind accepts,
   for EVERY parameter list with distinct names and EVERY call with distinct keyword names (keywords included). *)
From Coq Require Import List Arith Bool PeanoNat Lia.
From C12 Require Import Bind.
From C05 Require Import ArgParse ArgParseUnb ArgParseUnb3.
Import ListNotations.

Definition known (ps : list param) (k : nat) : bool :=
  existsb (fun p => Nat.eqb (pname p) k && negb (posonly p) && negb (is_star (pk p))) ps.
Definition kp (kws : list nat) (p : param) : bool := negb (posonly p) && mem (pname p) kws.
Definition G (kws : list nat) (p : param) (s : bool) : bool :=
  is_star (pk p) || (negb (s && kp kws p) && (negb (is_required (pk p)) || s || kp kws p)).

Fixpoint walk (g : param -> bool -> bool) (ps : list param) (i n : nat) : bool :=
  match ps with
  | [] => true
  | p :: r => if is_pos_param p then g p (i <? n) && walk g r (S i) n else g p false && walk g r i n
  end.

(* C12 side *)
Lemma slot_cond_G : forall kws p s, slot_cond kws (to_formal p) s = G kws p s.
Proof.
  intros kws p s. unfold slot_cond, G, kp, to_formal. simpl. destruct (is_star (pk p)); [reflexivity|]. simpl.
  destruct (posonly p); simpl.
  - assert (E : existsb (named_by {| fkind := pk p; fname := None |}) kws = false).
    { induction kws; simpl; [reflexivity|exact IHkws]. } rewrite E. reflexivity.
  - assert (E : existsb (named_by {| fkind := pk p; fname := Some (pname p) |}) kws = mem (pname p) kws).
    { unfold mem. induction kws; simpl; [reflexivity|]. unfold named_by at 1. simpl. rewrite IHkws. reflexivity. }
    rewrite E. reflexivity.
Qed.

Lemma copy_pos_walk : forall kws n ps i,
  forallb2 (slot_cond kws) (map to_formal ps) (copy_pos (map to_formal ps) (n - i)) = walk (G kws) ps i n.
Proof.
  intros kws n. induction ps as [|p ps IH]; intro i; [reflexivity|].
  simpl map. simpl copy_pos. simpl walk. unfold is_pos_param.
  change (fkind (to_formal p)) with (pk p).
  destruct (is_positional (pk p)) eqn:K; simpl.
  - rewrite slot_cond_G. replace (Nat.pred (n - i)) with (n - S i) by lia. rewrite IH.
    replace (0 <? n - i) with (i <? n); [reflexivity|].
    destruct (i <? n) eqn:E; [apply Nat.ltb_lt in E; symmetry; apply Nat.ltb_lt; lia|apply Nat.ltb_ge in E; symmetry; apply Nat.ltb_ge; lia].
  - rewrite slot_cond_G. rewrite IH. reflexivity.
Qed.

Lemma assign_keys : forall n r i e, In e (assign_pos r i n) -> In (fst e) (map pname r).
Proof.
  intros n. induction r as [|q r IH]; intros i e He; [contradiction|]. simpl in *.
  destruct (is_pos_param q); [destruct He as [He|He]; [subst e; left; reflexivity|right; eapply IH; eauto]|].
  destruct (is_kwonly q); [destruct He as [He|He]; [subst e; left; reflexivity|right; eapply IH; eauto]|right; eapply IH; eauto].
Qed.

(* py side: the slots of a parameter after the positional phase *)
Lemma walk_slots : forall g n ps i, NoDup (map pname ps) ->
  forallb (fun p => g p (has_slot (assign_pos ps i n) (pname p))) ps = walk g ps i n.
Proof.
  intros g n. induction ps as [|p r IH]; intros i Hnd; [reflexivity|].
  simpl map in Hnd. inversion Hnd as [|x l Hnot Hnd']. subst.
  assert (Hne : forall q, In q r -> pname q <> pname p).
  { intros q Hq E. apply Hnot. rewrite <- E. apply in_map. exact Hq. }
  simpl forallb. simpl assign_pos. simpl walk.
  destruct (is_pos_param p) eqn:Ep.
  - unfold has_slot at 1. rewrite slot_of_head.
    replace (match (if i <? n then Some (SPos i) else None) with Some _ => true | None => false end) with (i <? n)
      by (destruct (i <? n); reflexivity).
    f_equal. rewrite <- (IH (S i) Hnd'). apply forallb_ext_in. intros q Hq. unfold has_slot.
    rewrite slot_of_other by (apply Hne; exact Hq). reflexivity.
  - destruct (is_kwonly p) eqn:Ek.
    + unfold has_slot at 1. rewrite slot_of_head. f_equal.
      rewrite <- (IH i Hnd'). apply forallb_ext_in. intros q Hq. unfold has_slot.
      rewrite slot_of_other by (apply Hne; exact Hq). reflexivity.
    + (* a star parameter has no slot: its name is not a key *)
      assert (Hs : has_slot (assign_pos r i n) (pname p) = false).
      { unfold has_slot, slot_of. assert (F : forall sl, (forall e, In e sl -> fst e <> pname p) ->
                 find (fun e : nat * option src => Nat.eqb (fst e) (pname p)) sl = None).
        { induction sl as [|e sl IHs]; intro H; [reflexivity|]. simpl. destruct (Nat.eqb (fst e) (pname p)) eqn:E.
          - apply Nat.eqb_eq in E. exfalso. apply (H e (or_introl eq_refl)). exact E.
          - apply IHs. intros e' He'. apply H. right. exact He'. }
        rewrite F; [reflexivity|]. intros e He E. apply Hnot. rewrite <- E. eapply assign_keys. exact He. }
      rewrite Hs. f_equal. apply IH. exact Hnd'.
Qed.

(* set_slot *)
Lemma set_slot_some : forall k v sl sl', set_slot k v sl = Some sl' ->
  slot_of sl k = None /\ map fst sl' = map fst sl /\ (forall m, slot_of sl' m = if Nat.eqb m k then Some v else slot_of sl m).
Proof.
  intros k v. induction sl as [|[n o] sl IH]; intros sl' H; simpl in H; [discriminate|].
  destruct (Nat.eqb n k) eqn:E.
  - apply Nat.eqb_eq in E. subst n. destruct o; [discriminate|]. inversion H. subst sl'. split; [apply slot_of_head|]. split; [reflexivity|].
    intro m. destruct (Nat.eqb m k) eqn:Em.
    + apply Nat.eqb_eq in Em. subst. apply slot_of_head.
    + apply Nat.eqb_neq in Em. rewrite !slot_of_other by exact Em. reflexivity.
  - destruct (set_slot k v sl) as [r'|] eqn:S; [|discriminate]. inversion H. subst sl'.
    destruct (IH r' eq_refl) as [I1 [I2 I3]]. apply Nat.eqb_neq in E. split; [rewrite slot_of_other by congruence; exact I1|].
    split; [simpl; f_equal; exact I2|]. intro m. destruct (Nat.eqb m n) eqn:Emn.
    + apply Nat.eqb_eq in Emn. subst m. rewrite !slot_of_head. destruct (Nat.eqb n k) eqn:X; [apply Nat.eqb_eq in X; congruence|reflexivity].
    + apply Nat.eqb_neq in Emn. rewrite !slot_of_other by exact Emn. apply I3.
Qed.

Lemma set_slot_none : forall k v sl, set_slot k v sl = None -> In k (map fst sl) -> slot_of sl k <> None.
Proof.
  intros k v. induction sl as [|[n o] sl IH]; intros H Hin; simpl in *; [contradiction|].
  destruct (Nat.eqb n k) eqn:E.
  - apply Nat.eqb_eq in E. subst. rewrite slot_of_head. destruct o; [discriminate|discriminate].
  - apply Nat.eqb_neq in E. rewrite slot_of_other by congruence. destruct (set_slot k v sl) eqn:S; [discriminate|].
    apply IH; [reflexivity|]. destruct Hin as [X|X]; [contradiction|exact X].
Qed.

Lemma mem_cons : forall m k r, mem m (k :: r) = Nat.eqb m k || mem m r.
Proof. reflexivity. Qed.

(* the keyword phase of the reference *)
Lemma py_kws_spec : forall ps star2 kws sl extra, NoDup kws ->
  (forall k, known ps k = true -> In k (map fst sl)) ->
  match py_kws ps star2 kws sl extra with
  | Some (sl', _) =>
    (forall k, In k kws -> if known ps k then slot_of sl k = None else star2 = true)
    /\ (forall m, has_slot sl' m = has_slot sl m || (mem m kws && known ps m))
  | None => exists k, In k kws /\ (if known ps k then slot_of sl k <> None else star2 = false)
  end.
Proof.
  intros ps star2. induction kws as [|k r IH]; intros sl extra Hnd Hkeys.
  - simpl. split; [intros; contradiction|]. intro m. rewrite orb_false_r. reflexivity.
  - inversion Hnd as [|x l Hnot Hnd']. subst. simpl py_kws. fold (known ps k).
    destruct (known ps k) eqn:Kk.
    + destruct (set_slot k (SKw k) sl) as [sl1|] eqn:S.
      * destruct (set_slot_some _ _ _ _ S) as [S1 [S2 S3]].
        assert (Hkeys1 : forall k0, known ps k0 = true -> In k0 (map fst sl1)) by (intros; rewrite S2; auto).
        specialize (IH sl1 extra Hnd' Hkeys1). destruct (py_kws ps star2 r sl1 extra) as [[sl' ex']|].
        -- destruct IH as [I1 I2]. split.
           ++ intros k0 [E|Hin]; [subst; rewrite Kk; exact S1|]. specialize (I1 k0 Hin). destruct (known ps k0); [|exact I1].
              rewrite S3 in I1. destruct (Nat.eqb k0 k) eqn:X; [discriminate|exact I1].
           ++ intro m. rewrite I2. unfold has_slot. rewrite S3. rewrite mem_cons. destruct (Nat.eqb m k) eqn:X.
              ** apply Nat.eqb_eq in X. subst. rewrite Kk. simpl. rewrite orb_true_r. reflexivity.
              ** simpl. reflexivity.
        -- destruct IH as [k0 [Hin Hc]]. exists k0. split; [right; exact Hin|]. destruct (known ps k0); [|exact Hc].
           rewrite S3 in Hc. destruct (Nat.eqb k0 k) eqn:X; [|exact Hc]. apply Nat.eqb_eq in X. subst. contradiction.
      * exists k. split; [left; reflexivity|]. rewrite Kk. apply (set_slot_none _ _ _ S). apply Hkeys. exact Kk.
    + destruct star2.
      * specialize (IH sl (k :: extra) Hnd' Hkeys). destruct (py_kws ps true r sl (k :: extra)) as [[sl' ex']|].
        -- destruct IH as [I1 I2]. split.
           ++ intros k0 [E|Hin]; [subst; rewrite Kk; reflexivity|apply I1; exact Hin].
           ++ intro m. rewrite I2. rewrite mem_cons. destruct (Nat.eqb m k) eqn:X; [|reflexivity].
              apply Nat.eqb_eq in X. subst. rewrite Kk. rewrite !andb_false_r. reflexivity.
        -- destruct IH as [k0 [Hin Hc]]. exists k0. split; [right; exact Hin|exact Hc].
      * exists k. split; [left; reflexivity|]. rewrite Kk. reflexivity.
Qed.

Lemma kw_slot_known : forall ps k, kw_slot (map to_formal ps) k = known ps k.
Proof.
  unfold kw_slot, known. induction ps as [|p ps IH]; intro k; [reflexivity|]. simpl. rewrite IH. f_equal.
  unfold named_by, to_formal. simpl. destruct (posonly p); simpl; [rewrite andb_false_r; reflexivity|rewrite andb_true_r; reflexivity].
Qed.

Lemma has_star2_map : forall ps, has_kind is_star2 (map to_formal ps) = has ARG_STAR2 ps.
Proof.
  unfold has_kind, has, grp. induction ps as [|p ps IH]; [reflexivity|]. simpl.
  destruct (pk p); simpl; try exact IH; reflexivity.
Qed.

Lemma In_mem : forall k l, In k l -> mem k l = true.
Proof. intros k l H. unfold mem. apply existsb_exists. exists k. split; [exact H|apply Nat.eqb_refl]. Qed.
Lemma mem_In : forall k l, mem k l = true -> In k l.
Proof. intros k l H. unfold mem in H. apply existsb_exists in H. destruct H as [x [H1 H2]]. apply Nat.eqb_eq in H2. subst. exact H1. Qed.

Lemma assign_has_key : forall n ps i p, In p ps -> is_star (pk p) = false -> In (pname p) (map fst (assign_pos ps i n)).
Proof.
  intros n. induction ps as [|q ps IH]; intros i p Hin Hs; [contradiction|]. simpl.
  destruct Hin as [E|Hin].
  - subst q. unfold is_pos_param, is_kwonly. destruct (pk p); simpl in *; try discriminate; left; reflexivity.
  - destruct (is_pos_param q); [right; apply IH; assumption|]. destruct (is_kwonly q); [right; apply IH; assumption|apply IH; assumption].
Qed.

Lemma known_own : forall ps p, NoDup (map pname ps) -> In p ps -> is_star (pk p) = false ->
  known ps (pname p) = negb (posonly p).
Proof.
  intros ps p Hnd Hin Hs. unfold known. destruct (posonly p) eqn:Po; simpl.
  - destruct (existsb _ ps) eqn:E; [|reflexivity]. apply existsb_exists in E. destruct E as [q [Hq Hc]].
    apply andb_true_iff in Hc. destruct Hc as [Hc _]. apply andb_true_iff in Hc. destruct Hc as [Hn Hpo].
    apply Nat.eqb_eq in Hn. assert (q = p); [|subst; rewrite Po in Hpo; discriminate].
    clear - Hnd Hin Hq Hn. induction ps as [|x ps IH]; [contradiction|]. simpl in Hnd. inversion Hnd. subst.
    destruct Hin as [A|A]; destruct Hq as [B|B]; subst; try reflexivity.
    + exfalso. apply H1. rewrite <- Hn. apply in_map. exact B.
    + exfalso. apply H1. rewrite Hn. apply in_map. exact A.
    + apply IH; assumption.
  - apply existsb_exists. exists p. split; [exact Hin|]. rewrite Nat.eqb_refl, Po, Hs. reflexivity.
Qed.

Theorem reference_accept_unbounded : forall ps c, NoDup (map pname ps) -> NoDup (kws c) ->
  accepted (py_bind ps c) = bind_ok (cpython_bind (map to_formal ps) c).
Proof.
  intros ps [n kws] Hnd Hkw. simpl in Hkw. unfold cpython_bind, py_bind. simpl npos. simpl Bind.kws.
  rewrite co_argcount_map, has_star_map, has_star2_map.
  replace (copy_pos (map to_formal ps) n) with (copy_pos (map to_formal ps) (n - 0)) by (rewrite Nat.sub_0_r; reflexivity).
  rewrite copy_pos_walk. rewrite <- (walk_slots (G kws) n ps 0 Hnd).
  assert (E1 : existsb (fun k => negb (kw_slot (map to_formal ps) k) && negb (has ARG_STAR2 ps)) kws
               = existsb (fun k => negb (known ps k) && negb (has ARG_STAR2 ps)) kws).
  { induction kws as [|k r IH]; [reflexivity|]. simpl. rewrite kw_slot_known. f_equal. apply IH. inversion Hkw. assumption. }
  rewrite E1. clear E1.
  destruct ((length (filter is_pos_param ps) <? n) && negb (has ARG_STAR ps)) eqn:A.
  { destruct (existsb _ kws); reflexivity. }
  set (S0 := assign_pos ps 0 n).
  assert (Hkeys : forall k, known ps k = true -> In k (map fst S0)).
  { intros k Hk. unfold known in Hk. apply existsb_exists in Hk. destruct Hk as [p [Hp Hc]].
    apply andb_true_iff in Hc. destruct Hc as [Hc Hs]. apply andb_true_iff in Hc. destruct Hc as [Hn _].
    apply Nat.eqb_eq in Hn. subst k. apply assign_has_key; [exact Hp|]. apply negb_true_iff in Hs. exact Hs. }
  pose proof (py_kws_spec ps (has ARG_STAR2 ps) kws S0 [] Hkw Hkeys) as HS.
  destruct (py_kws ps (has ARG_STAR2 ps) kws S0 []) as [[sl' ex']|].
  - destruct HS as [I1 I2].
    assert (E : existsb (fun k => negb (known ps k) && negb (has ARG_STAR2 ps)) kws = false).
    { destruct (existsb _ kws) eqn:X; [|reflexivity]. apply existsb_exists in X. destruct X as [k [Hk Hc]].
      specialize (I1 k Hk). destruct (known ps k); [discriminate|]. rewrite I1 in Hc. discriminate. }
    rewrite E.
    assert (F : forallb (fun p => negb (is_required (pk p)) || match slot_of sl' (pname p) with Some _ => true | None => false end) ps
                = forallb (fun p => G kws p (has_slot S0 (pname p))) ps).
    { apply forallb_ext_in. intros p Hp. fold (has_slot sl' (pname p)). rewrite I2. unfold G.
      destruct (is_star (pk p)) eqn:Hs.
      - assert (R : is_required (pk p) = false) by (destruct (pk p); simpl in *; try discriminate; reflexivity). rewrite R. reflexivity.
      - rewrite (known_own ps p Hnd Hp Hs). simpl. replace (mem (pname p) kws && negb (posonly p)) with (kp kws p) by (unfold kp; apply andb_comm).
        destruct (kp kws p) eqn:Kp.
        + unfold kp in Kp. apply andb_true_iff in Kp. destruct Kp as [K1 K2].
          specialize (I1 (pname p) (mem_In _ _ K2)). rewrite (known_own ps p Hnd Hp Hs) in I1. rewrite K1 in I1.
          unfold has_slot. rewrite I1. simpl. rewrite !orb_true_r. reflexivity.
        + rewrite andb_false_r. simpl. rewrite !orb_false_r. reflexivity. }
    rewrite F. clear F. destruct (forallb (fun p => G kws p (has_slot S0 (pname p))) ps); reflexivity.
  - destruct HS as [k [Hk Hc]]. destruct (known ps k) eqn:Kk.
    + (* keyword names a parameter that already has a positional argument *)
      unfold known in Kk. apply existsb_exists in Kk. destruct Kk as [p [Hp Hcc]].
      apply andb_true_iff in Hcc. destruct Hcc as [Hcc Hs]. apply andb_true_iff in Hcc. destruct Hcc as [Hn Hpo].
      apply Nat.eqb_eq in Hn. subst k. apply negb_true_iff in Hs.
      assert (W : forallb (fun p0 => G kws p0 (has_slot S0 (pname p0))) ps = false).
      { destruct (forallb _ ps) eqn:X; [|reflexivity]. rewrite forallb_forall in X. specialize (X p Hp). unfold G in X.
        rewrite Hs in X. simpl in X. unfold kp in X. rewrite Hpo, (In_mem _ _ Hk) in X. simpl in X.
        unfold has_slot in X. destruct (slot_of S0 (pname p)); [simpl in X; discriminate|contradiction Hc; reflexivity]. }
      rewrite W. destruct (existsb _ kws); reflexivity.
    + assert (E : existsb (fun k0 => negb (known ps k0) && negb (has ARG_STAR2 ps)) kws = true).
      { apply existsb_exists. exists k. split; [exact Hk|]. rewrite Kk, Hc. reflexivity. }
      rewrite E. reflexivity.
Qed.
