(* C05 (b): soundness of the two translation validators of PassValidators.v. *)
From Coq Require Import List PArith Bool Lia.
From C05 Require Import PassValidators.
Import ListNotations.

(* ------------------------------------------------------------------ syntactic lemmas *)
Lemma peqb_eq : forall a b, Pos.eqb a b = true -> a = b.
Proof. intros a b H. apply Pos.eqb_eq. exact H. Qed.

Lemma operand_eqb_eq : forall a b, operand_eqb a b = true -> a = b.
Proof. destruct a, b; simpl; intro H; try discriminate; apply peqb_eq in H; subst; reflexivity. Qed.

Lemma list_eqb_eq : forall A (eqb : A -> A -> bool),
  (forall x y, eqb x y = true -> x = y) -> forall a b, list_eqb eqb a b = true -> a = b.
Proof.
  intros A eqb He. induction a; destruct b; simpl; intro H; try discriminate; auto.
  apply andb_true_iff in H. destruct H as [H1 H2]. f_equal; auto.
Qed.

Lemma op_eqb_eq : forall a b, op_eqb a b = true -> a = b.
Proof.
  destruct a, b; simpl; intro H; try discriminate.
  - apply andb_true_iff in H. destruct H as [H1 H2]. apply peqb_eq in H1. apply operand_eqb_eq in H2. subst. reflexivity.
  - apply andb_true_iff in H. destruct H as [H H3]. apply andb_true_iff in H. destruct H as [H1 H2].
    apply peqb_eq in H1. apply peqb_eq in H2. apply (list_eqb_eq _ _ operand_eqb_eq) in H3. subst. reflexivity.
Qed.

Lemma term_eqb_eq : forall a b, term_eqb a b = true -> a = b.
Proof.
  destruct a, b; simpl; intro H; try discriminate.
  - apply peqb_eq in H. subst. reflexivity.
  - repeat (apply andb_true_iff in H; destruct H as [H ?]).
    apply peqb_eq in H. apply Bool.eqb_prop in H3. apply operand_eqb_eq in H2. apply peqb_eq in H1. apply peqb_eq in H0.
    subst. reflexivity.
  - apply operand_eqb_eq in H. subst. reflexivity.
  - reflexivity.
Qed.

Lemma block_eqb_eq : forall a b, block_eqb a b = true -> a = b.
Proof.
  intros [o t] [o' t']. unfold block_eqb. simpl. intro H. apply andb_true_iff in H. destruct H as [H1 H2].
  apply (list_eqb_eq _ _ op_eqb_eq) in H1. apply term_eqb_eq in H2. subst. reflexivity.
Qed.

Arguments pmem x l : simpl never.

Lemma pmem_cons : forall x y l, pmem x (y :: l) = Pos.eqb x y || pmem x l.
Proof. reflexivity. Qed.

Lemma pmem_filter : forall f x l, pmem x (filter f l) = true -> pmem x l = true /\ f x = true.
Proof.
  intros f x. induction l; simpl; intro H; [cbv in H; discriminate|].
  destruct (f a) eqn:Fa.
  - rewrite pmem_cons in H. apply orb_true_iff in H. destruct H as [H|H].
    + pose proof (peqb_eq _ _ H). subst. split; [|exact Fa]. rewrite pmem_cons. rewrite Pos.eqb_refl. reflexivity.
    + destruct (IHl H) as [H1 H2]. split; [|exact H2]. rewrite pmem_cons. rewrite H1. apply orb_true_r.
  - destruct (IHl H) as [H1 H2]. split; [|exact H2]. rewrite pmem_cons. rewrite H1. apply orb_true_r.
Qed.

Lemma pmem_incl : forall a b x, incl_b a b = true -> pmem x a = true -> pmem x b = true.
Proof.
  unfold incl_b. induction a; simpl; intros b x H Hx; [cbv in Hx; discriminate|].
  apply andb_true_iff in H. destruct H as [H1 H2].
  rewrite pmem_cons in Hx. apply orb_true_iff in Hx. destruct Hx as [Hx|Hx].
  - apply peqb_eq in Hx. subst. exact H1.
  - apply IHa; assumption.
Qed.

Lemma passoc_In : forall A k (l : list (positive * A)) a, passoc k l = Some a -> In (k, a) l.
Proof.
  induction l as [|[k' a'] l]; simpl; intros a H; [discriminate|].
  destruct (Pos.eqb k k') eqn:E.
  - apply peqb_eq in E. inversion H. subst. left. reflexivity.
  - right. apply IHl. exact H.
Qed.

Section Proofs.
  Variables val world : Type.
  Variable lit_val : positive -> val.
  Variable op_sem : positive -> list val -> world -> val * world.
  Variable truthy : positive -> val -> bool.
  Variable br_eff : positive -> bool -> world -> world.

  Notation env := (env val).
  Notation eval := (eval val lit_val).
  Notation upd := (upd val).
  Notation exec_op := (exec_op val world lit_val op_sem).
  Notation exec_ops := (exec_ops val world lit_val op_sem).
  Notation run := (run val world lit_val op_sem truthy br_eff).
  Notation runs := (runs val world lit_val op_sem truthy br_eff).
  Notation diverges := (diverges val world lit_val op_sem truthy br_eff).
  Notation equivalent := (equivalent val world lit_val op_sem truthy br_eff).
  Notation OOF := (OutOfFuel val world).

  Lemma upd_same : forall (e : env) d v, upd e d v d = v.
  Proof. intros. unfold PassValidators.upd. rewrite Pos.eqb_refl. reflexivity. Qed.

  Lemma upd_other : forall (e : env) d v x, x <> d -> upd e d v x = e x.
  Proof. intros. unfold PassValidators.upd. destruct (Pos.eqb x d) eqn:E; [apply peqb_eq in E; contradiction|reflexivity]. Qed.

  Lemma eval_upd_other : forall (e : env) d v t, t <> OVar d -> eval (upd e d v) t = eval e t.
  Proof.
    intros e d v [x|k] H; simpl; [|reflexivity]. apply upd_other. intro. subst. apply H. reflexivity.
  Qed.

  Lemma exec_ops_app : forall a b st, exec_ops (a ++ b) st = exec_ops b (exec_ops a st).
  Proof. induction a; simpl; intros; [reflexivity|apply IHa]. Qed.

  Lemma run_S : forall f n l e w,
    run f (S n) l e w =
    match find_block f l with
    | None => Stuck val world w
    | Some b =>
      let st := exec_ops (b_ops b) (e, w) in
      match b_term b with
      | Goto l' => run f n l' (fst st) (snd st)
      | Branch k neg v lt lf =>
        let c := xorb neg (truthy k (eval (fst st) v)) in
        run f n (if c then lt else lf) (fst st) (br_eff k c (snd st))
      | Return v => Ret val world (eval (fst st) v) (snd st)
      | Unreachable => Unreach val world (snd st)
      end
    end.
  Proof. reflexivity. Qed.

  Lemma run_mono : forall f n l e w, run f n l e w <> OOF -> run f (S n) l e w = run f n l e w.
  Proof.
    intros f. induction n; intros l e w H.
    - simpl in H. contradiction H. reflexivity.
    - rewrite (run_S f (S n)). rewrite (run_S f n) in H. rewrite (run_S f n).
      destruct (find_block f l) as [b|]; [|reflexivity].
      cbv zeta in *. destruct (b_term b); try reflexivity.
      + apply IHn. exact H.
      + apply IHn. exact H.
  Qed.

  (* ================================================================ copy propagation *)
  Section CopyProp.
    Variable h : chint.
    Hypothesis Hok : hint_ok h = true.

    Definition stable (t : operand) : Prop :=
      match t with OVar z => passoc z h = None | OLit _ => True end.

    Lemma range_stable : forall y t, passoc y h = Some t -> stable t.
    Proof.
      intros y t H. apply passoc_In in H. unfold hint_ok in Hok. rewrite forallb_forall in Hok.
      specialize (Hok _ H). simpl in Hok. destruct t as [z|k]; simpl; [|exact I].
      destruct (passoc z h); [discriminate|reflexivity].
    Qed.

    (* the simulation relation: registers the pass did not remove agree, and every removed
       register recorded in A currently equals its replacement *)
    Definition R (A : list positive) (eb ea : env) : Prop :=
      (forall x, passoc x h = None -> eb x = ea x) /\
      (forall y t, pmem y A = true -> passoc y h = Some t -> eb y = eval eb t).

    Lemma stable_agree : forall A eb ea t, R A eb ea -> stable t -> eval eb t = eval ea t.
    Proof. intros A eb ea [z|k] [H1 _] Hs; simpl in *; [apply H1; exact Hs|reflexivity]. Qed.

    Lemma val_of_b : forall A eb ea s t, R A eb ea -> val_of h A s = Some t -> eval eb s = eval eb t.
    Proof.
      intros A eb ea [x|k] t HR H; simpl in H.
      - destruct (passoc x h) as [t0|] eqn:E.
        + destruct (pmem x A) eqn:M; [|discriminate]. inversion H. subst. simpl. destruct HR as [_ H2]. apply H2; assumption.
        + inversion H. reflexivity.
      - inversion H. reflexivity.
    Qed.

    Lemma val_of_stable : forall A s t, val_of h A s = Some t -> stable t.
    Proof.
      intros A [x|k] t H; simpl in H.
      - destruct (passoc x h) as [t0|] eqn:E.
        + destruct (pmem x A); [|discriminate]. inversion H. subst. eapply range_stable. exact E.
        + inversion H. subst. simpl. exact E.
      - inversion H. simpl. exact I.
    Qed.

    Lemma val_of_sound : forall A eb ea s t, R A eb ea -> val_of h A s = Some t -> eval eb s = eval ea t.
    Proof.
      intros. rewrite (val_of_b A eb ea s t); auto. eapply stable_agree; eauto. eapply val_of_stable; eauto.
    Qed.

    Lemma vals_of_sound : forall A eb ea ss ts, R A eb ea -> vals_of h A ss = Some ts ->
      map (eval eb) ss = map (eval ea) ts.
    Proof.
      intros A eb ea. induction ss; simpl; intros ts HR H.
      - inversion H. reflexivity.
      - destruct (val_of h A a) eqn:E1; [|discriminate]. destruct (vals_of h A ss) eqn:E2; [|discriminate].
        inversion H. subst. simpl. f_equal; [eapply val_of_sound; eauto|apply IHss; auto].
    Qed.

    Lemma kill_spec : forall d A y, pmem y (kill h d A) = true ->
      pmem y A = true /\ y <> d /\ (forall t, passoc y h = Some t -> t <> OVar d).
    Proof.
      intros d A y H. unfold kill in H. apply pmem_filter in H. destruct H as [H1 H2].
      apply andb_true_iff in H2. destruct H2 as [H2 H3]. split; [exact H1|]. split.
      - intro. subst. rewrite Pos.eqb_refl in H2. discriminate.
      - intros t Ht Heq. subst. rewrite Ht in H3. rewrite Pos.eqb_refl in H3. discriminate.
    Qed.

    Lemma kill_R : forall A eb ea d vb va, R A eb ea -> (passoc d h = None -> vb = va) ->
      R (kill h d A) (upd eb d vb) (upd ea d va).
    Proof.
      intros A eb ea d vb va [H1 H2] Hv. split.
      - intros x Hx. unfold PassValidators.upd. destruct (Pos.eqb x d) eqn:E.
        + apply peqb_eq in E. subst. apply Hv. exact Hx.
        + apply H1. exact Hx.
      - intros y t Hy Ht. apply kill_spec in Hy. destruct Hy as [Hy [Hd Hn]].
        rewrite upd_other by exact Hd. rewrite eval_upd_other by (apply Hn; exact Ht). apply H2; assumption.
    Qed.

    Lemma kill_R_removed : forall A eb ea d t vb, R A eb ea -> passoc d h = Some t ->
      R (kill h d A) (upd eb d vb) ea.
    Proof.
      intros A eb ea d t vb [H1 H2] Hd. split.
      - intros x Hx. rewrite upd_other; [apply H1; exact Hx|]. intro. subst. rewrite Hd in Hx. discriminate.
      - intros y t' Hy Ht. apply kill_spec in Hy. destruct Hy as [Hy [Hyd Hn]].
        rewrite upd_other by exact Hyd. rewrite eval_upd_other by (apply Hn; exact Ht). apply H2; assumption.
    Qed.

    Lemma R_incl : forall A A' eb ea, incl_b A' A = true -> R A eb ea -> R A' eb ea.
    Proof.
      intros A A' eb ea Hi [H1 H2]. split; [exact H1|]. intros y t Hy Ht. apply H2; [|exact Ht].
      eapply pmem_incl; eauto.
    Qed.

    Lemma check_ops_sound : forall bs afs A Aout eb ea w,
      check_ops h A bs afs = Some Aout -> R A eb ea ->
      R Aout (fst (exec_ops bs (eb, w))) (fst (exec_ops afs (ea, w)))
      /\ snd (exec_ops bs (eb, w)) = snd (exec_ops afs (ea, w)).
    Proof.
      induction bs as [|o bs IH]; intros afs A Aout eb ea w Hc HR.
      - simpl in Hc. destruct afs; [|discriminate]. inversion Hc. subst. simpl. split; [exact HR|reflexivity].
      - destruct o as [d s|d f args].
        + simpl in Hc. destruct (passoc d h) as [t|] eqn:Ed.
          * (* deleted assignment *)
            simpl. apply IH with (A := if match val_of h A s with
                                            | Some t' => operand_eqb t' t && negb (operand_eqb t (OVar d))
                                            | None => false end then d :: kill h d A else kill h d A); [exact Hc|].
            pose proof (kill_R_removed A eb ea d t (eval eb s) HR Ed) as HK.
            destruct (val_of h A s) as [t'|] eqn:Ev; [|exact HK].
            destruct (operand_eqb t' t && negb (operand_eqb t (OVar d))) eqn:G; [|exact HK].
            apply andb_true_iff in G. destruct G as [G1 G2]. apply operand_eqb_eq in G1. subst t'.
            assert (Hne : t <> OVar d).
            { intro. subst. simpl in G2. rewrite Pos.eqb_refl in G2. discriminate. }
            destruct HK as [K1 K2]. split; [exact K1|].
            intros y t0 Hy Ht0. rewrite pmem_cons in Hy. destruct (Pos.eqb y d) eqn:Eyd.
            -- apply peqb_eq in Eyd. subst y. rewrite Ed in Ht0. inversion Ht0. subst t0.
               rewrite upd_same. rewrite eval_upd_other by exact Hne. eapply val_of_b; eauto.
            -- simpl in Hy. apply K2; assumption.
          * destruct afs as [|[d' s'|] afs']; try discriminate.
            destruct (val_of h A s) as [t'|] eqn:Ev; [|discriminate].
            destruct (Pos.eqb d d' && operand_eqb s' t') eqn:G; [|discriminate].
            apply andb_true_iff in G. destruct G as [G1 G2]. apply peqb_eq in G1. apply operand_eqb_eq in G2. subst.
            simpl. apply IH with (A := kill h d' A); [exact Hc|].
            apply kill_R; [exact HR|]. intros _. eapply val_of_sound; eauto.
        + simpl in Hc. destruct afs as [|[|d' f' args'] afs']; try discriminate.
          destruct (vals_of h A args) as [ts|] eqn:Ev; [|discriminate].
          destruct (Pos.eqb d d' && Pos.eqb f f' && list_eqb operand_eqb args' ts) eqn:G; [|discriminate].
          apply andb_true_iff in G. destruct G as [G G3]. apply andb_true_iff in G. destruct G as [G1 G2].
          apply peqb_eq in G1. apply peqb_eq in G2. apply (list_eqb_eq _ _ operand_eqb_eq) in G3. subst.
          simpl. rewrite (vals_of_sound A eb ea args ts HR Ev).
          apply IH with (A := kill h d' A); [exact Hc|].
          apply kill_R; [exact HR|]. intros _. reflexivity.
    Qed.

    Variable ann : cann.

    Lemma check_blocks_lookup : forall fb fa l, check_blocks h ann fb fa = true ->
      match find_block fb l with
      | Some bb => exists ba, find_block fa l = Some ba /\ check_block h ann l bb ba = true
      | None => find_block fa l = None
      end.
    Proof.
      induction fb as [|[l0 bb] fb IH]; intros fa l H; destruct fa as [|[l1 ba] fa]; simpl in H; try discriminate.
      - reflexivity.
      - apply andb_true_iff in H. destruct H as [H H3]. apply andb_true_iff in H. destruct H as [H1 H2].
        apply peqb_eq in H1. subst l1. simpl. destruct (Pos.eqb l l0) eqn:E.
        + apply peqb_eq in E. subst. exists ba. split; [reflexivity|exact H2].
        + apply IH. exact H3.
    Qed.

    Lemma copyprop_run : forall fb fa, check_blocks h ann fb fa = true ->
      forall n l eb ea w, R (ann_of ann l) eb ea -> run fb n l eb w = run fa n l ea w.
    Proof.
      intros fb fa Hc. induction n; intros l eb ea w HR; [reflexivity|].
      rewrite !run_S. pose proof (check_blocks_lookup fb fa l Hc) as HL.
      destruct (find_block fb l) as [bb|].
      - destruct HL as [ba [Hfa Hcb]]. rewrite Hfa. unfold check_block in Hcb.
        destruct (check_ops h (ann_of ann l) (b_ops bb) (b_ops ba)) as [Aout|] eqn:Eo; [|discriminate].
        apply andb_true_iff in Hcb. destruct Hcb as [Ht Hs].
        destruct (check_ops_sound _ _ _ _ eb ea w Eo HR) as [HR' Hw].
        cbv zeta. set (stb := exec_ops (b_ops bb) (eb, w)) in *. set (sta := exec_ops (b_ops ba) (ea, w)) in *.
        destruct (b_term bb) as [l'|k neg v lt lf|v|]; destruct (b_term ba) as [l2|k2 neg2 v2 lt2 lf2|v2|]; simpl in Ht; try discriminate.
        + apply peqb_eq in Ht. subst l2. rewrite Hw. apply IHn. simpl in Hs. apply andb_true_iff in Hs. destruct Hs as [Hs _].
          eapply R_incl; eauto.
        + destruct (val_of h Aout v) as [u|] eqn:Ev; [|discriminate].
          repeat (apply andb_true_iff in Ht; destruct Ht as [Ht ?]).
          apply peqb_eq in Ht. apply Bool.eqb_prop in H2. apply operand_eqb_eq in H1. apply peqb_eq in H0. apply peqb_eq in H. subst.
          rewrite (val_of_sound Aout _ _ v u HR' Ev). rewrite Hw.
          simpl in Hs. apply andb_true_iff in Hs. destruct Hs as [Hs1 Hs2]. apply andb_true_iff in Hs2. destruct Hs2 as [Hs2 _].
          destruct (xorb neg2 (truthy k2 (eval (fst sta) u))); apply IHn; eapply R_incl; eauto.
        + destruct (val_of h Aout v) as [u|] eqn:Ev; [|discriminate]. apply operand_eqb_eq in Ht. subst.
          rewrite (val_of_sound Aout _ _ v u HR' Ev). rewrite Hw. reflexivity.
        + rewrite Hw. reflexivity.
      - rewrite HL. reflexivity.
    Qed.
  End CopyProp.

  Theorem validate_copyprop_run : forall h ann before after,
    validate_copyprop h ann before after = true ->
    forall n e w, run before n (entry_label before) e w = run after n (entry_label after) e w.
  Proof.
    intros h ann fb fa H n e w. unfold validate_copyprop in H.
    apply andb_true_iff in H. destruct H as [H H4]. apply andb_true_iff in H. destruct H as [H H3].
    apply andb_true_iff in H. destruct H as [H1 H2]. apply peqb_eq in H3. rewrite <- H3.
    apply (copyprop_run h H1 ann fb fa H4).
    destruct (ann_of ann (entry_label fb)) eqn:E; [|discriminate].
    split; [reflexivity|]. intros y t Hy. cbv in Hy. discriminate.
  Qed.

  Lemma same_runs_equivalent : forall f g,
    (forall n e w, run f n (entry_label f) e w = run g n (entry_label g) e w) -> equivalent f g.
  Proof.
    intros f g H e w. split.
    - intro o. split; intros [n [Hn Ho]]; exists n; split; auto; [rewrite <- H|rewrite H]; exact Hn.
    - split; intros Hd n; [rewrite <- H|rewrite H]; apply Hd.
  Qed.

  Theorem validate_copyprop_sound : forall h ann before after,
    validate_copyprop h ann before after = true -> equivalent before after.
  Proof. intros. apply same_runs_equivalent. eapply validate_copyprop_run. eauto. Qed.

  (* ================================================================ flag elimination *)
  Section FlagElim.
    Variable fh : fhint.

    Definition agree (eb ea : env) : Prop := forall x, is_flag fh x = false -> eb x = ea x.

    Lemma noflag_eval : forall eb ea o, agree eb ea -> operand_noflag fh o = true -> eval eb o = eval ea o.
    Proof.
      intros eb ea [x|k] Ha H; simpl in *; [|reflexivity]. apply Ha. destruct (is_flag fh x); [discriminate|reflexivity].
    Qed.

    Lemma noflag_evals : forall eb ea os, agree eb ea -> forallb (operand_noflag fh) os = true ->
      map (eval eb) os = map (eval ea) os.
    Proof.
      intros eb ea. induction os; simpl; intros Ha H; [reflexivity|].
      apply andb_true_iff in H. destruct H as [H1 H2]. f_equal; [apply noflag_eval; assumption|apply IHos; assumption].
    Qed.

    Lemma agree_upd : forall eb ea d v, agree eb ea -> agree (upd eb d v) (upd ea d v).
    Proof. intros eb ea d v Ha x Hx. unfold PassValidators.upd. destruct (Pos.eqb x d); [reflexivity|apply Ha; exact Hx]. Qed.

    Lemma agree_upd_flag : forall eb ea b v, agree eb ea -> is_flag fh b = true -> agree (upd eb b v) ea.
    Proof.
      intros eb ea b v Ha Hb x Hx. rewrite upd_other; [apply Ha; exact Hx|]. intro. subst. rewrite Hb in Hx. discriminate.
    Qed.

    Lemma exec_ops_agree : forall ops eb ea w, agree eb ea -> forallb (op_noflag fh) ops = true ->
      agree (fst (exec_ops ops (eb, w))) (fst (exec_ops ops (ea, w)))
      /\ snd (exec_ops ops (eb, w)) = snd (exec_ops ops (ea, w)).
    Proof.
      induction ops as [|o ops IH]; intros eb ea w Ha H; simpl.
      - split; [exact Ha|reflexivity].
      - simpl in H. apply andb_true_iff in H. destruct H as [H1 H2]. destruct o as [d s|d f args]; simpl in *.
        + rewrite (noflag_eval eb ea s Ha H1). apply IH; [apply agree_upd; exact Ha|exact H2].
        + rewrite (noflag_evals eb ea args Ha H1). apply IH; [apply agree_upd; exact Ha|exact H2].
    Qed.

    Lemma flag_of_label_is_flag : forall L b, flag_of_label fh L = Some b -> is_flag fh b = true.
    Proof.
      unfold is_flag. induction fh as [|[b0 l0] r IH]; simpl; intros L b H; [discriminate|].
      destruct (Pos.eqb L l0) eqn:E.
      - inversion H. subst. rewrite Pos.eqb_refl. reflexivity.
      - destruct (Pos.eqb b b0); [reflexivity|]. eapply IH. exact H.
    Qed.

    Lemma split_last_app : forall A (l : list A) i z, split_last l = Some (i, z) -> l = i ++ [z].
    Proof.
      induction l as [|x l IH]; intros i z H; [discriminate|].
      destruct l as [|y l'].
      - simpl in H. inversion H. reflexivity.
      - change (split_last (x :: y :: l')) with (match split_last (y :: l') with Some (i, z) => Some (x :: i, z) | None => None end) in H.
        destruct (split_last (y :: l')) as [[i' z']|] eqn:E; [|discriminate]. inversion H. subst.
        rewrite (IH i' z eq_refl). reflexivity.
    Qed.

    Variables fb fa : func.

    Lemma fe_blocks_lookup : forall whole xb xa l, fe_blocks fh whole xb xa = true -> flag_of_label fh l = None ->
      match find_block xb l with
      | Some bb => exists ba, fe_expected fh whole l bb = Some ba /\ find_block xa l = Some ba /\ block_ok fh ba = true
      | None => find_block xa l = None
      end.
    Proof.
      intros whole. induction xb as [|[l0 bb] xb IH]; intros xa l H Hl.
      - simpl in H. destruct xa; [reflexivity|discriminate].
      - simpl in H. destruct (flag_of_label fh l0) as [b|] eqn:E0.
        + apply andb_true_iff in H. destruct H as [_ H].
          assert (Hne : Pos.eqb l l0 = false).
          { destruct (Pos.eqb l l0) eqn:E; [|reflexivity]. apply peqb_eq in E. subst. rewrite E0 in Hl. discriminate. }
          simpl. rewrite Hne. specialize (IH _ l H Hl).
          destruct xa as [|[l1 ba1] xa]; [exact IH|].
          destruct (Pos.eqb l0 l1) eqn:E1; [|exact IH].
          apply peqb_eq in E1. subst l1. simpl. rewrite Hne. exact IH.
        + destruct xa as [|[l1 ba1] xa]; [discriminate|].
          apply andb_true_iff in H. destruct H as [H H4]. apply andb_true_iff in H. destruct H as [H H3].
          apply andb_true_iff in H. destruct H as [H1 H2]. apply peqb_eq in H1. subst l1.
          simpl. destruct (Pos.eqb l l0) eqn:E.
          * apply peqb_eq in E. subst l0. destruct (fe_expected fh whole l bb) as [x|] eqn:Ex; [|discriminate].
            apply block_eqb_eq in H2. subst x. exists ba1. auto.
          * apply IH; assumption.
    Qed.

    Hypothesis Hblocks : fe_blocks fh fb fb fa = true.

    (* one block step of BEFORE versus AFTER, as a case analysis shared by both directions *)
    Inductive step_rel (l : positive) : Prop :=
    | sr_missing : find_block fb l = None -> find_block fa l = None -> step_rel l
    | sr_same : forall bb, find_block fb l = Some bb -> find_block fa l = Some bb -> block_ok fh bb = true -> step_rel l
    | sr_rewritten : forall bb ops0 b s L k neg lt lf,
        find_block fb l = Some bb -> b_ops bb = ops0 ++ [Assign b s] -> b_term bb = Goto L ->
        is_flag fh b = true ->
        find_block fb L = Some (mkB [] (Branch k neg (OVar b) lt lf)) ->
        find_block fa l = Some (mkB ops0 (Branch k neg s lt lf)) ->
        block_ok fh (mkB ops0 (Branch k neg s lt lf)) = true -> step_rel l.

    Lemma step_cases : forall l, flag_of_label fh l = None -> step_rel l.
    Proof.
      intros l Hl. pose proof (fe_blocks_lookup fb fb fa l Hblocks Hl) as H.
      destruct (find_block fb l) as [bb|] eqn:Eb; [|apply sr_missing; auto].
      destruct H as [ba [Hx [Hfa Hok]]]. unfold fe_expected in Hx.
      destruct (b_term bb) as [L| | |] eqn:Et; try (inversion Hx; subst; eapply sr_same; eauto; fail).
      destruct (flag_of_label fh L) as [b|] eqn:EL; [|inversion Hx; subst; eapply sr_same; eauto].
      destruct (split_last (b_ops bb)) as [[ops0 [b' s|]]|] eqn:Es; try discriminate.
      destruct (find_block fb L) as [[[|] [|k neg [b''|] lt lf| |]]|] eqn:EfL; try discriminate.
      destruct (Pos.eqb b' b && Pos.eqb b'' b) eqn:G; [|discriminate].
      apply andb_true_iff in G. destruct G as [G1 G2]. apply peqb_eq in G1. apply peqb_eq in G2. subst b' b''.
      inversion Hx. subst ba.
      eapply sr_rewritten; eauto.
      - apply split_last_app. exact Es.
      - eapply flag_of_label_is_flag. exact EL.
    Qed.

    Lemma label_noflag_none : forall l, label_noflag fh l = true -> flag_of_label fh l = None.
    Proof. intros l H. unfold label_noflag in H. destruct (flag_of_label fh l); [discriminate|reflexivity]. Qed.

    (* AFTER terminates within n blocks  ==>  BEFORE gives the same outcome within 2n blocks *)
    Lemma fe_after_before : forall n l eb ea w, flag_of_label fh l = None -> agree eb ea ->
      run fa n l ea w <> OOF -> run fb (2 * n) l eb w = run fa n l ea w.
    Proof.
      induction n; intros l eb ea w Hl Ha Hn; [simpl in Hn; contradiction Hn; reflexivity|].
      replace (2 * S n) with (S (S (2 * n))) by lia.
      rewrite (run_S fa n) in *. rewrite (run_S fb (S (2 * n))).
      destruct (step_cases l Hl) as [Hb Hfa|bb Hb Hfa Hok|bb ops0 b s L k neg lt lf Hb Hops Hterm Hflag HbL Hfa Hok].
      - rewrite Hb, Hfa. reflexivity.
      - rewrite Hb. rewrite Hfa in *. cbv zeta in *.
        unfold block_ok in Hok. apply andb_true_iff in Hok. destruct Hok as [Ho Ht].
        destruct (exec_ops_agree (b_ops bb) eb ea w Ha Ho) as [Ha' Hw].
        set (stb := exec_ops (b_ops bb) (eb, w)) in *. set (sta := exec_ops (b_ops bb) (ea, w)) in *.
        destruct (b_term bb) as [l'|k neg v lt lf|v|]; simpl in Ht.
        + rewrite Hw. rewrite run_mono; rewrite (IHn l' (fst stb) (fst sta) (snd sta) (label_noflag_none _ Ht) Ha' Hn); auto.
        + apply andb_true_iff in Ht. destruct Ht as [Ht Ht3]. apply andb_true_iff in Ht. destruct Ht as [Ht1 Ht2].
          rewrite (noflag_eval _ _ v Ha' Ht1). rewrite Hw.
          destruct (xorb neg (truthy k (eval (fst sta) v))).
          * rewrite run_mono; rewrite (IHn lt (fst stb) (fst sta) _ (label_noflag_none _ Ht2) Ha' Hn); auto.
          * rewrite run_mono; rewrite (IHn lf (fst stb) (fst sta) _ (label_noflag_none _ Ht3) Ha' Hn); auto.
        + rewrite (noflag_eval _ _ v Ha' Ht). rewrite Hw. reflexivity.
        + rewrite Hw. reflexivity.
      - rewrite Hb. rewrite Hfa in *. cbv zeta in *. rewrite Hterm. rewrite Hops. rewrite exec_ops_app.
        unfold block_ok in Hok. simpl in Hok. apply andb_true_iff in Hok. destruct Hok as [Ho Ht].
        apply andb_true_iff in Ht. destruct Ht as [Ht Ht3]. apply andb_true_iff in Ht. destruct Ht as [Ht1 Ht2].
        simpl in Hn |- *.
        destruct (exec_ops_agree ops0 eb ea w Ha Ho) as [Ha' Hw].
        set (stb := exec_ops ops0 (eb, w)) in *. set (sta := exec_ops ops0 (ea, w)) in *.
        try rewrite (run_S fb (2 * n)). rewrite HbL. cbv zeta. simpl.
        rewrite upd_same. rewrite (noflag_eval _ _ s Ha' Ht1). rewrite Hw.
        destruct (xorb neg (truthy k (eval (fst sta) s))).
        + apply IHn; [apply label_noflag_none; exact Ht2|apply agree_upd_flag; assumption|exact Hn].
        + apply IHn; [apply label_noflag_none; exact Ht3|apply agree_upd_flag; assumption|exact Hn].
    Qed.

    (* BEFORE terminates within n blocks  ==>  AFTER gives the same outcome within n blocks *)
    Lemma fe_before_after : forall n l eb ea w, flag_of_label fh l = None -> agree eb ea ->
      run fb n l eb w <> OOF -> run fa n l ea w = run fb n l eb w.
    Proof.
      induction n; intros l eb ea w Hl Ha Hn; [simpl in Hn; contradiction Hn; reflexivity|].
      rewrite (run_S fb n) in *. rewrite (run_S fa n).
      destruct (step_cases l Hl) as [Hb Hfa|bb Hb Hfa Hok|bb ops0 b s L k neg lt lf Hb Hops Hterm Hflag HbL Hfa Hok].
      - rewrite Hb, Hfa. reflexivity.
      - rewrite Hfa. rewrite Hb in *. cbv zeta in *.
        unfold block_ok in Hok. apply andb_true_iff in Hok. destruct Hok as [Ho Ht].
        destruct (exec_ops_agree (b_ops bb) eb ea w Ha Ho) as [Ha' Hw].
        set (stb := exec_ops (b_ops bb) (eb, w)) in *. set (sta := exec_ops (b_ops bb) (ea, w)) in *.
        destruct (b_term bb) as [l'|k neg v lt lf|v|]; simpl in Ht.
        + rewrite <- Hw. apply IHn; [apply label_noflag_none; exact Ht|exact Ha'|exact Hn].
        + apply andb_true_iff in Ht. destruct Ht as [Ht Ht3]. apply andb_true_iff in Ht. destruct Ht as [Ht1 Ht2].
          rewrite <- (noflag_eval _ _ v Ha' Ht1). rewrite <- Hw.
          destruct (xorb neg (truthy k (eval (fst stb) v))).
          * apply IHn; [apply label_noflag_none; exact Ht2|exact Ha'|exact Hn].
          * apply IHn; [apply label_noflag_none; exact Ht3|exact Ha'|exact Hn].
        + rewrite <- (noflag_eval _ _ v Ha' Ht). rewrite <- Hw. reflexivity.
        + rewrite <- Hw. reflexivity.
      - rewrite Hfa. rewrite Hb in *. cbv zeta in *. rewrite Hterm in *. rewrite Hops in *. rewrite exec_ops_app in *.
        unfold block_ok in Hok. simpl in Hok. apply andb_true_iff in Hok. destruct Hok as [Ho Ht].
        apply andb_true_iff in Ht. destruct Ht as [Ht Ht3]. apply andb_true_iff in Ht. destruct Ht as [Ht1 Ht2].
        simpl in Hn |- *.
        destruct (exec_ops_agree ops0 eb ea w Ha Ho) as [Ha' Hw].
        set (stb := exec_ops ops0 (eb, w)) in *. set (sta := exec_ops ops0 (ea, w)) in *.
        destruct n as [|n']; [simpl in Hn; contradiction Hn; reflexivity|].
        rewrite (run_S fb n') in *. rewrite HbL in *. cbv zeta in *. simpl in Hn |- *.
        rewrite upd_same in *. rewrite <- (noflag_eval _ _ s Ha' Ht1). rewrite <- Hw.
        destruct (xorb neg (truthy k (eval (fst stb) s))).
        + rewrite <- (run_mono fb n') by exact Hn. rewrite <- (run_mono fb n') in Hn by exact Hn.
          apply IHn; [apply label_noflag_none; exact Ht2|apply agree_upd_flag; assumption|exact Hn].
        + rewrite <- (run_mono fb n') by exact Hn. rewrite <- (run_mono fb n') in Hn by exact Hn.
          apply IHn; [apply label_noflag_none; exact Ht3|apply agree_upd_flag; assumption|exact Hn].
    Qed.
  End FlagElim.

  Theorem validate_flagelim_sound : forall fh before after,
    validate_flagelim fh before after = true -> equivalent before after.
  Proof.
    intros fh fb fa H. unfold validate_flagelim in H.
    apply andb_true_iff in H. destruct H as [H H3]. apply andb_true_iff in H. destruct H as [H1 H2].
    apply peqb_eq in H2. apply label_noflag_none in H1.
    assert (Hag : forall e : env, agree fh e e) by (intros e x _; reflexivity).
    intros e w. split.
    - intro o. split; intros [n [Hn Ho]].
      + exists n. rewrite <- H2. split; [|exact Ho]. rewrite <- Hn. apply (fe_before_after fh fb fa H3); auto. rewrite Hn. exact Ho.
      + exists (2 * n). split; [|exact Ho]. rewrite <- Hn. rewrite <- H2. apply (fe_after_before fh fb fa H3); auto.
        rewrite H2. rewrite Hn. exact Ho.
    - split; intros Hd n.
      + destruct (run fa n (entry_label fa) e w) eqn:E; try reflexivity;
          (rewrite <- H2 in E; pose proof (fe_after_before fh fb fa H3 n (entry_label fb) e e w H1 (Hag e)) as X;
           rewrite E in X; rewrite Hd in X; (assert (C : OOF = OOF -> False) by (intro; apply X; [discriminate|]; fail)) || (exfalso; specialize (X ltac:(discriminate)); discriminate)).
      + destruct (run fb n (entry_label fb) e w) eqn:E; try reflexivity;
          (pose proof (fe_before_after fh fb fa H3 n (entry_label fb) e e w H1 (Hag e)) as X;
           rewrite E in X; rewrite H2 in X; rewrite Hd in X; exfalso; specialize (X ltac:(discriminate)); discriminate).
  Qed.
End Proofs.
