(* C05 (a2): ClassIR.has_method / method_decl / subclasses / is_method_final (mypyc/ir/class_ir.py) over the class
   tables of Vtable.v.  `is_method_final(c, n)` licenses STATIC dispatch of n on a reference of static type c
   (emitfunc direct calls, `a == b` -> identity, Optional truthiness shortcuts, ...). *)
From Coq Require Import List PArith Bool.
From C05 Require Import Vtable VtableProofs.
Import ListNotations.

(* ClassIR.subclasses(): every class that has c in its mro (children are recorded for bases AND traits) *)
Definition subclasses (ct : ctable) (c : cname) : list cls :=
  filter (fun dc => pmem c (c_mro dc) && negb (Pos.eqb (c_name dc) c)) ct.

Definition has_method (ct : ctable) (cl : cls) (n : mname) : bool :=
  match lookup ct (c_mro cl) n with Some _ => true | None => false end.

(* subc.method_decl(name) is the same FuncDecl: same defining class *)
Definition same_decl (a b : option (cname * sigid)) : bool :=
  match a, b with
  | Some (d, _), Some (d', _) => Pos.eqb d d'
  | _, _ => false
  end.

Definition is_method_final (ct : ctable) (cl : cls) (n : mname) : bool :=
  let subs := subclasses ct (c_name cl) in
  if has_method ct cl n
  then forallb (fun dc => same_decl (lookup ct (c_mro dc) n) (lookup ct (c_mro cl) n)) subs
  else negb (existsb (fun dc => has_method ct dc n) subs).

Lemma In_pmem : forall x l, In x l -> pmem x l = true.
Proof. intros x l H. unfold pmem. apply existsb_exists. exists x. split; [exact H|apply Pos.eqb_refl]. Qed.

(* is_method_final is true exactly when EVERY subclass (transitively, through bases and traits) resolves n to the
   very implementation the class itself resolves it to (none, if the class has none) *)
Theorem is_method_final_correct : forall ct c cl n,
  wf_ct ct = true -> find_cls ct c = Some cl ->
  (is_method_final ct cl n = true <->
   forall d dc, find_cls ct d = Some dc -> In c (c_mro dc) -> d <> c -> mro_lookup ct d n = mro_lookup ct c n).
Proof.
  intros ct c cl n Hwf Hc. pose proof (wf_ct_WF ct Hwf) as W.
  destruct (find_cls_some _ _ _ Hc) as [Hin Hnm]. subst c.
  assert (Hsub : forall dc, In dc (subclasses ct (c_name cl)) <->
                  In dc ct /\ In (c_name cl) (c_mro dc) /\ c_name dc <> c_name cl).
  { intro dc. unfold subclasses. rewrite filter_In. split.
    - intros [H1 H2]. apply andb_true_iff in H2. destruct H2 as [H2 H3]. split; [exact H1|]. split; [apply pmem_In; exact H2|].
      intro E. rewrite E in H3. rewrite Pos.eqb_refl in H3. discriminate.
    - intros [H1 [H2 H3]]. split; [exact H1|]. apply andb_true_iff. split; [apply In_pmem; exact H2|].
      destruct (Pos.eqb (c_name dc) (c_name cl)) eqn:E; [apply peqb_eq in E; contradiction|reflexivity]. }
  assert (Hml : forall dc, In dc ct -> mro_lookup ct (c_name dc) n =
                  match lookup ct (c_mro dc) n with Some (d, _) => Some (d, n) | None => None end).
  { intros dc Hd. unfold mro_lookup, get_method. rewrite (find_cls_unique ct dc (wf_nodup ct W) Hd). reflexivity. }
  unfold is_method_final, has_method. split.
  - intros H d dc Hf Hm Hne. destruct (find_cls_some _ _ _ Hf) as [Hd Hdn]. subst d.
    assert (Hs : In dc (subclasses ct (c_name cl))) by (apply Hsub; auto).
    rewrite (Hml dc Hd), (Hml cl Hin).
    destruct (lookup ct (c_mro cl) n) as [[dd s]|] eqn:Lc.
    + rewrite forallb_forall in H. specialize (H dc Hs). unfold same_decl in H.
      destruct (lookup ct (c_mro dc) n) as [[d2 s2]|]; [|discriminate]. apply peqb_eq in H. subst. reflexivity.
    + apply negb_true_iff in H. destruct (lookup ct (c_mro dc) n) as [[d2 s2]|] eqn:Ld; [|reflexivity].
      exfalso. assert (X : existsb (fun dc0 => match lookup ct (c_mro dc0) n with Some _ => true | None => false end)
                                  (subclasses ct (c_name cl)) = true).
      { apply existsb_exists. exists dc. split; [exact Hs|]. rewrite Ld. reflexivity. }
      rewrite X in H. discriminate.
  - intro H.
    assert (Hall : forall dc, In dc (subclasses ct (c_name cl)) ->
              match lookup ct (c_mro dc) n with Some (d, _) => Some (d, n) | None => None end =
              match lookup ct (c_mro cl) n with Some (d, _) => Some (d, n) | None => None end).
    { intros dc Hs. apply Hsub in Hs. destruct Hs as [Hd [Hm Hne]].
      rewrite <- (Hml dc Hd), <- (Hml cl Hin). apply (H (c_name dc) dc); auto. apply find_cls_unique; [apply (wf_nodup ct W)|exact Hd]. }
    destruct (lookup ct (c_mro cl) n) as [[dd s]|] eqn:Lc.
    + apply forallb_forall. intros dc Hs. specialize (Hall dc Hs). unfold same_decl.
      destruct (lookup ct (c_mro dc) n) as [[d2 s2]|]; [|discriminate]. inversion Hall. apply Pos.eqb_refl.
    + apply negb_true_iff. destruct (existsb _ (subclasses ct (c_name cl))) eqn:E; [|reflexivity].
      apply existsb_exists in E. destruct E as [dc [Hs Hh]]. specialize (Hall dc Hs).
      destruct (lookup ct (c_mro dc) n) as [[d2 s2]|]; [discriminate|discriminate].
Qed.
