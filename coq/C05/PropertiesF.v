(* Property C05 core (a2): when mypyc may dispatch a method statically. *)
From Coq Require Import List PArith Bool.
From C05 Require Import Vtable VtableProofs Final.
Import ListNotations.
Open Scope positive_scope.

Theorem is_method_final_correct : forall ct c cl n,
  wf_ct ct = true -> find_cls ct c = Some cl ->
  (is_method_final ct cl n = true <->
   forall d dc, find_cls ct d = Some dc -> In c (c_mro dc) -> d <> c -> mro_lookup ct d n = mro_lookup ct c n).
Proof. exact Final.is_method_final_correct. Qed.
Print Assumptions is_method_final_correct.

(* trait T(1) provides method 5 (__eq__); class C(2) has none; D(3) = D(C, T) only inherits it: not final on C *)
Definition ex_eq_ct : ctable :=
  [ mkCls 1 true None [1] [(5, 1)] []; mkCls 2 false None [2] [(6, 1)] []; mkCls 3 false (Some 2) [3; 2; 1] [] [] ].
Example ex_inherited_from_trait_not_final :
  wf_ct ex_eq_ct = true /\
  is_method_final ex_eq_ct (mkCls 2 false None [2] [(6, 1)] []) 5 = false /\
  is_method_final ex_eq_ct (mkCls 2 false None [2] [(6, 1)] []) 6 = true /\
  mro_lookup ex_eq_ct 3 5 = Some (1, 5) /\ mro_lookup ex_eq_ct 2 5 = None.
Proof. vm_compute. repeat split; reflexivity. Qed.
