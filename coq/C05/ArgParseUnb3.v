(* C05 (c), UNBOUNDED part 3: on purely positional calls the value-level reference py_bind accepts exactly the calls
   C12's transcription of ceval.c (cpython_bind) accepts -- for every parameter list with distinct names. *)
From Coq Require Import List Arith Bool PeanoNat Lia.
From C12 Require Import Bind.
From C05 Require Import ArgParse ArgParseUnb.
Import ListNotations.

Lemma copy_pos_req : forall n ps i,
  forallb2 (slot_cond []) (map to_formal ps) (copy_pos (map to_formal ps) (n - i)) = req_ok ps i n.
Proof.
  intros n. induction ps as [|p ps IH]; intro i; [reflexivity|].
  simpl map. simpl copy_pos. simpl req_ok. unfold is_pos_param, is_kwonly.
  destruct (pk p) eqn:K; simpl; unfold slot_cond; simpl; rewrite ?K; simpl.
  all: try (replace (Nat.pred (n - i)) with (n - S i) by lia).
  all: try rewrite IH.
  all: try (replace (0 <? n - i) with (i <? n) by (destruct (i <? n) eqn:E; [apply Nat.ltb_lt in E; symmetry; apply Nat.ltb_lt; lia|apply Nat.ltb_ge in E; symmetry; apply Nat.ltb_ge; lia])).
  all: rewrite ?andb_true_r, ?orb_false_r, ?andb_false_r; try reflexivity.
  all: destruct (i <? n); reflexivity.
Qed.

Lemma co_argcount_map : forall ps, co_argcount (map to_formal ps) = length (filter is_pos_param ps).
Proof.
  unfold co_argcount. induction ps as [|p ps IH]; [reflexivity|]. simpl. unfold is_pos_param at 1.
  destruct (is_positional (pk p)); simpl; rewrite IH; reflexivity.
Qed.

Lemma has_star_map : forall ps, has_kind is_star1 (map to_formal ps) = has ARG_STAR ps.
Proof.
  unfold has_kind, has, grp. induction ps as [|p ps IH]; [reflexivity|]. simpl.
  destruct (pk p); simpl; try exact IH; reflexivity.
Qed.

Definition bind_ok (r : bind_result) : bool := match r with BindOk => true | TypeError => false end.

Theorem positional_reference_unbounded : forall ps n, NoDup (map pname ps) ->
  accepted (py_bind ps (mkCall n [])) = bind_ok (cpython_bind (map to_formal ps) (mkCall n [])).
Proof.
  intros ps n Hnd. rewrite py_bind_positional. rewrite (required_slots n ps 0 Hnd).
  unfold cpython_bind. simpl kws. simpl npos. simpl existsb.
  rewrite co_argcount_map, has_star_map.
  destruct ((length (filter is_pos_param ps) <? n) && negb (has ARG_STAR ps)); [reflexivity|]. simpl.
  rewrite <- (copy_pos_req n ps 0). rewrite Nat.sub_0_r.
  destruct (forallb2 (slot_cond []) (map to_formal ps) (copy_pos (map to_formal ps) n)); reflexivity.
Qed.
