(* C05 (c): the wrapper argument parser equals CPython's binding rule -- on the fully enumerated domain of
   all `def` parameter lists with at most 5 parameters and all calls with at most 6 positional and 3 keyword
   actuals over the parameter names plus one foreign name (bounds are part of the statements). *)
From Coq Require Import List Arith Bool PeanoNat.
From C12 Require Import Bind.
From C05 Require Import ArgParse.
Import ListNotations.

Lemma all_agree_spec : forall f g ss cs, all_agree f g ss cs = true ->
  forall ps c, In ps ss -> In c cs -> same_outcome ps (f ps c) (g ps c) = true.
Proof.
  unfold all_agree. intros f g ss cs H ps c Hp Hc. rewrite forallb_forall in H. specialize (H ps Hp).
  rewrite forallb_forall in H. exact (H c Hc).
Qed.

Lemma nats_eqb_eq : forall a b, nats_eqb a b = true -> a = b.
Proof.
  induction a; destruct b; simpl; intro H; try discriminate; auto.
  apply andb_true_iff in H. destruct H as [H1 H2]. apply Nat.eqb_eq in H1. subst. f_equal. auto.
Qed.

Lemma src_eqb_eq : forall a b, src_eqb a b = true -> a = b.
Proof.
  destruct a as [[i|i]|], b as [[j|j]|]; simpl; intro H; try discriminate; try reflexivity;
    apply Nat.eqb_eq in H; subst; reflexivity.
Qed.

(* what same_outcome = true means *)
Lemma same_outcome_spec : forall ps a b, same_outcome ps a b = true ->
  match a, b with
  | None, None => True                                           (* both raise TypeError *)
  | Some x, Some y =>
    (forall p, In p ps -> is_star (pk p) = false ->
               slot_of (b_slots x) (pname p) = slot_of (b_slots y) (pname p))       (* same actual in every parameter *)
    /\ b_star x = b_star y /\ b_kwstar x = b_kwstar y                               (* same *args, same **kwargs *)
  | _, _ => False
  end.
Proof.
  intros ps [x|] [y|] H; simpl in H; try discriminate; auto.
  apply andb_true_iff in H. destruct H as [H H3]. apply andb_true_iff in H. destruct H as [H1 H2].
  split; [|split; apply nats_eqb_eq; assumption].
  intros p Hp Hs. rewrite forallb_forall in H1. specialize (H1 p Hp). rewrite Hs in H1. simpl in H1.
  apply src_eqb_eq. exact H1.
Qed.

Lemma wrapper_agrees_upto5 : all_agree parse_wrapper py_bind (sigs_with false 5) (calls 5) = true.
Proof. vm_compute. reflexivity. Qed.

Lemma general_agrees_upto5 :
  all_agree (fun ps c => parse_general (make_parser ps) (npos c) (kws c)) py_bind (sigs_with false 5) (calls 5) = true.
Proof. vm_compute. reflexivity. Qed.

Lemma accept_agrees_upto4 : accept_agrees (sigs_with true 4 ++ sigs_with false 4) (calls 4) = true.
Proof. vm_compute. reflexivity. Qed.

Lemma argparse_eq_python_upto5 : forall ps c, In ps (sigs_with false 5) -> In c (calls 5) ->
  same_outcome ps (parse_wrapper ps c) (py_bind ps c) = true
  /\ same_outcome ps (parse_general (make_parser ps) (npos c) (kws c)) (py_bind ps c) = true.
Proof.
  intros ps c Hp Hc. split.
  - exact (all_agree_spec _ _ _ _ wrapper_agrees_upto5 ps c Hp Hc).
  - exact (all_agree_spec _ _ _ _ general_agrees_upto5 ps c Hp Hc).
Qed.

Lemma py_bind_accepts_iff_cpython_bind_upto4 : forall ps c,
  In ps (sigs_with true 4 ++ sigs_with false 4) -> In c (calls 4) ->
  (py_bind ps c <> None <-> cpython_bind (map to_formal ps) c = BindOk).
Proof.
  intros ps c Hp Hc. pose proof accept_agrees_upto4 as H. unfold accept_agrees in H.
  rewrite forallb_forall in H. specialize (H ps Hp). rewrite forallb_forall in H. specialize (H c Hc).
  apply Bool.eqb_prop in H. destruct (py_bind ps c); destruct (cpython_bind (map to_formal ps) c); try discriminate.
  - split; [reflexivity|discriminate].
  - split; [intro X; contradiction X; reflexivity|discriminate].
Qed.

(* positional-only parameters: make_static_kwlist gives them their names, so the C parser treats them as
   keyword-able; the faithful model therefore REFUTES the statement for signatures with `/` *)
Definition po_sig1 : list param := [mkP ARG_POS 1 true; mkP ARG_STAR2 2 false].     (* def f(a, /, **kw) *)
Definition po_sig2 : list param := [mkP ARG_POS 1 true].                            (* def g(a, /)       *)
Lemma argparse_posonly_refuted_witness :
  parse_wrapper po_sig1 (mkCall 1 [1]) = None /\                                     (* f(1, a=2): compiled TypeError *)
  py_bind po_sig1 (mkCall 1 [1]) = Some (mkBound [(1, Some (SPos 0))] [] [1]) /\     (* CPython: a=1, kw={'a': 2} *)
  parse_wrapper po_sig2 (mkCall 0 [1]) = Some (mkBound [(1, Some (SKw 1))] [] []) /\ (* g(a=1): compiled accepts *)
  py_bind po_sig2 (mkCall 0 [1]) = None.                                             (* CPython: TypeError *)
Proof. vm_compute. repeat split; reflexivity. Qed.
