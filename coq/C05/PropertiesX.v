(* Property C05 core (b3): verified translation validation of transform/exceptions.py (insert_exception_handling). *)
From Coq Require Import List PArith Arith Bool.
From C05 Require Import PassValidators Guarded Exc ExcProofs.
Import ListNotations.
Open Scope positive_scope.

(* If the validator accepts, then AFTER (guarded-block form) is exactly BEFORE with, after every op whose error kind is
   not ERR_NEVER, the failure test of that kind going to the block's error handler (or to the default
   `return <error value>` block), and nothing else changed; consequently, for every interpretation of the ops, every
   start label, state and fuel, AFTER run with explicit control flow has exactly the outcome BEFORE has under the
   implicit-exception semantics (Exc.xrun). *)
Theorem validate_exceptions_sound :
  forall (val world : Type) lit_val op_sem truthy br_eff tracked iserr df errsyms before after,
  validate_exceptions df errsyms before after = true ->
  after = expand df before /\
  forall n l s, xrun val world lit_val op_sem truthy br_eff tracked iserr before df n l s
              = grun val world lit_val op_sem truthy br_eff tracked iserr after n l s.
Proof.
  intros val world lit_val op_sem truthy br_eff tracked iserr df errsyms before after H. split.
  - unfold validate_exceptions in H. repeat (apply andb_true_iff in H; destruct H as [H ?]).
    apply gfunc_eqb_eq in H. symmetry. exact H.
  - exact (validate_exceptions_run val world lit_val op_sem truthy br_eff tracked iserr df errsyms before after H).
Qed.
Print Assumptions validate_exceptions_sound.

(* non-vacuity: block 1 (handler 2): r3 = call f (ERR_MAGIC); r4 = g(r3) (ERR_FALSE); r5 = h() :: i64 (overlapping) *)
Definition ex_df : dflt := Some (9, mkG [GOp (Op 30 40 [])] (Return (OVar 30))).
Definition ex_xbefore : xfunc :=
  [ (1, mkXB [mkX (Op 3 10 [OVar 1]) (EMagic 20); mkX (Op 4 11 [OVar 3]) (EFalse 21);
              mkX (Op 5 12 []) (EOverlap [Op 6 13 [OVar 5; OLit 7]] 22 (Op 8 14 []) 23)] (Return (OVar 5)) (Some 2));
    (2, mkXB [mkX (Op 15 16 []) (EAlways 24 50)] Unreachable None) ].
Definition ex_xafter : gfunc :=
  [ (1, mkG [GOp (Op 3 10 [OVar 1]); GGuard 20 false (OVar 3) 2;
             GOp (Op 4 11 [OVar 3]); GGuard 21 true (OVar 4) 2;
             GOp (Op 5 12 []); GOp (Op 6 13 [OVar 5; OLit 7]); GGuard2 22 false (OVar 6) [Op 8 14 []] 23 true (OVar 8) 2]
            (Return (OVar 5)));
    (2, mkG [GOp (Op 15 16 []); GGuard 24 true (OLit 50) 9] Unreachable);
    (9, mkG [GOp (Op 30 40 [])] (Return (OVar 30))) ].
Example ex_exc_accepted : validate_exceptions ex_df [40] ex_xbefore ex_xafter = true.
Proof. vm_compute. reflexivity. Qed.
(* wrong handler (default instead of the block's), missing ERR_FALSE check, missing PyErr_Occurred check: rejected *)
Example ex_exc_rejected :
  validate_exceptions ex_df [40] ex_xbefore
    [ (1, mkG [GOp (Op 3 10 [OVar 1]); GGuard 20 false (OVar 3) 9;
               GOp (Op 4 11 [OVar 3]); GGuard 21 true (OVar 4) 2;
               GOp (Op 5 12 []); GOp (Op 6 13 [OVar 5; OLit 7]); GGuard2 22 false (OVar 6) [Op 8 14 []] 23 true (OVar 8) 2]
              (Return (OVar 5)));
      (2, mkG [GOp (Op 15 16 []); GGuard 24 true (OLit 50) 9] Unreachable);
      (9, mkG [GOp (Op 30 40 [])] (Return (OVar 30))) ] = false
  /\ validate_exceptions ex_df [40] ex_xbefore
    [ (1, mkG [GOp (Op 3 10 [OVar 1]); GGuard 20 false (OVar 3) 2;
               GOp (Op 4 11 [OVar 3]);
               GOp (Op 5 12 []); GOp (Op 6 13 [OVar 5; OLit 7]); GGuard2 22 false (OVar 6) [Op 8 14 []] 23 true (OVar 8) 2]
              (Return (OVar 5)));
      (2, mkG [GOp (Op 15 16 []); GGuard 24 true (OLit 50) 9] Unreachable);
      (9, mkG [GOp (Op 30 40 [])] (Return (OVar 30))) ] = false
  /\ validate_exceptions ex_df [40] ex_xbefore
    [ (1, mkG [GOp (Op 3 10 [OVar 1]); GGuard 20 false (OVar 3) 2;
               GOp (Op 4 11 [OVar 3]); GGuard 21 true (OVar 4) 2;
               GOp (Op 5 12 []); GOp (Op 6 13 [OVar 5; OLit 7]); GGuard 22 false (OVar 6) 2]
              (Return (OVar 5)));
      (2, mkG [GOp (Op 15 16 []); GGuard 24 true (OLit 50) 9] Unreachable);
      (9, mkG [GOp (Op 30 40 [])] (Return (OVar 30))) ] = false.
Proof. vm_compute. repeat split; reflexivity. Qed.
