(* C05 (c), UNBOUNDED part 2: on purely positional calls the C parser also BINDS exactly as CPython does
   (same actual in every parameter, same *args, empty **kwargs), for every parameter list of the Python shape. *)
From Coq Require Import List Arith Bool PeanoNat Lia.
From C12 Require Import Bind.
From C05 Require Import ArgParse ArgParseUnb.
Import ListNotations.

Definition nones (names : list nat) : list (nat * option src) := map (fun m => (m, @None src)) names.

Section Fill.
  Variable P : parser.
  Variable nargs : nat.

  (* what the loop stores for names at indices i, i+1, ... when there are no keywords *)
  Fixpoint fill (i : nat) (names : list nat) : list (nat * option src) :=
    match names with
    | [] => []
    | m :: r => (m, if (i <? nargs) && (i <? p_max P) then Some (SPos i) else None) :: fill (S i) r
    end.

  Lemma fill_nones : forall names i, (i <? nargs) && (i <? p_max P) = false -> fill i names = nones names.
  Proof.
    induction names as [|m r IH]; intros i H; [reflexivity|]. simpl. rewrite H. f_equal. apply IH.
    apply andb_false_iff in H. apply andb_false_iff. destruct H as [H|H]; [left|right]; apply Nat.ltb_ge in H; apply Nat.ltb_ge; lia.
  Qed.

  Lemma loop0_slots : forall names i acc sl nk e,
    loop P nargs [] names i 0 acc = Some (sl, nk, e) -> sl = rev acc ++ fill i names.
  Proof.
    induction names as [|m r IH]; intros i acc sl nk e H; simpl in H.
    - inversion H. rewrite app_nil_r. reflexivity.
    - simpl fill. destruct ((i <? nargs) && (i <? p_max P)) eqn:C.
      + rewrite (IH _ _ _ _ _ H). simpl. rewrite <- app_assoc. reflexivity.
      + simpl in H. destruct ((i <? p_min P) || (p_rk_start P <=? i)); [discriminate|].
        destruct (negb (p_has_req P) && negb (p_args P) && negb (p_kwargs P)).
        * inversion H. subst. f_equal. simpl. f_equal. symmetry. apply fill_nones.
          apply andb_false_iff in C. apply andb_false_iff. destruct C as [C|C]; [left|right]; apply Nat.ltb_ge in C; apply Nat.ltb_ge; lia.
        * rewrite (IH _ _ _ _ _ H). simpl. rewrite <- app_assoc. reflexivity.
  Qed.

  Lemma fill_app : forall a b i, fill i (a ++ b) = fill i a ++ fill (i + length a) b.
  Proof.
    induction a as [|m a IH]; intros b i; simpl; [rewrite Nat.add_0_r; reflexivity|].
    f_equal. rewrite IH. f_equal. f_equal. lia.
  Qed.
End Fill.

Lemma slot_of_app_nones : forall X L m, slot_of (X ++ nones L) m = slot_of X m.
Proof.
  intros X L m. unfold slot_of. induction X as [|[k v] X IH]; simpl.
  - induction L as [|l L IHL]; simpl; [reflexivity|]. destruct (Nat.eqb l m); [reflexivity|exact IHL].
  - destruct (Nat.eqb k m); [reflexivity|exact IH].
Qed.

(* CPython side: positional parameters first *)
Fixpoint fillA (n i : nat) (names : list nat) : list (nat * option src) :=
  match names with
  | [] => []
  | m :: r => (m, if i <? n then Some (SPos i) else None) :: fillA n (S i) r
  end.

Definition kw_names (K : list param) : list nat := map pname (filter is_kwonly K).

Lemma assign_pos_nopos : forall n K i, Forall (fun p => is_pos_param p = false) K -> assign_pos K i n = nones (kw_names K).
Proof.
  intros n. induction K as [|p K IH]; intros i H; [reflexivity|]. inversion H. subst. simpl. rewrite H2.
  unfold kw_names. simpl. destruct (is_kwonly p); simpl; [f_equal|]; apply IH; assumption.
Qed.

Lemma assign_pos_app : forall n PO K i, Forall (fun p => is_pos_param p = true) PO ->
  assign_pos (PO ++ K) i n = fillA n i (map pname PO) ++ assign_pos K (i + length PO) n.
Proof.
  intros n. induction PO as [|p PO IH]; intros K i H; simpl; [rewrite Nat.add_0_r; reflexivity|].
  inversion H. subst. rewrite H2. f_equal. rewrite IH by assumption. f_equal. f_equal. lia.
Qed.

Lemma fill_fillA : forall P n names i, i + length names <= p_max P -> fill P n i names = fillA n i names.
Proof.
  intros P n. induction names as [|m r IH]; intros i H; [reflexivity|]. simpl in *.
  assert (E : (i <? p_max P) = true) by (apply Nat.ltb_lt; lia). rewrite E, andb_true_r. f_equal. apply IH. lia.
Qed.

Lemma nats_eqb_refl : forall l, nats_eqb l l = true.
Proof. induction l; simpl; [reflexivity|]. rewrite Nat.eqb_refl. exact IHl. Qed.
Lemma src_eqb_refl : forall o, src_eqb o o = true.
Proof. destruct o as [[i|i]|]; simpl; try reflexivity; apply Nat.eqb_refl. Qed.

Lemma loop0_early : forall P nargs names i acc sl nk, loop P nargs [] names i 0 acc = Some (sl, nk, true) -> p_args P = false.
Proof.
  intros P nargs. induction names as [|m r IH]; intros i acc sl nk H; simpl in H; [inversion H|].
  destruct ((i <? nargs) && (i <? p_max P)); [eapply IH; eauto|]. simpl in H.
  destruct ((i <? p_min P) || (p_rk_start P <=? i)); [discriminate|].
  destruct (negb (p_has_req P) && negb (p_args P) && negb (p_kwargs P)) eqn:E; [|eapply IH; eauto].
  apply andb_true_iff in E. destruct E as [E _]. apply andb_true_iff in E. destruct E as [_ E]. apply negb_true_iff in E. exact E.
Qed.

Lemma parse_general_positional_result : forall ps n x,
  parse_general (make_parser ps) n [] = Some x ->
  b_slots x = fill (make_parser ps) n 0 (map pname (reordered ps)) /\ b_kwstar x = [] /\
  b_star x = (if has ARG_STAR ps
              then seq (Nat.min n (length (grp ARG_POS ps) + length (grp ARG_OPT ps)))
                       (n - Nat.min n (length (grp ARG_POS ps) + length (grp ARG_OPT ps)))
              else []).
Proof.
  intros ps n x H. unfold parse_general in H.
  destruct ((p_len (make_parser ps) <? n + length (@nil nat)) && negb (p_args (make_parser ps)) && negb (p_kwargs (make_parser ps))); [discriminate|].
  destruct ((p_max (make_parser ps) <? n) && negb (p_args (make_parser ps))); [discriminate|].
  destruct (loop (make_parser ps) n [] (p_kwlist (make_parser ps)) 0 (length (@nil nat)) []) as [[[sl nk] e]|] eqn:EL; [|discriminate].
  simpl length in EL. pose proof (loop0_slots _ _ _ _ _ _ _ _ EL) as Hs. simpl in Hs.
  pose proof (loop0_nk _ _ _ _ _ _ _ _ EL) as Hn. subst nk.
  destruct e.
  - apply loop0_early in EL. inversion H. subst x. simpl. split; [exact Hs|]. split; [reflexivity|].
    simpl in EL. rewrite EL. reflexivity.
  - destruct (p_kwargs (make_parser ps) && (0 <? n) && Nat.eqb (p_len (make_parser ps)) 0 && negb (p_args (make_parser ps))); [discriminate|].
    rewrite (Nat.ltb_irrefl 0) in H. inversion H. subst x. simpl. split; [exact Hs|]. split; [reflexivity|].
    destruct (has ARG_STAR ps); [|reflexivity].
    replace (Nat.min n (Nat.min (length (grp ARG_POS ps) + length (grp ARG_OPT ps))
                                (length (grp ARG_POS ps) + length (grp ARG_OPT ps) + length (grp ARG_NAMED_OPT ps) + length (grp ARG_NAMED ps))))
      with (Nat.min n (length (grp ARG_POS ps) + length (grp ARG_OPT ps))) by lia.
    reflexivity.
Qed.

Lemma py_bind_positional_result : forall ps n y,
  py_bind ps (mkCall n []) = Some y ->
  b_slots y = assign_pos ps 0 n /\ b_kwstar y = [] /\
  b_star y = seq (length (filter is_pos_param ps)) (n - length (filter is_pos_param ps)) /\
  (length (filter is_pos_param ps) <? n) && negb (has ARG_STAR ps) = false.
Proof.
  intros ps n y H. unfold py_bind in H. simpl npos in H. simpl kws in H. simpl py_kws in H.
  destruct ((length (filter is_pos_param ps) <? n) && negb (has ARG_STAR ps)) eqn:E; [discriminate|].
  destruct (forallb _ ps); [|discriminate]. inversion H. subst y. simpl. auto.
Qed.

Lemma kind_eqb_eq : forall a b, kind_eqb a b = true -> a = b.
Proof. destruct a, b; simpl; intro H; try discriminate; reflexivity. Qed.

Lemma grp_app : forall k A B, grp k (A ++ B) = grp k A ++ grp k B.
Proof. intros. unfold grp. apply filter_app. Qed.
Lemma grp_all : forall k L, Forall (fun p => kind_eqb (pk p) k = true) L -> grp k L = L.
Proof. intros k. induction L as [|p L IH]; intro H; [reflexivity|]. inversion H. subst. unfold grp in *. simpl. rewrite H2. f_equal. apply IH. exact H3. Qed.
Lemma grp_none : forall k L, Forall (fun p => kind_eqb (pk p) k = false) L -> grp k L = [].
Proof. intros k. induction L as [|p L IH]; intro H; [reflexivity|]. inversion H. subst. unfold grp in *. simpl. rewrite H2. apply IH. exact H3. Qed.

Lemma Forall_kind : forall (k k' : kind) L, k <> k' ->
  Forall (fun p => kind_eqb (pk p) k = true) L -> Forall (fun p => kind_eqb (pk p) k' = false) L.
Proof.
  intros k k' L Hne H. rewrite Forall_forall in *. intros p Hp. specialize (H p Hp). apply kind_eqb_eq in H. rewrite H.
  destruct k, k'; simpl; try reflexivity; contradiction Hne; reflexivity.
Qed.

(* MAIN (unbounded): positional parameters first (required, then optional), then anything else *)
Theorem positional_bind_unbounded : forall P1 O K n,
  Forall (fun p => kind_eqb (pk p) ARG_POS = true) P1 ->
  Forall (fun p => kind_eqb (pk p) ARG_OPT = true) O ->
  Forall (fun p => is_pos_param p = false) K ->
  NoDup (map pname (P1 ++ O ++ K)) ->
  same_outcome (P1 ++ O ++ K) (parse_general (make_parser (P1 ++ O ++ K)) n []) (py_bind (P1 ++ O ++ K) (mkCall n [])) = true.
Proof.
  intros P1 O K n H1 H2 H3 Hnd. set (ps := P1 ++ O ++ K).
  assert (HK1 : Forall (fun p => kind_eqb (pk p) ARG_POS = false) K).
  { rewrite Forall_forall in *. intros p Hp. specialize (H3 p Hp). unfold is_pos_param in H3. destruct (pk p); simpl in *; try discriminate; reflexivity. }
  assert (HK2 : Forall (fun p => kind_eqb (pk p) ARG_OPT = false) K).
  { rewrite Forall_forall in *. intros p Hp. specialize (H3 p Hp). unfold is_pos_param in H3. destruct (pk p); simpl in *; try discriminate; reflexivity. }
  assert (HR : Forall (fun p => kind_eqb (pk p) ARG_POS = false) (O ++ K)).
  { apply Forall_app. split; [apply (Forall_kind ARG_OPT ARG_POS); [discriminate|exact H2]|exact HK1]. }
  pose proof (positional_accept_unbounded P1 (O ++ K) n H1 HR Hnd) as Hacc. fold ps in Hacc.
  assert (Ga : grp ARG_POS ps = P1).
  { unfold ps. rewrite !grp_app. rewrite (grp_all _ _ H1). rewrite (grp_none _ O (Forall_kind ARG_OPT ARG_POS O ltac:(discriminate) H2)).
    rewrite (grp_none _ K HK1). rewrite !app_nil_r. reflexivity. }
  assert (Gb : grp ARG_OPT ps = O).
  { unfold ps. rewrite !grp_app. rewrite (grp_none _ P1 (Forall_kind ARG_POS ARG_OPT P1 ltac:(discriminate) H1)). rewrite (grp_all _ _ H2).
    rewrite (grp_none _ K HK2). rewrite app_nil_r. reflexivity. }
  assert (Gc : grp ARG_NAMED_OPT ps = grp ARG_NAMED_OPT K).
  { unfold ps. rewrite !grp_app. rewrite (grp_none _ P1 (Forall_kind ARG_POS ARG_NAMED_OPT P1 ltac:(discriminate) H1)).
    rewrite (grp_none _ O (Forall_kind ARG_OPT ARG_NAMED_OPT O ltac:(discriminate) H2)). reflexivity. }
  assert (Gd : grp ARG_NAMED ps = grp ARG_NAMED K).
  { unfold ps. rewrite !grp_app. rewrite (grp_none _ P1 (Forall_kind ARG_POS ARG_NAMED P1 ltac:(discriminate) H1)).
    rewrite (grp_none _ O (Forall_kind ARG_OPT ARG_NAMED O ltac:(discriminate) H2)). reflexivity. }
  destruct (parse_general (make_parser ps) n []) as [x|] eqn:Ex; destruct (py_bind ps (mkCall n [])) as [y|] eqn:Ey;
    simpl in Hacc; try discriminate; [|reflexivity].
  destruct (parse_general_positional_result ps n x Ex) as [Xs [Xk Xt]].
  destruct (py_bind_positional_result ps n y Ey) as [Ys [Yk [Yt Yc]]].
  rewrite npar_groups in Yt, Yc. rewrite Ga, Gb in *.
  set (a := length P1) in *. set (b := length O) in *.
  (* slots *)
  assert (HPO : Forall (fun p => is_pos_param p = true) (P1 ++ O)).
  { apply Forall_app. split; rewrite Forall_forall in *; intros p Hp; [specialize (H1 p Hp)|specialize (H2 p Hp)];
      apply kind_eqb_eq in H1 || apply kind_eqb_eq in H2; unfold is_pos_param; (rewrite H1 || rewrite H2); reflexivity. }
  assert (Ys' : b_slots y = fillA n 0 (map pname (P1 ++ O)) ++ nones (kw_names K)).
  { rewrite Ys. unfold ps. rewrite app_assoc. rewrite (assign_pos_app n (P1 ++ O) K 0 HPO). f_equal. apply assign_pos_nopos. exact H3. }
  assert (Xs' : b_slots x = fillA n 0 (map pname (P1 ++ O)) ++ nones (map pname (grp ARG_NAMED_OPT K ++ grp ARG_NAMED K))).
  { rewrite Xs. unfold reordered. rewrite Ga, Gb, Gc, Gd. rewrite app_assoc. rewrite map_app. rewrite fill_app. f_equal.
    - apply fill_fillA. simpl. rewrite map_length, app_length. unfold make_parser. simpl. rewrite Ga, Gb. lia.
    - apply fill_nones. unfold make_parser. simpl. rewrite Ga, Gb. rewrite map_length, app_length.
      apply andb_false_iff. right. apply Nat.ltb_ge. lia. }
  unfold same_outcome. rewrite Xk, Yk. simpl nats_eqb. rewrite andb_true_r.
  apply andb_true_iff. split.
  - apply forallb_forall. intros p _. rewrite Xs', Ys'. rewrite !slot_of_app_nones. rewrite src_eqb_refl. apply orb_true_r.
  - rewrite Xt, Yt. fold a b. destruct (has ARG_STAR ps) eqn:St.
    + destruct (n <=? a + b) eqn:E; bconv.
      * replace (Nat.min n (a + b)) with n by lia. replace (n - n) with 0 by lia. replace (n - (a + b)) with 0 by lia. reflexivity.
      * replace (Nat.min n (a + b)) with (a + b) by lia. apply nats_eqb_refl.
    + simpl in Yc. rewrite andb_true_r in Yc. bconv. replace (n - (a + b)) with 0 by lia. reflexivity.
Qed.
