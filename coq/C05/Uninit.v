(* C05 (b2): validator for transform/uninit.py (insert_uninit_checks), on guarded blocks (Guarded.v).
   AFTER must be BEFORE plus: definedness guards (IS_ERROR test on the register, or the bitmap idiom for
   registers whose type has no spare error value) placed directly before an op that reads the guarded
   register; bitmap maintenance directly after every assignment to a bitmap-tracked register (set on a
   defining assignment, CLEAR on `del x`); and a prelude in the entry block that marks locals undefined and
   zeroes the bitmaps.  All hints are untrusted. *)
From Coq Require Import List PArith Arith Bool.
From C05 Require Import PassValidators Guarded.
Import ListNotations.

Record uhint := mkUH {
  u_tracked : list positive;                       (* named registers *)
  u_args : list positive;                          (* defined on entry *)
  u_bmt : list (positive * (positive * nat));      (* bitmap-tracked register |-> (bitmap register, bit) *)
  u_defk : list positive;                          (* branch kinds of the inserted IS_ERROR guards *)
  u_iserrk : list positive;                        (* all IS_ERROR branch kinds *)
  u_raise : list positive;                         (* RaiseStandardError(UnboundLocalError ...) symbols *)
  u_ann : list (positive * list positive)          (* block |-> variables claimed defined on entry *)
}.

Definition premove (d : positive) (l : list positive) : list positive := filter (fun y => negb (Pos.eqb y d)) l.

Definition slot_eqb (a b : positive * nat) : bool := Pos.eqb (fst a) (fst b) && Nat.eqb (snd a) (snd b).
Fixpoint bm_reg (t : list (positive * (positive * nat))) (B : positive) (i : nat) : option positive :=
  match t with
  | [] => None
  | (r, s) :: rest => if slot_eqb s (B, i) then Some r else bm_reg rest B i
  end.
(* distinct registers use distinct bits *)
Definition bmt_ok (t : list (positive * (positive * nat))) : bool :=
  forallb (fun p => forallb (fun q => Pos.eqb (fst p) (fst q) || negb (slot_eqb (snd p) (snd q))) t) t.

Definition exit_ok (h : uhint) (after : gfunc) (ex : positive) : bool :=
  match gfind after ex with
  | Some (mkG [GOp (Op _ f [])] Unreachable) => pmem f (u_raise h)
  | _ => false
  end.

(* executing o / the terminator while r is undefined gives UndefRead *)
Definition op_reads_undef (h : uhint) (o : op) (r : positive) : bool :=
  match o with
  | Assign _ (OVar x) => Pos.eqb x r && pmem r (u_tracked h)
  | Assign _ (OLit _) => false
  | Op _ _ args => existsb (fun a => operand_eqb a (OVar r)) args
  end.
Definition term_reads_undef (h : uhint) (t : term) (r : positive) : bool :=
  match t with
  | Branch k _ (OVar x) _ _ => Pos.eqb x r && negb (pmem k (u_iserrk h))
  | Return (OVar x) => Pos.eqb x r
  | _ => false
  end.
Definition next_reads (h : uhint) (bterm : term) (bops : list gop) (r : positive) : bool :=
  match bops with
  | GOp o :: _ => op_reads_undef h o r
  | [] => term_reads_undef h bterm r
  | _ => false
  end.

Definition arg_defined (D : list positive) (a : operand) : bool :=
  match a with OVar x => pmem x D | OLit _ => true end.
Definition reads_defined (h : uhint) (D U : list positive) (o : op) : bool :=
  match o with
  | Assign _ (OVar x) => pmem x D || pmem x U
  | Assign _ (OLit _) => true
  | Op _ _ args => forallb (arg_defined D) args
  end.
Definition term_defined (h : uhint) (D : list positive) (t : term) : bool :=
  match t with
  | Branch k _ (OVar x) _ _ => pmem k (u_iserrk h) || pmem x D
  | Return (OVar x) => pmem x D
  | _ => true
  end.
Definition undef_src (U : list positive) (s : operand) : bool :=
  match s with OVar x => pmem x U | OLit _ => false end.

(* BEFORE ops and AFTER ops of one block in parallel; D = variables known defined, U = temporaries known undefined *)
Fixpoint uwalk (h : uhint) (after : gfunc) (bterm : term) (D U : list positive) (bops aops : list gop)
  : option (list positive * list positive) :=
  match aops with
  | [] => match bops with [] => Some (D, U) | _ => None end
  | GGuard k neg (OVar r) ex :: ar =>
    if negb neg && pmem k (u_defk h) && pmem k (u_iserrk h)
       && match passoc r (u_bmt h) with None => true | Some _ => false end
       && exit_ok h after ex && next_reads h bterm bops r
    then uwalk h after bterm (r :: D) (premove r U) bops ar else None
  | GBmGuard B i ex :: ar =>
    match bm_reg (u_bmt h) B i with
    | Some r => if exit_ok h after ex && next_reads h bterm bops r
                   && match passoc r (u_bmt h) with Some s => slot_eqb s (B, i) | None => false end
                then uwalk h after bterm (r :: D) (premove r U) bops ar else None
    | None => None
    end
  | GOp o' :: ar =>
    match bops with
    | GOp o :: br =>
      if op_eqb o o' && reads_defined h D U o then
        match o with
        | Assign d s =>
          let und := undef_src U s in
          let D' := if und then premove d D else d :: D in
          let U' := premove d U in
          match passoc d (u_bmt h) with
          | None => uwalk h after bterm D' U' br ar
          | Some (B, i) =>
            match ar with
            | GBmSet B' i' :: ar' =>
              if negb und && slot_eqb (B, i) (B', i') then uwalk h after bterm D' U' br ar' else None
            | GBmClr B' i' :: ar' =>
              if und && slot_eqb (B, i) (B', i') then uwalk h after bterm D' U' br ar' else None
            | _ => None
            end
          end
        | Op d _ _ =>
          match passoc d (u_bmt h) with
          | None => uwalk h after bterm (d :: D) (premove d U) br ar
          | Some _ => None
          end
        end
      else None
    | _ => None
    end
  | GUndef e' :: ar =>
    match bops with
    | GUndef e :: br =>
      if Pos.eqb e e' && negb (pmem e (u_tracked h)) && match passoc e (u_bmt h) with None => true | Some _ => false end
      then uwalk h after bterm (premove e D) (e :: U) br ar else None
    | _ => None
    end
  | _ => None
  end.

Definition uann (h : uhint) (l : positive) : list positive :=
  match passoc l (u_ann h) with Some A => A | None => [] end.

Definition ucheck_block (h : uhint) (after : gfunc) (l : positive) (bb ba : gblock) (aops : list gop) : bool :=
  match uwalk h after (g_term bb) (uann h l) [] (g_ops bb) aops with
  | None => false
  | Some (Dout, _) =>
    term_eqb (g_term bb) (g_term ba) && term_defined h Dout (g_term bb)
    && forallb (fun l' => incl_b (uann h l') Dout) (succs (g_term bb))
  end.

(* the prelude of the entry block: (e = <error>; r = e)* for locals, then B = 0 for every bitmap register *)
Fixpoint strip_prelude (h : uhint) (aops : list gop) (inits : list positive) : option (list gop * list positive) :=
  match aops with
  | GUndef e :: GOp (Assign r (OVar e')) :: ar =>
    if Pos.eqb e e' && negb (pmem r (u_args h)) && negb (pmem e (u_args h)) && negb (pmem e (u_tracked h))
    then strip_prelude h ar inits else None
  | GBmInit B :: ar => strip_prelude h ar (B :: inits)
  | _ => Some (aops, inits)
  end.

Definition no_jump_to (l : positive) (f : gfunc) : bool :=
  forallb (fun lb => negb (pmem l (succs (g_term (snd lb))))
                     && forallb (fun g => match g with
                                          | GGuard _ _ _ ex | GBmGuard _ _ ex | GGuard2 _ _ _ _ _ _ _ ex => negb (Pos.eqb ex l)
                                          | _ => true end) (g_ops (snd lb))) f.

Fixpoint ucheck_rest (h : uhint) (after : gfunc) (before : gfunc) : bool :=
  match before with
  | [] => true
  | (l, bb) :: r =>
    match gfind after l with
    | Some ba => ucheck_block h after l bb ba (g_ops ba) && ucheck_rest h after r
    | None => false
    end
  end.

Definition before_plain (f : gfunc) : bool :=
  forallb (fun lb => forallb (fun g => match g with GOp _ | GUndef _ => true | _ => false end) (g_ops (snd lb))) f.

Definition validate_uninit (h : uhint) (before after : gfunc) : bool :=
  match before with
  | [] => false
  | (l0, b0) :: rest =>
    bmt_ok (u_bmt h) && before_plain before
    && Pos.eqb (gentry after) l0
    && no_jump_to l0 after
    && negb (existsb (fun lb => Pos.eqb (fst lb) l0) rest)
    && forallb (fun p => negb (pmem (fst p) (u_args h))) (u_bmt h)            (* a bitmap-tracked register is not an argument *)
    && incl_b (uann h l0) (u_args h)                                           (* only arguments are defined on entry *)
    && match gfind after l0 with
       | None => false
       | Some a0 =>
         match strip_prelude h (g_ops a0) [] with
         | None => false
         | Some (aops, inits) =>
           forallb (fun p => pmem (fst (snd p)) inits) (u_bmt h)               (* every bitmap is zeroed *)
           && ucheck_block h after l0 b0 a0 aops
         end
       end
    && ucheck_rest h after rest
  end.
