(* Property C05 (PARTIAL): proved cores.  Only theorem statements closed by `exact`/`apply`, each followed
   by Print Assumptions, plus Examples showing the hypotheses are satisfiable. *)
From Coq Require Import List PArith Bool.
From C05 Require Import Vtable VtableProofs PassValidators PassProofs Statement.
Import ListNotations.
Open Scope positive_scope.

(* (a) a child's vtable extends the layout of every class on its base chain, slot by slot: same declaring
   class and method name in the same slot -- what makes an indexed call through a parent-typed reference valid *)
Theorem vtable_prefix : forall ct res c p cv pv,
  wf_ct ct = true -> compute_all ct = Some res -> base_chain ct c p ->
  Vtable.passoc c res = Some cv -> Vtable.passoc p res = Some pv ->
  forall i e, nth_error (v_entries pv) i = Some e ->
  exists e', nth_error (v_entries cv) i = Some e' /\ e_cls e = e_cls e' /\ e_name e = e_name e'.
Proof. intros ct res c p cv pv Hwf Hres Hch Hc Hp. exact (chain_prefix ct (wf_ct_WF ct Hwf) res Hres c p Hch cv pv Hc Hp). Qed.
Print Assumptions vtable_prefix.

(* (a) the slot that the STATIC type p assigns to method n, read in the table of the RUN-TIME class c
   (own vtable, or trait vtable for p), holds -- directly or through a glue function -- exactly the
   implementation Python's MRO lookup finds for n on c *)
Theorem vtable_dispatch_eq_mro_lookup : vtable_dispatch_statement.
Proof.
  intros ct res c p n i Hwf Hres [cl Hcl] [[Ht Hch]|[Ht [cl' [Hf [Hnt Hin]]]]] Hs.
  - exact (dispatch_class ct (wf_ct_WF ct Hwf) res Hres c p cl n i Hcl Hch Ht Hs).
  - exact (dispatch_trait ct (wf_ct_WF ct Hwf) res Hres c p cl' n i Hf Hnt Hin Ht Hs).
Qed.
Print Assumptions vtable_dispatch_eq_mro_lookup.

(* (b) an accepted copy-propagation result behaves like its input: same outcome for the same number of
   executed blocks, from every register file and world, for every interpretation of the other ops *)
Theorem validate_copyprop_exact : forall val world lit_val op_sem truthy br_eff h ann before after,
  validate_copyprop h ann before after = true ->
  forall n e w, run val world lit_val op_sem truthy br_eff before n (entry_label before) e w
              = run val world lit_val op_sem truthy br_eff after n (entry_label after) e w.
Proof. exact validate_copyprop_run. Qed.
Print Assumptions validate_copyprop_exact.

Theorem validate_copyprop_sound : forall h ann before after,
  validate_copyprop h ann before after = true -> pass_preserves_semantics before after.
Proof. intros h ann b a H val world lv os tr be. exact (PassProofs.validate_copyprop_sound val world lv os tr be h ann b a H). Qed.
Print Assumptions validate_copyprop_sound.

(* (b) an accepted flag-elimination result behaves like its input (same results, same divergence) *)
Theorem validate_flagelim_sound : forall fh before after,
  validate_flagelim fh before after = true -> pass_preserves_semantics before after.
Proof. intros fh b a H val world lv os tr be. exact (PassProofs.validate_flagelim_sound val world lv os tr be fh b a H). Qed.
Print Assumptions validate_flagelim_sound.

(* ---- non-vacuity *)
(* trait T(1) declares m(2) with signature 1; class B(2) implements T with another signature (glue);
   class C(3) extends B and overrides m again *)
Definition ex_ct : ctable :=
  [ mkCls 1 true None [1] [(2, 1)] [];
    mkCls 2 false None [2; 1] [(2, 2); (3, 1)] [(1, 2)];
    mkCls 3 false (Some 2) [3; 2; 1] [(2, 2)] [(1, 2)] ].
Example ex_ct_wf : wf_ct ex_ct = true.
Proof. vm_compute. reflexivity. Qed.
Example ex_ct_computes : exists res, compute_all ex_ct = Some res /\
  slot_of res 1 2 = Some 0%nat /\
  option_map (fun es => map e_meth es) (view ex_ct res 3 1) = Some [Glue 3 1 2] /\
  option_map (fun es => map e_meth es) (view ex_ct res 3 2) = Some [Impl 3 2; Impl 2 3; Impl 3 2] /\
  mro_lookup ex_ct 3 2 = Some (3, 2).
Proof. eexists. vm_compute. repeat split; reflexivity. Qed.
Example ex_ancestor : ancestor ex_ct 1 3 /\ ancestor ex_ct 2 3.
Proof.
  split.
  - right. split; [reflexivity|]. eexists. split; [reflexivity|]. split; [reflexivity|]. simpl. auto.
  - left. split; [reflexivity|]. eapply bc_step; [reflexivity|reflexivity|apply bc_refl].
Qed.

(* x(v1) := arg(v9); r(v2) := f(x); return r      ~~>     r := f(arg); return r    inside a loop header *)
Definition ex_cp_before : func :=
  [ (1, mkB [Assign 1 (OVar 9)] (Goto 2));
    (2, mkB [Op 2 7 [OVar 1; OLit 4]] (Branch 1 false (OVar 2) 2 3));
    (3, mkB [] (Return (OVar 1))) ].
Definition ex_cp_after : func :=
  [ (1, mkB [] (Goto 2));
    (2, mkB [Op 2 7 [OVar 9; OLit 4]] (Branch 1 false (OVar 2) 2 3));
    (3, mkB [] (Return (OVar 9))) ].
Example ex_cp_accepted : validate_copyprop [(1, OVar 9)] [(2, [1]); (3, [1])] ex_cp_before ex_cp_after = true.
Proof. vm_compute. reflexivity. Qed.
(* the same with the replacement register reassigned in the loop is rejected (no annotation can justify it) *)
Example ex_cp_rejected : validate_copyprop [(1, OVar 9)] [(2, [1]); (3, [1])]
  [ (1, mkB [Assign 1 (OVar 9)] (Goto 2));
    (2, mkB [Op 9 7 [OVar 1; OLit 4]] (Branch 1 false (OVar 9) 2 3));
    (3, mkB [] (Return (OVar 1))) ]
  [ (1, mkB [] (Goto 2));
    (2, mkB [Op 9 7 [OVar 9; OLit 4]] (Branch 1 false (OVar 9) 2 3));
    (3, mkB [] (Return (OVar 9))) ] = false.
Proof. vm_compute. reflexivity. Qed.

(* L1: r0 = f(); b = r0; goto L3   L2: r1 = g(); b = r1; goto L3   L3: if not b goto L4 else goto L5 *)
Definition ex_fe_before : func :=
  [ (6, mkB [] (Branch 1 false (OVar 8) 1 2));
    (1, mkB [Op 10 5 []; Assign 7 (OVar 10)] (Goto 3));
    (2, mkB [Op 11 6 []; Assign 7 (OVar 11)] (Goto 3));
    (3, mkB [] (Branch 1 true (OVar 7) 4 5));
    (4, mkB [] (Return (OLit 1)));
    (5, mkB [] (Return (OLit 2))) ].
Definition ex_fe_after : func :=
  [ (6, mkB [] (Branch 1 false (OVar 8) 1 2));
    (1, mkB [Op 10 5 []] (Branch 1 true (OVar 10) 4 5));
    (2, mkB [Op 11 6 []] (Branch 1 true (OVar 11) 4 5));
    (4, mkB [] (Return (OLit 1)));
    (5, mkB [] (Return (OLit 2))) ].
Example ex_fe_accepted : validate_flagelim [(7, 3)] ex_fe_before ex_fe_after = true.
Proof. vm_compute. reflexivity. Qed.
(* dropping the negation is rejected *)
Example ex_fe_rejected : validate_flagelim [(7, 3)] ex_fe_before
  [ (6, mkB [] (Branch 1 false (OVar 8) 1 2));
    (1, mkB [Op 10 5 []] (Branch 1 false (OVar 10) 4 5));
    (2, mkB [Op 11 6 []] (Branch 1 true (OVar 11) 4 5));
    (4, mkB [] (Return (OLit 1)));
    (5, mkB [] (Return (OLit 2))) ] = false.
Proof. vm_compute. reflexivity. Qed.
