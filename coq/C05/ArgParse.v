(* C05 (c): the argument parsing done by mypyc's vectorcall wrappers
     codegen/emitwrapper.py  generate_wrapper_function / make_arg_groups / reorder_arg_groups /
                             make_static_kwlist / make_format_string   and
     lib-rt/getargsfast.c    parser_init_locked, vgetargskeywordsfast_impl and the NoArgs/OneArg/Simple fast paths
   against CPython's own binding rule (ceval.c initialize_locals), value level: WHICH actual lands in WHICH
   parameter, what goes to *args / **kwargs, and when TypeError is raised.
   The accept/reject part of the reference is C12's `cpython_bind` (imported read-only).
   Executable definitions + the enumeration used by the bounded theorems (ArgParseProofs.v). *)
From Coq Require Import List Arith Bool PeanoNat.
From C12 Require Import Bind.
Import ListNotations.

(* a parameter of a `def`, names are numbers; posonly = declared before `/` *)
Record param := mkP { pk : kind; pname : nat; posonly : bool }.

Definition to_formal (p : param) : formal := mkF (pk p) (if posonly p then None else Some (pname p)).

Definition kind_eqb (a b : kind) : bool :=
  match a, b with
  | ARG_POS, ARG_POS | ARG_OPT, ARG_OPT | ARG_STAR, ARG_STAR | ARG_NAMED, ARG_NAMED
  | ARG_STAR2, ARG_STAR2 | ARG_NAMED_OPT, ARG_NAMED_OPT => true
  | _, _ => false
  end.

Inductive src := SPos (i : nat) | SKw (name : nat).       (* an actual of the call *)
(* outcome of binding: per non-star parameter (by name) the actual it receives (None = its default is used),
   the positions collected by *args and the keyword names collected by **kwargs (in call order) *)
Record bound := mkBound { b_slots : list (nat * option src); b_star : list nat; b_kwstar : list nat }.

Definition mem (x : nat) (l : list nat) : bool := existsb (Nat.eqb x) l.
Definition grp (k : kind) (ps : list param) : list param := filter (fun p => kind_eqb (pk p) k) ps.
Definition has (k : kind) (ps : list param) : bool := negb (null (grp k ps)).

(* ------------------------------------------------------------------ CPython (reference), value level *)
Definition is_pos_param (p : param) : bool := is_positional (pk p).
Definition is_kwonly (p : param) : bool := is_named (pk p).

Fixpoint assign_pos (ps : list param) (i n : nat) : list (nat * option src) :=
  match ps with
  | [] => []
  | p :: r =>
    if is_pos_param p then (pname p, if i <? n then Some (SPos i) else None) :: assign_pos r (S i) n
    else if is_kwonly p then (pname p, None) :: assign_pos r i n
    else assign_pos r i n
  end.

Fixpoint set_slot (k : nat) (v : src) (sl : list (nat * option src)) : option (list (nat * option src)) :=
  match sl with
  | [] => None
  | (n, o) :: r =>
    if Nat.eqb n k then match o with None => Some ((n, Some v) :: r) | Some _ => None end
    else match set_slot k v r with Some r' => Some ((n, o) :: r') | None => None end
  end.

(* keyword loop of initialize_locals: a keyword names a non-positional-only, non-star parameter, or goes to **kwargs *)
Fixpoint py_kws (ps : list param) (star2 : bool) (kws : list nat) (sl : list (nat * option src)) (extra : list nat)
  : option (list (nat * option src) * list nat) :=
  match kws with
  | [] => Some (sl, rev extra)
  | k :: r =>
    if existsb (fun p => Nat.eqb (pname p) k && negb (posonly p) && negb (is_star (pk p))) ps
    then match set_slot k (SKw k) sl with
         | Some sl' => py_kws ps star2 r sl' extra
         | None => None                                  (* got multiple values for argument *)
         end
    else if star2 then py_kws ps star2 r sl (k :: extra) else None     (* unexpected keyword argument *)
  end.

Definition slot_of (sl : list (nat * option src)) (n : nat) : option src :=
  match find (fun e => Nat.eqb (fst e) n) sl with Some (_, o) => o | None => None end.

Definition py_bind (ps : list param) (c : call) : option bound :=
  let npar := length (filter is_pos_param ps) in
  if (npar <? npos c) && negb (has ARG_STAR ps) then None          (* takes N positional arguments but M were given *)
  else
    match py_kws ps (has ARG_STAR2 ps) (kws c) (assign_pos ps 0 (npos c)) [] with
    | None => None
    | Some (sl, extra) =>
      if forallb (fun p => negb (is_required (pk p)) || match slot_of sl (pname p) with Some _ => true | None => false end) ps
      then Some (mkBound sl (seq npar (npos c - npar)) extra)
      else None                                                     (* missing required argument *)
    end.

(* ------------------------------------------------------------------ mypyc: emitwrapper.py *)
Definition reordered (ps : list param) : list param :=
  grp ARG_POS ps ++ grp ARG_OPT ps ++ grp ARG_NAMED_OPT ps ++ grp ARG_NAMED ps.

(* CPyArg_Parser after parser_init_locked, for the format string make_format_string builds and the kwlist
   make_static_kwlist builds (EVERY entry is the parameter's name: pos = 0 even for positional-only params) *)
Record parser := mkParser {
  p_len : nat; p_pos : nat; p_min : nat; p_max : nat; p_rk_start : nat; p_has_req : bool;
  p_args : bool; p_kwargs : bool; p_kwlist : list nat }.

Definition make_parser (ps : list param) : parser :=
  let a := length (grp ARG_POS ps) in
  let b := length (grp ARG_OPT ps) in
  let c := length (grp ARG_NAMED_OPT ps) in
  let d := length (grp ARG_NAMED ps) in
  mkParser (a + b + c + d) 0 a (a + b) (a + b + c) (negb (Nat.eqb d 0))
           (has ARG_STAR ps) (has ARG_STAR2 ps) (map pname (reordered ps)).

(* ------------------------------------------------------------------ mypyc: getargsfast.c *)
Section Parse.
  Variable P : parser.
  Variable nargs : nat.
  Variable kwn : list nat.          (* kwnames *)

  (* the main loop; i = index, nk = nkwargs still unmatched; result None = return 0 (TypeError),
     Some (slots, nk, early) ; early = the `return 1` in the middle of the loop was taken *)
  Fixpoint loop (names : list nat) (i nk : nat) (acc : list (nat * option src))
    : option (list (nat * option src) * nat * bool) :=
    match names with
    | [] => Some (rev acc, nk, false)
    | n :: rest =>
      if (i <? nargs) && (i <? p_max P) then loop rest (S i) nk ((n, Some (SPos i)) :: acc)
      else
        let found := (0 <? nk) && (p_pos P <=? i) && mem n kwn in
        if found then loop rest (S i) (pred nk) ((n, Some (SKw n)) :: acc)
        else if (i <? p_min P) || (p_rk_start P <=? i) then None
        else if Nat.eqb nk 0 && negb (p_has_req P) && negb (p_args P) && negb (p_kwargs P)
             then Some (rev acc ++ map (fun m => (m, None)) names, nk, true)
        else loop rest (S i) nk ((n, None) :: acc)
    end.

  Definition parse_general : option bound :=
    let nkw := length kwn in
    if (p_len P <? nargs + nkw) && negb (p_args P) && negb (p_kwargs P) then None      (* takes at most N arguments *)
    else if (p_max P <? nargs) && negb (p_args P) then None                              (* takes at most N positional *)
    else
      match loop (p_kwlist P) 0 nkw [] with
      | None => None
      | Some (sl, nk, true) => Some (mkBound sl [] [])
      | Some (sl, nk, false) =>
        let bnd := Nat.min nargs (Nat.min (p_max P) (p_len P)) in
        let star := if p_args P then seq bnd (nargs - bnd) else [] in
        if p_kwargs P && (0 <? nargs) && Nat.eqb (p_len P) 0 && negb (p_args P) then None
        else if 0 <? nk then
          (* given by name and position *)
          if existsb (fun n => mem n kwn) (firstn (bnd - p_pos P) (skipn (p_pos P) (p_kwlist P))) then None
          else
            let unknown := filter (fun k => negb (mem k (skipn (p_pos P) (p_kwlist P)))) kwn in
            if null unknown then Some (mkBound sl star [])
            else if p_kwargs P then Some (mkBound sl star unknown) else None
        else Some (mkBound sl star [])
      end.
End Parse.

(* which C entry point the wrapper calls, with its fast path *)
Definition parse_wrapper (ps : list param) (c : call) : option bound :=
  let P := make_parser ps in
  let names := p_kwlist P in
  let nstar := length (grp ARG_STAR ps) + length (grp ARG_STAR2 ps) in
  let general := parse_general P (npos c) (kws c) in
  if null ps then                                             (* CPyArg_ParseStackAndKeywordsNoArgs *)
    if Nat.eqb (npos c) 0 && null (kws c) then Some (mkBound [] [] []) else general
  else if Nat.eqb (length ps) 1 && Nat.eqb (length (grp ARG_POS ps)) 1 then   (* ...OneArg *)
    if null (kws c) && Nat.eqb (npos c) 1 then Some (mkBound (map (fun n => (n, Some (SPos 0))) names) [] []) else general
  else if Nat.eqb nstar 0 && Nat.eqb (p_len P) (p_max P) then                  (* ...Simple *)
    if null (kws c) && (p_min P <=? npos c) && (npos c <=? p_max P)
    then Some (mkBound (combine names (map (fun i => if i <? npos c then Some (SPos i) else None) (seq 0 (length names)))) [] [])
    else general
  else general.

(* compare two outcomes parameter by parameter (slot lists may be ordered differently) *)
Definition src_eqb (a b : option src) : bool :=
  match a, b with
  | None, None => true
  | Some (SPos i), Some (SPos j) => Nat.eqb i j
  | Some (SKw i), Some (SKw j) => Nat.eqb i j
  | _, _ => false
  end.
Fixpoint nats_eqb (a b : list nat) : bool :=
  match a, b with
  | nil, nil => true
  | x :: a', y :: b' => Nat.eqb x y && nats_eqb a' b'
  | _, _ => false
  end.
Definition same_outcome (ps : list param) (a b : option bound) : bool :=
  match a, b with
  | None, None => true
  | Some x, Some y =>
    forallb (fun p => is_star (pk p) || src_eqb (slot_of (b_slots x) (pname p)) (slot_of (b_slots y) (pname p))) ps
    && nats_eqb (b_star x) (b_star y) && nats_eqb (b_kwstar x) (b_kwstar y)
  | _, _ => false
  end.

(* ------------------------------------------------------------------ enumeration (bounded theorems) *)
Fixpoint number (ks : list (kind * bool)) (i : nat) : list param :=
  match ks with [] => [] | (k, po) :: r => mkP k i po :: number r (S i) end.

Fixpoint kw_exact (n : nat) : list (list kind) :=
  match n with
  | O => [[]]
  | S m => flat_map (fun s => [ARG_NAMED :: s; ARG_NAMED_OPT :: s]) (kw_exact m)
  end.
Definition kwonly_seqs (n : nat) : list (list kind) := flat_map kw_exact (seq 0 (S n)).

(* every `def` parameter list with at most n parameters: q positional-only among a required + b optional
   positional, optional *args, kw-only (required / optional, any order), optional **kwargs *)
Definition opt1 (b : bool) (x : kind * bool) : list (kind * bool) := if b then [x] else [].
Definition sigs_with (withposonly : bool) (n : nat) : list (list param) :=
  flat_map (fun a => flat_map (fun b => flat_map (fun st => flat_map (fun kw => flat_map (fun st2 =>
    flat_map (fun q =>
      let ks := map (fun i => ((if i <? a then ARG_POS else ARG_OPT), i <? q)) (seq 0 (a + b))
                ++ opt1 st (ARG_STAR, false) ++ map (fun k => (k, false)) kw
                ++ opt1 st2 (ARG_STAR2, false) in
      if length ks <=? n then [number ks 1] else [])
      (if withposonly then seq 1 (a + b) else [0]))
    [false; true]) (kwonly_seqs n)) [false; true]) (seq 0 (S n))) (seq 0 (S n)).

Fixpoint inserts (x : nat) (l : list nat) : list (list nat) :=
  match l with [] => [[x]] | y :: r => (x :: l) :: map (cons y) (inserts x r) end.
(* all sequences without repetition of at most m names out of pool *)
Fixpoint kw_seqs (pool : list nat) (m : nat) : list (list nat) :=
  match pool with
  | [] => [[]]
  | x :: r => kw_seqs r m ++ flat_map (fun s => if length s <? m then inserts x s else []) (kw_seqs r m)
  end.
Definition calls (n : nat) : list call :=
  flat_map (fun np => map (fun ks => mkCall np ks) (kw_seqs (seq 1 n ++ [99]) 3)) (seq 0 (n + 2)).

Definition all_agree (f g : list param -> call -> option bound) (ss : list (list param)) (cs : list call) : bool :=
  forallb (fun ps => forallb (fun c => same_outcome ps (f ps c) (g ps c)) cs) ss.

Definition accept_agrees (ss : list (list param)) (cs : list call) : bool :=
  forallb (fun ps => forallb (fun c =>
    Bool.eqb (match py_bind ps c with Some _ => true | None => false end)
             (match cpython_bind (map to_formal ps) c with BindOk => true | TypeError => false end)) cs) ss.
