(* Property C05 core (b2): verified translation validation of transform/uninit.py (insert_uninit_checks).
   Uses functional_extensionality (standard library axiom, whitelisted) for "re-assigning `undefined` to an
   undefined local leaves the register file unchanged" in the entry prelude. *)
From Coq Require Import List PArith Arith Bool.
From C05 Require Import PassValidators Guarded Uninit UninitProofs.
Import ListNotations.

(* If the validator accepts (before, after), then from every entry state (arguments defined, every other variable
   undefined), for every interpretation of the uninterpreted ops and every amount of fuel n:
   - if BEFORE ends by reading an undefined variable in world w', AFTER instead leaves through an inserted guard to a
     block that raises UnboundLocalError in that same world and stops (Unreach after the raise op);
   - if BEFORE returns / reaches Unreachable, AFTER has exactly the same outcome with the same fuel;
   so AFTER itself never reads an undefined variable.  Hypotheses: `tracked`/`iserr` are the hint's lists; a defined
   value of a type with a spare error value is not the error value; a branch without traceback entry has no effect. *)
Theorem validate_uninit_sound :
  forall (val world : Type) lit_val op_sem truthy br_eff tracked iserr h before after,
  (forall x, tracked x = pmem x (u_tracked h)) ->
  (forall k, iserr k = pmem k (u_iserrk h)) ->
  (forall k (x : val), pmem k (u_defk h) = true -> truthy k x = false) ->
  (forall k c (w : world), pmem k (u_defk h) = true -> br_eff k c w = w) ->
  validate_uninit h before after = true ->
  forall n e bmb bma w, entry_state val h e ->
  usim val world op_sem h n
       (grun val world lit_val op_sem truthy br_eff tracked iserr before n (gentry before) (mkSt val world e bmb w))
       (fun m => grun val world lit_val op_sem truthy br_eff tracked iserr after m (gentry after) (mkSt val world e bma w)).
Proof.
  intros val world lit_val op_sem truthy br_eff tracked iserr h before after Htr Hie Hdv Hde Hv.
  destruct before as [|[l0 b0] rest] eqn:Eb; [discriminate|].
  pose proof Hv as Hv'. unfold validate_uninit in Hv'.
  repeat (apply andb_true_iff in Hv'; destruct Hv' as [Hv' ?]).
  apply (validate_uninit_run val world lit_val op_sem truthy br_eff tracked iserr h Htr Hie Hdv Hde Hv' after
           ((l0, b0) :: rest) l0 b0 rest eq_refl H H4 Hv).
Qed.
Print Assumptions validate_uninit_sound.

(* non-vacuity: `if c: x = 1` ... `return x` with the IS_ERROR guard; the bitmap idiom with `del` *)
Definition ex_h : uhint := mkUH [5%positive] [1%positive] [] [9%positive] [9%positive] [8%positive] [(1%positive, [1%positive]); (2%positive, [1%positive]); (3%positive, [1%positive])].
Definition ex_before : gfunc :=
  [ (1, mkG [] (Branch 7 false (OVar 1) 2 3));
    (2, mkG [GOp (Assign 5 (OLit 1))] (Goto 3));
    (3, mkG [] (Return (OVar 5))) ]%positive.
Definition ex_after : gfunc :=
  [ (1, mkG [GUndef 6; GOp (Assign 5 (OVar 6))] (Branch 7 false (OVar 1) 2 3));
    (2, mkG [GOp (Assign 5 (OLit 1))] (Goto 3));
    (3, mkG [GGuard 9 false (OVar 5) 4] (Return (OVar 5)));
    (4, mkG [GOp (Op 10 8 [])] Unreachable) ]%positive.
Example ex_uninit_accepted : validate_uninit ex_h ex_before ex_after = true.
Proof. vm_compute. reflexivity. Qed.
(* without the guard the validator rejects; with the prelude undefining the ARGUMENT it rejects *)
Example ex_uninit_rejected_no_guard :
  validate_uninit ex_h ex_before
    [ (1, mkG [GUndef 6; GOp (Assign 5 (OVar 6))] (Branch 7 false (OVar 1) 2 3));
      (2, mkG [GOp (Assign 5 (OLit 1))] (Goto 3));
      (3, mkG [] (Return (OVar 5))) ]%positive = false.
Proof. vm_compute. reflexivity. Qed.
Example ex_uninit_rejected_argument :
  validate_uninit ex_h ex_before
    [ (1, mkG [GUndef 6; GOp (Assign 1 (OVar 6))] (Branch 7 false (OVar 1) 2 3));
      (2, mkG [GOp (Assign 5 (OLit 1))] (Goto 3));
      (3, mkG [GGuard 9 false (OVar 5) 4] (Return (OVar 5)));
      (4, mkG [GOp (Op 10 8 [])] Unreachable) ]%positive = false.
Proof. vm_compute. reflexivity. Qed.
(* `del y` of a bitmap-tracked local must CLEAR its bit (the bug fixed in 4748df0 set it) *)
Definition ex_hb : uhint := mkUH [5%positive] [1%positive] [(5%positive, (20%positive, 0%nat))] [] [9%positive] [8%positive] [].
Definition ex_bm (clear : bool) : gfunc :=
  [ (1, mkG [GUndef 6; GOp (Assign 5 (OVar 6)); GBmInit 20;
             GOp (Assign 5 (OLit 1)); GBmSet 20 0;
             GUndef 7; GOp (Assign 5 (OVar 7)); (if clear then GBmClr 20 0 else GBmSet 20 0);
             GBmGuard 20 0 4] (Return (OVar 5)));
    (4, mkG [GOp (Op 10 8 [])] Unreachable) ]%positive.
Definition ex_bm_before : gfunc :=
  [ (1, mkG [GOp (Assign 5 (OLit 1)); GUndef 7; GOp (Assign 5 (OVar 7))] (Return (OVar 5))) ]%positive.
Example ex_bitmap_del_clears : validate_uninit ex_hb ex_bm_before (ex_bm true) = true /\ validate_uninit ex_hb ex_bm_before (ex_bm false) = false.
Proof. vm_compute. split; reflexivity. Qed.
