(* C05 (a): proofs about the vtable model of Vtable.v. *)
From Coq Require Import List PArith Arith Bool Lia.
From C05 Require Import Vtable.
Import ListNotations.

Arguments pmem x l : simpl never.

Lemma peqb_eq : forall a b, Pos.eqb a b = true -> a = b.
Proof. intros a b H. apply Pos.eqb_eq. exact H. Qed.

Lemma pmem_In : forall x l, pmem x l = true -> In x l.
Proof.
  unfold pmem. intros x l H. apply existsb_exists in H. destruct H as [y [H1 H2]]. apply peqb_eq in H2. subst. exact H1.
Qed.

Lemma incl_b_incl : forall a b, incl_b a b = true -> incl a b.
Proof.
  unfold incl_b. intros a b H x Hx. rewrite forallb_forall in H. apply pmem_In. apply H. exact Hx.
Qed.

Lemma passoc_cons_other : forall A k k' (a : A) l, k <> k' -> passoc k ((k', a) :: l) = passoc k l.
Proof. intros. simpl. destruct (Pos.eqb k k') eqn:E; [apply peqb_eq in E; contradiction|reflexivity]. Qed.

Lemma passoc_In_fst : forall A n (l : list (positive * A)) s, In (n, s) l -> passoc n l <> None.
Proof.
  induction l as [|[k a] l IH]; simpl; intros s H; [contradiction|].
  destruct (Pos.eqb n k) eqn:E; [discriminate|]. destruct H as [H|H].
  - inversion H. subst. rewrite Pos.eqb_refl in E. discriminate.
  - eapply IH. exact H.
Qed.

Lemma find_cls_some : forall ct c cl, find_cls ct c = Some cl -> In cl ct /\ c_name cl = c.
Proof.
  induction ct as [|x ct IH]; simpl; intros c cl H; [discriminate|].
  destruct (Pos.eqb c (c_name x)) eqn:E.
  - inversion H. subst. apply peqb_eq in E. auto.
  - destruct (IH _ _ H). auto.
Qed.

Lemma find_cls_unique : forall ct cl, NoDup (map c_name ct) -> In cl ct -> find_cls ct (c_name cl) = Some cl.
Proof.
  induction ct as [|x ct IH]; simpl; intros cl Hn Hi; [contradiction|].
  inversion Hn. subst. destruct Hi as [Hi|Hi].
  - subst. rewrite Pos.eqb_refl. reflexivity.
  - destruct (Pos.eqb (c_name cl) (c_name x)) eqn:E.
    + apply peqb_eq in E. exfalso. apply H1. rewrite <- E. apply in_map. exact Hi.
    + apply IH; assumption.
Qed.

Lemma Forall2_nth : forall A B (R : A -> B -> Prop) l l' i x,
  Forall2 R l l' -> nth_error l i = Some x -> exists y, nth_error l' i = Some y /\ R x y.
Proof.
  intros A B R l l' i x H. revert i x. induction H as [|a b l l' Hab Hll IH]; intros i z Hz; destruct i; simpl in *; try discriminate.
  - inversion Hz. subst. eauto.
  - apply IH. exact Hz.
Qed.

Lemma nth_error_app_l : forall A (l m : list A) i x, nth_error l i = Some x -> nth_error (l ++ m) i = Some x.
Proof.
  intros. rewrite nth_error_app1; [exact H|]. apply nth_error_Some. rewrite H. discriminate.
Qed.

(* ---- lookup *)
Lemma lookup_some : forall ct mro n d s, lookup ct mro n = Some (d, s) ->
  In d mro /\ exists dc, find_cls ct d = Some dc /\ passoc n (c_methods dc) = Some s.
Proof.
  induction mro as [|x mro IH]; simpl; intros n d s H; [discriminate|].
  destruct (find_cls ct x) as [xc|] eqn:E.
  - destruct (passoc n (c_methods xc)) as [s'|] eqn:P.
    + inversion H. subst. split; [left; reflexivity|]. eauto.
    + destruct (IH _ _ _ H) as [H1 H2]. auto.
  - destruct (IH _ _ _ H) as [H1 H2]. auto.
Qed.

Lemma lookup_exists : forall ct mro n d dc, In d mro -> find_cls ct d = Some dc ->
  passoc n (c_methods dc) <> None -> lookup ct mro n <> None.
Proof.
  induction mro as [|x mro IH]; simpl; intros n d dc Hi Hf Hp; [contradiction|].
  destruct Hi as [Hi|Hi].
  - subst. rewrite Hf. destruct (passoc n (c_methods dc)); [discriminate|contradiction Hp; reflexivity].
  - destruct (find_cls ct x) as [xc|]; [destruct (passoc n (c_methods xc)); [discriminate|]|]; eapply IH; eauto.
Qed.

Lemma lookup_incl : forall ct m1 m2 n, incl m1 m2 -> lookup ct m1 n <> None -> lookup ct m2 n <> None.
Proof.
  intros ct m1 m2 n Hi H. destruct (lookup ct m1 n) as [[d s]|] eqn:E; [|contradiction H; reflexivity].
  apply lookup_some in E. destruct E as [Hd [dc [Hf Hp]]]. eapply lookup_exists; eauto. rewrite Hp. discriminate.
Qed.

Lemma lookup_head : forall ct t r tc n s, find_cls ct t = Some tc -> passoc n (c_methods tc) = Some s ->
  lookup ct (t :: r) n = Some (t, s).
Proof. intros. simpl. rewrite H, H0. reflexivity. Qed.

(* ---- what wf_ct gives *)
Record WF (ct : ctable) : Prop := {
  wf_nodup : NoDup (map c_name ct);
  wf_head : forall cl, In cl ct -> exists rest, c_mro cl = c_name cl :: rest;
  wf_mro : forall cl p, In cl ct -> In p (c_mro cl) ->
           exists pc, find_cls ct p = Some pc /\ incl (c_mro pc) (c_mro cl);
  wf_base : forall cl b, In cl ct -> c_base cl = Some b -> In b (c_mro cl) /\ is_trait ct b = false
}.

Lemma wf_from_props : forall ct todo earlier, wf_from ct earlier todo = true ->
  NoDup (map c_name todo) /\ (forall cl, In cl todo -> ~ In (c_name cl) earlier)
  /\ (forall cl, In cl todo -> exists e, wf_cls ct e cl = true).
Proof.
  induction todo as [|x todo IH]; intros earlier H.
  - simpl. split; [constructor|]. split; intros; contradiction.
  - simpl in H. apply andb_true_iff in H. destruct H as [H1 H2].
    destruct (IH _ H2) as [N [D W]]. split; [|split].
    + simpl. constructor; [|exact N]. intro Hi. apply in_map_iff in Hi. destruct Hi as [y [Hy1 Hy2]].
      apply (D y Hy2). left. symmetry. exact Hy1.
    + intros cl [Hc|Hc].
      * subst. unfold wf_cls in H1. destruct (c_mro cl); [discriminate|].
        repeat (apply andb_true_iff in H1; destruct H1 as [H1 ?]).
        intro Hi. destruct (pmem (c_name cl) earlier) eqn:E; [discriminate|].
        assert (pmem (c_name cl) earlier = true); [|congruence].
        unfold pmem. apply existsb_exists. exists (c_name cl). split; [exact Hi|apply Pos.eqb_refl].
      * intro Hi. apply (D cl Hc). right. exact Hi.
    + intros cl [Hc|Hc]; [subst; eauto|apply W; exact Hc].
Qed.

Lemma wf_ct_WF : forall ct, wf_ct ct = true -> WF ct.
Proof.
  intros ct H. unfold wf_ct in H. destruct (wf_from_props ct ct [] H) as [N [_ W]].
  assert (U : forall cl, In cl ct -> find_cls ct (c_name cl) = Some cl) by (intros; apply find_cls_unique; assumption).
  constructor.
  - exact N.
  - intros cl Hc. destruct (W cl Hc) as [e He]. unfold wf_cls in He. destruct (c_mro cl) as [|h rest]; [discriminate|].
    repeat (apply andb_true_iff in He; destruct He as [He ?]). apply peqb_eq in He. subst. eauto.
  - intros cl p Hc Hp. destruct (W cl Hc) as [e He]. unfold wf_cls in He.
    destruct (c_mro cl) as [|h rest] eqn:Em; [discriminate|].
    repeat (apply andb_true_iff in He; destruct He as [He ?]). apply peqb_eq in He. subst h.
    destruct Hp as [Hp|Hp].
    + subst p. exists cl. split; [apply U; exact Hc|]. rewrite Em. apply incl_refl.
    + rewrite forallb_forall in H1. specialize (H1 p Hp). apply andb_true_iff in H1. destruct H1 as [_ H1].
      destruct (find_cls ct p) as [pc|]; [|discriminate]. exists pc. split; [reflexivity|]. apply incl_b_incl. exact H1.
  - intros cl b Hc Hb. destruct (W cl Hc) as [e He]. unfold wf_cls in He.
    destruct (c_mro cl) as [|h rest] eqn:Em; [discriminate|].
    repeat (apply andb_true_iff in He; destruct He as [He ?]). rewrite Hb in H0.
    apply andb_true_iff in H0. destruct H0 as [H01 H02]. split.
    + right. apply pmem_In. exact H01.
    + destruct (is_trait ct b); [discriminate|reflexivity].
Qed.

Section VT.
  Variable ct : ctable.
  Hypothesis Hwf : WF ct.

  Definition same_slot (e e' : entry) : Prop := e_cls e = e_cls e' /\ e_name e = e_name e'.

  (* slot e of (a view of) class cl's table: belongs to an ancestor, and points to what cl resolves the name to *)
  Definition entry_ok (cl : cls) (e : entry) : Prop :=
    In (e_cls e) (c_mro cl) /\ get_method ct (e_cls e) (e_name e) <> None /\
    exists d s, lookup ct (c_mro cl) (e_name e) = Some (d, s) /\ resolve (e_meth e) = (d, e_name e).

  Definition index_ok (es : list entry) (idx : list (mname * nat)) : Prop :=
    forall n i, passoc n idx = Some i -> exists e, nth_error es i = Some e /\ e_name e = n.

  Lemma find_name : forall cl, In cl ct -> find_cls ct (c_name cl) = Some cl.
  Proof. intros. apply find_cls_unique; [apply (wf_nodup ct Hwf)|assumption]. Qed.

  Lemma specialize1_ok : forall cl e e', In cl ct -> In (e_cls e) (c_mro cl) ->
    specialize1 ct cl e = Some e' -> same_slot e e' /\ entry_ok cl e'.
  Proof.
    intros cl e e' Hc Hi H. unfold specialize1 in H.
    destruct (get_method ct (e_cls e) (e_name e)) as [[od osig]|] eqn:G; [|discriminate].
    assert (L : lookup ct (c_mro cl) (e_name e) <> None).
    { unfold get_method in G. destruct (find_cls ct (e_cls e)) as [pc|] eqn:F; [|discriminate].
      destruct (wf_mro ct Hwf cl (e_cls e) Hc Hi) as [pc' [F' I']]. rewrite F in F'. inversion F'. subst pc'.
      eapply lookup_incl; [exact I'|]. rewrite G. discriminate. }
    destruct (lookup ct (c_mro cl) (e_name e)) as [[d csig]|] eqn:E; [|contradiction L; reflexivity].
    destruct (Pos.eqb osig csig || Pos.eqb (e_name e) init_name).
    - inversion H. subst e'. split; [split; reflexivity|]. unfold entry_ok. simpl. split; [exact Hi|].
      split; [rewrite G; discriminate|]. exists d, csig. auto.
    - destruct (find_cls ct d) as [dc|]; [|discriminate]. destruct (pair_mem (e_cls e) (e_name e) (c_glue dc)); [|discriminate].
      inversion H. subst e'. split; [split; reflexivity|]. unfold entry_ok. simpl. split; [exact Hi|].
      split; [rewrite G; discriminate|]. exists d, csig. auto.
  Qed.

  Lemma specialize_ok : forall cl es es', In cl ct -> Forall (fun e => In (e_cls e) (c_mro cl)) es ->
    specialize ct cl es = Some es' -> Forall2 same_slot es es' /\ Forall (entry_ok cl) es'.
  Proof.
    intros cl. induction es as [|e es IH]; simpl; intros es' Hc Hf H.
    - inversion H. split; constructor.
    - destruct (specialize1 ct cl e) as [e1|] eqn:E1; [|discriminate].
      destruct (specialize ct cl es) as [r|] eqn:E2; [|discriminate]. inversion H. subst es'.
      inversion Hf. subst. destruct (specialize1_ok cl e e1 Hc H2 E1) as [S1 O1].
      destruct (IH r Hc H3 eq_refl) as [S2 O2]. split; constructor; assumption.
  Qed.

  Definition acc_ok (cl : cls) (acc : list entry * list (mname * nat)) : Prop :=
    Forall (entry_ok cl) (fst acc) /\ index_ok (fst acc) (snd acc).

  Lemma add_methods_ok : forall cl t tc, In cl ct -> In t (c_mro cl) -> find_cls ct t = Some tc ->
    forall ms acc, (forall n s, In (n, s) ms -> passoc n (c_methods tc) <> None) -> acc_ok cl acc ->
    acc_ok cl (add_methods ct cl t ms acc) /\ exists extra, fst (add_methods ct cl t ms acc) = fst acc ++ extra.
  Proof.
    intros cl t tc Hc Ht Hf. induction ms as [|[n s] ms IH]; intros acc Hm Ha.
    - simpl. split; [exact Ha|]. exists []. rewrite app_nil_r. reflexivity.
    - simpl. assert (Hm' : forall n0 s0, In (n0, s0) ms -> passoc n0 (c_methods tc) <> None) by (intros; eapply Hm; right; eauto).
      destruct (resolves_to ct cl t n) eqn:Er.
      + set (acc' := (fst acc ++ [mkE t n (Impl t n)], (n, length (fst acc)) :: snd acc)).
        assert (Ha' : acc_ok cl acc').
        { destruct Ha as [A1 A2]. split.
          - unfold acc'. simpl. apply Forall_app. split; [exact A1|]. constructor; [|constructor].
            unfold entry_ok. simpl. split; [exact Ht|]. split.
            + unfold get_method. rewrite Hf. destruct (find_cls_some _ _ _ Hf) as [Itc Ntc].
              destruct (wf_head ct Hwf tc Itc) as [rest Hr]. rewrite Hr. rewrite Ntc.
              destruct (passoc n (c_methods tc)) as [s'|] eqn:P.
              * rewrite (lookup_head ct t rest tc n s' Hf P). discriminate.
              * exfalso. apply (Hm n s); [left; reflexivity|exact P].
            + unfold resolves_to in Er. destruct (lookup ct (c_mro cl) n) as [[d s']|]; [|discriminate].
              apply peqb_eq in Er. subst d. exists t, s'. auto.
          - unfold acc'. simpl. intros n' i Hp. simpl in Hp. destruct (Pos.eqb n' n) eqn:En.
            + apply peqb_eq in En. subst n'. inversion Hp. subst i. exists (mkE t n (Impl t n)). split; [|reflexivity].
              rewrite nth_error_app2 by lia. rewrite Nat.sub_diag. reflexivity.
            + destruct (A2 n' i Hp) as [e [E1 E2]]. exists e. split; [apply nth_error_app_l; exact E1|exact E2]. }
        destruct (IH acc' Hm' Ha') as [R1 [extra R2]]. split; [exact R1|].
        exists ([mkE t n (Impl t n)] ++ extra).
        change (fst (add_methods ct cl t ms acc') = fst acc ++ [mkE t n (Impl t n)] ++ extra). rewrite R2. unfold acc'. simpl. rewrite <- app_assoc. reflexivity.
      + apply IH; assumption.
  Qed.

  Lemma add_sources_ok : forall cl, In cl ct -> forall ts acc, (forall t, In t ts -> In t (c_mro cl)) -> acc_ok cl acc ->
    acc_ok cl (add_sources ct cl ts acc) /\ exists extra, fst (add_sources ct cl ts acc) = fst acc ++ extra.
  Proof.
    intros cl Hc. induction ts as [|t ts IH]; intros acc Ht Ha.
    - simpl. split; [exact Ha|]. exists []. rewrite app_nil_r. reflexivity.
    - simpl. assert (Ht' : forall t0, In t0 ts -> In t0 (c_mro cl)) by (intros; apply Ht; right; assumption).
      destruct (find_cls ct t) as [tc|] eqn:F.
      + destruct (add_methods_ok cl t tc Hc (Ht t (or_introl eq_refl)) F (c_methods tc) acc) as [A1 [x1 A2]]; [|exact Ha|].
        { intros n s Hi. eapply passoc_In_fst. exact Hi. }
        destruct (IH _ Ht' A1) as [B1 [x2 B2]]. split; [exact B1|]. exists (x1 ++ x2). rewrite B2, A2. rewrite app_assoc. reflexivity.
      + simpl. apply IH; assumption.
  Qed.

  Lemma slot_sources_in : forall cl, In cl ct -> forall t, In t (slot_sources ct cl) -> In t (c_mro cl).
  Proof.
    intros cl Hc t H. unfold slot_sources in H. destruct H as [H|H].
    - subst. destruct (wf_head ct Hwf cl Hc) as [r Hr]. rewrite Hr. left. reflexivity.
    - apply filter_In in H. destruct H as [H _]. unfold all_traits in H. apply filter_In in H. destruct H. assumption.
  Qed.

  (* the invariant of a computed table, relative to the tables R of the other classes *)
  Definition Inv (R : list (cname * vt)) (cl : cls) (v : vt) : Prop :=
    Forall (entry_ok cl) (v_entries v) /\ index_ok (v_entries v) (v_index v) /\
    (forall t tes, passoc t (v_traits v) = Some tes ->
       exists tv, passoc t R = Some tv /\ Forall2 same_slot (v_entries tv) tes /\ Forall (entry_ok cl) tes) /\
    (c_trait cl = false -> forall t, In t (all_traits ct cl) -> passoc t (v_traits v) <> None) /\
    (forall b, c_base cl = Some b ->
       exists bv es0 extra, passoc b R = Some bv /\ v_entries v = es0 ++ extra /\ Forall2 same_slot (v_entries bv) es0).

  Definition GInv (R : list (cname * vt)) : Prop :=
    forall c v, passoc c R = Some v -> exists cl, In cl ct /\ c_name cl = c /\ Inv R cl v.

  Lemma ancestor_entries_in : forall R cl p pv, GInv R -> In cl ct -> In p (c_mro cl) -> passoc p R = Some pv ->
    Forall (fun e => In (e_cls e) (c_mro cl)) (v_entries pv).
  Proof.
    intros R cl p pv HG Hc Hp Hpv. destruct (HG p pv Hpv) as [pcl [I1 [I2 [I3 _]]]].
    destruct (wf_mro ct Hwf cl p Hc Hp) as [pc [F Hi]].
    rewrite <- I2 in F. rewrite (find_name pcl I1) in F. inversion F. subst pc.
    rewrite Forall_forall in *. intros e He. apply Hi. destruct (I3 e He) as [H _]. exact H.
  Qed.

  Lemma trait_views_ok : forall R cl, GInv R -> In cl ct -> forall ts tvs, (forall t, In t ts -> In t (c_mro cl)) ->
    trait_views ct R cl ts = Some tvs ->
    (forall t tes, passoc t tvs = Some tes ->
       exists tv, passoc t R = Some tv /\ Forall2 same_slot (v_entries tv) tes /\ Forall (entry_ok cl) tes)
    /\ (forall t, In t ts -> passoc t tvs <> None).
  Proof.
    intros R cl HG Hc. induction ts as [|t ts IH]; intros tvs Ht H.
    - simpl in H. inversion H. split; [intros; discriminate|intros; contradiction].
    - simpl in H. destruct (passoc t R) as [tv|] eqn:P; [|discriminate].
      destruct (specialize ct cl (v_entries tv)) as [es|] eqn:S; [|discriminate].
      destruct (trait_views ct R cl ts) as [rest|] eqn:T; [|discriminate]. inversion H. subst tvs.
      assert (Ht' : forall t0, In t0 ts -> In t0 (c_mro cl)) by (intros; apply Ht; right; assumption).
      destruct (IH rest Ht' eq_refl) as [I1 I2].
      destruct (specialize_ok cl _ _ Hc (ancestor_entries_in R cl t tv HG Hc (Ht t (or_introl eq_refl)) P) S) as [S1 S2].
      split.
      + intros t0 tes Hp. simpl in Hp. destruct (Pos.eqb t0 t) eqn:E.
        * apply peqb_eq in E. subst t0. inversion Hp. subst tes. exists tv. auto.
        * apply I1. exact Hp.
      + intros t0 [Hi|Hi]; simpl.
        * subst. rewrite Pos.eqb_refl. discriminate.
        * destruct (Pos.eqb t0 t); [discriminate|apply I2; exact Hi].
  Qed.

  Lemma compute_one_inv : forall R cl v, GInv R -> In cl ct -> compute_one ct R cl = Some v -> Inv R cl v.
  Proof.
    intros R cl v HG Hc H. unfold compute_one in H.
    (* the start: specialised copy of the base's table *)
    set (start := match c_base cl with
                  | None => Some ([], [])
                  | Some b => match passoc b R with
                              | Some bv => match specialize ct cl (v_entries bv) with
                                           | Some es => Some (es, v_index bv)
                                           | None => None end
                              | None => None end end) in H.
    destruct start as [[es0 idx0]|] eqn:Es; [|discriminate].
    assert (A0 : acc_ok cl (es0, idx0) /\
                 (forall b, c_base cl = Some b -> exists bv, passoc b R = Some bv /\ Forall2 same_slot (v_entries bv) es0)).
    { unfold start in Es. destruct (c_base cl) as [b|] eqn:Eb.
      - destruct (passoc b R) as [bv|] eqn:Pb; [|discriminate].
        destruct (specialize ct cl (v_entries bv)) as [es|] eqn:S; [|discriminate]. inversion Es. subst es0 idx0.
        destruct (wf_base ct Hwf cl b Hc Eb) as [Hb _].
        destruct (specialize_ok cl _ _ Hc (ancestor_entries_in R cl b bv HG Hc Hb Pb) S) as [S1 S2].
        split.
        + split; [exact S2|]. simpl. destruct (HG b bv Pb) as [bcl [_ [_ [_ [IX _]]]]].
          intros n i Hp. destruct (IX n i Hp) as [e [E1 E2]]. destruct (Forall2_nth _ _ _ _ _ i e S1 E1) as [e' [E3 [_ E4]]].
          exists e'. split; [exact E3|]. rewrite <- E4. exact E2.
        + intros b0 Hb0. inversion Hb0. subst b0. exists bv. auto.
      - inversion Es. subst. split; [|intros; discriminate]. split; [constructor|]. intros n i Hp. discriminate. }
    destruct A0 as [A0 B0].
    destruct (add_sources_ok cl Hc (slot_sources ct cl) (es0, idx0) (slot_sources_in cl Hc) A0) as [[A1 A2] [extra A3]].
    destruct (add_sources ct cl (slot_sources ct cl) (es0, idx0)) as [es idx] eqn:Ea. simpl in A1, A2, A3.
    destruct (c_trait cl) eqn:Etr.
    - inversion H. subst v. unfold Inv. simpl. split; [exact A1|]. split; [exact A2|]. split; [intros; discriminate|].
      split; [intro X; rewrite Etr in X; discriminate|]. intros b Hb. destruct (B0 b Hb) as [bv [P1 P2]]. exists bv, es0, extra. auto.
    - destruct (trait_views ct R cl (all_traits ct cl)) as [tvs|] eqn:T; [|discriminate]. inversion H. subst v.
      destruct (trait_views_ok R cl HG Hc (all_traits ct cl) tvs) as [T1 T2]; [|exact T|].
      { intros t Ht. unfold all_traits in Ht. apply filter_In in Ht. destruct Ht. assumption. }
      unfold Inv. simpl. split; [exact A1|]. split; [exact A2|]. split; [exact T1|]. split; [intros _; exact T2|].
      intros b Hb. destruct (B0 b Hb) as [bv [P1 P2]]. exists bv, es0, extra. auto.
  Qed.

  Lemma Inv_mono : forall R c' v' cl v, passoc c' R = None -> Inv R cl v -> Inv ((c', v') :: R) cl v.
  Proof.
    intros R c' v' cl v Hn [I1 [I2 [I3 [I4 I5]]]].
    assert (M : forall t x, passoc t R = Some x -> passoc t ((c', v') :: R) = Some x).
    { intros t x Hx. simpl. destruct (Pos.eqb t c') eqn:E; [|exact Hx]. apply peqb_eq in E. subst. rewrite Hn in Hx. discriminate. }
    split; [exact I1|]. split; [exact I2|]. split; [|split; [exact I4|]].
    - intros t tes Ht. destruct (I3 t tes Ht) as [tv [P1 P2]]. exists tv. split; [apply M; exact P1|exact P2].
    - intros b Hb. destruct (I5 b Hb) as [bv [e0 [ex [P1 P2]]]]. exists bv, e0, ex. split; [apply M; exact P1|exact P2].
  Qed.

  Lemma compute_from_inv : forall todo R Rf, NoDup (map c_name todo) ->
    (forall cl, In cl todo -> passoc (c_name cl) R = None) -> (forall cl, In cl todo -> In cl ct) ->
    GInv R -> compute_from ct todo R = Some Rf ->
    GInv Rf /\ (forall cl, In cl todo -> passoc (c_name cl) Rf <> None) /\ (forall c, passoc c R <> None -> passoc c Rf <> None).
  Proof.
    induction todo as [|cl todo IH]; intros R Rf Hn Hfresh Hin HG H.
    - simpl in H. inversion H. subst. split; [exact HG|]. split; [intros; contradiction|auto].
    - simpl in H. destruct (compute_one ct R cl) as [v|] eqn:E; [|discriminate].
      inversion Hn. subst.
      assert (Hc : In cl ct) by (apply Hin; left; reflexivity).
      pose proof (compute_one_inv R cl v HG Hc E) as HI.
      assert (HfreshCl : passoc (c_name cl) R = None) by (apply Hfresh; left; reflexivity).
      assert (HG' : GInv ((c_name cl, v) :: R)).
      { intros c v0 Hp. simpl in Hp. destruct (Pos.eqb c (c_name cl)) eqn:Ec.
        - apply peqb_eq in Ec. inversion Hp. subst. exists cl. split; [exact Hc|]. split; [reflexivity|]. apply Inv_mono; assumption.
        - destruct (HG c v0 Hp) as [cl0 [J1 [J2 J3]]]. exists cl0. split; [exact J1|]. split; [exact J2|]. apply Inv_mono; assumption. }
      destruct (IH ((c_name cl, v) :: R) Rf H3) as [G1 [G2 G3]]; auto.
      + intros cl' Hc'. simpl. destruct (Pos.eqb (c_name cl') (c_name cl)) eqn:Ec.
        * apply peqb_eq in Ec. exfalso. apply H2. rewrite <- Ec. apply in_map. exact Hc'.
        * apply Hfresh. right. exact Hc'.
      + intros; apply Hin; right; assumption.
      + split; [exact G1|]. split.
        * intros cl' [Hc'|Hc']; [subst; apply G3; simpl; rewrite Pos.eqb_refl; discriminate|apply G2; exact Hc'].
        * intros c Hc0. apply G3. simpl. destruct (Pos.eqb c (c_name cl)); [discriminate|exact Hc0].
  Qed.

  Variable res : list (cname * vt).
  Hypothesis Hres : compute_all ct = Some res.

  Lemma res_inv : GInv res /\ (forall cl, In cl ct -> passoc (c_name cl) res <> None).
  Proof.
    unfold compute_all in Hres.
    destruct (compute_from_inv ct [] res (wf_nodup ct Hwf)) as [G1 [G2 _]]; auto.
    intros c v Hp. discriminate.
  Qed.

  Lemma res_class : forall c cl v, find_cls ct c = Some cl -> passoc c res = Some v -> Inv res cl v.
  Proof.
    intros c cl v Hf Hp. destruct res_inv as [G _]. destruct (G c v Hp) as [cl0 [I1 [I2 I3]]].
    rewrite <- I2 in Hf. rewrite (find_name cl0 I1) in Hf. inversion Hf. subst. exact I3.
  Qed.

  (* a child's vtable extends its parent's layout slot by slot *)
  Lemma chain_prefix : forall c p, base_chain ct c p -> forall cv pv, passoc c res = Some cv -> passoc p res = Some pv ->
    forall i e, nth_error (v_entries pv) i = Some e ->
    exists e', nth_error (v_entries cv) i = Some e' /\ same_slot e e'.
  Proof.
    intros c p H. induction H as [c|c cl b p Hf Hb Hch IH]; intros cv pv Hc Hp i e He.
    - rewrite Hc in Hp. inversion Hp. subst. exists e. split; [exact He|split; reflexivity].
    - pose proof (res_class c cl cv Hf Hc) as [_ [_ [_ [_ I5]]]].
      destruct (I5 b Hb) as [bv [es0 [extra [P1 [P2 P3]]]]].
      destruct (IH bv pv P1 Hp i e He) as [e1 [E1 [S1 S2]]].
      destruct (Forall2_nth _ _ _ _ _ i e1 P3 E1) as [e2 [E2 [S3 S4]]].
      exists e2. split; [rewrite P2; apply nth_error_app_l; exact E2|]. split; congruence.
  Qed.

  Lemma entry_dispatch : forall c cl es i e, find_cls ct c = Some cl -> Forall (entry_ok cl) es ->
    nth_error es i = Some e -> Some (resolve (e_meth e)) = mro_lookup ct c (e_name e).
  Proof.
    intros c cl es i e Hf Ho He. rewrite Forall_forall in Ho. destruct (Ho e (nth_error_In _ _ He)) as [_ [_ [d [s [L Rz]]]]].
    unfold mro_lookup, get_method. rewrite Hf, L, Rz. reflexivity.
  Qed.

  Lemma dispatch_class : forall c p cl n i, find_cls ct c = Some cl -> base_chain ct c p -> is_trait ct p = false ->
    slot_of res p n = Some i ->
    exists es e, view ct res c p = Some es /\ nth_error es i = Some e /\ e_name e = n
                 /\ Some (resolve (e_meth e)) = mro_lookup ct c n.
  Proof.
    intros c p cl n i Hf Hch Htr Hs. unfold slot_of in Hs. destruct (passoc p res) as [pv|] eqn:Pp; [|discriminate].
    destruct res_inv as [G C]. destruct (find_cls_some _ _ _ Hf) as [Hin Hnm].
    destruct (passoc c res) as [cv|] eqn:Pc; [|exfalso; apply (C cl Hin); rewrite Hnm; exact Pc].
    destruct (G p pv Pp) as [pcl [_ [_ [_ [IX _]]]]]. destruct (IX n i Hs) as [e0 [E1 E2]].
    destruct (chain_prefix c p Hch cv pv Pc Pp i e0 E1) as [e' [E3 [S1 S2]]].
    exists (v_entries cv), e'. unfold view. rewrite Pc, Htr. split; [reflexivity|]. split; [exact E3|].
    assert (Hn : e_name e' = n) by congruence. split; [exact Hn|]. rewrite <- Hn.
    destruct (res_class c cl cv Hf Pc) as [I1 _]. eapply entry_dispatch; eauto.
  Qed.

  Lemma dispatch_trait : forall c p cl n i, find_cls ct c = Some cl -> c_trait cl = false -> In p (c_mro cl) ->
    is_trait ct p = true -> slot_of res p n = Some i ->
    exists es e, view ct res c p = Some es /\ nth_error es i = Some e /\ e_name e = n
                 /\ Some (resolve (e_meth e)) = mro_lookup ct c n.
  Proof.
    intros c p cl n i Hf Hnt Hp Htr Hs. unfold slot_of in Hs. destruct (passoc p res) as [pv|] eqn:Pp; [|discriminate].
    destruct res_inv as [G C]. destruct (find_cls_some _ _ _ Hf) as [Hin Hnm].
    destruct (passoc c res) as [cv|] eqn:Pc; [|exfalso; apply (C cl Hin); rewrite Hnm; exact Pc].
    destruct (res_class c cl cv Hf Pc) as [_ [_ [I3 [I4 _]]]].
    assert (Hat : In p (all_traits ct cl)) by (unfold all_traits; apply filter_In; auto).
    destruct (passoc p (v_traits cv)) as [tes|] eqn:Pt; [|exfalso; apply (I4 Hnt p Hat); exact Pt].
    destruct (I3 p tes Pt) as [tv [T1 [T2 T3]]]. rewrite Pp in T1. inversion T1. subst tv.
    destruct (G p pv Pp) as [pcl [_ [_ [_ [IX _]]]]]. destruct (IX n i Hs) as [e0 [E1 E2]].
    destruct (Forall2_nth _ _ _ _ _ i e0 T2 E1) as [e' [E3 [S1 S2]]].
    exists tes, e'. unfold view. rewrite Pc, Htr. split; [exact Pt|]. split; [exact E3|].
    assert (Hn : e_name e' = n) by congruence. split; [exact Hn|]. rewrite <- Hn. eapply entry_dispatch; eauto.
  Qed.
End VT.
