(* C18 lemmas: equality tests, duplicate detection, order independence of per-file crawling, witnesses. *)
From Coq Require Import List Bool PArith NArith Arith Lia Permutation.
From C18 Require Import Model.
Import ListNotations.

(* ---------------------------------------------------------------- equality tests *)
Lemma nm_eqb_spec a b : nm_eqb a b = true <-> a = b.
Proof.
  destruct a, b; simpl; try (split; [discriminate | congruence]); try tauto;
    rewrite Pos.eqb_eq; split; congruence.
Qed.
Lemma nm_eqb_refl a : nm_eqb a a = true.
Proof. apply nm_eqb_spec; reflexivity. Qed.
Lemma mod_eqb_spec a : forall b, mod_eqb a b = true <-> a = b.
Proof.
  induction a as [|x a IH]; intros [|y b]; simpl; try (split; [discriminate | congruence]); try tauto.
  rewrite andb_true_iff, nm_eqb_spec, IH. split; [intros [-> ->]; reflexivity | intros H; inversion H; auto].
Qed.
Lemma mod_eqb_refl a : mod_eqb a a = true.
Proof. apply mod_eqb_spec; reflexivity. Qed.

(* ---------------------------------------------------------------- load_graph: duplicate detection *)
Lemma graph_find_app g1 g2 m :
  graph_find (g1 ++ g2) m = match graph_find g1 m with Some p => Some p | None => graph_find g2 m end.
Proof.
  induction g1 as [|[m' p] g1 IH]; simpl; [reflexivity|]. destruct (mod_eqb m' m); auto.
Qed.
Lemma graph_find_some g m p : graph_find g m = Some p -> In (m, p) g.
Proof.
  induction g as [|[m' p'] g IH]; simpl; [discriminate|].
  destruct (mod_eqb m' m) eqn:E.
  - intros H; inversion H; subst. apply mod_eqb_spec in E; subst. auto.
  - auto.
Qed.
Lemma graph_find_none g m : graph_find g m = None <-> ~ In m (map fst g).
Proof.
  induction g as [|[m' p'] g IH]; simpl; [tauto|].
  destruct (mod_eqb m' m) eqn:E.
  - apply mod_eqb_spec in E; subst. split; [discriminate | intros H; exfalso; apply H; auto].
  - rewrite IH. split; [intros H [H1|H1]; [subst; rewrite mod_eqb_refl in E; discriminate | auto] | tauto].
Qed.

(* success: the graph is the sources in order, and all module names (old and new) are distinct *)
Lemma load_roots_ok : forall srcs g g',
  NoDup (map fst g) -> load_roots srcs g = inl g' ->
  g' = g ++ map (fun s => (s_mod s, s_path s)) srcs /\ NoDup (map fst g').
Proof.
  induction srcs as [|s r IH]; simpl; intros g g' ND H.
  - inversion H; subst. rewrite app_nil_r. auto.
  - destruct (graph_find g (s_mod s)) eqn:E; [discriminate|].
    apply IH in H.
    + destruct H as [-> H2]. split; [rewrite <- app_assoc; reflexivity | exact H2].
    + rewrite map_app. simpl. apply graph_find_none in E.
      eapply Permutation_NoDup; [apply Permutation_cons_append|]. constructor; auto.
Qed.

Lemma load_roots_err : forall srcs g m p first,
  load_roots srcs g = inr (DuplicateModule m p first) ->
  exists s, In s srcs /\ s_mod s = m /\ s_path s = p /\
            In (m, first) (g ++ map (fun s => (s_mod s, s_path s)) srcs).
Proof.
  induction srcs as [|s r IH]; simpl; intros g m p first H; [discriminate|].
  destruct (graph_find g (s_mod s)) eqn:E.
  - inversion H; subst. exists s. repeat split; auto. apply in_or_app. left. apply graph_find_some; auto.
  - apply IH in H. destruct H as (s' & Hin & Hm & Hp & Hf). exists s'. repeat split; auto.
    rewrite <- app_assoc in Hf. exact Hf.
Qed.

Lemma load_roots_complete : forall srcs g,
  NoDup (map fst g ++ map s_mod srcs) -> exists g', load_roots srcs g = inl g'.
Proof.
  induction srcs as [|s r IH]; simpl; intros g ND; [eauto|].
  destruct (graph_find g (s_mod s)) eqn:E.
  - exfalso. apply graph_find_some in E. apply NoDup_remove_2 in ND. apply ND.
    apply in_or_app. left. change (s_mod s) with (fst (s_mod s, r0)). apply in_map; auto.
  - apply IH. rewrite map_app. simpl. rewrite <- app_assoc. simpl. exact ND.
Qed.

Lemma duplicate_detected_lemma : forall srcs,
  (exists g, load_roots srcs [] = inl g) <-> NoDup (map s_mod srcs).
Proof.
  intros srcs. split.
  - intros [g H]. apply load_roots_ok in H; [|constructor]. destruct H as [-> H]. simpl in H.
    rewrite map_map in H. exact H.
  - intros ND. apply load_roots_complete. exact ND.
Qed.

Lemma crawl_each_perm_ok : forall o t fs fs' l,
  Permutation fs fs' -> crawl_each o t fs = Ok l -> exists l', crawl_each o t fs' = Ok l' /\ Permutation l l'.
Proof.
  intros o t fs fs' l P. revert l. induction P; intros l0 H; simpl in *.
  - eauto.
  - destruct (crawl_up o t x) as [[m b]|e]; [|discriminate].
    destruct (crawl_each o t l) as [l1|e] eqn:E; [|discriminate].
    destruct (IHP _ eq_refl) as (l2 & -> & P2). inversion H; subst. eauto.
  - destruct (crawl_up o t y) as [[m b]|e]; [|discriminate].
    destruct (crawl_up o t x) as [[m' b']|e]; [|destruct (crawl_each o t l); discriminate].
    destruct (crawl_each o t l) as [l1|e]; [|discriminate].
    inversion H; subst. eexists; split; [reflexivity | apply perm_swap].
  - destruct (IHP1 _ H) as (l1 & H1 & Q1). destruct (IHP2 _ H1) as (l2 & H2 & Q2). eauto using Permutation_trans.
Qed.

Definition classic (c : rpath) : opts := {| ns := false; explicit := false; mypy_path := []; cwd := c |}.
Definition a_ := Id 1%positive.
Definition b_ := Id 2%positive.
Definition w_ := Id 23%positive.
Definition tree_dir_skips : dir := [((w_, NoExt), Dir [((a_, Py), File); ((a_, NoExt), Dir [((b_, Py), File)])])].
Definition tree_pkg_shadows : dir := [((w_, NoExt), Dir [((a_, Py), File); ((a_, NoExt), Dir [((Init, Py), File)])])].

Lemma dir_skips_witness :
  wf_node (Dir tree_dir_skips) = true /\ valid_names tree_dir_skips = true /\
  exists l_dir l_files,
    find_sources_in_dir (classic []) tree_dir_skips [dn w_] = Ok l_dir /\
    crawl_each (classic []) tree_dir_skips (py_files tree_dir_skips [dn w_]) = Ok l_files /\
    NoDup (map s_mod l_files) /\ length l_dir = 1 /\ length l_files = 2.
Proof.
  split; [reflexivity|]. split; [reflexivity|]. eexists. eexists.
  split; [vm_compute; reflexivity|]. split; [vm_compute; reflexivity|].
  split; [|split; reflexivity].
  simpl. constructor; [simpl; intros [H|[]]; discriminate|]. constructor; [intros []|constructor].
Qed.
Lemma pkg_shadows_witness :
  wf_node (Dir tree_pkg_shadows) = true /\ valid_names tree_pkg_shadows = true /\
  crawl_up (classic []) tree_pkg_shadows [(a_, Py); dn w_] = Ok ([a_], [dn w_]) /\
  find_module (classic []) tree_pkg_shadows [[dn w_]] [a_] = Found [(Init, Py); dn a_; dn w_].
Proof. repeat split. Qed.
