(* Full-strength statements of property C18 over the model (always visible, proved or not). *)
From Coq Require Import List Bool PArith Permutation.
From C18 Require Import Model.
Import ListNotations.

(* DESIGN statement, strict form: what find_module returns for the crawled module name is the file or its
   sibling stub.  FALSE in the faithful model (Properties.crawl_find_inverse_strict_refuted): a package
   a/__init__.py beside a.py wins. *)
Definition crawl_find_inverse_strict : Prop :=
  forall o t f m b, wf_node (Dir t) = true -> valid_names t = true -> isfile t f = true -> py_path f = true -> m <> [] ->
    crawl_up o t f = Ok (m, b) ->
    exists g, find_module o t [b] m = Found g /\ strict_ok f g = true.

(* The form that holds, for every tree, depth and option combination (classic, namespace_packages,
   explicit_package_bases with any mypy_path / cwd): the result is the file, its sibling stub, the package beside a
   module file (both map to the same name: duplicate error when both are given) or, in namespace mode, the directory
   beside a module file (`rel_ok` in Model.v).  PROVED: Properties.crawl_find_inverse. *)
Definition crawl_find_inverse : Prop :=
  forall o t f, valid_names t = true -> isfile t f = true -> py_path f = true ->
    inverse_ok o t f = true.

Definition same_sources (l1 l2 : list source) : Prop :=
  forall p m, (exists b, In {| s_path := p; s_mod := m; s_base := b |} l1) <->
              (exists b, In {| s_path := p; s_mod := m; s_base := b |} l2).

(* DESIGN statement: a directory, and its files listed one by one in any order, give the same (module, path)
   set, or the duplicate check fires.  FALSE in the faithful model (Properties.dir_eq_files_refuted):
   w/{ a.py a/{ b.py } }. *)
Definition dir_eq_files : Prop :=
  forall o t d l_dir fs l_files, wf_node (Dir t) = true -> valid_names t = true ->
    find_sources_in_dir o t d = Ok l_dir -> Permutation fs (py_files t d) -> crawl_each o t fs = Ok l_files ->
    same_sources l_dir l_files \/ ~ NoDup (map s_mod l_files).

(* The strongest TRUE form: on trees without a module file n.py[i] beside a directory n (`no_shadow`), for every
   option combination, depth and order of the files, either two files share a module name (load_graph then stops with
   "Duplicate module named": Properties.duplicate_detected) or the directory walk and the per-file crawl yield the
   same sources (as multisets, hence the same (module, path, base) set).  PROVED: Properties.dir_eq_files_no_shadow. *)
Definition dir_eq_files_no_shadow : Prop :=
  forall o t d l_dir fs l_files, wf_node (Dir t) = true -> no_shadow t = true ->
    find_sources_in_dir o t d = Ok l_dir -> Permutation fs (py_files t d) -> crawl_each o t fs = Ok l_files ->
    Permutation l_dir l_files \/ ~ NoDup (map s_mod l_files).

(* ... and `-p pkg` from the directory holding pkg yields exactly the (module, path) set of the directory walk (the
   namespace directories, which the package walk lists with a directory path, apart): for every tree with valid names and
   without a module file beside a same-named directory, every option combination (classic, namespace packages, explicit
   bases) and depth, provided every source of the directory is rooted at cwd (then no two of them share a module name, so
   the duplicate check cannot fire).  PROVED: Properties.dir_eq_package.  Without no_shadow it is false:
   Properties.dir_eq_package_needs_no_shadow (the second finding). *)
Definition dir_eq_package : Prop :=
  forall o t base p l_dir l_pkg, wf_node (Dir t) = true -> valid_names t = true -> no_shadow t = true ->
    cwd o = base -> mypy_path o = [] ->
    find_sources_in_dir o t (dn p :: base) = Ok l_dir ->
    (forall s, In s l_dir -> s_base s = Some base) ->
    find_modules_recursive o t [base] [p] = Ok l_pkg ->
    same_sources l_dir (filter (fun s => isfile t (s_path s)) l_pkg).

(* load_graph's same-file check is exact: it fires iff the new module name is not in the graph and its canonical path
   already belongs to a (necessarily different) module of the graph.  PROVED: Properties.found_twice_iff. *)
Definition found_twice_iff : Prop :=
  forall g dep p, (exists e, add_dependency g dep p = inr e) <->
                  (~ In dep (map fst g) /\ exists m1, In (m1, p) g /\ m1 <> dep).

(* Path-canonicalisation contract (monitored on mypy by the S3 stage, proved for the model's normpath): files are keyed by
   normpath(join(cwd, spelling)); a canonical path is a fixed point; `./x`, `x/.`, `x/y/..`, `../<cwd>/x` and the absolute
   spelling all denote the path of `x`; hence the same-file check cannot depend on the spelling. *)
Definition canonicalisation_contract : Prop :=
  (forall cwd cs, normpath [] (spell (normpath cwd cs)) = normpath cwd cs) /\
  (forall cwd cs x c0 rest,
      normpath cwd (CDot :: cs) = normpath cwd cs /\
      normpath cwd (cs ++ [CDot]) = normpath cwd cs /\
      normpath cwd (cs ++ [CName x; CUp]) = normpath cwd cs /\
      normpath (c0 :: rest) (CUp :: CName c0 :: cs) = normpath (c0 :: rest) cs /\
      normpath [] (spell cwd ++ cs) = normpath cwd cs) /\
  (forall cwd cwd' g dep cs cs', normpath cwd cs = normpath cwd' cs' ->
      add_dependency_spelled cwd g dep cs = add_dependency_spelled cwd' g dep cs').

Definition duplicate_detected : Prop :=
  forall srcs, (exists g, load_roots srcs [] = inl g) <-> NoDup (map s_mod srcs).
