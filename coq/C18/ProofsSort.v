(* C18: keyfunc's order is a total preorder, isort sorts; hence n.pyi is processed before n.py. *)
From Coq Require Import List Bool PArith NArith Arith Lia Permutation Sorted.
From C18 Require Import Model Proofs ProofsInverse ProofsDir.
Import ListNotations.

Lemma pair_leb_total a b : pair_leb a b = false -> pair_leb b a = true.
Proof.
  unfold pair_leb. destruct a as [a1 a2], b as [b1 b2]. simpl.
  destruct (N.ltb_spec a1 b1), (N.eqb_spec a1 b1), (N.leb_spec a2 b2),
           (N.ltb_spec b1 a1), (N.eqb_spec b1 a1), (N.leb_spec b2 a2); simpl; try reflexivity; try discriminate; lia.
Qed.
Lemma pair_leb_trans a b c : pair_leb a b = true -> pair_leb b c = true -> pair_leb a c = true.
Proof.
  unfold pair_leb. destruct a as [a1 a2], b as [b1 b2], c as [c1 c2]. simpl.
  destruct (N.ltb_spec a1 b1), (N.eqb_spec a1 b1), (N.leb_spec a2 b2),
           (N.ltb_spec b1 c1), (N.eqb_spec b1 c1), (N.leb_spec b2 c2),
           (N.ltb_spec a1 c1), (N.eqb_spec a1 c1), (N.leb_spec a2 c2); simpl; try reflexivity; try discriminate; lia.
Qed.
Lemma keyfunc_total a b : keyfunc_leb a b = false -> keyfunc_leb b a = true.
Proof.
  unfold keyfunc_leb, nm_leb. destruct a as [na ea], b as [nb eb]. simpl.
  destruct (is_init na), (is_init nb), ea, eb; simpl; try reflexivity; try discriminate; apply pair_leb_total.
Qed.
Lemma keyfunc_trans a b c : keyfunc_leb a b = true -> keyfunc_leb b c = true -> keyfunc_leb a c = true.
Proof.
  unfold keyfunc_leb, nm_leb. destruct a as [na ea], b as [nb eb], c as [nc ec]. simpl.
  destruct (is_init na), (is_init nb), (is_init nc), ea, eb, ec; simpl; try reflexivity; try discriminate; apply pair_leb_trans.
Qed.
Lemma keyfunc_py_pyi n : keyfunc_leb (n, Py) (n, Pyi) = false.
Proof. unfold keyfunc_leb. simpl. destruct (is_init n); reflexivity. Qed.

Definition kle (a b : ename) : Prop := keyfunc_leb a b = true.
Lemma insert_sorted x : forall l, StronglySorted kle l -> StronglySorted kle (insert keyfunc_leb x l).
Proof.
  induction l as [|a l IH]; intros S; simpl.
  - constructor; constructor.
  - inversion S as [|? ? Sl Fa]; subst. destruct (keyfunc_leb x a) eqn:E.
    + constructor; [assumption|]. constructor; [exact E|].
      eapply Forall_impl; [|exact Fa]. intros y Hy. eapply keyfunc_trans; eauto.
    + constructor; [apply IH; assumption|].
      eapply Permutation_Forall; [symmetry; apply insert_perm|]. constructor; [apply keyfunc_total; exact E | exact Fa].
Qed.
Lemma isort_sorted l : StronglySorted kle (isort keyfunc_leb l).
Proof. induction l as [|x l IH]; [constructor|]. unfold isort in *. simpl. apply insert_sorted. exact IH. Qed.
(* in a sorted suffix, n.pyi cannot follow n.py *)
Lemma sorted_head_py n L : StronglySorted kle ((n, Py) :: L) -> ~ In (n, Pyi) L.
Proof.
  intros S Hin. inversion S as [|? ? _ F]; subst. rewrite Forall_forall in F. specialize (F _ Hin).
  unfold kle in F. rewrite keyfunc_py_pyi in F. discriminate.
Qed.
Lemma isort_nodup {A} (le : A -> A -> bool) l : NoDup l -> NoDup (isort le l).
Proof. intros H. eapply Permutation_NoDup; [symmetry; apply isort_perm | exact H]. Qed.
