(* C18: every source of find_sources_in_dir is the crawl of an existing .py[i] file; the finder agrees with it. *)
From Coq Require Import List Bool PArith NArith Arith Lia Permutation.
From C18 Require Import Model Proofs ProofsInverse ProofsDir.
Import ListNotations.

Definition src_ok (o : opts) (t : dir) (s : source) : Prop :=
  isfile t (s_path s) = true /\ py_path (s_path s) = true /\
  exists b, s_base s = Some b /\ crawl_up o t (s_path s) = Ok (s_mod s, b).

Lemma lookup_in_names : forall (d : dir) x, In x (map fst d) -> lookup d x <> None.
Proof.
  induction d as [|[e n] d IH]; simpl; intros x H; [contradiction|].
  destruct (ename_eqb e x) eqn:E; [discriminate|]. destruct H as [H|H]; [subst; rewrite ename_eqb_refl in E; discriminate|].
  apply IH; assumption.
Qed.
Lemma listed_file t rp d x : get t rp = Some (Dir d) -> In x (map fst d) -> isdir t (x :: rp) = false -> isfile t (x :: rp) = true.
Proof.
  intros G Hin D. unfold isfile, isdir in *. rewrite get_cons, G in *.
  pose proof (lookup_in_names d x Hin) as L. destruct (lookup d x) as [[|dd]|]; congruence.
Qed.

Lemma fsd_fold_sound o t k rp d
  (G : get t rp = Some (Dir d))
  (IHk : forall sub l s, fsd k o t sub = Ok l -> In s l -> src_ok o t s) :
  forall L seen acc seen' acc',
    (forall name, In name L -> In name (map fst d)) ->
    (forall s, In s acc -> src_ok o t s) ->
    fold_left (fsd_step k o t rp) L (Ok (seen, acc)) = Ok (seen', acc') ->
    forall s, In s acc' -> src_ok o t s.
Proof.
  induction L as [|h L IH]; intros seen acc seen' acc' Sub A HF s Hs; cbn [fold_left] in HF.
  - inversion HF; subst. auto.
  - assert (Sub' : forall name, In name L -> In name (map fst d)) by (intros; apply Sub; simpl; auto).
    destruct (isdir t (h :: rp)) eqn:D.
    + rewrite step_dir in HF by assumption.
      destruct (fsd k o t (h :: rp)) as [ss|x] eqn:Esub; [|rewrite fold_err in HF; discriminate].
      destruct ss as [|s0 ss'].
      * eapply IH; eauto.
      * eapply (IH _ _ _ _ Sub') with (2 := HF); auto.
        intros s1 H1. apply in_app_or in H1. destruct H1 as [H1|H1]; [auto | eapply IHk; eauto].
    + rewrite step_file in HF by assumption.
      destruct (negb (mem_nm (fst h) seen) && is_py (snd h)) eqn:C.
      * destruct (crawl_up o t (h :: rp)) as [[m b]|x] eqn:Ec; [|rewrite fold_err in HF; discriminate].
        eapply (IH _ _ _ _ Sub') with (2 := HF); auto.
        intros s1 H1. apply in_app_or in H1. destruct H1 as [H1|[<-|[]]]; [auto|].
        apply andb_prop in C. destruct C as [_ Py]. unfold src_ok. simpl. split.
        -- eapply listed_file; eauto. apply Sub. simpl; auto.
        -- split; [destruct h; exact Py | eauto].
      * eapply IH; eauto.
Qed.

Theorem fsd_sound o t : forall fuel rp l s, fsd fuel o t rp = Ok l -> In s l -> src_ok o t s.
Proof.
  induction fuel as [|k IHk]; intros rp l s H Hin; [discriminate|].
  rewrite fsd_unfold in H. unfold listdir in H. destruct (get t rp) as [[|d]|] eqn:G; try discriminate.
  destruct (fold_left (fsd_step k o t rp) (isort keyfunc_leb (map fst d)) (Ok ([], []))) as [[seen' acc']|x] eqn:EF;
    [|discriminate].
  inversion H; subst acc'.
  eapply (fsd_fold_sound o t k rp d G IHk) with (3 := EF); eauto.
  - intros name Hn. eapply Permutation_in; [apply isort_perm | exact Hn].
  - intros s0 [].
Qed.

(* the finder agrees with the directory walk on every source (module, path, base) it yields *)
Theorem dir_sources_found_lemma o t d l s :
  valid_names t = true -> find_sources_in_dir o t d = Ok l -> In s l -> s_mod s <> [] ->
  exists b g, s_base s = Some b /\ crawl_up o t (s_path s) = Ok (s_mod s, b) /\
              find_module o t [b] (s_mod s) = Found g /\ rel_ok o (s_path s) g = true.
Proof.
  intros V H Hin Hm. destruct (fsd_sound o t _ _ _ _ H Hin) as (F & P & b & Hb & Hc).
  destruct (crawl_find_inverse_main o t _ _ _ V F P Hc Hm) as (g & Hg & R). eauto 8.
Qed.
