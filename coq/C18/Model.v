(* C18 — files and module names map to each other consistently.
   Hand model (definitions only) of
     mypy/find_sources.py   create_source_list, keyfunc, SourceFinder.{find_sources_in_dir, crawl_up,
                            crawl_up_dir, _crawl_up_helper, get_init_file}, module_join, strip_py
     mypy/modulefinder.py   FindModuleCache.{find_lib_path_dirs, get_toplevel_possibilities, _find_module
                            (user paths: mypy_path + python_path), find_modules_recursive}, verify_module,
                            highest_init_level, is_init_file, compute_search_paths (python_path/mypy_path part)
     mypy/build.py          load_graph: "Duplicate module named" and "Source file found twice" checks
   tied to the source by exhaustive small-scope correspondence (tools/harness/C18.py).

   Names.  A file-system name is (nm, ext).  The harness concretises
       Init -> "__init__"     Id p -> the p-th lower-case letter        (an identifier, no dot)
       Stubs p -> "<letter>-stubs"     Bad p -> "<letter>-x"            (not identifiers)
       NoExt -> ""   Pyi -> ".pyi"   Py -> ".py"
   and the two orders below (key order of keyfunc, plain string order) are those of Python strings
   on these concrete names.  Paths are absolute and REVERSED (innermost component first), so that
   the parent of a path is its tail; [] is the root of the modelled tree. *)
From Coq Require Import List Bool PArith NArith Arith.
Import ListNotations.

Inductive nm := Init | Id (p : positive) | Stubs (p : positive) | Bad (p : positive).
Inductive ext := NoExt | Pyi | Py.
Definition ename := (nm * ext)%type.
Inductive node := File | Dir (es : list (ename * node)).
Definition dir := list (ename * node).
Definition rpath := list ename.          (* innermost first *)
Definition modname := list nm.           (* components of a dotted module id; [] is "" *)

Definition nm_eqb (a b : nm) : bool :=
  match a, b with
  | Init, Init => true
  | Id p, Id q | Stubs p, Stubs q | Bad p, Bad q => Pos.eqb p q
  | _, _ => false
  end.
Definition ext_eqb (a b : ext) : bool :=
  match a, b with NoExt, NoExt | Pyi, Pyi | Py, Py => true | _, _ => false end.
Definition ename_eqb (a b : ename) : bool := nm_eqb (fst a) (fst b) && ext_eqb (snd a) (snd b).
Fixpoint rpath_eqb (a b : rpath) : bool :=
  match a, b with
  | [], [] => true
  | x :: a', y :: b' => ename_eqb x y && rpath_eqb a' b'
  | _, _ => false
  end.
Fixpoint mod_eqb (a b : modname) : bool :=
  match a, b with
  | [], [] => true
  | x :: a', y :: b' => nm_eqb x y && mod_eqb a' b'
  | _, _ => false
  end.

(* ---------------------------------------------------------------- the file system (FileSystemCache) *)
Fixpoint lookup (d : dir) (e : ename) : option node :=
  match d with
  | [] => None
  | (e', n) :: r => if ename_eqb e' e then Some n else lookup r e
  end.
(* node at a forward path (outermost first) below d *)
Fixpoint getf (d : dir) (p : list ename) : option node :=
  match p with
  | [] => Some (Dir d)
  | e :: q => match lookup d e with
              | Some (Dir d') => getf d' q
              | Some File => match q with [] => Some File | _ => None end
              | None => None
              end
  end.
Definition get (t : dir) (rp : rpath) : option node := getf t (rev rp).
Definition isfile (t : dir) (rp : rpath) : bool := match get t rp with Some File => true | _ => false end.
Definition isdir (t : dir) (rp : rpath) : bool := match get t rp with Some (Dir _) => true | _ => false end.
Definition exists_ (t : dir) (rp : rpath) : bool := match get t rp with Some _ => true | None => false end.
Definition listdir (t : dir) (rp : rpath) : option (list ename) :=
  match get t rp with Some (Dir d) => Some (map fst d) | _ => None end.

(* ---------------------------------------------------------------- names as Python strings *)
Definition is_py (e : ext) : bool := match e with NoExt => false | _ => true end.   (* suffix in PY_EXTENSIONS *)
Definition isidentifier (n : nm) : bool := match n with Init | Id _ => true | _ => false end.
Definition remove_stubs (n : nm) : nm := match n with Stubs p => Id p | _ => n end.   (* name.removesuffix("-stubs") *)
Definition add_stubs (n : nm) : option nm := match n with Id p => Some (Stubs p) | _ => None end. (* representable "<n>-stubs" *)
Definition is_init (n : nm) : bool := match n with Init => true | _ => false end.

(* string order on stems: "__init__" < "a" < "a-stubs" < "a-x" < "b" ... *)
Definition nm_key (n : nm) : N * N :=
  match n with Init => (0, 0) | Id p => (Npos p, 0) | Stubs p => (Npos p, 1) | Bad p => (Npos p, 2) end%N.
Definition pair_leb (a b : N * N) : bool := N.ltb (fst a) (fst b) || (N.eqb (fst a) (fst b) && N.leb (snd a) (snd b)).
Definition nm_leb (a b : nm) : bool := pair_leb (nm_key a) (nm_key b).
Definition ext_rank (e : ext) : N := match e with NoExt => 0 | Pyi => 1 | Py => 2 end%N.
(* keyfunc(name) = (base != "__init__", index of suffix in PY_EXTENSIONS or -1, base) compared as tuples *)
Definition keyfunc_leb (a b : ename) : bool :=
  let ia := negb (is_init (fst a)) in let ib := negb (is_init (fst b)) in
  if Bool.eqb ia ib then
    if N.eqb (ext_rank (snd a)) (ext_rank (snd b)) then nm_leb (fst a) (fst b)
    else N.ltb (ext_rank (snd a)) (ext_rank (snd b))
  else negb ia.
(* plain string order on whole names: "a" < "a-stubs" < "a-stubs.py" < "a-stubs.pyi" < "a-x" < .. < "a.py" < "a.pyi" *)
Definition plain_key (e : ename) : N * N :=
  let x := match snd e with NoExt => 0 | Py => 1 | Pyi => 2 end%N in
  match fst e with
  | Init => (0, x)
  | Id p => (Npos p, match snd e with NoExt => 0 | Py => 7 | Pyi => 8 end)
  | Stubs p => (Npos p, 1 + x)
  | Bad p => (Npos p, 4 + x)
  end%N.
Definition plain_leb (a b : ename) : bool := pair_leb (plain_key a) (plain_key b).

Fixpoint insert {A} (le : A -> A -> bool) (x : A) (l : list A) : list A :=
  match l with
  | [] => [x]
  | y :: r => if le x y then x :: l else y :: insert le x r
  end.
Definition isort {A} (le : A -> A -> bool) (l : list A) : list A := fold_right (insert le) [] l.

(* ---------------------------------------------------------------- options *)
Record opts := { ns : bool;                 (* options.namespace_packages *)
                 explicit : bool;           (* options.explicit_package_bases *)
                 mypy_path : list rpath;    (* MYPYPATH + options.mypy_path (absolute) *)
                 cwd : rpath }.
(* get_explicit_package_bases *)
Definition bases (o : opts) : option (list rpath) :=
  if explicit o then Some (mypy_path o ++ [cwd o]) else None.
Definition is_base (o : opts) (rp : rpath) : bool :=
  match bases o with Some bs => existsb (rpath_eqb rp) bs | None => false end.

Inductive err := InvalidSourceList | OutOfFuel | NotADirectory.
Inductive res (A : Type) := Ok (a : A) | Err (e : err).
Arguments Ok {A} a.
Arguments Err {A} e.

(* ---------------------------------------------------------------- find_sources.py *)
(* get_init_file: prefers .pyi *)
Definition get_init_file (t : dir) (rp : rpath) : option rpath :=
  if isfile t ((Init, Pyi) :: rp) then Some ((Init, Pyi) :: rp)
  else if isfile t ((Init, Py) :: rp) then Some ((Init, Py) :: rp) else None.
Definition has_init (t : dir) (rp : rpath) : bool :=
  match get_init_file t rp with Some _ => true | None => false end.

(* a directory name as a package name: None when it is not an identifier *)
Definition pkg_name (e : ename) : option nm :=
  match snd e with
  | NoExt => let n := remove_stubs (fst e) in if isidentifier n then Some n else None
  | _ => None            (* "x.py" as a directory name is not an identifier *)
  end.

Definition or_self (rp : rpath) (r : res (option (modname * rpath))) : res (modname * rpath) :=
  match r with Ok (Some x) => Ok x | Ok None => Ok ([], rp) | Err e => Err e end.

(* _crawl_up_helper.  At the root of the modelled tree ([]) the real code keeps climbing through
   directories the model does not contain; they hold no __init__ file and are no explicit bases. *)
Fixpoint crawl_helper (o : opts) (t : dir) (rp : rpath) : res (option (modname * rpath)) :=
  match rp with
  | [] => if is_base o [] then Ok (Some ([], []))
          else if has_init t [] then Err InvalidSourceList else Ok None
  | e :: parent =>
      if is_base o rp then Ok (Some ([], rp))
      else if has_init t rp then
        match pkg_name e with
        | None => Err InvalidSourceList
        | Some name =>
            match or_self parent (crawl_helper o t parent) with
            | Ok (mp, b) => Ok (Some (mp ++ [name], b))
            | Err x => Err x
            end
        end
      else match pkg_name e with
           | None => Ok None
           | Some name =>
               if negb (ns o) then Ok None
               else match crawl_helper o t parent with
                    | Ok None => Ok None
                    | Ok (Some (mp, b)) => Ok (Some (mp ++ [name], b))
                    | Err x => Err x
                    end
           end
  end.
Definition crawl_up_dir (o : opts) (t : dir) (rp : rpath) : res (modname * rpath) :=
  or_self rp (crawl_helper o t rp).
(* crawl_up of a file path: (module, base_dir) *)
Definition crawl_up (o : opts) (t : dir) (f : rpath) : res (modname * rpath) :=
  match f with
  | [] => Err NotADirectory
  | (stem, _) :: parent =>
      match crawl_up_dir o t parent with
      | Err x => Err x
      | Ok (pm, b) => if is_init stem then Ok (pm, b) else Ok (pm ++ [stem], b)
      end
  end.

Record source := { s_path : rpath; s_mod : modname; s_base : option rpath }.

Definition mem_nm (n : nm) (l : list nm) : bool := existsb (nm_eqb n) l.

(* find_sources_in_dir; fuel bounds the directory depth *)
Fixpoint fsd (fuel : nat) (o : opts) (t : dir) (rp : rpath) : res (list source) :=
  match fuel with
  | O => Err OutOfFuel
  | S k =>
      match listdir t rp with
      | None => Err NotADirectory
      | Some names =>
          let step (st : res (list nm * list source)) (name : ename) :=
            match st with
            | Err x => Err x
            | Ok (seen, acc) =>
                let sub := name :: rp in
                if isdir t sub then
                  match fsd k o t sub with
                  | Err x => Err x
                  | Ok [] => Ok (seen, acc)
                  | Ok ss => Ok ((match snd name with NoExt => [fst name] | _ => [] end) ++ seen, acc ++ ss)
                  end
                else if negb (mem_nm (fst name) seen) && is_py (snd name) then
                  match crawl_up o t sub with
                  | Err x => Err x
                  | Ok (m, b) => Ok (fst name :: seen, acc ++ [{| s_path := sub; s_mod := m; s_base := Some b |}])
                  end
                else Ok (seen, acc)
            end in
          match fold_left step (isort keyfunc_leb names) (Ok ([], [])) with
          | Err x => Err x
          | Ok (_, acc) => Ok acc
          end
      end
  end.
Fixpoint depth_node (n : node) : nat :=
  match n with
  | File => 0
  | Dir es => S (fold_right (fun en m => Nat.max (depth_node (snd en)) m) 0 es)
  end.
Definition find_sources_in_dir (o : opts) (t : dir) (rp : rpath) : res (list source) :=
  fsd (S (depth_node (Dir t))) o t rp.

(* create_source_list for arguments that are .py[i] paths or directories *)
Fixpoint create_source_list (o : opts) (t : dir) (args : list rpath) : res (list source) :=
  match args with
  | [] => Ok []
  | a :: rest =>
      let here :=
        match a with
        | (_, e) :: _ =>
            if is_py e then
              match crawl_up o t a with
              | Ok (m, b) => Ok [{| s_path := a; s_mod := m; s_base := Some b |}]
              | Err x => Err x
              end
            else if isdir t a then
              match find_sources_in_dir o t a with
              | Ok [] => Err InvalidSourceList
              | r => r
              end
            else Ok [{| s_path := a; s_mod := []; s_base := None |}]
        | [] => match find_sources_in_dir o t [] with Ok [] => Err InvalidSourceList | r => r end
        end in
      match here with
      | Err x => Err x
      | Ok l => match create_source_list o t rest with Ok l' => Ok (l ++ l') | Err x => Err x end
      end
  end.

(* ---------------------------------------------------------------- modulefinder.py *)
Definition dn (n : nm) : ename := (n, NoExt).
(* compute_search_paths: mypy_path + reversed(python_path), python_path = [cwd] + distinct base dirs *)
Fixpoint uniq_bases (srcs : list source) (acc : list rpath) : list rpath :=
  match srcs with
  | [] => acc
  | s :: r => match s_base s with
              | Some b => if existsb (rpath_eqb b) acc then uniq_bases r acc else uniq_bases r (acc ++ [b])
              | None => uniq_bases r acc
              end
  end.
Definition search_paths (o : opts) (srcs : list source) : list rpath :=
  mypy_path o ++ rev (uniq_bases srcs []) ++ [cwd o].

(* get_toplevel_possibilities: some entry of the directory has this root name *)
Definition toplevel_possible (t : dir) (pi : rpath) (c : nm) : bool :=
  match listdir t pi with Some names => existsb (fun e => nm_eqb (fst e) c) names | None => false end.
(* find_lib_path_dirs (every user-path candidate has verify=True) *)
Definition find_lib_path_dirs (t : dir) (id : modname) (lib_path : list rpath) : list rpath :=
  match id with
  | [] => []
  | c0 :: _ =>
      let chain := rev (map dn (removelast id)) in
      flat_map (fun pi => if toplevel_possible t pi c0 && isdir t (chain ++ pi) then [chain ++ pi] else []) lib_path
  end.
(* verify_module: the k = id.count(".") directories from the module's own directory upwards have __init__ *)
Fixpoint verify_module (t : dir) (bd : rpath) (k : nat) : bool :=
  match k with O => true | S k' => has_init t bd && verify_module t (tl bd) k' end.
Fixpoint hil_loop (t : dir) (bd : rpath) (k i level : nat) : nat :=
  match k with
  | O => level
  | S k' => hil_loop t (tl bd) k' (S i) (if has_init t bd then S i else level)
  end.
Definition highest_init_level (t : dir) (bd : rpath) (k : nat) : nat := hil_loop t bd k 0 0.

Inductive hit := Ret (p : rpath) | Miss (near : list (rpath * nat)).   (* near miss with its init level *)
(* body of the loop over candidate_base_dirs in _find_module *)
Definition scan_candidate (o : opts) (t : dir) (bd : rpath) (k : nat) (last : nm) : hit :=
  let v := verify_module t bd k in
  let lvl := highest_init_level t bd k in
  let try (p : rpath) (near : list (rpath * nat)) (cont : list (rpath * nat) -> hit) : hit :=
    if isfile t p then (if v then Ret p else cont (near ++ [(p, lvl)])) else cont near in
  let pd := dn last :: bd in
  let stubs := match add_stubs last with Some s => Some ((Init, Pyi) :: dn s :: bd) | None => None end in
  let after_stubs (near : list (rpath * nat)) : hit :=
    try ((Init, Pyi) :: pd) near (fun near =>
    try ((Init, Py) :: pd) near (fun near =>
    let has_init := isfile t ((Init, Pyi) :: pd) || isfile t ((Init, Py) :: pd) in
    let near := if ns o && negb has_init && exists_ t pd && negb (isfile t pd) then near ++ [(pd, lvl)] else near in
    try ((last, Pyi) :: bd) near (fun near =>
    try ((last, Py) :: bd) near (fun near => Miss near)))) in
  match stubs with
  | Some sp => try sp [] after_stubs
  | None => after_stubs []
  end.

Inductive fm_result := Found (p : rpath) | NotFound.
Fixpoint first_max (l : list (rpath * nat)) (best : rpath) (bl : nat) : rpath :=
  match l with
  | [] => best
  | (p, n) :: r => if Nat.ltb bl n then first_max r p n else first_max r best bl
  end.
Fixpoint scan_all (o : opts) (t : dir) (cands : list rpath) (k : nat) (last : nm) (near : list (rpath * nat)) : fm_result :=
  match cands with
  | [] => match near with
          | (p, n) :: r => if ns o then Found (first_max r p n) else NotFound
          | [] => NotFound
          end
  | bd :: rest => match scan_candidate o t bd k last with
                  | Ret p => Found p
                  | Miss l => scan_all o t rest k last (near ++ l)
                  end
  end.
(* FindModuleCache._find_module restricted to user paths (mypy_path + python_path) *)
Definition find_module (o : opts) (t : dir) (sp : list rpath) (id : modname) : fm_result :=
  match id with
  | [] => NotFound
  | _ => scan_all o t (find_lib_path_dirs t id sp) (length id - 1) (last id Init) []
  end.

Definition is_init_file (p : rpath) : bool :=
  match p with (Init, e) :: _ => is_py e | _ => false end.

(* find_modules_recursive; fuel bounds the package depth *)
Fixpoint fmr (fuel : nat) (o : opts) (t : dir) (sp : list rpath) (m : modname) : res (list source) :=
  match fuel with
  | O => Err OutOfFuel
  | S k =>
      match find_module o t sp m with
      | NotFound => Ok []
      | Found g =>
          let me := {| s_path := g; s_mod := m; s_base := None |} in
          let pkg := if is_init_file g then Some (tl g) else if isdir t g then Some g else None in
          match pkg with
          | None => Ok [me]
          | Some pp =>
              match listdir t pp with
              | None => Err NotADirectory
              | Some names =>
                  let step (st : res (list nm * list source)) (name : ename) :=
                    match st with
                    | Err x => Err x
                    | Ok (seen, acc) =>
                        let sub := name :: pp in
                        if isdir t sub then
                          if ns o || isfile t ((Init, Py) :: sub) || isfile t ((Init, Pyi) :: sub) then
                            match snd name with
                            | NoExt => match fmr k o t sp (m ++ [fst name]) with
                                       | Err x => Err x
                                       | Ok ss => Ok (fst name :: seen, acc ++ ss)
                                       end
                            | _ => Ok (seen, acc)      (* "x.py" directories: out of the modelled fragment *)
                            end
                          else Ok (seen, acc)
                        else if is_init (fst name) then Ok (seen, acc)
                        else if negb (mem_nm (fst name) seen) && is_py (snd name) then
                          match fmr k o t sp (m ++ [fst name]) with
                          | Err x => Err x
                          | Ok ss => Ok (fst name :: seen, acc ++ ss)
                          end
                        else Ok (seen, acc)
                    end in
                  match fold_left step (isort plain_leb names) (Ok ([], [me])) with
                  | Err x => Err x
                  | Ok (_, acc) => Ok acc
                  end
              end
          end
      end
  end.
Definition find_modules_recursive (o : opts) (t : dir) (sp : list rpath) (m : modname) : res (list source) :=
  fmr (S (S (depth_node (Dir t)))) o t sp m.

(* ---------------------------------------------------------------- build.py load_graph *)
(* BuildSource.module = module or "__main__": [] stands for "__main__" here *)
Inductive graph_error :=
| DuplicateModule (m : modname) (p first : rpath)            (* 'Duplicate module named "m" (also at "first")' *)
| FoundTwice (p : rpath) (m1 m2 : modname).                  (* 'Source file found twice under different module names' *)
Definition graph := list (modname * rpath).
Fixpoint graph_find (g : graph) (m : modname) : option rpath :=
  match g with [] => None | (m', p) :: r => if mod_eqb m' m then Some p else graph_find r m end.
(* seeding the graph with the root sources *)
Fixpoint load_roots (srcs : list source) (g : graph) : graph + graph_error :=
  match srcs with
  | [] => inl g
  | s :: r => match graph_find g (s_mod s) with
              | Some first => inr (DuplicateModule (s_mod s) (s_path s) first)
              | None => load_roots r (g ++ [(s_mod s, s_path s)])
              end
  end.
Fixpoint file_owner (g : graph) (p : rpath) : option modname :=
  match g with [] => None | (m, p') :: r => if rpath_eqb p' p then Some m else file_owner r p end.
(* a dependency `dep` that is not yet in the graph has been located at path p by find_module *)
Definition add_dependency (g : graph) (dep : modname) (p : rpath) : graph + graph_error :=
  match graph_find g dep with
  | Some _ => inl g
  | None => match file_owner g p with
            | Some m1 => inr (FoundTwice p m1 dep)
            | None => inl (g ++ [(dep, p)])
            end
  end.

(* ---------------------------------------------------------------- vocabulary of the theorems *)
(* all .py/.pyi files below a directory, in any fixed order *)
Fixpoint all_py_files (fuel : nat) (t : dir) (rp : rpath) : list rpath :=
  match fuel with
  | O => []
  | S k => match listdir t rp with
           | None => []
           | Some names =>
               flat_map (fun name => if isdir t (name :: rp) then all_py_files k t (name :: rp)
                                     else if is_py (snd name) then [name :: rp] else []) names
           end
  end.
Definition py_files (t : dir) (rp : rpath) : list rpath := all_py_files (S (depth_node (Dir t))) t rp.

Fixpoint crawl_each (o : opts) (t : dir) (fs : list rpath) : res (list source) :=
  match fs with
  | [] => Ok []
  | f :: r => match crawl_up o t f, crawl_each o t r with
              | Ok (m, b), Ok l => Ok ({| s_path := f; s_mod := m; s_base := Some b |} :: l)
              | Err x, _ => Err x
              | _, Err x => Err x
              end
  end.

(* the sibling stub of a file: same directory, same stem, .pyi *)
Definition sibling_stub (f : rpath) : rpath :=
  match f with (n, _) :: parent => (n, Pyi) :: parent | [] => [] end.

(* well-formed trees: entry names are distinct in every directory; directories carry no extension *)
Fixpoint nodup_names (l : list ename) : bool :=
  match l with [] => true | e :: r => negb (existsb (ename_eqb e) r) && nodup_names r end.
Fixpoint wf_node (n : node) : bool :=
  match n with
  | File => true
  | Dir es => nodup_names (map fst es)
              && forallb (fun en => wf_node (snd en)
                                    && match snd en with Dir _ => negb (is_py (snd (fst en))) | File => true end) es
  end.
(* valid names: every directory name is an identifier other than __init__ (no "-stubs", no "a-x") and every
   file stem is __init__ or such an identifier *)
Definition valid_dir_name (e : ename) : bool := match e with (Id _, NoExt) => true | _ => false end.
Definition valid_file_name (e : ename) : bool := match fst e with Init | Id _ => true | _ => false end.
Fixpoint valid_node (n : node) : bool :=
  match n with
  | File => true
  | Dir es => forallb (fun en => match snd en with
                                 | Dir _ => valid_dir_name (fst en) && valid_node (snd en)
                                 | File => valid_file_name (fst en)
                                 end) es
  end.
Definition valid_names (t : dir) : bool := valid_node (Dir t).

(* the relation the inverse theorem allows between a file f and what find_module returns for f's module name:
   f itself, its sibling stub, or - when f is a module file n.py[i] - the package n/__init__.py[i] beside it
   (both then map to the same module name: "Duplicate module named" if both are given) or, with namespace
   packages, the directory n beside it *)
Definition rel_ok (o : opts) (f g : rpath) : bool :=
  rpath_eqb g f || rpath_eqb g (sibling_stub f) ||
  match f with
  | (n, e) :: parent =>
      is_py e && negb (is_init n) &&
      (rpath_eqb g ((Init, Pyi) :: dn n :: parent) || rpath_eqb g ((Init, Py) :: dn n :: parent)
       || (ns o && rpath_eqb g (dn n :: parent)))
  | [] => false
  end.
Definition strict_ok (f g : rpath) : bool := rpath_eqb g f || rpath_eqb g (sibling_stub f).
Definition inverse_ok (o : opts) (t : dir) (f : rpath) : bool :=
  match crawl_up o t f with
  | Ok ([], _) => true
  | Ok (m, b) => match find_module o t [b] m with Found g => rel_ok o f g | NotFound => false end
  | Err _ => true
  end.
(* the path names a .py / .pyi entry *)
Definition py_path (f : rpath) : bool := match f with (_, e) :: _ => is_py e | [] => false end.

(* no module file n.py[i] beside a directory n (the pattern on which `mypy DIR` leaves the file out) *)
Definition shadowed_by_file (es : dir) (n : nm) : bool :=
  existsb (fun en' => match snd en' with
                      | File => is_py (snd (fst en')) && nm_eqb (fst (fst en')) n
                      | Dir _ => false
                      end) es.
Fixpoint no_shadow_node (n : node) : bool :=
  match n with
  | File => true
  | Dir es => forallb (fun en => match snd en with
                                 | Dir _ => negb (shadowed_by_file es (fst (fst en))) && no_shadow_node (snd en)
                                 | File => true
                                 end) es
  end.
Definition no_shadow (t : dir) : bool := no_shadow_node (Dir t).

(* ---------------------------------------------------------------- path spellings (State.abspath, create_source_list)
   A command-line path is a list of components; mypy keys files by os.path.normpath(os.path.join(cwd, path))
   (build.py State.__init__, modulefinder results are normalised already).  `normpath` below is that function for a
   relative spelling: cwd is a canonical reversed path, ".." at the root stays at the root. *)
Inductive comp := CDot | CUp | CName (e : ename).
Fixpoint normpath (cwd : rpath) (cs : list comp) : rpath :=
  match cs with
  | [] => cwd
  | CDot :: r => normpath cwd r
  | CUp :: r => normpath (tl cwd) r
  | CName e :: r => normpath (e :: cwd) r
  end.
(* the canonical spelling of a canonical path, from the root *)
Definition spell (p : rpath) : list comp := map CName (rev p).
(* load_graph's same-file check applied to a path as spelled *)
Definition add_dependency_spelled (cwd : rpath) (g : graph) (dep : modname) (cs : list comp) : graph + graph_error :=
  add_dependency g dep (normpath cwd cs).
