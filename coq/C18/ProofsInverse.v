(* C18: crawl_up and find_module are inverse (every tree, every depth, every option combination). *)
From Coq Require Import List Bool PArith NArith Arith Lia.
From C18 Require Import Model Proofs.
Import ListNotations.
Local Arguments dn : simpl never.

(* ---------------------------------------------------------------- equality tests *)
Lemma ext_eqb_spec a b : ext_eqb a b = true <-> a = b.
Proof. destruct a, b; simpl; split; congruence. Qed.
Lemma ename_eqb_spec a b : ename_eqb a b = true <-> a = b.
Proof.
  destruct a as [n e], b as [n' e']. unfold ename_eqb. simpl.
  rewrite andb_true_iff, nm_eqb_spec, ext_eqb_spec. split; [intros [-> ->]; reflexivity | intros H; inversion H; auto].
Qed.
Lemma ename_eqb_refl a : ename_eqb a a = true.
Proof. apply ename_eqb_spec; reflexivity. Qed.
Lemma rpath_eqb_refl a : rpath_eqb a a = true.
Proof. induction a; simpl; [reflexivity|]. rewrite ename_eqb_refl. assumption. Qed.

(* ---------------------------------------------------------------- the file system *)
Lemma getf_snoc : forall p d x,
  getf d (p ++ [x]) = match getf d p with Some (Dir d') => lookup d' x | _ => None end.
Proof.
  induction p as [|e p IH]; intros d x; simpl.
  - destruct (lookup d x) as [[|es]|]; reflexivity.
  - destruct (lookup d e) as [[|es]|]; [|apply IH|reflexivity].
    destruct p; simpl; reflexivity.
Qed.
Lemma get_cons t x rp :
  get t (x :: rp) = match get t rp with Some (Dir d) => lookup d x | _ => None end.
Proof. unfold get. simpl. apply getf_snoc. Qed.
Lemma lookup_in d x n : lookup d x = Some n -> In (x, n) d.
Proof.
  induction d as [|[e m] d IH]; simpl; [discriminate|].
  destruct (ename_eqb e x) eqn:E.
  - intros H; inversion H; subst. apply ename_eqb_spec in E; subst. auto.
  - auto.
Qed.
Lemma get_child_dir t x rp n : get t (x :: rp) = Some n -> exists d, get t rp = Some (Dir d) /\ lookup d x = Some n.
Proof. rewrite get_cons. destruct (get t rp) as [[|d]|]; try discriminate. eauto. Qed.
Lemma isfile_parent t x rp : isfile t (x :: rp) = true -> isdir t rp = true.
Proof.
  unfold isfile, isdir. destruct (get t (x :: rp)) eqn:E; [|discriminate].
  apply get_child_dir in E. destruct E as (d & -> & _). reflexivity.
Qed.
Lemma exists_prefix : forall l t b, get t (l ++ b) <> None -> get t b <> None.
Proof.
  induction l as [|x l IH]; simpl; intros t b H; [assumption|].
  apply IH. intros E. apply H. rewrite get_cons, E. reflexivity.
Qed.
Lemma toplevel_of_child t x b : get t (x :: b) <> None -> toplevel_possible t b (fst x) = true.
Proof.
  intros H. destruct (get t (x :: b)) eqn:E; [|congruence].
  apply get_child_dir in E. destruct E as (d & E1 & E2). unfold toplevel_possible, listdir. rewrite E1.
  apply existsb_exists. exists x. split; [|apply nm_eqb_refl].
  apply lookup_in in E2. change x with (fst (x, n)). apply in_map. assumption.
Qed.

(* ---------------------------------------------------------------- valid names along an existing path *)
Lemma valid_get t : valid_names t = true -> forall rp d, get t rp = Some (Dir d) ->
  valid_node (Dir d) = true /\ Forall (fun e => valid_dir_name e = true) rp.
Proof.
  intros V. induction rp as [|x rp IH]; intros d H.
  - unfold get in H. simpl in H. inversion H; subst. split; [exact V | constructor].
  - apply get_child_dir in H. destruct H as (d0 & H0 & L). destruct (IH _ H0) as [V0 F0].
    apply lookup_in in L. simpl in V0. rewrite forallb_forall in V0. specialize (V0 _ L). simpl in V0.
    apply andb_prop in V0. destruct V0 as [V1 V2]. split; [exact V2 | constructor; assumption].
Qed.
Lemma valid_file t : valid_names t = true -> forall x rp, isfile t (x :: rp) = true ->
  valid_file_name x = true /\ Forall (fun e => valid_dir_name e = true) rp.
Proof.
  intros V x rp H. unfold isfile in H. destruct (get t (x :: rp)) as [[|]|] eqn:E; try discriminate.
  apply get_child_dir in E. destruct E as (d0 & H0 & L). destruct (valid_get t V _ _ H0) as [V0 F0].
  apply lookup_in in L. simpl in V0. rewrite forallb_forall in V0. specialize (V0 _ L). simpl in V0. auto.
Qed.
Lemma valid_dir_name_inv e : valid_dir_name e = true -> exists p, e = dn (Id p).
Proof. destruct e as [[| p | p | p] [| |]]; simpl; try discriminate. intros _; exists p; reflexivity. Qed.
Lemma no_stubs_dir t : valid_names t = true -> forall x p bd, isfile t (x :: dn (Stubs p) :: bd) = false.
Proof.
  intros V x p bd. destruct (isfile t (x :: dn (Stubs p) :: bd)) eqn:E; [|reflexivity].
  apply (valid_file t V) in E. destruct E as [_ F]. inversion F; subst. discriminate.
Qed.

(* ---------------------------------------------------------------- shape of a crawl *)
Definition vdirs (rp : rpath) : Prop := Forall (fun e => valid_dir_name e = true) rp.

Lemma crawl_helper_shape o t : forall rp mp b, vdirs rp ->
  crawl_helper o t rp = Ok (Some (mp, b)) -> rp = rev (map dn mp) ++ b.
Proof.
  induction rp as [|e parent IH]; intros mp b V H; simpl in H.
  - destruct (is_base o []); [inversion H; reflexivity|]. destruct (has_init t []); discriminate.
  - inversion V as [|? ? Ve Vp]; subst. destruct (valid_dir_name_inv _ Ve) as [p ->].
    destruct (is_base o (dn (Id p) :: parent)); [inversion H; reflexivity|].
    change (pkg_name (dn (Id p))) with (Some (Id p)) in H.
    assert (G : forall mp' b', parent = rev (map dn mp') ++ b' ->
                dn (Id p) :: parent = rev (map dn (mp' ++ [Id p])) ++ b').
    { intros mp' b' ->. rewrite map_app, rev_app_distr. reflexivity. }
    destruct (has_init t (dn (Id p) :: parent)).
    + destruct (crawl_helper o t parent) as [[[mp' b']|]|x] eqn:E; simpl in H; inversion H; subst.
      * apply G. apply IH; auto.
      * reflexivity.
    + destruct (negb (ns o)); [discriminate|].
      destruct (crawl_helper o t parent) as [[[mp' b']|]|x] eqn:E; inversion H; subst.
      apply G. apply IH; auto.
Qed.
Lemma crawl_up_dir_shape o t rp mp b : vdirs rp ->
  crawl_up_dir o t rp = Ok (mp, b) -> rp = rev (map dn mp) ++ b.
Proof.
  intros V H. unfold crawl_up_dir in H.
  destruct (crawl_helper o t rp) as [[[mp' b']|]|x] eqn:E; simpl in H; inversion H; subst.
  - eapply crawl_helper_shape; eauto.
  - reflexivity.
Qed.

(* without namespace packages every directory climbed through holds an __init__ file *)
Lemma crawl_helper_verify o t : ns o = false -> forall rp mp b, vdirs rp ->
  crawl_helper o t rp = Ok (Some (mp, b)) -> verify_module t rp (length mp) = true.
Proof.
  intros N. induction rp as [|e parent IH]; intros mp b V H; simpl in H.
  - destruct (is_base o []); [inversion H; reflexivity|]. destruct (has_init t []); discriminate.
  - inversion V as [|? ? Ve Vp]; subst. destruct (valid_dir_name_inv _ Ve) as [p ->].
    destruct (is_base o (dn (Id p) :: parent)); [inversion H; reflexivity|].
    change (pkg_name (dn (Id p))) with (Some (Id p)) in H.
    destruct (has_init t (dn (Id p) :: parent)) eqn:HI.
    + destruct (crawl_helper o t parent) as [[[mp' b']|]|x] eqn:E; simpl in H; inversion H; subst.
      * rewrite app_length, Nat.add_1_r. simpl. rewrite HI. simpl. eapply IH; eauto.
      * simpl. rewrite HI. reflexivity.
    + rewrite N in H. discriminate.
Qed.
Lemma crawl_up_dir_verify o t rp mp b : ns o = false -> vdirs rp ->
  crawl_up_dir o t rp = Ok (mp, b) -> verify_module t rp (length mp) = true.
Proof.
  intros N V H. unfold crawl_up_dir in H.
  destruct (crawl_helper o t rp) as [[[mp' b']|]|x] eqn:E; simpl in H; inversion H; subst.
  - eapply crawl_helper_verify; eauto.
  - reflexivity.
Qed.

(* ---------------------------------------------------------------- more file-system facts, find_module plumbing *)
Lemma isfile_get t p : isfile t p = true -> get t p = Some File.
Proof. unfold isfile. destruct (get t p) as [[|]|]; congruence. Qed.
Lemma isfile_exists t p : isfile t p = true -> get t p <> None.
Proof. intros H. rewrite (isfile_get t p H). discriminate. Qed.
Lemma isdir_parent t x rp : get t (x :: rp) <> None -> isdir t rp = true.
Proof.
  intros H. destruct (get t (x :: rp)) eqn:E; [|congruence]. apply get_child_dir in E.
  destruct E as (d & E & _). unfold isdir. rewrite E. reflexivity.
Qed.
Lemma isdir_get t p : isdir t p = true -> get t p <> None.
Proof. unfold isdir. destruct (get t p); congruence. Qed.
Lemma toplevel_chain t ms b : ms <> [] -> get t (rev (map dn ms) ++ b) <> None ->
  toplevel_possible t b (hd Init ms) = true.
Proof.
  destruct ms as [|c0 rest]; [congruence|]. intros _ H. simpl in H. rewrite <- app_assoc in H. simpl in H.
  apply exists_prefix in H. apply (toplevel_of_child t (dn c0) b H).
Qed.
Lemma verify_S t bd k : verify_module t bd (S k) = has_init t bd && verify_module t (tl bd) k.
Proof. reflexivity. Qed.
Lemma find_module_snoc o t sp m' n :
  find_module o t sp (m' ++ [n]) = scan_all o t (find_lib_path_dirs t (m' ++ [n]) sp) (length m') n [].
Proof.
  unfold find_module.
  assert (L : length (m' ++ [n]) - 1 = length m') by (rewrite app_length; simpl; lia).
  assert (La : last (m' ++ [n]) Init = n) by apply last_last.
  destruct (m' ++ [n]) eqn:E; [destruct m'; discriminate|]. rewrite L, La. reflexivity.
Qed.
Lemma fld_single t m' n b :
  toplevel_possible t b (hd Init (m' ++ [n])) = true -> isdir t (rev (map dn m') ++ b) = true ->
  find_lib_path_dirs t (m' ++ [n]) [b] = [rev (map dn m') ++ b].
Proof.
  intros T D. unfold find_lib_path_dirs.
  assert (R : removelast (m' ++ [n]) = m') by apply removelast_last.
  destruct (m' ++ [n]) as [|c0 rest] eqn:E; [destruct m'; discriminate|].
  rewrite R. simpl in T. cbn [flat_map]. rewrite T, D. reflexivity.
Qed.
Lemma hd_snoc (mp : list nm) x : mp <> [] -> hd Init (mp ++ [x]) = hd Init mp.
Proof. destruct mp; [congruence | reflexivity]. Qed.

(* the relation allowed between a file and what find_module returns *)
Lemma rel_ok_self o f : rel_ok o f f = true.
Proof. unfold rel_ok. rewrite rpath_eqb_refl. reflexivity. Qed.
Lemma rel_ok_stub o f : rel_ok o f (sibling_stub f) = true.
Proof. unfold rel_ok. rewrite rpath_eqb_refl. rewrite orb_true_r. reflexivity. Qed.
Lemma rel_ok_pkg o n e parent x : is_py e = true -> is_init n = false -> is_py x = true ->
  rel_ok o ((n, e) :: parent) ((Init, x) :: dn n :: parent) = true.
Proof.
  intros He Hn Hx. unfold rel_ok. rewrite He, Hn. destruct x; [discriminate| |];
    rewrite rpath_eqb_refl; simpl; rewrite ?orb_true_r; reflexivity.
Qed.
Lemma rel_ok_nsdir o n e parent : ns o = true -> is_py e = true -> is_init n = false ->
  rel_ok o ((n, e) :: parent) (dn n :: parent) = true.
Proof.
  intros N He Hn. unfold rel_ok. rewrite He, Hn, N, (rpath_eqb_refl (dn n :: parent)). simpl. rewrite ?orb_true_r. reflexivity.
Qed.

(* ---------------------------------------------------------------- what a search over a single base returns *)
Definition nsd (o : opts) (t : dir) (bd : rpath) (last : nm) : bool :=
  ns o && negb (isfile t ((Init, Pyi) :: dn last :: bd) || isfile t ((Init, Py) :: dn last :: bd))
  && exists_ t (dn last :: bd) && negb (isfile t (dn last :: bd)).
Fixpoint first_present (l : list (rpath * bool)) : fm_result :=
  match l with
  | [] => NotFound
  | (p, true) :: _ => Found p
  | (_, false) :: r => first_present r
  end.

Local Opaque isfile exists_ verify_module highest_init_level.

Lemma scan_single o t bd k last :
  (forall s, add_stubs last = Some s -> isfile t ((Init, Pyi) :: dn s :: bd) = false) ->
  (ns o = false -> verify_module t bd k = true) ->
  scan_all o t [bd] k last [] =
  first_present ([((Init, Pyi) :: dn last :: bd, isfile t ((Init, Pyi) :: dn last :: bd));
                  ((Init, Py) :: dn last :: bd, isfile t ((Init, Py) :: dn last :: bd))] ++
     if verify_module t bd k
     then [((last, Pyi) :: bd, isfile t ((last, Pyi) :: bd)); ((last, Py) :: bd, isfile t ((last, Py) :: bd));
           (dn last :: bd, nsd o t bd last)]
     else [(dn last :: bd, nsd o t bd last);
           ((last, Pyi) :: bd, isfile t ((last, Pyi) :: bd)); ((last, Py) :: bd, isfile t ((last, Py) :: bd))]).
Proof.
  intros Hs Hv. simpl. unfold scan_candidate, nsd.
  assert (S0 : match add_stubs last with Some s => isfile t ((Init, Pyi) :: dn s :: bd) = false | None => True end).
  { destruct (add_stubs last) eqn:E; auto. }
  destruct (ns o) eqn:N.
  - clear Hv. destruct (add_stubs last); [rewrite S0|];
    destruct (verify_module t bd k);
    destruct (isfile t ((Init, Pyi) :: dn last :: bd));
    destruct (isfile t ((Init, Py) :: dn last :: bd));
    destruct (isfile t ((last, Pyi) :: bd));
    destruct (isfile t ((last, Py) :: bd));
    destruct (exists_ t (dn last :: bd));
    destruct (isfile t (dn last :: bd));
    simpl; rewrite ?N; simpl; rewrite ?Nat.ltb_irrefl; reflexivity.
  - rewrite (Hv eq_refl). destruct (add_stubs last); [rewrite S0|];
    destruct (isfile t ((Init, Pyi) :: dn last :: bd));
    destruct (isfile t ((Init, Py) :: dn last :: bd));
    destruct (isfile t ((last, Pyi) :: bd));
    destruct (isfile t ((last, Py) :: bd));
    simpl; rewrite ?N; simpl; reflexivity.
Qed.

Lemma nsd_ns o t bd last : nsd o t bd last = true -> ns o = true.
Proof. unfold nsd. intros H. repeat (apply andb_prop in H; destruct H as [H _]). exact H. Qed.

Lemma init_ok o t n e bd rest : is_py e = true -> isfile t ((Init, e) :: dn n :: bd) = true ->
  exists g, first_present (((Init, Pyi) :: dn n :: bd, isfile t ((Init, Pyi) :: dn n :: bd))
                           :: ((Init, Py) :: dn n :: bd, isfile t ((Init, Py) :: dn n :: bd)) :: rest) = Found g
            /\ rel_ok o ((Init, e) :: dn n :: bd) g = true.
Proof.
  intros He Hf. cbn [first_present]. destruct e; [discriminate| |].
  - rewrite Hf. eexists; split; [reflexivity | apply rel_ok_self].
  - destruct (isfile t ((Init, Pyi) :: dn n :: bd)).
    + eexists; split; [reflexivity | apply (rel_ok_stub o ((Init, Py) :: dn n :: bd))].
    + rewrite Hf. eexists; split; [reflexivity | apply rel_ok_self].
Qed.
Lemma tail_ok o t p e bd rest : is_py e = true -> isfile t ((Id p, e) :: bd) = true ->
  exists g, first_present (((Id p, Pyi) :: bd, isfile t ((Id p, Pyi) :: bd))
                           :: ((Id p, Py) :: bd, isfile t ((Id p, Py) :: bd)) :: rest) = Found g
            /\ rel_ok o ((Id p, e) :: bd) g = true.
Proof.
  intros He Hf. cbn [first_present]. destruct e; [discriminate| |].
  - rewrite Hf. eexists; split; [reflexivity | apply rel_ok_self].
  - destruct (isfile t ((Id p, Pyi) :: bd)).
    + eexists; split; [reflexivity | apply (rel_ok_stub o ((Id p, Py) :: bd))].
    + rewrite Hf. eexists; split; [reflexivity | apply rel_ok_self].
Qed.

(* ---------------------------------------------------------------- the inverse law *)
Theorem crawl_find_inverse_main o t f m b :
  valid_names t = true -> isfile t f = true -> py_path f = true ->
  crawl_up o t f = Ok (m, b) -> m <> [] ->
  exists g, find_module o t [b] m = Found g /\ rel_ok o f g = true.
Proof.
  intros V Hf Hpy Hc Hm. destruct f as [|[stem e] rp]; [discriminate|]. simpl in Hpy.
  destruct (valid_file t V _ _ Hf) as [Vf Vd]. simpl in Hc.
  destruct (crawl_up_dir o t rp) as [[pm b0]|x] eqn:Ecd; [|discriminate].
  pose proof (crawl_up_dir_shape o t rp pm b0 Vd Ecd) as Shape.
  assert (Hs : forall bd last s, add_stubs last = Some s -> isfile t ((Init, Pyi) :: dn s :: bd) = false).
  { intros bd last s E. destruct last; try discriminate. inversion E; subst. apply no_stubs_dir; assumption. }
  destruct stem as [| p | p | p]; try discriminate; simpl in Hc; inversion Hc; subst; clear Hc.
  - (* f = rp/__init__.py[i]: the module is the package rp *)
    destruct (exists_last Hm) as (m' & n & ->). rewrite map_app, rev_app_distr in *. simpl in *.
    assert (Gpd : get t (dn n :: rev (map dn m') ++ b) <> None) by (apply isdir_get; eapply isfile_parent; eauto).
    rewrite find_module_snoc, fld_single.
    + rewrite scan_single.
      * cbn [app]. apply init_ok; assumption.
      * intros s; apply Hs.
      * intros N. pose proof (crawl_up_dir_verify o t _ _ _ N Vd Ecd) as Hv.
        rewrite app_length, Nat.add_1_r, verify_S in Hv. apply andb_prop in Hv. apply Hv.
    + apply toplevel_chain; [destruct m'; discriminate|]. rewrite map_app, rev_app_distr. simpl. exact Gpd.
    + eapply isdir_parent; eauto.
  - (* f = rp/p.py[i] *)
    assert (Gf : get t ((Id p, e) :: rev (map dn pm) ++ b) <> None) by (apply isfile_exists; exact Hf).
    rewrite find_module_snoc, fld_single.
    + rewrite scan_single.
      * cbn [app first_present].
        destruct (isfile t ((Init, Pyi) :: dn (Id p) :: rev (map dn pm) ++ b));
          [eexists; split; [reflexivity | apply rel_ok_pkg; auto]|].
        destruct (isfile t ((Init, Py) :: dn (Id p) :: rev (map dn pm) ++ b));
          [eexists; split; [reflexivity | apply rel_ok_pkg; auto]|].
        destruct (verify_module t (rev (map dn pm) ++ b) (length pm)).
        -- apply tail_ok; assumption.
        -- cbn [first_present]. destruct (nsd o t (rev (map dn pm) ++ b) (Id p)) eqn:En.
           ++ eexists; split; [reflexivity | apply rel_ok_nsdir; auto; eapply nsd_ns; eauto].
           ++ apply (tail_ok o t p e (rev (map dn pm) ++ b) []); assumption.
      * intros s; apply Hs.
      * intros N. exact (crawl_up_dir_verify o t _ _ _ N Vd Ecd).
    + destruct pm as [|c0 rest] eqn:Epm.
      * simpl. apply (toplevel_of_child t (Id p, e) b). exact Gf.
      * rewrite hd_snoc by discriminate. apply toplevel_chain; [discriminate|].
        apply isdir_get. eapply isfile_parent; eauto.
    + eapply isfile_parent; eauto.
Qed.

Theorem crawl_find_inverse_lemma o t f :
  valid_names t = true -> isfile t f = true -> py_path f = true -> inverse_ok o t f = true.
Proof.
  intros V Hf Hpy. unfold inverse_ok. destruct (crawl_up o t f) as [[m b]|x] eqn:E; [|reflexivity].
  destruct m as [|c m]; [reflexivity|].
  destruct (crawl_find_inverse_main o t f (c :: m) b V Hf Hpy E) as (g & -> & R); [discriminate | exact R].
Qed.
