(* C18: find_modules_recursive reaches exactly the preferred files of the package: dir_eq_package. *)
From Coq Require Import List Bool PArith NArith Arith Lia Permutation Sorted.
From C18 Require Import Model Proofs ProofsInverse ProofsDir ProofsDirSound ProofsSort ProofsDirExact ProofsPkg.
Import ListNotations.
Local Arguments dn : simpl never.

Local Opaque isfile exists_ verify_module highest_init_level isdir.

Lemma scan_classic_unverified o t bd k last :
  ns o = false -> verify_module t bd k = false -> scan_all o t [bd] k last [] = NotFound.
Proof.
  intros N Vf. simpl. unfold scan_candidate. rewrite Vf, N.
  destruct (add_stubs last);
    try destruct (isfile t ((Init, Pyi) :: dn n :: bd));
    destruct (isfile t ((Init, Pyi) :: dn last :: bd));
    destruct (isfile t ((Init, Py) :: dn last :: bd));
    destruct (isfile t ((last, Pyi) :: bd));
    destruct (isfile t ((last, Py) :: bd));
    simpl; rewrite ?N; reflexivity.
Qed.

Lemma fld_cases t mp n base :
  find_lib_path_dirs t (mp ++ [n]) [base] = [rev (map dn mp) ++ base] /\ isdir t (rev (map dn mp) ++ base) = true
  \/ find_lib_path_dirs t (mp ++ [n]) [base] = [].
Proof.
  unfold find_lib_path_dirs.
  assert (R : removelast (mp ++ [n]) = mp) by apply removelast_last.
  destruct (mp ++ [n]) as [|c0 rest] eqn:E; [auto|]. rewrite R. cbn [flat_map].
  destruct (toplevel_possible t base c0); simpl; auto.
  destruct (isdir t (rev (map dn mp) ++ base)) eqn:D; simpl; auto.
Qed.

Section Pkg.
Variables (o : opts) (t : dir) (base : rpath).
Hypothesis V : valid_names t = true.
Hypothesis NSh : no_shadow t = true.

Lemma stubs_absent : forall bd last s, add_stubs last = Some s -> isfile t ((Init, Pyi) :: dn s :: bd) = false.
Proof. intros bd last s E. destruct last; try discriminate. inversion E; subst. apply no_stubs_dir; assumption. Qed.

(* what a successful search for a FILE looks like *)
Lemma find_found_file mp n g :
  find_module o t [base] (mp ++ [n]) = Found g -> isfile t g = true ->
  let bd := rev (map dn mp) ++ base in
  isdir t bd = true /\
  exists x, is_py (snd x) = true /\
            ((fst x = Init /\ g = x :: dn n :: bd /\ pref t (dn n :: bd) x) \/ (fst x = n /\ g = x :: bd /\ pref t bd x)).
Proof.
  intros H F bd. rewrite find_module_snoc in H.
  destruct (fld_cases t mp n base) as [[E D]|E]; rewrite E in H; [|discriminate].
  split; [exact D|]. fold bd in H.
  destruct (ns o || verify_module t bd (length mp)) eqn:C.
  - rewrite scan_single in H.
    + cbn [app first_present] in H.
      destruct (isfile t ((Init, Pyi) :: dn n :: bd)) eqn:I1.
      { inversion H; subst g. exists (Init, Pyi). split; [reflexivity|]. left. repeat split. left; reflexivity. }
      destruct (isfile t ((Init, Py) :: dn n :: bd)) eqn:I2.
      { inversion H; subst g. exists (Init, Py). split; [reflexivity|]. left. repeat split. right; exact I1. }
      assert (T : forall rest, first_present (((n, Pyi) :: bd, isfile t ((n, Pyi) :: bd))
                                               :: ((n, Py) :: bd, isfile t ((n, Py) :: bd)) :: rest) = Found g ->
                  (exists x, is_py (snd x) = true /\ fst x = n /\ g = x :: bd /\ pref t bd x) \/ first_present rest = Found g).
      { intros rest. cbn [first_present]. destruct (isfile t ((n, Pyi) :: bd)) eqn:M1.
        - intros E'; inversion E'; subst g. left. exists (n, Pyi). repeat split. left; reflexivity.
        - destruct (isfile t ((n, Py) :: bd)) eqn:M2; [|auto].
          intros E'; inversion E'; subst g. left. exists (n, Py). repeat split. right; exact M1. }
      assert (Nd : forall b, first_present [(dn n :: bd, b)] = Found g -> nsd o t bd n = b -> False).
      { intros b Hb Eb. cbn [first_present] in Hb. destruct b; [|discriminate]. inversion Hb; subst g.
        unfold nsd in Eb. apply andb_prop in Eb. destruct Eb as [_ Eb]. rewrite F in Eb. discriminate. }
      destruct (verify_module t bd (length mp)).
      * destruct (T _ H) as [(x & Px & Fx & Gx & Prx)|H']; [exists x; auto|]. exfalso. eapply Nd; eauto.
      * cbn [first_present] in H. destruct (nsd o t bd n) eqn:En.
        -- exfalso. apply (Nd true); [cbn [first_present]; exact H | reflexivity].
        -- destruct (T [] H) as [(x & Px & Fx & Gx & Prx)|H']; [exists x; auto | discriminate].
    + intros s; apply stubs_absent.
    + intros N. rewrite N in C. exact C.
  - apply orb_false_elim in C. destruct C as [N Vf]. rewrite scan_classic_unverified in H by assumption. discriminate.
Qed.

(* the search for a module that is a DIRECTORY without a module file beside it *)
Lemma find_dir mp n :
  let bd := rev (map dn mp) ++ base in let pd := dn n :: bd in
  isdir t pd = true -> is_init n = false ->
  (bd = base \/ exists c0 rest, mp = c0 :: rest) ->
  (ns o = false -> verify_module t bd (length mp) = true /\ has_init t pd = true) ->
  exists g, find_module o t [base] (mp ++ [n]) = Found g /\ pkg_dir_of t g = Some pd /\
            (isfile t g = true -> pref_path t g /\ exists e, g = (Init, e) :: pd /\ is_py e = true) /\
            (has_init t pd = true -> isfile t g = true).
Proof.
  intros bd pd D Ni _ Hc.
  assert (Gpd : get t pd <> None) by (apply isdir_get; exact D).
  assert (NoM : forall e, is_py e = true -> isfile t ((n, e) :: bd) = false)
    by (intros e Pe; apply (no_shadow_file_dir t bd n e NSh); assumption).
  rewrite find_module_snoc, fld_single.
  - rewrite scan_single.
    + cbn [app first_present]. fold bd. fold pd.
      destruct (isfile t ((Init, Pyi) :: pd)) eqn:I1.
      { eexists. split; [reflexivity|]. split; [reflexivity|]. split; [|intros _; exact I1]. intros _. split; [left; reflexivity | eauto]. }
      destruct (isfile t ((Init, Py) :: pd)) eqn:I2.
      { eexists. split; [reflexivity|]. split; [reflexivity|]. split; [|intros _; exact I2]. intros _. split; [right; exact I1 | eauto]. }
      assert (NoInit : has_init t pd = false) by (unfold has_init, get_init_file; fold pd; rewrite I1, I2; reflexivity).
      assert (N : ns o = true).
      { destruct (ns o) eqn:N; [reflexivity|]. destruct (Hc eq_refl) as [_ Hi]. unfold has_init, get_init_file in Hi.
        fold pd in Hi. rewrite I1, I2 in Hi. discriminate. }
      assert (Ensd : nsd o t bd n = true).
      { unfold nsd. fold pd. rewrite N, I1, I2. simpl.
        assert (Ex : exists_ t pd = true).
        { Local Transparent exists_. unfold exists_. destruct (get t pd); [reflexivity | congruence]. Local Opaque exists_. }
        rewrite Ex. simpl. apply negb_true_iff.
        Local Transparent isfile isdir. unfold isfile, isdir in *. destruct (get t pd) as [[|]|]; congruence. Local Opaque isfile isdir. }
      rewrite (NoM Pyi eq_refl), (NoM Py eq_refl), Ensd.
      assert (R : pkg_dir_of t pd = Some pd).
      { unfold pkg_dir_of. assert (Ei : is_init_file pd = false) by (unfold pd, dn; destruct n; reflexivity).
        rewrite Ei, D. reflexivity. }
      assert (NF : isfile t pd = true -> False).
      { Local Transparent isfile isdir. unfold isfile, isdir in *. destruct (get t pd) as [[|]|]; congruence. Local Opaque isfile isdir. }
      destruct (verify_module t bd (length mp)); cbn [first_present];
        (eexists; split; [reflexivity|]; split; [exact R|]; split; [intros Ff; exfalso; exact (NF Ff) | rewrite NoInit; discriminate]).
    + intros s; apply stubs_absent.
    + intros N. apply Hc; exact N.
  - destruct mp as [|c0 rest].
    + simpl. apply (toplevel_of_child t (dn n) base). exact Gpd.
    + rewrite hd_snoc by discriminate. apply toplevel_chain; [discriminate|]. eapply isdir_get, isdir_parent; eauto.
  - eapply isdir_parent; eauto.
Qed.
End Pkg.

Local Transparent isdir isfile exists_.
Lemma fmr_fold_ok k o t sp m pp : forall L seen acc seen' acc',
  (forall n, mem_nm n seen = true -> exists ss, fmr k o t sp (m ++ [n]) = Ok ss) ->
  fold_left (fmr_step k o t sp m pp) L (Ok (seen, acc)) = Ok (seen', acc') ->
  forall name, In name L -> eligible o t pp name = true -> exists ss, fmr k o t sp (m ++ [fst name]) = Ok ss.
Proof.
  induction L as [|h L IH]; intros seen acc seen' acc' Inv HF name Hin El; [contradiction|].
  cbn [fold_left] in HF.
  assert (Skip : fmr_step k o t sp m pp (Ok (seen, acc)) h = Ok (seen, acc) ->
                 (eligible o t pp h = true -> exists ss, fmr k o t sp (m ++ [fst h]) = Ok ss) ->
                 exists ss, fmr k o t sp (m ++ [fst name]) = Ok ss).
  { intros E Hh. rewrite E in HF. destruct Hin as [<-|Hin]; [auto | eapply IH; eauto]. }
  assert (Take : forall ss, fmr k o t sp (m ++ [fst h]) = Ok ss ->
                 fmr_step k o t sp m pp (Ok (seen, acc)) h = Ok (fst h :: seen, acc ++ ss) ->
                 exists ss', fmr k o t sp (m ++ [fst name]) = Ok ss').
  { intros ss Ess E. rewrite E in HF. destruct Hin as [<-|Hin]; [eauto|].
    eapply (IH (fst h :: seen)); eauto. intros n Hn. simpl in Hn. apply orb_prop in Hn. destruct Hn as [Hn|Hn]; [|auto].
    apply nm_eqb_spec in Hn. subst n. eauto. }
  unfold fmr_step in Skip, Take. unfold eligible in Skip. unfold fmr_step in HF at 2.
  destruct (isdir t (h :: pp)) eqn:D.
  - destruct (ns o || isfile t ((Init, Py) :: h :: pp) || isfile t ((Init, Pyi) :: h :: pp)) eqn:C.
    + destruct (snd h) eqn:Eh.
      * destruct (fmr k o t sp (m ++ [fst h])) as [ss|x] eqn:Ess; [|rewrite fmr_fold_err in HF; discriminate].
        apply (Take ss); auto.
      * apply Skip; [reflexivity | discriminate].
      * apply Skip; [reflexivity | discriminate].
    + apply Skip; [reflexivity | discriminate].
  - destruct (is_init (fst h)) eqn:Ini.
    + apply Skip; [reflexivity | discriminate].
    + destruct (is_py (snd h)) eqn:Py.
      * destruct (mem_nm (fst h) seen) eqn:Mem.
        -- apply Skip; [reflexivity|]. intros _. apply Inv. exact Mem.
        -- simpl in HF, Take.
           destruct (fmr k o t sp (m ++ [fst h])) as [ss|x] eqn:Ess; [|rewrite fmr_fold_err in HF; discriminate].
           apply (Take ss); auto.
      * apply Skip; [rewrite andb_false_r; reflexivity | discriminate].
Qed.

(* one level: the children's walks all succeed and are included *)
Lemma walk_children k o t sp m l g pp names :
  fmr (S k) o t sp m = Ok l -> find_module o t sp m = Found g -> pkg_dir_of t g = Some pp -> listdir t pp = Some names ->
  In {| s_path := g; s_mod := m; s_base := None |} l /\
  forall name, In name names -> eligible o t pp name = true ->
               exists ss, fmr k o t sp (m ++ [fst name]) = Ok ss /\ incl ss l.
Proof.
  intros H Ef Ep El. pose proof (package_walk_unfold_lemma k o t sp m l H) as U. rewrite Ef in U.
  split; [apply U; auto|]. intros name Hin He.
  assert (Ok' : exists ss, fmr k o t sp (m ++ [fst name]) = Ok ss).
  { rewrite fmr_unfold, Ef in H. cbv zeta in H. rewrite Ep, El in H.
    destruct (fold_left (fmr_step k o t sp m pp) (isort plain_leb names) (Ok ([], [_]))) as [[seen' acc']|x] eqn:EF; [|discriminate].
    eapply (fmr_fold_ok k o t sp m pp _ _ _ _ _) with (2 := EF); eauto.
    - intros n Hn. simpl in Hn. discriminate.
    - eapply Permutation_in; [symmetry; apply isort_perm | exact Hin]. }
  destruct Ok' as (ss & Ess). exists ss. split; [exact Ess|]. intros s Hs. apply U. right.
  exists pp, names, name. repeat split; auto. unfold sub_walk. rewrite Ess. exact Hs.
Qed.

Local Transparent verify_module.
Lemma verify_app t : forall a b j, verify_module t (a ++ b) (length a + j) = true -> verify_module t b j = true.
Proof.
  induction a as [|x a IH]; intros b j H; [exact H|]. simpl in H. apply andb_prop in H. apply IH. apply H.
Qed.
Local Opaque verify_module.

Section Pkg2.
Variables (o : opts) (t : dir) (base : rpath).
Hypothesis V : valid_names t = true.
Hypothesis NSh : no_shadow t = true.

(* the search for a module that is a preferred FILE (no directory of that name beside it, by no_shadow) *)
Lemma find_file mp n e :
  let bd := rev (map dn mp) ++ base in
  isfile t ((n, e) :: bd) = true -> is_py e = true -> pref t bd (n, e) ->
  (ns o = false -> verify_module t bd (length mp) = true) ->
  find_module o t [base] (mp ++ [n]) = Found ((n, e) :: bd).
Proof.
  intros bd F Pe Pr Hv.
  assert (NotDir : isdir t (dn n :: bd) = false).
  { destruct (isdir t (dn n :: bd)) eqn:D; [exfalso|reflexivity].
    exact (eq_true_false_abs _ F (no_shadow_file_dir t bd n e NSh D Pe)). }
  assert (NoInit : forall x, isfile t (x :: dn n :: bd) = false).
  { intros x. destruct (isfile t (x :: dn n :: bd)) eqn:E; [|reflexivity]. apply isfile_parent in E. congruence. }
  assert (Nsd : nsd o t bd n = false).
  { unfold nsd. destruct (ns o); [|reflexivity]. rewrite !NoInit. simpl.
    unfold exists_, isfile, isdir in *. destruct (get t (dn n :: bd)) as [[|]|]; simpl; congruence. }
  assert (Gf : get t ((n, e) :: bd) <> None) by (apply isfile_exists; exact F).
  rewrite find_module_snoc, fld_single.
  - rewrite scan_single.
    + cbn [app first_present]. fold bd. rewrite !NoInit, Nsd.
      assert (T : forall rest, first_present (((n, Pyi) :: bd, isfile t ((n, Pyi) :: bd))
                                               :: ((n, Py) :: bd, isfile t ((n, Py) :: bd)) :: rest) = Found ((n, e) :: bd)).
      { intros rest. cbn [first_present]. destruct e; [discriminate| |].
        - rewrite F. reflexivity.
        - destruct Pr as [Pr|Pr]; [discriminate|]. simpl in Pr. rewrite Pr, F. reflexivity. }
      destruct (verify_module t bd (length mp)); [apply T | exact (T [])].
    + intros s. apply stubs_absent. exact V.
    + exact Hv.
  - destruct mp as [|c0 rest].
    + simpl. apply (toplevel_of_child t (n, e) base). exact Gf.
    + rewrite hd_snoc by discriminate. apply toplevel_chain; [discriminate|]. eapply isdir_get, isfile_parent; eauto.
  - eapply isfile_parent; eauto.
Qed.

Lemma has_init_cond pd : has_init t pd = true ->
  isfile t ((Init, Py) :: pd) || isfile t ((Init, Pyi) :: pd) = true.
Proof.
  unfold has_init, get_init_file. destruct (isfile t ((Init, Pyi) :: pd)); [intros _; apply orb_true_r|].
  destruct (isfile t ((Init, Py) :: pd)); [reflexivity | discriminate].
Qed.

Lemma has_init_of_file pd e : is_py e = true -> isfile t ((Init, e) :: pd) = true -> has_init t pd = true.
Proof.
  intros Pe F. unfold has_init, get_init_file. destruct e; [discriminate| |].
  - rewrite F. reflexivity.
  - destruct (isfile t ((Init, Pyi) :: pd)); [reflexivity|]. rewrite F. reflexivity.
Qed.

(* completeness of the package walk: every preferred .py[i] file whose crawl is rooted at `base` is reached,
   under exactly the module name the crawl gives it *)
Lemma fmr_complete : forall suf m mm k l x,
  m <> [] -> mm = m ++ suf ->
  fmr k o t [base] m = Ok l ->
  isfile t (x :: rev (map dn mm) ++ base) = true -> is_py (snd x) = true -> pref t (rev (map dn mm) ++ base) x ->
  crawl_up_dir o t (rev (map dn mm) ++ base) = Ok (mm, base) ->
  exists s, In s l /\ s_path s = x :: rev (map dn mm) ++ base /\
            s_mod s = (if is_init (fst x) then mm else mm ++ [fst x]).
Proof.
  induction suf as [|c suf IH]; intros m mm k l x Hm Emm HF F Px Pr Hc.
  - (* the file lies directly in the package directory of m *)
    rewrite app_nil_r in Emm. subst mm.
    destruct (exists_last Hm) as (mp & n & ->). rewrite map_app, rev_app_distr in *. simpl in *.
    set (bd := rev (map dn mp) ++ base) in *.
    destruct (valid_file t V _ _ F) as [Vx Vd]. inversion Vd as [|? ? Vn Vbd]; subst.
    destruct (valid_dir_name_inv _ Vn) as [pn En]. unfold dn in En. inversion En; subst n.
    assert (Dpd : isdir t (dn (Id pn) :: bd) = true) by (eapply isfile_parent; eauto).
    assert (Hcond : ns o = false -> verify_module t bd (length mp) = true /\ has_init t (dn (Id pn) :: bd) = true).
    { intros N. pose proof (crawl_up_dir_verify o t _ _ _ N Vd Hc) as Hv.
      rewrite app_length, Nat.add_1_r, verify_S in Hv. apply andb_prop in Hv. destruct Hv; auto. }
    destruct k as [|k]; [discriminate|].
    destruct (find_dir o t base V NSh mp (Id pn) Dpd eq_refl) as (g & Eg & Epd & Gfile & Ginit); auto.
    { destruct mp; [left; reflexivity | right; eauto]. }
    assert (El : exists names, listdir t (dn (Id pn) :: bd) = Some names).
    { unfold listdir, isdir in *. destruct (get t (dn (Id pn) :: bd)) as [[|dd]|]; try discriminate. eauto. }
    destruct El as (names & El).
    destruct (walk_children k o t [base] _ l g _ names HF Eg Epd El) as (Me & Ch).
    destruct x as [nx ex]. simpl in Px, Vx.
    destruct nx as [| px | px | px]; try discriminate; simpl.
    + (* __init__.py[i]: the entry of m itself *)
      exists {| s_path := g; s_mod := mp ++ [Id pn]; s_base := None |}. split; [exact Me|]. split; [|reflexivity]. simpl.
      assert (Hi : has_init t (dn (Id pn) :: bd) = true).
      { apply (has_init_of_file _ ex); assumption. }
      destruct (Gfile (Ginit Hi)) as (Pg & e' & -> & Pe'). simpl in Pg.
      pose proof (Ginit Hi) as Fg.
      destruct ex, e'; try discriminate; try reflexivity.
      * destruct Pg as [Pg|Pg]; [discriminate|]. simpl in Pg. exfalso. exact (eq_true_false_abs _ F Pg).
      * destruct Pr as [Pr|Pr]; [discriminate|]. simpl in Pr. exfalso. exact (eq_true_false_abs _ Fg Pr).
    + (* a module file: an eligible child whose own walk starts with it *)
      assert (Hin : In (Id px, ex) names).
      { unfold listdir in El. destruct (get t (dn (Id pn) :: bd)) as [[|dd]|] eqn:Gd; try discriminate. inversion El; subst names.
        eapply listed_of_exists; eauto. apply isfile_exists. exact F. }
      assert (Hel : eligible o t (dn (Id pn) :: bd) (Id px, ex) = true).
      { unfold eligible. rewrite (isfile_not_isdir _ _ F). simpl. exact Px. }
      destruct (Ch _ Hin Hel) as (ss & Ess & Iss). simpl in Ess.
      destruct k as [|k]; [discriminate|].
      pose proof (package_walk_unfold_lemma k o t [base] _ ss Ess) as U.
      assert (Ef : find_module o t [base] ((mp ++ [Id pn]) ++ [Id px]) = Found ((Id px, ex) :: dn (Id pn) :: bd)).
      { pose proof (find_file (mp ++ [Id pn]) (Id px) ex) as FF. rewrite map_app, rev_app_distr in FF. simpl in FF.
        apply FF; auto. intros N. pose proof (crawl_up_dir_verify o t _ _ _ N Vd Hc) as Hv. exact Hv. }
      rewrite Ef in U.
      exists {| s_path := (Id px, ex) :: dn (Id pn) :: bd; s_mod := (mp ++ [Id pn]) ++ [Id px]; s_base := None |}.
      split; [apply Iss; apply U; auto | split; reflexivity].
  - (* the file lies deeper: descend into the child directory c *)
    assert (Emm' : mm = (m ++ [c]) ++ suf) by (rewrite <- app_assoc; exact Emm).
    destruct (valid_file t V _ _ F) as [Vx Vd].
    pose proof Emm as Epath. apply (f_equal (fun z => rev (map dn z) ++ base)) in Epath.
    rewrite map_app, rev_app_distr, <- app_assoc in Epath. simpl in Epath.
    rewrite <- app_assoc in Epath. simpl in Epath.
    (* rev (map dn mm) ++ base = rev (map dn suf) ++ dn c :: rev (map dn m) ++ base *)
    destruct (exists_last Hm) as (mp & n & Em). subst m.
    rewrite map_app, rev_app_distr in Epath. simpl in Epath.
    set (bd := rev (map dn mp) ++ base) in *.
    assert (Vall : vdirs (rev (map dn suf) ++ dn c :: dn n :: bd)) by (rewrite <- Epath; exact Vd).
    apply Forall_app in Vall. destruct Vall as [_ Vall]. pose proof (Forall_inv_tail Vall) as Vrest.
    pose proof (Forall_inv Vrest) as Vn.
    destruct (valid_dir_name_inv (dn n) Vn) as [pn En]. unfold dn in En. inversion En; subst n.
    assert (Gc : get t (dn c :: dn (Id pn) :: bd) <> None).
    { apply (exists_prefix (x :: rev (map dn suf))). simpl. rewrite <- Epath. apply isfile_exists. exact F. }
    assert (Dc : isdir t (dn c :: dn (Id pn) :: bd) = true).
    { apply (isdir_of_below t (x :: rev (map dn suf))); [discriminate|]. simpl. rewrite <- Epath. apply isfile_exists. exact F. }
    assert (Dpd : isdir t (dn (Id pn) :: bd) = true) by (eapply isdir_parent; eauto).
    assert (Hver : ns o = false -> verify_module t (dn c :: dn (Id pn) :: bd) (S (S (length mp))) = true).
    { intros N. pose proof (crawl_up_dir_verify o t _ _ _ N Vd Hc) as Hv. rewrite Epath in Hv.
      apply (verify_app t (rev (map dn suf))). rewrite rev_length, map_length.
      rewrite Emm in Hv. rewrite !app_length in Hv. simpl in Hv.
      replace (length suf + S (S (length mp))) with (length mp + 1 + S (length suf)) by lia. exact Hv. }
    assert (Hcond : ns o = false -> verify_module t bd (length mp) = true /\ has_init t (dn (Id pn) :: bd) = true).
    { intros N. pose proof (Hver N) as Hv. rewrite !verify_S in Hv. simpl in Hv.
      apply andb_prop in Hv. destruct Hv as [_ Hv]. apply andb_prop in Hv. destruct Hv; auto. }
    destruct k as [|k]; [discriminate|].
    destruct (find_dir o t base V NSh mp (Id pn) Dpd eq_refl) as (g & Eg & Epd & _ & _); auto.
    { destruct mp; [left; reflexivity | right; eauto]. }
    assert (El : exists names, listdir t (dn (Id pn) :: bd) = Some names).
    { unfold listdir, isdir in *. destruct (get t (dn (Id pn) :: bd)) as [[|dd]|]; try discriminate. eauto. }
    destruct El as (names & El).
    destruct (walk_children k o t [base] _ l g _ names HF Eg Epd El) as (_ & Ch).
    assert (Hin : In (dn c) names).
    { unfold listdir in El. destruct (get t (dn (Id pn) :: bd)) as [[|dd]|] eqn:Gd; try discriminate. inversion El; subst names.
      eapply listed_of_exists; eauto. }
    assert (Hel : eligible o t (dn (Id pn) :: bd) (dn c) = true).
    { unfold eligible. rewrite Dc. rewrite andb_true_r. destruct (ns o) eqn:N; [reflexivity|]. simpl.
      apply has_init_cond. pose proof (Hver eq_refl) as Hv. rewrite verify_S in Hv. apply andb_prop in Hv. apply Hv. }
    destruct (Ch _ Hin Hel) as (ss & Ess & Iss). simpl in Ess.
    destruct (IH ((mp ++ [Id pn]) ++ [c]) mm k ss x) as (s & Hs & Ep & Emod); auto.
    { destruct mp; discriminate. }
    exists s. split; [apply Iss; exact Hs | auto].
Qed.
End Pkg2.

Lemma dn_map_inj : forall a b, map dn a = map dn b -> a = b.
Proof.
  induction a as [|x a IH]; intros [|y b] H; simpl in H; try discriminate; [reflexivity|].
  inversion H. f_equal; auto.
Qed.
Lemma shape_inj base a b : rev (map dn a) ++ base = rev (map dn b) ++ base -> a = b.
Proof.
  intros H. apply app_inv_tail in H. apply (f_equal (@rev ename)) in H. rewrite !rev_involutive in H.
  apply dn_map_inj. exact H.
Qed.

Local Opaque fsd fmr depth_node wf_node.
Section Glue.
Variables (o : opts) (t : dir) (base : rpath) (p : nm).
Hypothesis W : wf_node (Dir t) = true.
Hypothesis V : valid_names t = true.
Hypothesis NSh : no_shadow t = true.

Lemma walk_suffix_noinit sp : forall k m l s, fmr k o t sp m = Ok l -> In s l ->
  exists suffix, s_mod s = m ++ suffix /\ Forall (fun c => is_init c = false) suffix.
Proof.
  induction k as [|k IH]; intros m l s H Hin; [discriminate|].
  pose proof (package_walk_unfold_lemma k o t sp m l H) as U.
  destruct (find_module o t sp m) as [g|] eqn:Ef; [|subst l; contradiction].
  apply U in Hin. destruct Hin as [->|(pp & names & name & _ & Hl & Hn & He & Hs)].
  - exists []. rewrite app_nil_r. split; [reflexivity | constructor].
  - unfold sub_walk in Hs. destruct (fmr k o t sp (m ++ [fst name])) as [ss|x] eqn:Ess; [|contradiction].
    destruct (IH _ _ _ Ess Hs) as (suffix & C & Fs). exists (fst name :: suffix).
    rewrite C, <- app_assoc. split; [reflexivity|]. constructor; [|exact Fs].
    unfold eligible in He. destruct (isdir t (name :: pp)) eqn:D.
    + unfold isdir in D. destruct (get t (name :: pp)) as [[|dd]|] eqn:Gd; try discriminate.
      destruct (valid_get t V _ _ Gd) as [_ Fv]. pose proof (Forall_inv Fv) as Vn.
      destruct (valid_dir_name_inv _ Vn) as [pn ->]. reflexivity.
    + apply andb_prop in He. destruct He as [He _]. apply negb_true_iff in He. exact He.
Qed.

Theorem dir_eq_package_lemma l_dir l_pkg :
  find_sources_in_dir o t (dn p :: base) = Ok l_dir ->
  (forall s, In s l_dir -> s_base s = Some base) ->
  find_modules_recursive o t [base] [p] = Ok l_pkg ->
  forall path m, (exists b, In {| s_path := path; s_mod := m; s_base := b |} l_dir) <->
                 (exists b, In {| s_path := path; s_mod := m; s_base := b |} (filter (fun s => isfile t (s_path s)) l_pkg)).
Proof.
  unfold find_sources_in_dir, find_modules_recursive. intros HD HB HP path m.
  assert (Dpkg : isdir t (dn p :: base) = true).
  { destruct (S (depth_node (Dir t))) as [|k]; [discriminate|]. rewrite fsd_unfold in HD. unfold listdir, isdir in *.
    destruct (get t (dn p :: base)) as [[|dd]|]; try discriminate. reflexivity. }
  split.
  - intros (b & Hin).
    pose proof (HB _ Hin) as Eb. simpl in Eb. subst b.
    destruct (fsd_sound o t _ _ _ _ HD Hin) as (F & Py & b' & Eb' & Hc). simpl in *. inversion Eb'; subst b'.
    destruct (fsd_pref o t W NSh _ _ _ _ HD Hin) as (Pr & x & q & Ep). simpl in *. subst path.
    simpl in Hc. destruct x as [stem e]. simpl in Py, Pr.
    destruct (crawl_up_dir o t (q ++ dn p :: base)) as [[pm b0]|err] eqn:Ecd; [|discriminate].
    destruct (valid_file t V _ _ F) as [Vx Vd].
    pose proof (crawl_up_dir_shape o t _ _ _ Vd Ecd) as Shape.
    assert (Eb0 : b0 = base) by (destruct (is_init stem); inversion Hc; reflexivity). subst b0.
    assert (Epm : exists suf, pm = [p] ++ suf).
    { change (q ++ dn p :: base) with (q ++ [dn p] ++ base) in Shape. rewrite app_assoc in Shape.
      apply app_inv_tail in Shape. apply (f_equal (@rev ename)) in Shape. rewrite rev_app_distr, rev_involutive in Shape.
      simpl in Shape. destruct pm as [|p' pm']; [discriminate|]. simpl in Shape. inversion Shape. exists pm'. reflexivity. }
    destruct Epm as (suf & Epm).
    assert (Epar : q ++ dn p :: base = rev (map dn pm) ++ base) by exact Shape.
    rewrite Epar in *.
    destruct (fmr_complete o t base V NSh suf [p] pm (S (S (depth_node (Dir t)))) l_pkg (stem, e)) as (s' & Hs' & Ep' & Em'); auto; try discriminate.
    destruct s' as [p' m' b']. simpl in *. subst p'. exists b'. apply filter_In. split.
    + replace m with m'; [exact Hs'|]. subst m'. destruct (is_init stem); inversion Hc; reflexivity.
    + simpl. exact F.
  - intros (b & Hin). apply filter_In in Hin. destruct Hin as [Hin F]. simpl in F.
    destruct (package_walk_sound_lemma o t [base] _ _ _ _ HP Hin) as (Ef & _ & _). simpl in Ef.
    destruct (walk_suffix_noinit [base] _ _ _ _ HP Hin) as (suffix & Em & Fs). simpl in Em.
    assert (Hm : m <> []) by (subst m; discriminate).
    destruct (exists_last Hm) as (mp & n & Emn). rewrite Emn in Ef.
    destruct (find_found_file o t base V mp n path Ef F) as (Dbd & x & Px & Hx).
    (* locate the file below the package directory, name its parent's module M *)
    assert (Loc : exists q M, tl path = q ++ dn p :: base /\ tl path = rev (map dn M) ++ base /\
                              path = x :: tl path /\ pref t (tl path) x /\
                              m = (if is_init (fst x) then M else M ++ [fst x])).
    { destruct Hx as [(Fx & Ep & Prx)|(Fx & Ep & Prx)].
      - exists (rev (map dn suffix)), m. subst path. simpl. rewrite Fx. simpl.
        assert (E1 : dn n :: rev (map dn mp) ++ base = rev (map dn m) ++ base)
          by (rewrite Emn, map_app, rev_app_distr; reflexivity).
        repeat split; auto. rewrite E1, Em. simpl. rewrite <- app_assoc. reflexivity.
      - destruct x as [nx ex]. simpl in Fx, Px. subst nx. subst path. simpl.
        assert (Top : suffix = [] -> False).
        { intros ->. rewrite Em in Emn. destruct mp as [|? [|? ?]]; simpl in Emn; try discriminate.
          inversion Emn as [Epn]. simpl in F. rewrite <- Epn in F.
          pose proof (no_shadow_file_dir t base p ex NSh Dpkg Px) as Nf. exact (eq_true_false_abs _ F Nf). }
        destruct (list_rev_case suffix) as [E0|(suf' & c & Es)]; [exfalso; exact (Top E0)|]. subst suffix.
        rewrite Em in Emn. apply (app_inj_tail (p :: suf') mp c n) in Emn. destruct Emn as [Emp Ecn].
        assert (Ni : is_init n = false).
        { subst n. apply Forall_app in Fs. destruct Fs as [_ Fs]. exact (Forall_inv Fs). }
        assert (Emp' : exists suf'', mp = [p] ++ suf'') by (exists suf'; symmetry; exact Emp).
        destruct Emp' as (suf'' & Emp').
        exists (rev (map dn suf'')), mp. simpl. rewrite Ni. repeat split; auto.
        + rewrite Emp'. simpl. rewrite <- app_assoc. reflexivity.
        + rewrite Em, <- Emp, <- Ecn. reflexivity. }
    destruct Loc as (q & M & Eq & EM & Epath & Prx & EmM).
    rewrite Epath in F. rewrite Eq in F, Prx.
    destruct (fsd_complete o t W NSh _ _ _ HD q x F Px Prx) as (s & Hs & Ep).
    pose proof (HB _ Hs) as Ebs.
    destruct (fsd_sound o t _ _ _ _ HD Hs) as (_ & _ & b' & Eb' & Hc). rewrite Ebs in Eb'. inversion Eb'; subst b'.
    rewrite Ep in Hc. simpl in Hc. destruct x as [stem e].
    destruct (crawl_up_dir o t (q ++ dn p :: base)) as [[pm b0]|err] eqn:Ecd; [|discriminate].
    destruct (valid_file t V _ _ F) as [_ Vd].
    pose proof (crawl_up_dir_shape o t _ _ _ Vd Ecd) as Shape.
    assert (Eb0 : b0 = base) by (destruct (is_init stem); inversion Hc; reflexivity). subst b0.
    assert (EpmM : pm = M) by (apply (shape_inj base); rewrite <- Shape, <- Eq; exact EM).
    exists (Some base). destruct s as [sp' sm sb]. simpl in *. subst sp' sb. subst pm.
    rewrite Epath, Eq.
    match goal with |- In {| s_path := _; s_mod := ?mm; s_base := _ |} _ => replace mm with sm; [exact Hs|] end.
    destruct (is_init stem); inversion Hc; congruence.
Qed.
End Glue.
