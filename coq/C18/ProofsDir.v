(* C18: checking a directory = listing its files one by one (any order), absent the shadowing pattern and duplicates. *)
From Coq Require Import List Bool PArith NArith Arith Lia Permutation.
From C18 Require Import Model Proofs ProofsInverse.
Import ListNotations.

(* ---------------------------------------------------------------- sorting is a permutation *)
Lemma insert_perm {A} (le : A -> A -> bool) x l : Permutation (insert le x l) (x :: l).
Proof.
  induction l as [|y r IH]; simpl; [reflexivity|]. destruct (le x y); [reflexivity|].
  rewrite IH. apply perm_swap.
Qed.
Lemma isort_perm {A} (le : A -> A -> bool) l : Permutation (isort le l) l.
Proof.
  induction l as [|x r IH]; simpl; [reflexivity|]. unfold isort in *. simpl. rewrite insert_perm. auto.
Qed.

Lemma nodup_app_l {A} (a b : list A) : NoDup (a ++ b) -> NoDup a.
Proof.
  induction a as [|x a IH]; simpl; intros H; [constructor|]. inversion H; subst.
  constructor; [intro Hin; apply H2; apply in_or_app; auto | auto].
Qed.
Lemma nodup_app_r {A} (a b : list A) : NoDup (a ++ b) -> NoDup b.
Proof. induction a as [|x a IH]; simpl; auto. intros H; inversion H; auto. Qed.

(* ---------------------------------------------------------------- crawl_each over lists *)
Lemma crawl_each_app o t : forall a b l, crawl_each o t (a ++ b) = Ok l ->
  exists la lb, crawl_each o t a = Ok la /\ crawl_each o t b = Ok lb /\ l = la ++ lb.
Proof.
  induction a as [|f a IH]; simpl; intros b l H.
  - exists [], l. auto.
  - destruct (crawl_up o t f) as [[m bb]|x]; [|discriminate].
    destruct (crawl_each o t (a ++ b)) as [l'|x] eqn:E; [|discriminate]. inversion H; subst.
    destruct (IH _ _ E) as (la & lb & -> & -> & ->). eexists; eexists; repeat split.
Qed.
Lemma crawl_each_in o t : forall fs l f, crawl_each o t fs = Ok l -> In f fs ->
  exists m b, crawl_up o t f = Ok (m, b) /\ In m (map s_mod l).
Proof.
  induction fs as [|f0 fs IH]; simpl; intros l f H Hin; [contradiction|].
  destruct (crawl_up o t f0) as [[m bb]|x] eqn:E0; [|discriminate].
  destruct (crawl_each o t fs) as [l'|x] eqn:E; [|discriminate]. inversion H; subst. simpl.
  destruct Hin as [->|Hin]; [eauto|]. destruct (IH _ _ eq_refl Hin) as (m' & b' & ? & ?). eauto 6.
Qed.
Lemma crawl_each_single o t f :
  crawl_each o t [f] = match crawl_up o t f with
                       | Ok (m, b) => Ok [{| s_path := f; s_mod := m; s_base := Some b |}]
                       | Err x => Err x
                       end.
Proof. simpl. destruct (crawl_up o t f) as [[m b]|x]; reflexivity. Qed.
Lemma crawl_up_stem o t n e e' rp : crawl_up o t ((n, e) :: rp) = crawl_up o t ((n, e') :: rp).
Proof. reflexivity. Qed.

(* ---------------------------------------------------------------- hereditary predicates along existing paths *)
Lemma wf_get t : wf_node (Dir t) = true -> forall rp d, get t rp = Some (Dir d) -> wf_node (Dir d) = true.
Proof.
  intros W. induction rp as [|x rp IH]; intros d H.
  - unfold get in H. simpl in H. inversion H; subst. exact W.
  - apply get_child_dir in H. destruct H as (d0 & H0 & L). specialize (IH _ H0).
    apply lookup_in in L. simpl in IH. apply andb_prop in IH. destruct IH as [_ F].
    rewrite forallb_forall in F. specialize (F _ L). simpl in F. apply andb_prop in F. apply F.
Qed.
Lemma ns_get t : no_shadow t = true -> forall rp d, get t rp = Some (Dir d) -> no_shadow_node (Dir d) = true.
Proof.
  intros W. induction rp as [|x rp IH]; intros d H.
  - unfold get in H. simpl in H. inversion H; subst. exact W.
  - apply get_child_dir in H. destruct H as (d0 & H0 & L). specialize (IH _ H0).
    apply lookup_in in L. simpl in IH. rewrite forallb_forall in IH. specialize (IH _ L). simpl in IH.
    apply andb_prop in IH. apply IH.
Qed.
Lemma nodup_names_notin : forall l e, nodup_names (e :: l) = true -> ~ In e l.
Proof.
  intros l e H. simpl in H. apply andb_prop in H. destruct H as [H _]. intros Hin.
  apply negb_true_iff in H. apply Bool.not_true_iff_false in H. apply H. apply existsb_exists. exists e.
  split; [assumption | apply ename_eqb_refl].
Qed.
Lemma lookup_unique : forall (d : dir) x n, nodup_names (map fst d) = true -> In (x, n) d -> lookup d x = Some n.
Proof.
  induction d as [|[e m] d IH]; simpl; intros x n ND Hin; [contradiction|].
  destruct Hin as [H|H].
  - inversion H; subst. rewrite ename_eqb_refl. reflexivity.
  - destruct (ename_eqb e x) eqn:E.
    + apply ename_eqb_spec in E; subst. exfalso. apply (nodup_names_notin _ _ ND).
      change x with (fst (x, n)). apply in_map. assumption.
    + apply IH; auto. simpl in ND. apply andb_prop in ND. apply ND.
Qed.

(* ---------------------------------------------------------------- find_sources_in_dir, one directory level *)
Definition fsd_step (k : nat) (o : opts) (t : dir) (rp : rpath) (st : res (list nm * list source)) (name : ename)
  : res (list nm * list source) :=
  match st with
  | Err x => Err x
  | Ok (seen, acc) =>
      let sub := name :: rp in
      if isdir t sub then
        match fsd k o t sub with
        | Err x => Err x
        | Ok [] => Ok (seen, acc)
        | Ok ss => Ok ((match snd name with NoExt => [fst name] | _ => [] end) ++ seen, acc ++ ss)
        end
      else if negb (mem_nm (fst name) seen) && is_py (snd name) then
        match crawl_up o t sub with
        | Err x => Err x
        | Ok (m, b) => Ok (fst name :: seen, acc ++ [{| s_path := sub; s_mod := m; s_base := Some b |}])
        end
      else Ok (seen, acc)
  end.
Lemma fsd_unfold k o t rp :
  fsd (S k) o t rp = match listdir t rp with
                     | None => Err NotADirectory
                     | Some names => match fold_left (fsd_step k o t rp) (isort keyfunc_leb names) (Ok ([], [])) with
                                     | Err x => Err x
                                     | Ok (_, acc) => Ok acc
                                     end
                     end.
Proof. reflexivity. Qed.
Definition files_of (k : nat) (t : dir) (rp : rpath) (name : ename) : list rpath :=
  if isdir t (name :: rp) then all_py_files k t (name :: rp) else if is_py (snd name) then [name :: rp] else [].
Lemma apf_unfold k t rp :
  all_py_files (S k) t rp = match listdir t rp with None => [] | Some names => flat_map (files_of k t rp) names end.
Proof. reflexivity. Qed.
Lemma fold_err k o t rp : forall L x, fold_left (fsd_step k o t rp) L (Err x) = Err x.
Proof. induction L; simpl; auto. Qed.
Lemma step_dir k o t rp seen acc h : isdir t (h :: rp) = true ->
  fsd_step k o t rp (Ok (seen, acc)) h =
  match fsd k o t (h :: rp) with
  | Err x => Err x
  | Ok [] => Ok (seen, acc)
  | Ok ss => Ok ((match snd h with NoExt => [fst h] | _ => [] end) ++ seen, acc ++ ss)
  end.
Proof. intros D. unfold fsd_step. rewrite D. reflexivity. Qed.
Lemma step_file k o t rp seen acc h : isdir t (h :: rp) = false ->
  fsd_step k o t rp (Ok (seen, acc)) h =
  if negb (mem_nm (fst h) seen) && is_py (snd h) then
    match crawl_up o t (h :: rp) with
    | Err x => Err x
    | Ok (m, b) => Ok (fst h :: seen, acc ++ [{| s_path := h :: rp; s_mod := m; s_base := Some b |}])
    end
  else Ok (seen, acc).
Proof. intros D. unfold fsd_step. rewrite D. reflexivity. Qed.

Lemma fold_files o t k rp
  (IHk : forall sub l_dir l_files, fsd k o t sub = Ok l_dir -> crawl_each o t (all_py_files k t sub) = Ok l_files ->
                                   NoDup (map s_mod l_files) -> Permutation l_dir l_files) :
  forall L seen acc seen' acc' lf,
    (forall h name, In h L -> In name L -> isdir t (h :: rp) = true -> isdir t (name :: rp) = false ->
                    is_py (snd name) = true -> fst name <> fst h) ->
    (forall name, In name L -> isdir t (name :: rp) = false -> is_py (snd name) = true -> mem_nm (fst name) seen = false) ->
    fold_left (fsd_step k o t rp) L (Ok (seen, acc)) = Ok (seen', acc') ->
    crawl_each o t (flat_map (files_of k t rp) L) = Ok lf ->
    NoDup (map s_mod lf) ->
    exists l, acc' = acc ++ l /\ Permutation l lf.
Proof.
  induction L as [|h L IH]; intros seen acc seen' acc' lf NS I HF HC ND; cbn [fold_left] in HF; simpl in HC.
  - inversion HF; subst. inversion HC; subst. exists []. rewrite app_nil_r. auto.
  - apply crawl_each_app in HC. destruct HC as (la & lb & Ha & Hb & ->).
    rewrite map_app in ND.
    assert (NDa : NoDup (map s_mod la)) by (eapply nodup_app_l; eauto).
    assert (NDb : NoDup (map s_mod lb)) by (eapply nodup_app_r; eauto).
    assert (NS' : forall h0 name, In h0 L -> In name L -> isdir t (h0 :: rp) = true -> isdir t (name :: rp) = false ->
                                  is_py (snd name) = true -> fst name <> fst h0) by (intros; apply NS; simpl; auto).
    unfold files_of in Ha. destruct (isdir t (h :: rp)) eqn:D.
    + rewrite step_dir in HF by assumption.
      destruct (fsd k o t (h :: rp)) as [ss|x] eqn:Esub; [|rewrite fold_err in HF; discriminate].
      assert (P : Permutation ss la) by (eapply IHk; eauto).
      destruct ss as [|s0 ss'].
      * apply Permutation_nil in P. subst la.
        assert (I2 : forall name, In name L -> isdir t (name :: rp) = false -> is_py (snd name) = true ->
                                  mem_nm (fst name) seen = false) by (intros; apply I; simpl; auto).
        destruct (IH seen acc seen' acc' lb NS' I2 HF Hb NDb) as (l & -> & Pl).
        exists l. auto.
      * assert (I2 : forall name, In name L -> isdir t (name :: rp) = false -> is_py (snd name) = true ->
                       mem_nm (fst name) (match snd h with NoExt => [fst h] | _ => [] end ++ seen) = false).
        { intros name Hin Dn Pn. unfold mem_nm. rewrite existsb_app. unfold mem_nm in I. rewrite (I name); simpl; auto.
          rewrite orb_false_r. destruct (snd h); simpl; auto. rewrite orb_false_r.
          destruct (nm_eqb (fst name) (fst h)) eqn:E; [|reflexivity].
          apply nm_eqb_spec in E. exfalso. eapply (NS h name); simpl; eauto. }
        destruct (IH _ _ seen' acc' lb NS' I2 HF Hb NDb) as (l & -> & Pl).
        exists ((s0 :: ss') ++ l). rewrite app_assoc. split; [reflexivity|]. apply Permutation_app; assumption.
    + rewrite step_file in HF by assumption.
      destruct (is_py (snd h)) eqn:Py.
      * rewrite (I h) in HF; [|simpl; auto|assumption|assumption]. cbn [negb andb] in HF.
        rewrite crawl_each_single in Ha.
        destruct (crawl_up o t (h :: rp)) as [[m b]|x] eqn:Ec; [|discriminate]. inversion Ha; subst la. clear Ha.
        assert (I2 : forall name, In name L -> isdir t (name :: rp) = false -> is_py (snd name) = true ->
                       mem_nm (fst name) (fst h :: seen) = false).
        { intros name Hin Dn Pn. simpl. rewrite (I name); simpl; auto. rewrite orb_false_r.
          destruct (nm_eqb (fst name) (fst h)) eqn:E; [|reflexivity].
          apply nm_eqb_spec in E. exfalso.
          assert (Hf : In (name :: rp) (flat_map (files_of k t rp) L)).
          { apply in_flat_map. exists name. split; [assumption|]. unfold files_of. rewrite Dn, Pn. simpl; auto. }
          destruct (crawl_each_in o t _ _ _ Hb Hf) as (m' & b' & Hc' & Hm').
          destruct name as [n1 e1], h as [n2 e2]. simpl in E. rewrite E in Hc'.
          assert (X : Ok (m, b) = Ok (m', b')) by exact (eq_trans (eq_sym Ec) Hc'). inversion X; subst m' b'.
          simpl in ND. inversion ND; subst. contradiction. }
        destruct (IH _ _ seen' acc' lb NS' I2 HF Hb NDb) as (l & -> & Pl).
        eexists. rewrite <- app_assoc. split; [reflexivity|]. simpl. constructor. assumption.
      * rewrite andb_false_r in HF. simpl in Ha. inversion Ha; subst la.
        assert (I2 : forall name, In name L -> isdir t (name :: rp) = false -> is_py (snd name) = true ->
                                  mem_nm (fst name) seen = false) by (intros; apply I; simpl; auto).
        destruct (IH seen acc seen' acc' lb NS' I2 HF Hb NDb) as (l & -> & Pl).
        exists l. auto.
Qed.

(* ---------------------------------------------------------------- the whole directory walk *)
Lemma isdir_lookup t rp d x : get t rp = Some (Dir d) ->
  isdir t (x :: rp) = match lookup d x with Some (Dir _) => true | _ => false end.
Proof. intros G. unfold isdir. rewrite get_cons, G. reflexivity. Qed.

Theorem fsd_files o t : wf_node (Dir t) = true -> no_shadow t = true ->
  forall fuel rp l_dir l_files,
    fsd fuel o t rp = Ok l_dir -> crawl_each o t (all_py_files fuel t rp) = Ok l_files ->
    NoDup (map s_mod l_files) -> Permutation l_dir l_files.
Proof.
  intros W S. induction fuel as [|k IHk]; intros rp l_dir l_files HF HC ND; [discriminate|].
  rewrite fsd_unfold in HF. rewrite apf_unfold in HC.
  unfold listdir in *. destruct (get t rp) as [[|d]|] eqn:G; try discriminate.
  destruct (fold_left (fsd_step k o t rp) (isort keyfunc_leb (map fst d)) (Ok ([], []))) as [[seen' acc']|x] eqn:EF;
    [|discriminate].
  inversion HF; subst acc'. clear HF.
  pose proof (isort_perm keyfunc_leb (map fst d)) as PS.
  assert (PF : Permutation (flat_map (files_of k t rp) (map fst d))
                           (flat_map (files_of k t rp) (isort keyfunc_leb (map fst d))))
    by (apply Permutation_flat_map; symmetry; exact PS).
  destruct (crawl_each_perm_ok o t _ _ _ PF HC) as (lf & HC' & Plf).
  assert (ND' : NoDup (map s_mod lf)) by (eapply Permutation_NoDup; [apply Permutation_map; exact Plf | exact ND]).
  pose proof (wf_get t W _ _ G) as Wd. pose proof (ns_get t S _ _ G) as Sd.
  simpl in Wd. apply andb_prop in Wd. destruct Wd as [NDn _].
  assert (NS : forall h name, In h (isort keyfunc_leb (map fst d)) -> In name (isort keyfunc_leb (map fst d)) ->
                 isdir t (h :: rp) = true -> isdir t (name :: rp) = false -> is_py (snd name) = true -> fst name <> fst h).
  { intros h name Hh Hn Dh Dn Pn.
    apply (Permutation_in _ PS) in Hh. apply (Permutation_in _ PS) in Hn.
    apply in_map_iff in Hh. destruct Hh as ([h' nh] & Eh & Hh). simpl in Eh. subst h'.
    apply in_map_iff in Hn. destruct Hn as ([n' nn] & En & Hn). simpl in En. subst n'.
    rewrite (isdir_lookup t rp d _ G), (lookup_unique d h nh NDn Hh) in Dh.
    rewrite (isdir_lookup t rp d _ G), (lookup_unique d name nn NDn Hn) in Dn.
    destruct nh as [|dh]; [discriminate|]. destruct nn as [|dd]; [|discriminate].
    simpl in Sd. rewrite forallb_forall in Sd. specialize (Sd _ Hh). simpl in Sd.
    apply andb_prop in Sd. destruct Sd as [Sh _]. apply negb_true_iff in Sh.
    intros E. apply Bool.not_true_iff_false in Sh. apply Sh. unfold shadowed_by_file.
    apply existsb_exists. exists (name, File). split; [assumption|]. simpl. rewrite Pn, E. apply nm_eqb_refl. }
  destruct (fold_files o t k rp IHk _ [] [] seen' l_dir lf NS) with (2 := EF) (3 := HC') as (l & E & Pl); auto.
  simpl in E. subst l. rewrite Pl. symmetry. exact Plf.
Qed.

(* top level: DIR vs FILES in any order *)
Theorem dir_eq_files_lemma o t d l_dir fs l_files :
  wf_node (Dir t) = true -> no_shadow t = true ->
  find_sources_in_dir o t d = Ok l_dir -> Permutation fs (py_files t d) -> crawl_each o t fs = Ok l_files ->
  NoDup (map s_mod l_files) -> Permutation l_dir l_files.
Proof.
  intros W S HD P HC ND. destruct (crawl_each_perm_ok o t _ _ _ P HC) as (l2 & HC2 & P2).
  rewrite P2. eapply fsd_files; eauto. eapply Permutation_NoDup; [apply Permutation_map; exact P2 | exact ND].
Qed.
