(* C18: load_graph's "Source file found twice" check is exact; path canonicalisation contract. *)
From Coq Require Import List Bool PArith NArith Arith Lia.
From C18 Require Import Model Proofs ProofsInverse.
Import ListNotations.

Lemma rpath_eqb_spec a : forall b, rpath_eqb a b = true <-> a = b.
Proof.
  induction a as [|x a IH]; intros [|y b]; simpl; try (split; [discriminate | congruence]); try tauto.
  rewrite andb_true_iff, ename_eqb_spec, IH. split; [intros [-> ->]; reflexivity | intros H; inversion H; auto].
Qed.
Lemma file_owner_some g p m : file_owner g p = Some m -> In (m, p) g.
Proof.
  induction g as [|[m' p'] g IH]; simpl; [discriminate|].
  destruct (rpath_eqb p' p) eqn:E.
  - intros H; inversion H; subst. apply rpath_eqb_spec in E; subst. auto.
  - auto.
Qed.
Lemma file_owner_none g p : file_owner g p = None <-> ~ In p (map snd g).
Proof.
  induction g as [|[m' p'] g IH]; simpl; [tauto|].
  destruct (rpath_eqb p' p) eqn:E.
  - apply rpath_eqb_spec in E; subst. split; [discriminate | intros H; exfalso; apply H; auto].
  - rewrite IH. split; [intros H [H1|H1]; [subst; rewrite rpath_eqb_refl in E; discriminate | auto] | tauto].
Qed.

(* the check fires iff the new module name is not in the graph and its (canonical) path already belongs to a module of
   the graph - necessarily one with a different name *)
Lemma found_twice_iff_lemma g dep p :
  (exists e, add_dependency g dep p = inr e) <->
  (~ In dep (map fst g) /\ exists m1, In (m1, p) g /\ m1 <> dep).
Proof.
  unfold add_dependency. split.
  - intros [e H]. destruct (graph_find g dep) eqn:G; [discriminate|].
    destruct (file_owner g p) as [m1|] eqn:F; [|discriminate].
    apply graph_find_none in G. split; [exact G|]. exists m1. apply file_owner_some in F. split; [exact F|].
    intros E; subst m1. apply G. change dep with (fst (dep, p)). apply in_map. exact F.
  - intros [G (m1 & Hin & _)]. apply graph_find_none in G. rewrite G.
    destruct (file_owner g p) as [m|] eqn:F; [eauto|].
    exfalso. apply file_owner_none in F. apply F. change p with (snd (m1, p)). apply in_map. exact Hin.
Qed.
Lemma found_twice_report g dep p q m1 m2 :
  add_dependency g dep p = inr (FoundTwice q m1 m2) -> q = p /\ m2 = dep /\ In (m1, p) g /\ m1 <> dep.
Proof.
  unfold add_dependency. destruct (graph_find g dep) eqn:G; [discriminate|].
  destruct (file_owner g p) as [m|] eqn:F; [|discriminate]. intros H; inversion H; subst.
  apply file_owner_some in F. repeat split; auto. intros E. apply graph_find_none in G. apply G.
  apply in_map_iff. eexists; split; [|exact F]. simpl. congruence.
Qed.
Lemma add_dependency_ok g dep p g' :
  add_dependency g dep p = inl g' -> g' = g \/ (g' = g ++ [(dep, p)] /\ ~ In p (map snd g) /\ ~ In dep (map fst g)).
Proof.
  unfold add_dependency. destruct (graph_find g dep) eqn:G; [intros H; inversion H; auto|].
  destruct (file_owner g p) eqn:F; [discriminate|]. intros H; inversion H; subst. right.
  apply file_owner_none in F. apply graph_find_none in G. auto.
Qed.

(* ---------------------------------------------------------------- normpath *)
Lemma normpath_app cwd a b : normpath cwd (a ++ b) = normpath (normpath cwd a) b.
Proof. revert cwd. induction a as [|[| |e] a IH]; intros cwd; simpl; auto. Qed.
Lemma normpath_names cwd l : normpath cwd (map CName l) = rev l ++ cwd.
Proof.
  revert cwd. induction l as [|e l IH]; intros cwd; simpl; [reflexivity|].
  rewrite IH, <- app_assoc. reflexivity.
Qed.
(* a canonical path is a fixed point: spelling it out from the root and normalising gives it back (idempotence) *)
Lemma normpath_idempotent_lemma cwd cs : normpath [] (spell (normpath cwd cs)) = normpath cwd cs.
Proof. unfold spell. rewrite normpath_names, rev_involutive, app_nil_r. reflexivity. Qed.
(* the spellings the S3 stage uses all denote the path of the plain relative spelling *)
Lemma spelling_insensitive_lemma cwd cs x c0 rest :
  normpath cwd (CDot :: cs) = normpath cwd cs /\
  normpath cwd (cs ++ [CDot]) = normpath cwd cs /\
  normpath cwd (cs ++ [CName x; CUp]) = normpath cwd cs /\
  normpath (c0 :: rest) (CUp :: CName c0 :: cs) = normpath (c0 :: rest) cs /\
  normpath [] (spell cwd ++ cs) = normpath cwd cs.
Proof.
  repeat split; try reflexivity.
  - rewrite normpath_app. reflexivity.
  - rewrite normpath_app. reflexivity.
  - rewrite normpath_app. unfold spell. rewrite normpath_names, rev_involutive, app_nil_r. reflexivity.
Qed.
(* consequently the same-file check cannot depend on the spelling *)
Lemma found_twice_spelling_lemma cwd cwd' g dep cs cs' :
  normpath cwd cs = normpath cwd' cs' ->
  add_dependency_spelled cwd g dep cs = add_dependency_spelled cwd' g dep cs'.
Proof. unfold add_dependency_spelled. intros ->. reflexivity. Qed.

(* ---------------------------------------------------------------- the shadow pattern also breaks DIR = -p PKG *)
Definition ns_opts (c : rpath) : opts := {| ns := true; explicit := false; mypy_path := []; cwd := c |}.
(* w/{ __init__.py a.py a/{ a/{ a.py } } } *)
Definition tree_pkg_walk : dir :=
  [((w_, NoExt), Dir [((Init, Py), File); ((a_, Py), File);
                      ((a_, NoExt), Dir [((a_, NoExt), Dir [((a_, Py), File)])])])].
Lemma pkg_walk_witness :
  wf_node (Dir tree_pkg_walk) = true /\ valid_names tree_pkg_walk = true /\
  exists l_dir l_pkg,
    find_sources_in_dir (ns_opts []) tree_pkg_walk [dn w_] = Ok l_dir /\
    (forall s, In s l_dir -> s_base s = Some []) /\
    find_modules_recursive (ns_opts []) tree_pkg_walk [[]] [w_] = Ok l_pkg /\
    In [(a_, Py); dn a_; dn a_; dn w_] (map s_path l_dir) /\
    ~ In [(a_, Py); dn a_; dn a_; dn w_] (map s_path l_pkg).
Proof.
  split; [reflexivity|]. split; [reflexivity|]. eexists. eexists.
  split; [vm_compute; reflexivity|]. split.
  - intros s [<-|[<-|[]]]; reflexivity.
  - split; [vm_compute; reflexivity|]. split.
    + simpl. auto.
    + simpl. intros [H|[H|[]]]; discriminate.
Qed.
