(* C18: the inverse law under namespace packages / explicit bases, its exact form without the shadow pattern,
   and the necessity of valid_names. *)
From Coq Require Import List Bool PArith NArith Arith Lia.
From C18 Require Import Model Proofs ProofsInverse ProofsDir ProofsDirSound ProofsSort ProofsDirExact ProofsPkg ProofsPkgExact.
Import ListNotations.
Local Arguments dn : simpl never.

(* with no module file beside a same-named directory the finder returns exactly the preferred file:
   the stub n.pyi when it exists, otherwise the module file itself (every mode, any depth) *)
Lemma crawl_find_exact_lemma o t n e rp m b :
  valid_names t = true -> no_shadow t = true ->
  isfile t ((n, e) :: rp) = true -> is_py e = true -> is_init n = false ->
  crawl_up o t ((n, e) :: rp) = Ok (m, b) ->
  find_module o t [b] m = Found (if isfile t ((n, Pyi) :: rp) then (n, Pyi) :: rp else (n, e) :: rp).
Proof.
  intros V S F Pe Ni Hc. simpl in Hc.
  destruct (crawl_up_dir o t rp) as [[pm b0]|x] eqn:Ecd; [|discriminate].
  rewrite Ni in Hc. inversion Hc; subst m b0. clear Hc.
  destruct (valid_file t V _ _ F) as [_ Vd].
  pose proof (crawl_up_dir_shape o t rp pm b Vd Ecd) as Shape. subst rp.
  assert (Hv : ns o = false -> verify_module t (rev (map dn pm) ++ b) (length pm) = true)
    by (intros N; exact (crawl_up_dir_verify o t _ _ _ N Vd Ecd)).
  destruct (isfile t ((n, Pyi) :: rev (map dn pm) ++ b)) eqn:Fs.
  - apply (find_file o t b V S pm n Pyi); auto. left; reflexivity.
  - apply (find_file o t b V S pm n e); auto. right. exact Fs.
Qed.

(* valid_names is necessary: w/{ a-stubs/{ __init__.py b.py } } - crawl_up strips "-stubs" and answers a.b with base w,
   but no search below w finds a.b (the directory is not called a) *)
Definition tree_stubs_dir : dir :=
  [((w_, NoExt), Dir [((Stubs 1%positive, NoExt), Dir [((Init, Py), File); ((b_, Py), File)])])].
Lemma stubs_dir_witness :
  wf_node (Dir tree_stubs_dir) = true /\ no_shadow tree_stubs_dir = true /\ valid_names tree_stubs_dir = false /\
  isfile tree_stubs_dir [(b_, Py); dn (Stubs 1%positive); dn w_] = true /\
  forall nsb, crawl_up {| ns := nsb; explicit := false; mypy_path := []; cwd := [] |} tree_stubs_dir
                       [(b_, Py); dn (Stubs 1%positive); dn w_] = Ok ([a_; b_], [dn w_]) /\
              find_module {| ns := nsb; explicit := false; mypy_path := []; cwd := [] |} tree_stubs_dir [[dn w_]] [a_; b_] = NotFound.
Proof. repeat split; destruct nsb; reflexivity. Qed.
