(* C18: find_modules_recursive - the `seen` bookkeeping never loses a module; one-level characterisation. *)
From Coq Require Import List Bool PArith NArith Arith Lia Permutation.
From C18 Require Import Model Proofs ProofsInverse ProofsDir.
Import ListNotations.

Definition fmr_step (k : nat) (o : opts) (t : dir) (sp : list rpath) (m : modname) (pp : rpath)
  (st : res (list nm * list source)) (name : ename) : res (list nm * list source) :=
  match st with
  | Err x => Err x
  | Ok (seen, acc) =>
      let sub := name :: pp in
      if isdir t sub then
        if ns o || isfile t ((Init, Py) :: sub) || isfile t ((Init, Pyi) :: sub) then
          match snd name with
          | NoExt => match fmr k o t sp (m ++ [fst name]) with
                     | Err x => Err x
                     | Ok ss => Ok (fst name :: seen, acc ++ ss)
                     end
          | _ => Ok (seen, acc)
          end
        else Ok (seen, acc)
      else if is_init (fst name) then Ok (seen, acc)
      else if negb (mem_nm (fst name) seen) && is_py (snd name) then
        match fmr k o t sp (m ++ [fst name]) with
        | Err x => Err x
        | Ok ss => Ok (fst name :: seen, acc ++ ss)
        end
      else Ok (seen, acc)
  end.
(* the directory a found module is a package in *)
Definition pkg_dir_of (t : dir) (g : rpath) : option rpath :=
  if is_init_file g then Some (tl g) else if isdir t g then Some g else None.
Lemma fmr_unfold k o t sp m :
  fmr (S k) o t sp m =
  match find_module o t sp m with
  | NotFound => Ok []
  | Found g =>
      let me := {| s_path := g; s_mod := m; s_base := None |} in
      match pkg_dir_of t g with
      | None => Ok [me]
      | Some pp =>
          match listdir t pp with
          | None => Err NotADirectory
          | Some names =>
              match fold_left (fmr_step k o t sp m pp) (isort plain_leb names) (Ok ([], [me])) with
              | Err x => Err x
              | Ok (_, acc) => Ok acc
              end
          end
      end
  end.
Proof. reflexivity. Qed.

(* a child of the package that the walk descends into (ignoring `seen`) *)
Definition eligible (o : opts) (t : dir) (pp : rpath) (name : ename) : bool :=
  if isdir t (name :: pp) then
    (ns o || isfile t ((Init, Py) :: name :: pp) || isfile t ((Init, Pyi) :: name :: pp)) && ext_eqb (snd name) NoExt
  else negb (is_init (fst name)) && is_py (snd name).
Definition sub_walk (k : nat) (o : opts) (t : dir) (sp : list rpath) (m : modname) (n : nm) : list source :=
  match fmr k o t sp (m ++ [n]) with Ok ss => ss | Err _ => [] end.

Lemma fmr_fold_err k o t sp m pp : forall L x, fold_left (fmr_step k o t sp m pp) L (Err x) = Err x.
Proof. induction L; simpl; auto. Qed.

Lemma fmr_fold_in k o t sp m pp : forall L seen acc seen' acc',
  (forall n, mem_nm n seen = true -> forall s, In s (sub_walk k o t sp m n) -> In s acc) ->
  fold_left (fmr_step k o t sp m pp) L (Ok (seen, acc)) = Ok (seen', acc') ->
  forall s, In s acc' <->
            In s acc \/ exists name, In name L /\ eligible o t pp name = true /\ In s (sub_walk k o t sp m (fst name)).
Proof.
  induction L as [|h L IH]; intros seen acc seen' acc' Inv HF s; cbn [fold_left] in HF.
  - inversion HF; subst. split; [auto | intros [H|(name & [] & _)]; exact H].
  - assert (Skip : fmr_step k o t sp m pp (Ok (seen, acc)) h = Ok (seen, acc) ->
                   (eligible o t pp h = true -> forall s, In s (sub_walk k o t sp m (fst h)) -> In s acc) ->
                   (In s acc' <-> In s acc \/ exists name, In name (h :: L) /\ eligible o t pp name = true
                                                          /\ In s (sub_walk k o t sp m (fst name)))).
    { intros E Hel. rewrite E in HF. rewrite (IH _ _ _ _ Inv HF s). split.
      - intros [H|(name & Hin & He & Hs)]; [auto|]. right. exists name. simpl; auto.
      - intros [H|(name & [->|Hin] & He & Hs)]; [auto| |]; [left; eapply Hel; eauto | right; eauto]. }
    assert (Take : forall ss, fmr k o t sp (m ++ [fst h]) = Ok ss -> eligible o t pp h = true ->
                   fmr_step k o t sp m pp (Ok (seen, acc)) h = Ok (fst h :: seen, acc ++ ss) ->
                   (In s acc' <-> In s acc \/ exists name, In name (h :: L) /\ eligible o t pp name = true
                                                          /\ In s (sub_walk k o t sp m (fst name)))).
    { intros ss Ess Hel E. rewrite E in HF.
      assert (Inv' : forall n, mem_nm n (fst h :: seen) = true -> forall s0, In s0 (sub_walk k o t sp m n) -> In s0 (acc ++ ss)).
      { intros n Hn s0 Hs0. simpl in Hn. apply orb_prop in Hn. destruct Hn as [Hn|Hn].
        - apply nm_eqb_spec in Hn. subst n. unfold sub_walk in Hs0. rewrite Ess in Hs0. apply in_or_app; auto.
        - apply in_or_app. left. eapply Inv; eauto. }
      rewrite (IH _ _ _ _ Inv' HF s). rewrite in_app_iff. unfold sub_walk at 2. split.
      - intros [[H|H]|(name & Hin & He & Hs)]; [auto| |].
        + right. exists h. simpl. split; [auto|]. split; [exact Hel|]. unfold sub_walk. rewrite Ess. exact H.
        + right. exists name. simpl; auto.
      - intros [H|(name & [->|Hin] & He & Hs)]; [auto| |].
        + left. right. unfold sub_walk in Hs. rewrite Ess in Hs. exact Hs.
        + right. eauto. }
    unfold fmr_step in Skip, Take. unfold eligible in Skip, Take. unfold fmr_step in HF at 2.
    destruct (isdir t (h :: pp)) eqn:D.
    + destruct (ns o || isfile t ((Init, Py) :: h :: pp) || isfile t ((Init, Pyi) :: h :: pp)) eqn:C.
      * destruct (snd h) eqn:Eh.
        -- destruct (fmr k o t sp (m ++ [fst h])) as [ss|x] eqn:Ess; [|rewrite fmr_fold_err in HF; discriminate].
           apply (Take ss); auto.
        -- apply Skip; [reflexivity | discriminate].
        -- apply Skip; [reflexivity | discriminate].
      * apply Skip; [reflexivity | discriminate].
    + destruct (is_init (fst h)) eqn:Ini.
      * apply Skip; [reflexivity | discriminate].
      * destruct (is_py (snd h)) eqn:Py.
        -- destruct (mem_nm (fst h) seen) eqn:Mem.
           ++ apply Skip; [reflexivity|]. intros _ s0 Hs0. eapply Inv; eauto.
           ++ simpl in HF, Take.
              destruct (fmr k o t sp (m ++ [fst h])) as [ss|x] eqn:Ess; [|rewrite fmr_fold_err in HF; discriminate].
              apply (Take ss); auto.
        -- apply Skip; [rewrite andb_false_r; reflexivity | discriminate].
Qed.

(* one level of the package walk, independent of the listing order and of `seen` *)
Theorem package_walk_unfold_lemma k o t sp m l :
  fmr (S k) o t sp m = Ok l ->
  match find_module o t sp m with
  | NotFound => l = []
  | Found g =>
      forall s, In s l <->
        s = {| s_path := g; s_mod := m; s_base := None |} \/
        exists pp names name, pkg_dir_of t g = Some pp /\ listdir t pp = Some names /\ In name names /\
                              eligible o t pp name = true /\ In s (sub_walk k o t sp m (fst name))
  end.
Proof.
  rewrite fmr_unfold. destruct (find_module o t sp m) as [g|]; [|intros H; inversion H; reflexivity].
  cbv zeta. destruct (pkg_dir_of t g) as [pp|] eqn:Ep.
  - destruct (listdir t pp) as [names|] eqn:El; [|discriminate].
    destruct (fold_left (fmr_step k o t sp m pp) (isort plain_leb names) (Ok ([], [_]))) as [[seen' acc']|x] eqn:EF;
      [|discriminate].
    intros H; inversion H; subst acc'. intros s.
    assert (Inv0 : forall n, mem_nm n [] = true -> forall s0, In s0 (sub_walk k o t sp m n) ->
                              In s0 [{| s_path := g; s_mod := m; s_base := None |}])
      by (intros n Hn; simpl in Hn; discriminate).
    rewrite (fmr_fold_in k o t sp m pp _ _ _ _ _ Inv0 EF s).
    split.
    + intros [[<-|[]]|(name & Hin & He & Hs)]; [auto|]. right. exists pp, names, name.
      repeat split; auto. eapply Permutation_in; [apply isort_perm | exact Hin].
    + intros [->|(pp' & names' & name & Hp & Hl & Hin & He & Hs)]; [left; simpl; auto|].
      inversion Hp; subst pp'. rewrite El in Hl. inversion Hl; subst names'. right. exists name.
      repeat split; auto. eapply Permutation_in; [symmetry; apply isort_perm | exact Hin].
  - intros H; inversion H; subst. intros s. split.
    + intros [<-|[]]; auto.
    + intros [->|(pp' & _ & _ & Hp & _)]; [simpl; auto | discriminate].
Qed.

(* every entry of the walk is what find_module returns for its module name, below the starting module *)
Theorem package_walk_sound_lemma o t sp : forall k m l s,
  fmr k o t sp m = Ok l -> In s l ->
  find_module o t sp (s_mod s) = Found (s_path s) /\ s_base s = None /\ exists suffix, s_mod s = m ++ suffix.
Proof.
  induction k as [|k IH]; intros m l s H Hin; [discriminate|].
  pose proof (package_walk_unfold_lemma k o t sp m l H) as U.
  destruct (find_module o t sp m) as [g|] eqn:Ef; [|subst l; contradiction].
  apply U in Hin. destruct Hin as [->|(pp & names & name & _ & _ & _ & _ & Hs)].
  - simpl. repeat split; auto. exists []. rewrite app_nil_r. reflexivity.
  - unfold sub_walk in Hs. destruct (fmr k o t sp (m ++ [fst name])) as [ss|x] eqn:Ess; [|contradiction].
    destruct (IH _ _ _ Ess Hs) as (A & B & suffix & C). repeat split; auto.
    exists (fst name :: suffix). rewrite C, <- app_assoc. reflexivity.
Qed.
