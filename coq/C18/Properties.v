(* Property C18.  Only theorem statements closed by `exact`, each followed by Print Assumptions. *)
From Coq Require Import List ListDec Bool PArith Permutation.
From C18 Require Import Model Proofs ProofsInverse ProofsDir ProofsGraph ProofsPkg ProofsDirSound ProofsSort ProofsDirExact ProofsPkgExact ProofsNs Statement.
Import ListNotations.

(* load_graph seeds the graph without error exactly when no two sources share a module name (any number of sources) *)
Theorem duplicate_detected : forall srcs,
  (exists g, load_roots srcs [] = inl g) <-> NoDup (map s_mod srcs).
Proof. exact duplicate_detected_lemma. Qed.
Print Assumptions duplicate_detected.
Example duplicate_detected_ex :
  exists g, load_roots [{| s_path := [(a_, Py)]; s_mod := [a_]; s_base := None |};
                        {| s_path := [(b_, Py)]; s_mod := [b_]; s_base := None |}] [] = inl g.
Proof. eexists; reflexivity. Qed.

(* a reported duplicate is real: the module name belongs to the reported source and to an earlier one at `first` *)
Theorem duplicate_report_sound : forall srcs m p first,
  load_roots srcs [] = inr (DuplicateModule m p first) ->
  exists s, In s srcs /\ s_mod s = m /\ s_path s = p /\ In (m, first) (map (fun s => (s_mod s, s_path s)) srcs).
Proof. intros srcs m p first H. exact (load_roots_err srcs [] m p first H). Qed.
Print Assumptions duplicate_report_sound.
Example duplicate_report_ex :
  load_roots [{| s_path := [(a_, Py)]; s_mod := [a_]; s_base := None |};
              {| s_path := [(a_, Pyi)]; s_mod := [a_]; s_base := None |}] []
  = inr (DuplicateModule [a_] [(a_, Pyi)] [(a_, Py)]).
Proof. reflexivity. Qed.

(* listing files one by one: any order gives the same sources (as a multiset), for any tree and options *)
Theorem files_order_irrelevant : forall o t fs fs' l,
  Permutation fs fs' -> crawl_each o t fs = Ok l -> exists l', crawl_each o t fs' = Ok l' /\ Permutation l l'.
Proof. exact crawl_each_perm_ok. Qed.
Print Assumptions files_order_irrelevant.
Example files_order_ex :
  exists l, crawl_each (classic []) tree_dir_skips [[(a_, Py); dn w_]; [(b_, Py); dn a_; dn w_]] = Ok l.
Proof. eexists; vm_compute; reflexivity. Qed.

(* Statement.dir_eq_files is REFUTED by the faithful model: in w/{ a.py a/{ b.py } } the directory walk keeps one
   source, the two files listed one by one give two sources with distinct module names *)
Theorem dir_eq_files_refuted :
  exists o t d l_dir l_files,
    wf_node (Dir t) = true /\ valid_names t = true /\
    find_sources_in_dir o t d = Ok l_dir /\ crawl_each o t (py_files t d) = Ok l_files /\
    NoDup (map s_mod l_files) /\ length l_dir = 1 /\ length l_files = 2.
Proof.
  exists (classic []), tree_dir_skips, [dn w_].
  destruct dir_skips_witness as (H1 & H2 & l1 & l2 & H). exists l1, l2. tauto.
Qed.
Print Assumptions dir_eq_files_refuted.

(* Statement.crawl_find_inverse_strict is REFUTED by the faithful model: w/{ a.py a/{ __init__.py } } *)
Theorem crawl_find_inverse_strict_refuted :
  exists o t f m b g,
    wf_node (Dir t) = true /\ valid_names t = true /\ isfile t f = true /\ py_path f = true /\
    crawl_up o t f = Ok (m, b) /\ find_module o t [b] m = Found g /\ strict_ok f g = false.
Proof.
  exists (classic []), tree_pkg_shadows, [(a_, Py); dn w_], [a_], [dn w_], [(Init, Py); dn a_; dn w_].
  repeat split.
Qed.
Print Assumptions crawl_find_inverse_strict_refuted.

(* THE INVERSE LAW, every tree / depth / option combination (classic, namespace packages, explicit package bases with
   any mypy_path and cwd): if crawl_up gives file f the module name m (non-empty) and base b, then find_module on [b]
   finds m at f, at f's sibling stub, at the package n/__init__.py[i] beside module file n.py[i] (same module name:
   duplicate error if both are given), or - namespace mode only - at the directory n beside n.py[i]. *)
Theorem crawl_find_inverse : forall o t f m b,
  valid_names t = true -> isfile t f = true -> py_path f = true ->
  crawl_up o t f = Ok (m, b) -> m <> [] ->
  exists g, find_module o t [b] m = Found g /\ rel_ok o f g = true.
Proof. exact crawl_find_inverse_main. Qed.
Print Assumptions crawl_find_inverse.
Theorem crawl_find_inverse_bool : Statement.crawl_find_inverse.
Proof. exact crawl_find_inverse_lemma. Qed.
Print Assumptions crawl_find_inverse_bool.
(* classic mode never answers with a directory: the namespace disjunct needs namespace_packages *)
Example crawl_find_inverse_ex :
  valid_names tree_pkg_shadows = true /\ isfile tree_pkg_shadows [(Init, Py); dn a_; dn w_] = true /\
  crawl_up (classic []) tree_pkg_shadows [(Init, Py); dn a_; dn w_] = Ok ([a_], [dn w_]).
Proof. repeat split. Qed.

(* DIR = FILES IN ANY ORDER, every tree / depth / option combination without a module file beside a same-named
   directory: unless two files share a module name (the duplicate check then fires, theorem duplicate_detected),
   find_sources_in_dir and the per-file crawl of all .py[i] files below the directory, in any order, yield the same
   sources. *)
Theorem dir_eq_files_no_shadow : Statement.dir_eq_files_no_shadow.
Proof.
  intros o t d l_dir fs l_files W S HD P HC.
  assert (D : forall a b : modname, {a = b} + {a <> b}) by (apply list_eq_dec; decide equality; apply Pos.eq_dec).
  destruct (NoDup_dec D (map s_mod l_files)) as [ND|ND].
  - left. exact (dir_eq_files_lemma o t d l_dir fs l_files W S HD P HC ND).
  - right. exact ND.
Qed.
Print Assumptions dir_eq_files_no_shadow.
Example dir_eq_files_no_shadow_ex :
  let t := [((w_, NoExt), Dir [((a_, Py), File); ((b_, NoExt), Dir [((Init, Py), File); ((a_, Pyi), File)])])] in
  wf_node (Dir t) = true /\ no_shadow t = true /\
  exists l, find_sources_in_dir (classic []) t [dn w_] = Ok l /\ length l = 3.
Proof. split; [reflexivity|]. split; [reflexivity|]. eexists. split; [vm_compute; reflexivity | reflexivity]. Qed.

(* load_graph's "Source file found twice under different module names" check is exact *)
Theorem found_twice_iff : Statement.found_twice_iff.
Proof. exact found_twice_iff_lemma. Qed.
Print Assumptions found_twice_iff.
Theorem found_twice_report_sound : forall g dep p q m1 m2,
  add_dependency g dep p = inr (FoundTwice q m1 m2) -> q = p /\ m2 = dep /\ In (m1, p) g /\ m1 <> dep.
Proof. exact found_twice_report. Qed.
Print Assumptions found_twice_report_sound.
Example found_twice_ex :
  add_dependency [([w_; a_], [(a_, Py); dn w_])] [a_] [(a_, Py); dn w_]
  = inr (FoundTwice [(a_, Py); dn w_] [w_; a_] [a_]).
Proof. reflexivity. Qed.

(* the canonicalisation contract holds for the model's normpath (S3 monitors it on mypy) *)
Theorem path_canonicalisation : Statement.canonicalisation_contract.
Proof.
  split; [exact normpath_idempotent_lemma|]. split; [exact spelling_insensitive_lemma | exact found_twice_spelling_lemma].
Qed.
Print Assumptions path_canonicalisation.
Example path_canonicalisation_ex :
  normpath [dn (Id 26%positive)] [CUp; CName (dn w_); CName (a_, Py)] = [(a_, Py); dn w_].
Proof. reflexivity. Qed.

(* find_modules_recursive, one level, any tree / depth / listing order: the result is the found module plus the walks of
   all eligible children - `seen` never loses a module (partial result towards Statement.dir_eq_package) *)
Theorem package_walk_unfold : forall k o t sp m l,
  fmr (S k) o t sp m = Ok l ->
  match find_module o t sp m with
  | NotFound => l = []
  | Found g =>
      forall s, In s l <->
        s = {| s_path := g; s_mod := m; s_base := None |} \/
        exists pp names name, pkg_dir_of t g = Some pp /\ listdir t pp = Some names /\ In name names /\
                              eligible o t pp name = true /\ In s (sub_walk k o t sp m (fst name))
  end.
Proof. exact package_walk_unfold_lemma. Qed.
Print Assumptions package_walk_unfold.
(* every entry of `-p pkg` is what find_module returns for its module name, and lies below pkg *)
Theorem package_walk_sound : forall o t sp k m l s,
  fmr k o t sp m = Ok l -> In s l ->
  find_module o t sp (s_mod s) = Found (s_path s) /\ s_base s = None /\ exists suffix, s_mod s = m ++ suffix.
Proof. exact package_walk_sound_lemma. Qed.
Print Assumptions package_walk_sound.
(* without no_shadow, DIR and -p PKG differ even when every source is rooted at cwd (second finding):
   w/{ __init__.py a.py a/{ a/{ a.py } } } with namespace packages *)
Theorem dir_eq_package_needs_no_shadow :
  exists o t base p l_dir l_pkg f,
    wf_node (Dir t) = true /\ valid_names t = true /\ cwd o = base /\ mypy_path o = [] /\
    find_sources_in_dir o t (dn p :: base) = Ok l_dir /\ (forall s, In s l_dir -> s_base s = Some base) /\
    find_modules_recursive o t [base] [p] = Ok l_pkg /\
    In f (map s_path l_dir) /\ ~ In f (map s_path l_pkg).
Proof.
  destruct pkg_walk_witness as (W & V & l_dir & l_pkg & H1 & H2 & H3 & H4 & H5).
  exists (ns_opts []), tree_pkg_walk, [], w_, l_dir, l_pkg, [(a_, Py); dn a_; dn a_; dn w_].
  repeat split; auto.
Qed.
Print Assumptions dir_eq_package_needs_no_shadow.

(* every source of find_sources_in_dir (any tree, depth, options) is an existing .py[i] file with exactly the module
   name and base that crawl_up gives it *)
Theorem dir_walk_sound : forall o t d l s, find_sources_in_dir o t d = Ok l -> In s l -> src_ok o t s.
Proof. intros o t d l s. apply fsd_sound. Qed.
Print Assumptions dir_walk_sound.
(* ... and the finder, searching the source's own base, finds its module name at that file (or its stub / the package /
   the namespace directory beside it): `mypy DIR` and import resolution agree on every source of DIR *)
Theorem dir_sources_found : forall o t d l s,
  valid_names t = true -> find_sources_in_dir o t d = Ok l -> In s l -> s_mod s <> [] ->
  exists b g, s_base s = Some b /\ crawl_up o t (s_path s) = Ok (s_mod s, b) /\
              find_module o t [b] (s_mod s) = Found g /\ rel_ok o (s_path s) g = true.
Proof. exact dir_sources_found_lemma. Qed.
Print Assumptions dir_sources_found.

(* DIR = -p PKG: every tree / depth / option combination with valid names and no module file beside a same-named
   directory, every source of the directory rooted at cwd: find_modules_recursive pkg (its file entries) and
   find_sources_in_dir pkg_dir yield exactly the same (module, path) set. *)
Theorem dir_eq_package : Statement.dir_eq_package.
Proof.
  intros o t base p l_dir l_pkg W V S _ _ HD HB HP. unfold same_sources.
  exact (dir_eq_package_lemma o t base p W V S l_dir l_pkg HD HB HP).
Qed.
Print Assumptions dir_eq_package.
(* the directory walk keeps exactly the preferred files (n.pyi over n.py, as find_module does): keyfunc order *)
Theorem dir_walk_prefers_stub : forall o t, wf_node (Dir t) = true -> no_shadow t = true ->
  forall d l s, find_sources_in_dir o t d = Ok l -> In s l -> pref_path t (s_path s).
Proof. intros o t W S d l s H Hin. exact (proj1 (fsd_pref o t W S _ _ _ _ H Hin)). Qed.
Print Assumptions dir_walk_prefers_stub.
Example dir_eq_package_ex :
  let t := [((w_, NoExt), Dir [((Init, Py), File); ((a_, Py), File); ((a_, Pyi), File);
                               ((b_, NoExt), Dir [((Init, Pyi), File); ((a_, Py), File)])])] in
  wf_node (Dir t) = true /\ valid_names t = true /\ no_shadow t = true /\
  exists l_dir l_pkg, find_sources_in_dir (classic []) t [dn w_] = Ok l_dir /\
                      (forall s, In s l_dir -> s_base s = Some []) /\
                      find_modules_recursive (classic []) t [[]] [w_] = Ok l_pkg /\ length l_dir = 4 /\ length l_pkg = 4.
Proof.
  repeat (split; [reflexivity|]). eexists. eexists. split; [vm_compute; reflexivity|]. split.
  - intros s H. repeat (destruct H as [<-|H]; [reflexivity|]). contradiction.
  - split; [vm_compute; reflexivity | split; reflexivity].
Qed.

(* the inverse law under --namespace-packages, with or without --explicit-package-bases and for any MYPYPATH / cwd (the
   bases are `mypy_path o ++ [cwd o]`): exact side condition valid_names; the answer may be the namespace directory n beside
   n.py[i] only in this mode *)
Theorem crawl_find_inverse_namespace : forall o t f m b,
  ns o = true -> valid_names t = true -> isfile t f = true -> py_path f = true ->
  crawl_up o t f = Ok (m, b) -> m <> [] ->
  exists g, find_module o t [b] m = Found g /\ rel_ok o f g = true.
Proof. intros o t f m b _. exact (crawl_find_inverse_main o t f m b). Qed.
Print Assumptions crawl_find_inverse_namespace.
Example crawl_find_inverse_namespace_ex :
  let o := {| ns := true; explicit := true; mypy_path := []; cwd := [dn w_] |} in
  let t := [((w_, NoExt), Dir [((a_, NoExt), Dir [((b_, Py), File)])])] in
  valid_names t = true /\ crawl_up o t [(b_, Py); dn a_; dn w_] = Ok ([a_; b_], [dn w_]) /\
  find_module o t [[dn w_]] [a_; b_] = Found [(b_, Py); dn a_; dn w_].
Proof. repeat split. Qed.

(* exact form on trees without the shadow pattern (every mode): the finder returns the stub n.pyi when it exists and the
   module file itself otherwise - never a package or a namespace directory *)
Theorem crawl_find_exact : forall o t n e rp m b,
  valid_names t = true -> no_shadow t = true ->
  isfile t ((n, e) :: rp) = true -> is_py e = true -> is_init n = false ->
  crawl_up o t ((n, e) :: rp) = Ok (m, b) ->
  find_module o t [b] m = Found (if isfile t ((n, Pyi) :: rp) then (n, Pyi) :: rp else (n, e) :: rp).
Proof. exact crawl_find_exact_lemma. Qed.
Print Assumptions crawl_find_exact.

(* the side condition is necessary: with a directory that is not an identifier ("a-stubs": crawl_up strips the suffix) the
   inverse law fails in every mode - w/{ a-stubs/{ __init__.py b.py } }: module a.b, base w, find_module [w] a.b = NotFound *)
Theorem crawl_find_inverse_needs_valid_names :
  exists t f m b, wf_node (Dir t) = true /\ no_shadow t = true /\ valid_names t = false /\ isfile t f = true /\ py_path f = true /\
    forall nsb, let o := {| ns := nsb; explicit := false; mypy_path := []; cwd := [] |} in
                crawl_up o t f = Ok (m, b) /\ find_module o t [b] m = NotFound.
Proof.
  exists tree_stubs_dir, [(b_, Py); dn (Stubs 1%positive); dn w_], [a_; b_], [dn w_].
  destruct stubs_dir_witness as (W & S & V & F & H). repeat split; auto; apply H.
Qed.
Print Assumptions crawl_find_inverse_needs_valid_names.
