(* C18: exact characterisation of find_sources_in_dir on trees without the shadow pattern:
   it keeps exactly the preferred .py[i] files (n.pyi over n.py), thanks to the keyfunc order. *)
From Coq Require Import List Bool PArith NArith Arith Lia Permutation Sorted.
From C18 Require Import Model Proofs ProofsInverse ProofsDir ProofsDirSound ProofsSort.
Import ListNotations.

Definition pref (t : dir) (rp : rpath) (name : ename) : Prop :=
  snd name = Pyi \/ isfile t ((fst name, Pyi) :: rp) = false.
Definition pref_path (t : dir) (f : rpath) : Prop :=
  match f with name :: rp => pref t rp name | [] => True end.

Lemma isfile_not_isdir t p : isfile t p = true -> isdir t p = false.
Proof. unfold isfile, isdir. destruct (get t p) as [[|]|]; congruence. Qed.
(* no module file beside a directory of the same name *)
Lemma no_shadow_file_dir t rp n e : no_shadow t = true ->
  isdir t ((n, NoExt) :: rp) = true -> is_py e = true -> isfile t ((n, e) :: rp) = false.
Proof.
  intros S D Pe. destruct (isfile t ((n, e) :: rp)) eqn:F; [|reflexivity]. exfalso.
  unfold isdir in D. destruct (get t ((n, NoExt) :: rp)) as [[|dd]|] eqn:G1; try discriminate.
  apply get_child_dir in G1. destruct G1 as (d & G & L1).
  apply isfile_get in F. apply get_child_dir in F. destruct F as (d' & G' & L2). rewrite G in G'. inversion G'; subst d'.
  pose proof (ns_get t S _ _ G) as Sd. apply lookup_in in L1. apply lookup_in in L2.
  simpl in Sd. rewrite forallb_forall in Sd. specialize (Sd _ L1). simpl in Sd.
  apply andb_prop in Sd. destruct Sd as [Sh _]. apply negb_true_iff in Sh.
  apply Bool.not_true_iff_false in Sh. apply Sh. unfold shadowed_by_file.
  apply existsb_exists. exists ((n, e), File). split; [assumption|]. simpl. rewrite Pe. apply nm_eqb_refl.
Qed.
Lemma mem_nm_app n a b : mem_nm n (a ++ b) = mem_nm n a || mem_nm n b.
Proof. unfold mem_nm. apply existsb_app. Qed.

Section Level.
Variables (o : opts) (t : dir) (k : nat) (rp : rpath) (d : dir).
Hypothesis G : get t rp = Some (Dir d).
Hypothesis NSh : no_shadow t = true.

Definition mk (name : ename) (m : modname) (b : rpath) : source := {| s_path := name :: rp; s_mod := m; s_base := Some b |}.

Lemma fsd_fold_exact : forall L seen acc seen' acc',
  StronglySorted kle L -> NoDup L -> (forall name, In name L -> In name (map fst d)) ->
  (forall n, isfile t ((n, Pyi) :: rp) = true -> ~ In (n, Pyi) L -> mem_nm n seen = true) ->
  (forall name, In name L -> isdir t (name :: rp) = false -> is_py (snd name) = true -> pref t rp name ->
                mem_nm (fst name) seen = false) ->
  fold_left (fsd_step k o t rp) L (Ok (seen, acc)) = Ok (seen', acc') ->
  (forall s, In s acc' -> In s acc
                         \/ (exists name ss, In name L /\ isdir t (name :: rp) = true /\ fsd k o t (name :: rp) = Ok ss /\ In s ss)
                         \/ (exists name m b, In name L /\ isdir t (name :: rp) = false /\ is_py (snd name) = true /\
                                              pref t rp name /\ crawl_up o t (name :: rp) = Ok (m, b) /\ s = mk name m b)) /\
  (forall name, In name L -> isdir t (name :: rp) = true -> exists ss, fsd k o t (name :: rp) = Ok ss /\ incl ss acc') /\
  (forall name, In name L -> isdir t (name :: rp) = false -> is_py (snd name) = true -> pref t rp name ->
                exists m b, crawl_up o t (name :: rp) = Ok (m, b) /\ In (mk name m b) acc') /\
  incl acc acc'.
Proof.
  induction L as [|h L IH]; intros seen acc seen' acc' SS ND Sub A B HF; cbn [fold_left] in HF.
  - inversion HF; subst. repeat split; try (intros ? []); auto using incl_refl.
  - inversion SS as [|? ? SS' Fh]; subst. inversion ND as [|? ? Hnotin ND']; subst.
    assert (Sub' : forall name, In name L -> In name (map fst d)) by (intros; apply Sub; simpl; auto).
    (* how the conclusions for the tail extend to h :: L *)
    assert (Ext : forall seen1 acc1,
      fold_left (fsd_step k o t rp) L (Ok (seen1, acc1)) = Ok (seen', acc') ->
      (forall n, isfile t ((n, Pyi) :: rp) = true -> ~ In (n, Pyi) L -> mem_nm n seen1 = true) ->
      (forall name, In name L -> isdir t (name :: rp) = false -> is_py (snd name) = true -> pref t rp name ->
                    mem_nm (fst name) seen1 = false) ->
      (* what h contributed *)
      (forall s, In s acc1 -> In s acc
           \/ (exists ss, isdir t (h :: rp) = true /\ fsd k o t (h :: rp) = Ok ss /\ In s ss)
           \/ (exists m b, isdir t (h :: rp) = false /\ is_py (snd h) = true /\ pref t rp h /\
                           crawl_up o t (h :: rp) = Ok (m, b) /\ s = mk h m b)) ->
      incl acc acc1 ->
      (isdir t (h :: rp) = true -> exists ss, fsd k o t (h :: rp) = Ok ss /\ incl ss acc1) ->
      (isdir t (h :: rp) = false -> is_py (snd h) = true -> pref t rp h ->
       exists m b, crawl_up o t (h :: rp) = Ok (m, b) /\ In (mk h m b) acc1) ->
      (forall s, In s acc' -> In s acc
                         \/ (exists name ss, In name (h :: L) /\ isdir t (name :: rp) = true /\ fsd k o t (name :: rp) = Ok ss /\ In s ss)
                         \/ (exists name m b, In name (h :: L) /\ isdir t (name :: rp) = false /\ is_py (snd name) = true /\
                                              pref t rp name /\ crawl_up o t (name :: rp) = Ok (m, b) /\ s = mk name m b)) /\
      (forall name, In name (h :: L) -> isdir t (name :: rp) = true -> exists ss, fsd k o t (name :: rp) = Ok ss /\ incl ss acc') /\
      (forall name, In name (h :: L) -> isdir t (name :: rp) = false -> is_py (snd name) = true -> pref t rp name ->
                    exists m b, crawl_up o t (name :: rp) = Ok (m, b) /\ In (mk name m b) acc') /\
      incl acc acc').
    { intros seen1 acc1 HF1 A1 B1 C1 I1 Dh Fh'.
      destruct (IH seen1 acc1 seen' acc' SS' ND' Sub' A1 B1 HF1) as (R1 & R2 & R3 & R4).
      split; [|split; [|split]].
      - intros s Hs. destruct (R1 s Hs) as [H|[(name & ss & Hin & H)|(name & m & b & Hin & H)]].
        + destruct (C1 s H) as [H1|[(ss & H1)|(m & b & H1)]]; [auto| |].
          * right. left. exists h, ss. simpl. tauto.
          * right. right. exists h, m, b. simpl. tauto.
        + right. left. exists name, ss. simpl. tauto.
        + right. right. exists name, m, b. simpl. tauto.
      - intros name [<-|Hin] Dn; [|eauto].
        destruct (Dh Dn) as (ss & E & I). exists ss. split; [exact E|]. eapply incl_tran; eauto.
      - intros name [<-|Hin] Dn Pn Prn; [|eauto].
        destruct (Fh' Dn Pn Prn) as (m & b & E & I). exists m, b. split; [exact E|]. apply R4. exact I.
      - eapply incl_tran; eauto. }
    assert (Hlisted : In h (map fst d)) by (apply Sub; simpl; auto).
    destruct (isdir t (h :: rp)) eqn:D.
    + rewrite step_dir in HF by assumption.
      destruct (fsd k o t (h :: rp)) as [ss|x] eqn:Esub; [|rewrite fold_err in HF; discriminate].
      assert (Anew : forall X, forall n, isfile t ((n, Pyi) :: rp) = true -> ~ In (n, Pyi) L -> mem_nm n (X ++ seen) = true).
      { intros X n Fn Nn. rewrite mem_nm_app. rewrite (A n Fn); [apply orb_true_r|].
        intros [E|E]; [|auto]. subst h. apply isfile_not_isdir in Fn. exact (eq_true_false_abs _ D Fn). }
      assert (Bnew : forall name, In name L -> isdir t (name :: rp) = false -> is_py (snd name) = true -> pref t rp name ->
                     mem_nm (fst name) ((match snd h with NoExt => [fst h] | _ => [] end) ++ seen) = false).
      { intros name Hin Dn Pn Prn. rewrite mem_nm_app. rewrite (B name); simpl; auto. rewrite orb_false_r.
        destruct h as [nh eh]. simpl. destruct eh; simpl; auto. rewrite orb_false_r.
        destruct (nm_eqb (fst name) nh) eqn:E; [|reflexivity]. apply nm_eqb_spec in E. exfalso.
        pose proof (listed_file t rp d name G (Sub' name Hin) Dn) as Fn.
        destruct name as [nn en]. simpl in *. subst nn.
        exact (eq_true_false_abs _ Fn (no_shadow_file_dir t rp nh en NSh D Pn)). }
      destruct ss as [|s0 ss'].
      * apply (Ext seen acc HF).
        -- apply (Anew []).
        -- intros; apply B; simpl; auto.
        -- auto.
        -- apply incl_refl.
        -- intros _. exists []. split; [reflexivity | intros ? []].
        -- congruence.
      * apply (Ext _ _ HF).
        -- apply Anew.
        -- exact Bnew.
        -- intros s Hs. apply in_app_or in Hs. destruct Hs as [Hs|Hs]; [auto|]. right. left. exists (s0 :: ss'). auto.
        -- apply incl_appl, incl_refl.
        -- intros _. exists (s0 :: ss'). split; [reflexivity | apply incl_appr, incl_refl].
        -- congruence.
    + rewrite step_file in HF by assumption.
      pose proof (listed_file t rp d h G Hlisted D) as Fhfile.
      destruct (is_py (snd h)) eqn:Py.
      * destruct (mem_nm (fst h) seen) eqn:Mem; cbn [negb andb] in HF.
        -- (* skipped: h is not preferred *)
           apply (Ext seen acc HF).
           ++ intros n Fn Nn. destruct (ename_eqb (n, Pyi) h) eqn:E.
              ** apply ename_eqb_spec in E. subst h. exact Mem.
              ** apply A; auto. intros [E'|E']; [subst h; rewrite ename_eqb_refl in E; discriminate | auto].
           ++ intros; apply B; simpl; auto.
           ++ auto.
           ++ apply incl_refl.
           ++ congruence.
           ++ intros _ _ Prh. rewrite (B h) in Mem; simpl; auto. discriminate.
        -- destruct (crawl_up o t (h :: rp)) as [[m b]|x] eqn:Ec; [|rewrite fold_err in HF; discriminate].
           assert (Prh : pref t rp h).
           { destruct h as [n e]. unfold pref. simpl. destruct e; [discriminate|auto|]. right.
             destruct (isfile t ((n, Pyi) :: rp)) eqn:Fs; [|reflexivity]. exfalso.
             simpl in Mem. rewrite (A n Fs) in Mem; [discriminate|].
             intros [E|E]; [discriminate | exact (sorted_head_py n L SS E)]. }
           apply (Ext _ _ HF).
           ++ intros n Fn Nn. simpl. destruct (ename_eqb (n, Pyi) h) eqn:E.
              ** apply ename_eqb_spec in E. subst h. simpl. rewrite nm_eqb_refl. reflexivity.
              ** rewrite (A n Fn); [apply orb_true_r|].
                 intros [E'|E']; [subst h; rewrite ename_eqb_refl in E; discriminate | auto].
           ++ intros name Hin Dn Pn Prn. simpl. rewrite (B name); simpl; auto. rewrite orb_false_r.
              destruct (nm_eqb (fst name) (fst h)) eqn:E; [|reflexivity]. apply nm_eqb_spec in E. exfalso.
              destruct name as [nn en], h as [nh eh]. simpl in *. subst nn.
              destruct eh; [discriminate| |]; destruct en; try discriminate.
              ** apply Hnotin. exact Hin.
              ** destruct Prn as [Prn|Prn]; [discriminate|]. simpl in Prn. exact (eq_true_false_abs _ Fhfile Prn).
              ** exact (sorted_head_py nh L SS Hin).
              ** apply Hnotin. exact Hin.
           ++ intros s Hs. apply in_app_or in Hs. destruct Hs as [Hs|[<-|[]]]; [auto|].
              right. right. exists m, b. auto 6.
           ++ apply incl_appl, incl_refl.
           ++ congruence.
           ++ intros _ _ _. exists m, b. split; [reflexivity | apply in_or_app; right; simpl; auto].
      * rewrite andb_false_r in HF.
        apply (Ext seen acc HF).
        -- intros n Fn Nn. apply A; auto. intros [E|E]; [subst h; discriminate | auto].
        -- intros; apply B; simpl; auto.
        -- auto.
        -- apply incl_refl.
        -- congruence.
        -- congruence.
Qed.
End Level.

(* ---------------------------------------------------------------- the whole walk *)
Lemma nodup_names_NoDup : forall l, nodup_names l = true -> NoDup l.
Proof.
  induction l as [|e l IH]; intros H; [constructor|].
  constructor; [apply nodup_names_notin; exact H|]. apply IH. simpl in H. apply andb_prop in H. apply H.
Qed.
Lemma listed_of_exists t rp d x : get t rp = Some (Dir d) -> get t (x :: rp) <> None -> In x (map fst d).
Proof.
  intros G H. destruct (get t (x :: rp)) as [n|] eqn:E; [|congruence].
  apply get_child_dir in E. destruct E as (d' & G' & L). rewrite G in G'. inversion G'; subst d'.
  apply lookup_in in L. change x with (fst (x, n)). apply in_map. exact L.
Qed.
Lemma isdir_of_below t : forall l b, l <> [] -> get t (l ++ b) <> None -> isdir t b = true.
Proof.
  induction l as [|a l IH]; intros b Hl H; [congruence|]. destruct l as [|a' l'].
  - simpl in H. eapply isdir_parent; eauto.
  - apply IH; [discriminate|]. apply (exists_prefix [a]). exact H.
Qed.
Lemma list_rev_case {A} (q : list A) : q = [] \/ exists q' y, q = q' ++ [y].
Proof. destruct q as [|a q]; [auto|]. right. destruct (@exists_last _ (a :: q)) as (q' & y & E); [discriminate|]. eauto. Qed.

Section Walk.
Variables (o : opts) (t : dir).
Hypothesis W : wf_node (Dir t) = true.
Hypothesis NSh : no_shadow t = true.

Lemma level_facts rp d k seen' acc' :
  get t rp = Some (Dir d) ->
  fold_left (fsd_step k o t rp) (isort keyfunc_leb (map fst d)) (Ok ([], [])) = Ok (seen', acc') ->
  (forall s, In s acc' ->
      (exists name ss, In name (map fst d) /\ isdir t (name :: rp) = true /\ fsd k o t (name :: rp) = Ok ss /\ In s ss)
      \/ (exists name m b, In name (map fst d) /\ isdir t (name :: rp) = false /\ is_py (snd name) = true /\
                           pref t rp name /\ crawl_up o t (name :: rp) = Ok (m, b) /\ s = mk rp name m b)) /\
  (forall name, In name (map fst d) -> isdir t (name :: rp) = true -> exists ss, fsd k o t (name :: rp) = Ok ss /\ incl ss acc') /\
  (forall name, In name (map fst d) -> isdir t (name :: rp) = false -> is_py (snd name) = true -> pref t rp name ->
                exists m b, crawl_up o t (name :: rp) = Ok (m, b) /\ In (mk rp name m b) acc').
Proof.
  intros G EF.
  pose proof (wf_get t W _ _ G) as Wd. simpl in Wd. apply andb_prop in Wd. destruct Wd as [NDn _].
  pose proof (isort_perm keyfunc_leb (map fst d)) as PS.
  destruct (fsd_fold_exact o t k rp d G NSh (isort keyfunc_leb (map fst d)) [] [] seen' acc') as (R1 & R2 & R3 & _); auto.
  - apply isort_sorted.
  - apply isort_nodup. apply nodup_names_NoDup. exact NDn.
  - intros name Hn. eapply Permutation_in; eauto.
  - intros n Fn Nn. exfalso. apply Nn. eapply Permutation_in; [symmetry; exact PS|].
    eapply listed_of_exists; eauto. apply isfile_exists. exact Fn.
  - split; [|split].
    + intros s Hs. destruct (R1 s Hs) as [[]|[(name & ss & Hin & H)|(name & m & b & Hin & H)]].
      * left. exists name, ss. split; [eapply Permutation_in; eauto | exact H].
      * right. exists name, m, b. split; [eapply Permutation_in; eauto | exact H].
    + intros name Hn. apply R2. eapply Permutation_in; [symmetry; exact PS | exact Hn].
    + intros name Hn. apply R3. eapply Permutation_in; [symmetry; exact PS | exact Hn].
Qed.

(* every source kept is a preferred file below the directory *)
Theorem fsd_pref : forall fuel rp l s, fsd fuel o t rp = Ok l -> In s l ->
  pref_path t (s_path s) /\ exists x q, s_path s = x :: q ++ rp.
Proof.
  induction fuel as [|k IHk]; intros rp l s H Hin; [discriminate|].
  rewrite fsd_unfold in H. unfold listdir in H. destruct (get t rp) as [[|d]|] eqn:G; try discriminate.
  destruct (fold_left (fsd_step k o t rp) (isort keyfunc_leb (map fst d)) (Ok ([], []))) as [[seen' acc']|x] eqn:EF;
    [|discriminate].
  inversion H; subst acc'. destruct (level_facts rp d k seen' l G EF) as (R1 & _ & _).
  destruct (R1 s Hin) as [(name & ss & _ & _ & Es & Hs)|(name & m & b & _ & _ & _ & Pr & _ & ->)].
  - destruct (IHk _ _ _ Es Hs) as (P & x & q & E). split; [exact P|]. exists x, (q ++ [name]).
    rewrite E, <- app_assoc. reflexivity.
  - simpl. split; [exact Pr|]. exists name, []. reflexivity.
Qed.
(* every preferred .py[i] file below the directory is kept *)
Theorem fsd_complete : forall fuel rp l, fsd fuel o t rp = Ok l ->
  forall q x, isfile t (x :: q ++ rp) = true -> is_py (snd x) = true -> pref t (q ++ rp) x ->
  exists s, In s l /\ s_path s = x :: q ++ rp.
Proof.
  induction fuel as [|k IHk]; intros rp l H q x F Py Pr; [discriminate|].
  rewrite fsd_unfold in H. unfold listdir in H. destruct (get t rp) as [[|d]|] eqn:G; try discriminate.
  destruct (fold_left (fsd_step k o t rp) (isort keyfunc_leb (map fst d)) (Ok ([], []))) as [[seen' acc']|e] eqn:EF;
    [|discriminate].
  inversion H; subst acc'. destruct (level_facts rp d k seen' l G EF) as (_ & R2 & R3).
  destruct (list_rev_case q) as [->|(q' & y & ->)].
  - simpl in *. destruct (R3 x) as (m & b & _ & Hin); auto.
    + eapply listed_of_exists; eauto. apply isfile_exists. exact F.
    + apply isfile_not_isdir. exact F.
    + exists (mk rp x m b). split; [exact Hin | reflexivity].
  - rewrite <- app_assoc in *. simpl in *.
    assert (Gy : get t (y :: rp) <> None) by (apply (exists_prefix (x :: q')); apply isfile_exists; exact F).
    assert (Dy : isdir t (y :: rp) = true) by (apply (isdir_of_below t (x :: q')); [discriminate | apply isfile_exists; exact F]).
    destruct (R2 y) as (ss & Es & I); auto.
    + eapply listed_of_exists; eauto.
    + destruct (IHk _ _ Es q' x F Py Pr) as (s & Hs & E). exists s. split; [apply I; exact Hs | exact E].
Qed.
End Walk.
