From Coq Require Import List Bool PArith NArith Extraction ExtrOcamlBasic.
From C18 Require Import Model.
Extraction "c18.ml" crawl_up create_source_list find_sources_in_dir find_module find_modules_recursive
  search_paths load_roots add_dependency py_files crawl_each valid_names wf_node sibling_stub inverse_ok no_shadow.
