(* C13 proofs, part 6: what happens between error_info_map and the printed list
   (many-errors limiter, sort_messages, remove_duplicates) does not lose an error that is not an
   exact duplicate and does not change the exit-status classification. *)
From Coq Require Import ZArith List String Ascii Bool Lia Permutation.
From C13 Require Import Types Model Proofs ProofsExit.
Import ListNotations.
Open Scope list_scope.
Open Scope Z_scope.

(* ------------------------------------------------------------------ sorting is a permutation *)
Lemma insert_by_perm : forall le x l, Permutation (insert_by le x l) (x :: l).
Proof.
  induction l as [|y t IH]; simpl; [apply Permutation_refl|].
  destruct (le x y); [apply Permutation_refl|].
  eapply Permutation_trans; [apply perm_skip, IH | apply perm_swap].
Qed.

Lemma sort_by_perm : forall le l, Permutation (sort_by le l) l.
Proof.
  induction l as [|x t IH]; simpl; [constructor|].
  eapply Permutation_trans; [apply insert_by_perm | now apply perm_skip].
Qed.

Lemma concat_group_adj : forall same l, List.concat (group_adj same l) = l.
Proof.
  induction l as [|x t IH]; simpl; [reflexivity|].
  destruct (group_adj same t) as [|[|y g] gs]; simpl in *.
  - now rewrite <- IH.
  - now rewrite <- IH.
  - destruct (same x y); simpl; now rewrite <- IH.
Qed.

Lemma perm_concat_map : forall (f : list info -> list info) gs,
  (forall g, Permutation (f g) g) -> Permutation (List.concat (map f gs)) (List.concat gs).
Proof.
  induction gs as [|g t IH]; simpl; intros H; [constructor|].
  apply Permutation_app; [apply H | apply IH, H].
Qed.

Lemma sort_within_context_perm : forall a, Permutation (sort_within_context a) a.
Proof.
  intros. unfold sort_within_context.
  eapply Permutation_trans; [apply perm_concat_map; intros; apply sort_by_perm|].
  rewrite concat_group_adj. apply Permutation_refl.
Qed.

Lemma sort_messages_perm : forall l, Permutation (sort_messages l) l.
Proof.
  intros. unfold sort_messages.
  eapply Permutation_trans.
  - apply (perm_concat_map (fun g => sort_within_context (sort_by le_linecol g))). intros g.
    eapply Permutation_trans; [apply sort_within_context_perm | apply sort_by_perm].
  - rewrite concat_group_adj. apply Permutation_refl.
Qed.

(* ------------------------------------------------------------------ remove_duplicates *)
Lemma dkey_eqb_eq : forall a b, dkey_eqb a b = true -> a = b.
Proof.
  intros [[l1 s1] m1] [[l2 s2] m2]. simpl. intros H.
  apply andb_true_iff in H as [H Hm]. apply andb_true_iff in H as [Hl Hs].
  apply Z.eqb_eq in Hl. apply eqb_prop in Hs. apply String.eqb_eq in Hm. now subst.
Qed.

Lemma rd_pass_spec : forall errs seen,
  (forall e, In e (fst (rd_pass errs seen)) -> In e errs) /\
  (forall e, In e errs -> iparent e = None ->
     mem_key (key_of e) seen = true \/
     exists e', In e' (fst (rd_pass errs seen)) /\ iparent e' = None /\ key_of e' = key_of e).
Proof.
  induction errs as [|x t IH]; intros seen; simpl.
  - split; [tauto | intros e []].
  - destruct (is_some (iparent x)) eqn:P.
    + destruct (rd_pass t seen) as [f r] eqn:R. simpl. specialize (IH seen). rewrite R in IH. simpl in IH.
      destruct IH as [I1 I2]. split.
      * intros e [->|H]; auto.
      * intros e [->|H] Hp; [rewrite Hp in P; discriminate|].
        destruct (I2 e H Hp) as [K|[e' [A [B C]]]]; [now left | right; exists e'; simpl; auto].
    + destruct (mem_key (key_of x) seen) eqn:M.
      * destruct (rd_pass t seen) as [f r] eqn:R. simpl. specialize (IH seen). rewrite R in IH. simpl in IH.
        destruct IH as [I1 I2]. split.
        -- intros e H; auto.
        -- intros e [->|H] Hp; [now left | exact (I2 e H Hp)].
      * destruct (rd_pass t (key_of x :: seen)) as [f r] eqn:R. simpl.
        specialize (IH (key_of x :: seen)). rewrite R in IH. simpl in IH. destruct IH as [I1 I2]. split.
        -- intros e [->|H]; auto.
        -- intros e [->|H] Hp.
           ++ right. exists e. simpl. destruct (iparent e); [discriminate|]. auto.
           ++ destruct (I2 e H Hp) as [K|[e' [A [B C]]]].
              ** apply orb_true_iff in K as [K|K]; [|now left].
                 right. exists x. simpl. split; [now left|]. split.
                 --- destruct (iparent x); [discriminate | reflexivity].
                 --- symmetry. now apply dkey_eqb_eq.
              ** right. exists e'. simpl. auto.
Qed.

Lemma remove_duplicates_incl : forall l e, In e (remove_duplicates l) -> In e l.
Proof.
  intros l e. unfold remove_duplicates. pose proof (rd_pass_spec l []) as [H _].
  destruct (rd_pass l []) as [f r]. simpl in H. intros X. apply filter_In in X as [X _]. auto.
Qed.

(* a parent-less info (every error: only notes can have parents) is printed, or an info with the same line,
   severity and message is *)
Lemma remove_duplicates_keeps : forall l e, In e l -> iparent e = None ->
  exists e', In e' (remove_duplicates l) /\ key_of e' = key_of e.
Proof.
  intros l e Hin Hp. unfold remove_duplicates. pose proof (rd_pass_spec l []) as [_ H].
  destruct (rd_pass l []) as [f r]. simpl in H.
  destruct (H e Hin Hp) as [K|[e' [A [B C]]]]; [discriminate|].
  exists e'. split; [|exact C]. apply filter_In. split; [exact A|]. now rewrite B.
Qed.

(* ------------------------------------------------------------------ the final list *)
Lemma final_incl : forall o e, In e (final_infos o) -> In e o /\ ihidden e = false.
Proof.
  intros o e H. unfold final_infos in H. apply remove_duplicates_incl in H.
  apply (Permutation_in _ (sort_messages_perm _)) in H. apply filter_In in H as [H1 H2].
  split; [exact H1 | now apply negb_true_iff in H2].
Qed.

Lemma final_keeps : forall o e, In e o -> ihidden e = false -> iparent e = None ->
  exists e', In e' (final_infos o) /\ key_of e' = key_of e.
Proof.
  intros o e Hin Hh Hp. unfold final_infos. apply remove_duplicates_keeps; [|exact Hp].
  apply (Permutation_in _ (Permutation_sym (sort_messages_perm _))).
  apply filter_In. split; [exact Hin | now rewrite Hh].
Qed.

Definition errors_have_no_parent (o : list info) : Prop :=
  forall e, In e o -> ierror e = true -> iparent e = None.
Definition visible_error (o : list info) : Prop :=
  exists e, In e o /\ ierror e = true /\ ihidden e = false.

Lemma final_has_error_iff : forall o, errors_have_no_parent o ->
  ((exists e, In e (final_infos o) /\ ierror e = true) <-> visible_error o).
Proof.
  intros o W. split.
  - intros [e [H E]]. apply final_incl in H as [H1 H2]. exists e. auto.
  - intros [e [H [E Hh]]]. destruct (final_keeps o e H Hh (W e H E)) as [e' [A K]].
    exists e'. split; [exact A|]. unfold key_of in K. inversion K. congruence.
Qed.

Lemma printed_has_error_iff : forall srcloc hc snc o, errors_have_no_parent o ->
  (has_error (printed srcloc hc snc o) <-> visible_error o).
Proof.
  intros srcloc hc snc o W. rewrite <- (final_has_error_iff o W). unfold has_error, printed. split.
  - intros [m [Hm E]]. apply in_map_iff in Hm as [e [<- He]]. exists e. auto.
  - intros [e [He E]]. exists (to_pmsg srcloc hc snc e). split; [now apply in_map | exact E].
Qed.

(* ------------------------------------------------------------------ the limiter *)
Definition is_skip (i : info) : bool := String.eqb (imsg i) skip_msg.
Definition erase (l : list info) : list info := map unhide (filter (fun i => negb (is_skip i)) l).
Definition no_skip (E : list info) : Prop := forall i, In i E -> is_skip i = false.

Lemma mem_str_app1 : forall m l x, mem_str m (l ++ [x]) = mem_str m l || String.eqb m x.
Proof. induction l as [|y t IH]; simpl; intros; [now rewrite orb_false_r | now rewrite IH, orb_assoc]. Qed.

Lemma cover_note_erase : forall c i, erase (cover_note c i) = map unhide (cover_note c i).
Proof.
  intros. unfold cover_note. destruct (icode i) as [cd|]; [|reflexivity].
  destruct (list_empty _); [reflexivity|]. unfold erase. simpl.
  replace (is_skip _) with false; [reflexivity|].
  unfold is_skip, cover_msg. simpl imsg.
  destruct (corig cd); [destruct (mem_str _ _)|]; reflexivity.
Qed.

Lemma erase_app : forall a b, erase (a ++ b) = erase a ++ erase b.
Proof. intros. unfold erase. now rewrite filter_app, map_app. Qed.

Definition Rel (s : lst) (s0 : st) : Prop :=
  erase (out (lcore s)) = map unhide (out s0) /\ used (lcore s) = used s0 /\
  (forall m, String.eqb m skip_msg = false -> mem_str m (once (lcore s)) = mem_str m (once s0)).

Lemma unhide_set_hidden : forall i, unhide (set_hidden i) = unhide i.
Proof. reflexivity. Qed.

Lemma limiter_step : forall c L s s0 i, Rel s s0 -> is_skip i = false ->
  Rel (add_error_info_lim c L s i) (add_error_info c s0 i).
Proof.
  intros c L s s0 i [Ro [Ru Rn]] Hs. unfold add_error_info_lim, add_error_info.
  destruct (classify c i) as [[m|]| |]; try (split; [|split]; simpl; auto; congruence).
  rewrite (Rn (imsg i) Hs).
  destruct (ionce i && mem_str (imsg i) (once s0)) eqn:D; [split; [|split]; auto|].
  set (once1 := if ionce i then once (lcore s) ++ [imsg i] else once (lcore s)).
  set (hide := seen_import s && negb (is_import_code i) && has_many_errors L (out (lcore s))).
  split; [|split]; simpl.
  - rewrite !erase_app, Ro, map_app. f_equal.
    replace (erase (if hide && negb (mem_str skip_msg once1) then [skip_note i] else [])) with (@nil info)
      by (destruct (hide && negb (mem_str skip_msg once1)); reflexivity).
    simpl. change (erase ((if hide then set_hidden i else i) :: cover_note c i))
      with (erase ([if hide then set_hidden i else i] ++ cover_note c i)).
    rewrite erase_app, cover_note_erase. simpl. f_equal.
    unfold erase. simpl.
    replace (is_skip (if hide then set_hidden i else i)) with false
      by (destruct hide; unfold is_skip in *; simpl; now rewrite Hs).
    simpl. destruct hide; reflexivity.
  - exact Ru.
  - intros m Hm.
    assert (X : mem_str m once1 = mem_str m (if ionce i then once s0 ++ [imsg i] else once s0)).
    { unfold once1. destruct (ionce i); [|now apply Rn]. rewrite !mem_str_app1. now rewrite (Rn m Hm). }
    destruct (hide && negb (mem_str skip_msg once1)); [|exact X].
    rewrite mem_str_app1, Hm, orb_false_r. exact X.
Qed.

(* the full machine = the limiter-free machine, up to the `hidden` flags and the "(Skipping ...)" note *)
Lemma limiter_erasure_gen : forall c L E s s0, Rel s s0 -> no_skip E ->
  Rel (fold_left (add_error_info_lim c L) E s) (fold_left (add_error_info c) E s0).
Proof.
  induction E as [|i E IH]; intros s s0 R N; simpl; [exact R|].
  apply IH.
  - apply limiter_step; [exact R | apply N; now left].
  - intros j Hj. apply N. now right.
Qed.

Lemma limiter_erasure_proof : forall c L seen0 E, no_skip E ->
  erase (out (lcore (run_lim c L seen0 E))) = map unhide (out (run c E)) /\
  used (lcore (run_lim c L seen0 E)) = used (run c E).
Proof.
  intros. destruct (limiter_erasure_gen c L E (mk_lst init seen0) init) as [A [B _]]; auto.
  split; [|split]; reflexivity.
Qed.

(* hiding never hides everything: a hidden info implies a visible (non-hidden) import diagnostic *)
Definition fresh (E : list info) : Prop := forall i, In i E -> ihidden i = false.
Definition LInv (s : lst) : Prop :=
  (seen_import s = true -> exists j, In j (out (lcore s)) /\ is_import_code j = true /\ ihidden j = false) /\
  (forall i, In i (out (lcore s)) -> ihidden i = true -> seen_import s = true).

Lemma cover_note_props : forall c i n, In n (cover_note c i) -> ihidden n = false /\ is_import_code n = false.
Proof.
  intros c i n. unfold cover_note. destruct (icode i); [|simpl; tauto].
  destruct (list_empty _); simpl; [tauto|]. intros [<-|[]]. auto.
Qed.

Lemma limiter_inv_step : forall c L s i, LInv s -> ihidden i = false -> LInv (add_error_info_lim c L s i).
Proof.
  intros c L s i [I1 I2] F. unfold add_error_info_lim.
  destruct (classify c i) as [[m|]| |]; try (split; simpl; auto; fail).
  destruct (ionce i && mem_str (imsg i) (once (lcore s))); [split; auto|].
  set (once1 := if ionce i then (once (lcore s) ++ [imsg i]) else once (lcore s)).
  set (hide := seen_import s && negb (is_import_code i) && has_many_errors L (out (lcore s))).
  split; simpl.
  - intros S. destruct (seen_import s) eqn:SS.
    + destruct (I1 eq_refl) as [j [A [B C]]]. exists j. split; [apply in_or_app; now left | auto].
    + simpl in S. exists i. assert (H : hide = false) by reflexivity. rewrite H.
      split; [|auto]. apply in_or_app. right. apply in_or_app. right. now left.
  - intros x Hx Hh. apply in_app_or in Hx as [Hx|Hx]; [rewrite (I2 x Hx Hh); reflexivity|].
    apply in_app_or in Hx as [Hx|Hx].
    + destruct (hide && negb (mem_str skip_msg once1)); simpl in Hx; [|tauto].
      destruct Hx as [<-|[]]. discriminate.
    + destruct Hx as [<-|Hx].
      * destruct hide eqn:HH; [|congruence]. unfold hide in HH.
        apply andb_true_iff in HH as [HH _]. apply andb_true_iff in HH as [HH _]. now rewrite HH.
      * apply cover_note_props in Hx as [Hx _]. congruence.
Qed.

Lemma limiter_inv : forall c L E s, LInv s -> fresh E -> LInv (fold_left (add_error_info_lim c L) E s).
Proof.
  induction E as [|i E IH]; intros s I F; simpl; [exact I|].
  apply IH; [apply limiter_inv_step; [exact I | apply F; now left] | intros j Hj; apply F; now right].
Qed.

Lemma hidden_needs_visible_import_proof : forall c L E i, fresh E ->
  In i (out (lcore (run_lim c L false E))) -> ihidden i = true ->
  exists j, In j (out (lcore (run_lim c L false E))) /\ is_import_code j = true /\ ihidden j = false.
Proof.
  intros c L E i F Hin Hh.
  assert (I : LInv (run_lim c L false E)).
  { apply limiter_inv; [|exact F]. split; simpl; [discriminate | tauto]. }
  destruct I as [I1 I2]. apply I1. eapply I2; eauto.
Qed.

(* import-coded infos of the map come from the stream: if those are all errors, a run with a hidden error has
   a visible error too, so the limiter cannot turn a failing run into status 0 *)
Definition import_infos_are_errors (E : list info) : Prop :=
  forall i, In i E -> is_import_code i = true -> ierror i = true.
Definition QInv (s : lst) : Prop :=
  forall j, In j (out (lcore s)) -> is_import_code j = true -> ierror j = true.

Lemma q_step : forall c L s i, QInv s -> (is_import_code i = true -> ierror i = true) ->
  QInv (add_error_info_lim c L s i).
Proof.
  intros c L s i Q H. unfold add_error_info_lim.
  destruct (classify c i) as [[m|]| |]; try exact Q.
  destruct (ionce i && mem_str (imsg i) (once (lcore s))); [exact Q|].
  intros j Hj Hc. simpl in Hj. apply in_app_or in Hj as [Hj|Hj]; [now apply Q|].
  apply in_app_or in Hj as [Hj|Hj].
  - destruct (_ && negb _); simpl in Hj; [|tauto]. destruct Hj as [<-|[]]. discriminate.
  - destruct Hj as [<-|Hj].
    + destruct (_ && has_many_errors _ _); [apply H; exact Hc | now apply H].
    + apply cover_note_props in Hj as [_ Hj]. congruence.
Qed.

Lemma q_inv : forall c L E s, QInv s -> import_infos_are_errors E ->
  QInv (fold_left (add_error_info_lim c L) E s).
Proof.
  induction E as [|i E IH]; intros s Q H; simpl; [exact Q|].
  apply IH; [apply q_step; [exact Q | apply H; now left] | intros j Hj; apply H; now right].
Qed.

Lemma limiter_keeps_failure_proof : forall c L E, fresh E -> import_infos_are_errors E ->
  (exists i, In i (out (lcore (run_lim c L false E))) /\ ierror i = true) ->
  visible_error (out (lcore (run_lim c L false E))).
Proof.
  intros c L E F H [i [Hin He]]. destruct (ihidden i) eqn:Hh.
  - destruct (hidden_needs_visible_import_proof c L E i F Hin Hh) as [j [A [B C]]].
    exists j. split; [exact A|]. split; [|exact C].
    assert (Q : QInv (run_lim c L false E)) by (apply q_inv; [intros x [] | exact H]).
    now apply Q.
  - exists i. auto.
Qed.
