(* C13 proofs, part 2: used_ignored_lines and the unused-ignore report. *)
From Coq Require Import ZArith List String Ascii Bool Lia.
From C13 Require Import Types Model Proofs.
From Gen Require Import ErrorsCore.
Import ListNotations.
Open Scope list_scope.
Open Scope Z_scope.

(* the line whose ignore comment absorbed i and was marked used (first matching line of the
   origin span; none if i got through, or was dropped because its code is disabled) *)
Definition absorbed_at (c : cfg) (i : info) : option Z :=
  match classify c i with Suppressed (Some (l, _)) => Some l | _ => None end.
Definition mark (c : cfg) (i : info) : list (Z * string) :=
  match classify c i with Suppressed (Some m) => [m] | _ => [] end.
Definition dict_unique (d : dict) : Prop := NoDup (map fst d).

Lemma used_gen : forall c E s,
  used (fold_left (add_error_info c) E s) = used s ++ flat_map (mark c) E.
Proof.
  induction E as [|i E IH]; intros s; simpl; [now rewrite app_nil_r|].
  rewrite IH. unfold add_error_info, mark.
  destruct (classify c i) as [[m|]| |]; simpl; try reflexivity.
  - now rewrite <- app_assoc.
  - destruct (ionce i && mem_str (imsg i) (once s)); reflexivity.
Qed.

Lemma used_run : forall c E, used (run c E) = flat_map (mark c) E.
Proof. intros. unfold run. now rewrite used_gen. Qed.

Lemma classify_mark_name : forall c i l n,
  classify c i = Suppressed (Some (l, n)) -> n = cname (code_or_misc i).
Proof.
  intros c i l n. unfold classify. destruct (iblocker i); [discriminate|].
  destruct (if has_ignores c then first_ignored c (ispan i) i else None).
  - destruct (enabledb c (code_or_misc i)); [|discriminate]. now inversion 1.
  - destruct (ignore_all c); discriminate.
Qed.

Lemma in_marks : forall c E l n,
  In (l, n) (flat_map (mark c) E) <->
  exists i, In i E /\ absorbed_at c i = Some l /\ cname (code_or_misc i) = n.
Proof.
  intros. rewrite in_flat_map. split.
  - intros [i [Hi Hm]]. exists i. split; [exact Hi|]. unfold mark, absorbed_at in *.
    destruct (classify c i) as [[[l' n']|]| |] eqn:C; simpl in Hm; try tauto.
    destruct Hm as [Hm|[]]. inversion Hm; subst. split; [reflexivity|].
    symmetry. eapply classify_mark_name; eauto.
  - intros [i [Hi [Ha Hn]]]. exists i. split; [exact Hi|]. unfold mark, absorbed_at in *.
    destruct (classify c i) as [[[l' n']|]| |] eqn:C; try discriminate.
    inversion Ha; subst. left. f_equal. eapply classify_mark_name; eauto.
Qed.

Lemma mem_str_In : forall x l, mem_str x l = true <-> In x l.
Proof.
  induction l as [|y t IH]; simpl; [split; [discriminate|tauto]|].
  rewrite orb_true_iff, IH, String.eqb_eq. split; intros [H|H]; auto.
Qed.

Lemma in_used_at : forall u l n, In n (used_at u l) <-> In (l, n) u.
Proof.
  intros. unfold used_at. rewrite in_map_iff. split.
  - intros [[l' n'] [E H]]. simpl in E. subst. apply filter_In in H as [H1 H2]. simpl in H2.
    apply Z.eqb_eq in H2. now subst.
  - intros H. exists (l, n). split; [reflexivity|]. apply filter_In. split; [exact H|]. simpl. apply Z.eqb_refl.
Qed.

Lemma list_empty_true : forall {A} (l : list A), list_empty l = true <-> l = [].
Proof. destruct l; simpl; split; auto; discriminate. Qed.

Lemma list_empty_false_ex : forall {A} (l : list A), list_empty l = false <-> exists x, In x l.
Proof.
  destruct l; simpl; split; try discriminate; auto.
  - intros [x []].
  - intros _. eauto.
Qed.

Lemma entry_of_unique : forall (d : dict) l codes l' codes',
  dict_unique d -> In (l, codes) d -> In (l', codes') d -> l' = l -> codes' = codes.
Proof.
  unfold dict_unique. induction d as [|[k v] t IH]; simpl; intros l codes l' codes' ND H1 H2 E; [tauto|].
  inversion ND as [|? ? Hnotin ND']; subst.
  destruct H1 as [H1|H1], H2 as [H2|H2].
  - congruence.
  - inversion H1; subst. exfalso. apply Hnotin. change l with (fst (l, codes')). now apply in_map.
  - inversion H2; subst. exfalso. apply Hnotin. change l with (fst (l, codes)). now apply in_map.
  - eapply IH; eauto.
Qed.

Lemma unused_one_line : forall c u entry e, In e (unused_ignore_one c u entry) -> iline e = fst entry.
Proof.
  intros c u [line codes] e. unfold unused_ignore_one.
  destruct (mem_Z line (skipped c)); [simpl; tauto|].
  destruct (mem_str _ codes); [simpl; tauto|].
  destruct (_ && _); [simpl; tauto|]. destruct (_ && _); [simpl; tauto|].
  simpl. intros [<-|[]]. reflexivity.
Qed.

Lemma unused_iff_proof : forall c E l codes,
  In (l, codes) (ignores c) -> dict_unique (ignores c) -> has_ignores c = true ->
  mem_Z l (skipped c) = false -> mem_str "unused-ignore" codes = false ->
  ((exists e, In e (unused_ignore_errors c (run c E)) /\ iline e = l)
   <-> match codes with
       | [] => forall i, In i E -> absorbed_at c i <> Some l
       | _ => exists cd, In cd codes /\
                forall i, In i E -> ~ (absorbed_at c i = Some l /\ cname (code_or_misc i) = cd)
       end).
Proof.
  intros c E l codes Hin Huniq _ Hskip Hui.
  set (u := used (run c E)).
  assert (Hone : (exists e, In e (unused_ignore_errors c (run c E)) /\ iline e = l)
                 <-> unused_ignore_one c u (l, codes) <> []).
  { unfold unused_ignore_errors. fold u. split.
    - intros [e [He Hl]]. apply in_flat_map in He as [[l' codes'] [Hent He]].
      pose proof (unused_one_line _ _ _ _ He) as Hl'. simpl in Hl'.
      assert (l' = l) by congruence. subst l'.
      assert (codes' = codes) by (eapply entry_of_unique; eauto). subst codes'.
      intros Hnil. rewrite Hl, Hnil in He. exact He.
    - intros Hne. destruct (unused_ignore_one c u (l, codes)) as [|e r] eqn:EQ; [congruence|].
      exists e. split.
      + apply in_flat_map. exists (l, codes). split; [exact Hin|]. rewrite EQ. now left.
      + change l with (fst (l, codes)). eapply unused_one_line. rewrite EQ. now left. }
  rewrite Hone. clear Hone. unfold unused_ignore_one. rewrite Hskip, Hui.
  assert (Hu : forall n, In n (used_at u l) <->
                exists i, In i E /\ absorbed_at c i = Some l /\ cname (code_or_misc i) = n).
  { intros n. rewrite in_used_at. unfold u. rewrite used_run. apply in_marks. }
  destruct codes as [|cd0 rest].
  - simpl. destruct (list_empty (used_at u l)) eqn:LE; simpl.
    + apply list_empty_true in LE. split; [|intros _; discriminate].
      intros _ i Hi Ha.
      assert (X : In (cname (code_or_misc i)) (used_at u l)) by (apply Hu; eauto).
      rewrite LE in X. exact X.
    + split; [congruence|]. intros H. exfalso.
      apply list_empty_false_ex in LE as [n Hn]. apply Hu in Hn as [i [Hi [Ha _]]]. exact (H i Hi Ha).
  - cbv iota.
    assert (LEc : list_empty (cd0 :: rest) = false) by reflexivity.
    revert Hin Hui LEc. generalize (cd0 :: rest) as codes. intros codes Hin Hui LEc.
    rewrite LEc. simpl.
    destruct (list_empty (filter (fun x => negb (mem_str x (used_at u l))) codes)) eqn:LU.
    + split; [congruence|]. intros [cd [Hcd Hno]]. exfalso.
      apply list_empty_true in LU.
      assert (X : In cd (filter (fun x => negb (mem_str x (used_at u l))) codes)).
      { apply filter_In. split; [exact Hcd|]. apply negb_true_iff.
        destruct (mem_str cd (used_at u l)) eqn:M; [|reflexivity]. exfalso.
        apply mem_str_In in M. apply Hu in M as [i [Hi [Ha Hn]]]. exact (Hno i Hi (conj Ha Hn)). }
      rewrite LU in X. exact X.
    + split; [|intros _; discriminate]. intros _.
      apply list_empty_false_ex in LU as [cd Hcd]. apply filter_In in Hcd as [Hcd Hm].
      exists cd. split; [exact Hcd|]. intros i Hi [Ha Hn].
      apply negb_true_iff in Hm.
      assert (X : In cd (used_at u l)) by (apply Hu; eauto).
      apply mem_str_In in X. congruence.
Qed.

(* when is an info absorbed at l: not a blocker, its code is enabled, and l is the FIRST line of its
   origin span carrying a matching ignore comment *)
Lemma absorbed_at_spec : forall c i l, has_ignores c = true ->
  absorbed_at c i = Some l ->
  iblocker i = false /\ enabledb c (code_or_misc i) = true /\ In l (ispan i) /\
  ign_matches (ignores c) l i = true.
Proof.
  intros c i l HI. unfold absorbed_at, classify. destruct (iblocker i) eqn:B; [discriminate|].
  rewrite HI. destruct (first_ignored c (ispan i) i) as [l'|] eqn:F.
  - destruct (enabledb c (code_or_misc i)) eqn:En; [|discriminate]. intros H; inversion H; subst.
    destruct (first_ignored_some _ _ _ _ F) as [Hin Hig]. rewrite is_ignored_spec, B in Hig. simpl in Hig.
    repeat split; auto. unfold absorbs in Hig. apply orb_true_iff in Hig as [Hd|Hm]; [|exact Hm].
    exfalso. unfold code_disabled in Hd. unfold code_or_misc in En. destruct (icode i); [|discriminate].
    rewrite En in Hd. discriminate.
  - destruct (ignore_all c); discriminate.
Qed.
