(* Property C13, exit status, positive theorem: holds for the count_stats / exit-status code
   regenerated from the source once a printed line is classified by its FIRST severity marker
   (notes/C13-fix-1.diff).  On the substring version this file does not build (the helper
   message_severity does not exist / the proof fails) and PropertiesExitRefuted.v applies. *)
From Coq Require Import ZArith List String Bool.
From C13 Require Import Types Model ProofsExit ProofsExitFixed.
From Gen Require Import ErrorsCore.
Import ListNotations.
Open Scope list_scope.
Open Scope Z_scope.

(* the process exits with 0 iff no error-severity message was printed, 2 iff a blocking error
   stopped the build (CompileError), 1 otherwise *)
Theorem exit_code_truth : forall msgs blockers,
  Forall wf_msg msgs -> (blockers = true -> has_error msgs) ->
  (exit_status msgs blockers = 0 <-> ~ has_error msgs) /\
  (exit_status msgs blockers = 2 <-> blockers = true) /\
  (exit_status msgs blockers = 1 <-> has_error msgs /\ blockers = false).
Proof. exact exit_code_truth_proof. Qed.
Print Assumptions exit_code_truth.

(* the F1 witness is now classified correctly *)
Example f1_fixed :
  exit_status [mk_pmsg "f1.py:5" true "TypedDict ""D"" has no key "": note:""  [typeddict-item]"] false = 1.
Proof. vm_compute. reflexivity. Qed.
