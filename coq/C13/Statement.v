(* Property C13 at full strength, as statements over the model (Definitions, not theorems).
   Which of them are proved, proved in an exact-but-different form, or refuted: see Properties.v,
   PropertiesExit.v / PropertiesExitRefuted.v and notes/C13.md. *)
From Coq Require Import ZArith List String Bool.
From C13 Require Import Types Model Proofs ProofsUnused ProofsDisable ProofsExit ProofsOutput ProofsWatch.
Import ListNotations.
Open Scope list_scope.
Open Scope Z_scope.

(* "A '# type: ignore' comment removes precisely the non-blocking errors (and their attached notes)
   that originate on its line and match its codes ... never changes any other diagnostic"
   -- proved: Properties.ignore_exact, ignore_delta_exact, ignore_delta, blockers_never_ignored *)
Definition ignore_exact_stmt : Prop := forall c E,
  out (run c E) = flat_map (emit c) (dedup_once (filter (visible c) E)).

Definition ignore_delta_stmt : Prop := forall c l codes E,
  has_ignores c = true -> dict_has (ignores c) l = false -> no_once E = true ->
  out (run (add_ignore c l codes) E)
  = flat_map (emit (add_ignore c l codes)) (filter (fun i => visible c i && negb (hit l codes i)) E)
  /\ filter (fun i => negb (touches l i)) (out (run (add_ignore c l codes) E))
     = filter (fun i => negb (touches l i)) (out (run c E)).

(* "disabling an error code removes precisely the diagnostics carrying that code"
   -- proved: Properties.disable_code_exact *)
Definition disable_code_stmt : Prop := forall c x E,
  has_ignores c = true -> ignore_all c = false -> no_once E = true -> wf_spans E = true ->
  out (run (disable_code c x) E)
  = flat_map (emit c) (filter (fun i => visible c i && negb (carries c x i)) E).

(* "an ignore is reported as unused exactly when it suppressed nothing" -- the naive reading.
   NOT what the code does for coded ignores: an ignore[c] that absorbed only errors of a SUB-code of c
   is still reported ('Unused "type: ignore" comment, use narrower [sub] instead of [c] code'; deliberate,
   pinned by check-errorcodes.test), and a multi-code ignore is reported per unused code.  Proved instead,
   exactly: Properties.unused_iff_suppressed_nothing (bare: iff nothing was absorbed at the line;
   coded: iff some listed code absorbed nothing under its own name). *)
Definition unused_iff_suppressed_nothing_naive : Prop := forall c E l codes,
  In (l, codes) (ignores c) -> dict_unique (ignores c) -> has_ignores c = true ->
  mem_Z l (skipped c) = false -> mem_str "unused-ignore" codes = false ->
  ((exists e, In e (unused_ignore_errors c (run c E)) /\ iline e = l)
   <-> forall i, In i E -> absorbed_at c i <> Some l).

(* "The process exits with 0 iff no error-severity message was reported, 2 iff a blocking error stopped
   analysis, and 1 otherwise" -- REFUTED for the substring count_stats (alt/ExitRefuted: exit_code_refuted,
   finding F1), proved for the position-aware one (alt/ExitTruth: exit_code_truth; and on the final printed
   list, after the limiter / sort_messages / remove_duplicates: exit_code_truth_final, exit_code_truth_limiter).
   Whichever applies is copied to coq/gen/ErrorsExit.v by tools/extractors/t13.py. *)
Definition exit_code_truth_stmt : Prop := forall msgs blockers,
  Forall wf_msg msgs -> (blockers = true -> has_error msgs) ->
  (exit_status msgs blockers = 0 <-> ~ has_error msgs) /\
  (exit_status msgs blockers = 2 <-> blockers = true) /\
  (exit_status msgs blockers = 1 <-> has_error msgs /\ blockers = false).

(* the same, about what is finally printed for an error_info_map entry o *)
Definition exit_code_truth_final_stmt : Prop := forall srcloc hc snc o blockers,
  (forall e, wf_src (srcloc e) = true) -> errors_have_no_parent o ->
  (blockers = true -> visible_error o) ->
  let msgs := printed srcloc hc snc o in
  (exit_status msgs blockers = 0 <-> ~ visible_error o) /\
  (exit_status msgs blockers = 2 <-> blockers = true) /\
  (exit_status msgs blockers = 1 <-> visible_error o /\ blockers = false).

(* "whether a diagnostic is reported (and what an ErrorWatcher observes) does not depend on ignore comments except through
   is_ignored_error", for a code shape given by `reentry` (does the note attached to an admitted info go through
   _filter_error again?).  TRUE for reentry = false (Properties.ignore_exact_with_watchers, watchers_independent_of_ignores),
   REFUTED for reentry = true (Properties.watcher_reentry_refuted); gen/ErrorsWatch.v states which shape the source has. *)
Definition watchers_independent_stmt (reentry : bool) : Prop := forall c c' ws E,
  (forall i, In i E -> classify c' i = classify c i) ->
  map wnew (wstack (run_w reentry c' ws E)) = map wnew (wstack (run_w reentry c ws E)).
