(* C13 proofs, part 4: the exit status.  Everything here is independent of which count_stats the
   translator regenerated: string lemmas, the position-aware reference classifier
   (`first_marker_severity`) with its specification, and the arithmetic of the exit-code
   expression.  PropertiesExit.v / PropertiesExitRefuted.v instantiate it on Gen.ErrorsCore. *)
From Coq Require Import ZArith List String Ascii Bool Lia.
From C13 Require Import Types Model.
Import ListNotations.
Open Scope list_scope.
Open Scope Z_scope.
Local Arguments Ascii.eqb : simpl never.

(* the srcloc prefix (file[:line[:col]]) of a printed message contains no ": " *)
Definition wf_src (s : string) : bool := negb (str_contains ": "%string s).
Definition wf_msg (m : pmsg) : Prop := wf_src (psrc m) = true.

Definition slen (s : string) : Z := Z.of_nat (String.length s).

Lemma find_from_unfold : forall n c h pos,
  str_find_from n (String c h) pos
  = if str_prefix n (String c h) then pos else str_find_from n h (pos + 1).
Proof. reflexivity. Qed.

Lemma find_from_bound : forall n h pos,
  str_find_from n h pos = -1 \/ pos <= str_find_from n h pos.
Proof.
  induction h as [|c h IH]; intros pos.
  - simpl. destruct (str_prefix n ""); [right; lia | left; reflexivity].
  - rewrite find_from_unfold. destruct (str_prefix n (String c h)); [right; lia|].
    destruct (IH (pos + 1)) as [H|H]; [left; exact H | right; lia].
Qed.

Lemma wf_src_tail : forall c t, wf_src (String c t) = true -> wf_src t = true.
Proof.
  unfold wf_src. intros c t H. apply negb_true_iff in H. apply negb_true_iff.
  simpl in H. apply orb_false_iff in H as [_ H]. exact H.
Qed.

Lemma prefix_inside_src : forall n' c t X',
  wf_src (String c t) = true ->
  str_prefix (String ":" (String " " n')) (String c t ++ String ":" X') = false.
Proof.
  intros n' c t X' H. simpl. destruct (Ascii.eqb ":" c) eqn:Ec; simpl; [|reflexivity].
  destruct t as [|d t']; simpl; [reflexivity|].
  destruct (Ascii.eqb " " d) eqn:Ed; simpl; [|reflexivity]. exfalso.
  unfold wf_src in H. simpl in H. rewrite Ec, Ed in H. simpl in H. discriminate.
Qed.

(* a marker beginning with ": " cannot start inside a well-formed srcloc *)
Lemma find_skip_src : forall n' src X' pos,
  wf_src src = true ->
  str_find_from (String ":" (String " " n')) (src ++ String ":" X') pos
  = str_find_from (String ":" (String " " n')) (String ":" X') (pos + slen src).
Proof.
  induction src as [|c t IH]; intros X' pos H.
  - unfold slen. simpl String.length. simpl append. now rewrite Z.add_0_r.
  - change (String c t ++ String ":" X')%string with (String c (t ++ String ":" X')).
    rewrite find_from_unfold.
    change (String c (t ++ String ":" X')) with (String c t ++ String ":" X')%string.
    rewrite (prefix_inside_src n' c t X' H).
    rewrite IH by (eapply wf_src_tail; eauto).
    f_equal. unfold slen. simpl String.length. lia.
Qed.

(* the position-aware classifier: severity = the FIRST marker of the line *)
Definition first_marker_severity (message : string) : option string :=
  let error_pos := str_find ": error:" message in
  let note_pos := str_find ": note:" message in
  if error_pos >=? 0
  then if (note_pos <? 0) || (error_pos <? note_pos) then Some "error"%string
       else if note_pos >=? 0 then Some "note"%string else None
  else if note_pos >=? 0 then Some "note"%string else None.

Lemma slen_nonneg : forall s, 0 <= slen s.
Proof. intros. unfold slen. lia. Qed.

Lemma first_marker_spec : forall m, wf_msg m ->
  first_marker_severity (fmt m) = Some (if perror m then "error" else "note")%string.
Proof.
  intros [src err text] H. unfold wf_msg in H. simpl in H.
  unfold first_marker_severity, fmt, str_find. simpl psrc. simpl perror. simpl ptext.
  pose proof (slen_nonneg src) as L.
  destruct err.
  - change (src ++ ": " ++ "error" ++ ": " ++ text)%string
      with (src ++ String ":" (" error: " ++ text))%string.
    rewrite !find_skip_src by exact H. simpl Z.add.
    set (P := slen src) in *.
    rewrite (find_from_unfold ": error:"). 
    replace (str_prefix ": error:" (String ":" (" error: " ++ text))) with true by reflexivity.
    rewrite (find_from_unfold ": note:").
    replace (str_prefix ": note:" (String ":" (" error: " ++ text))) with false by reflexivity.
    destruct (find_from_bound ": note:" (" error: " ++ text) (P + 1)) as [E|E].
    + rewrite E. replace (P >=? 0) with true by (symmetry; apply Z.geb_le; lia). reflexivity.
    + set (r := str_find_from ": note:" (" error: " ++ text) (P + 1)) in *.
      replace (P >=? 0) with true by (symmetry; apply Z.geb_le; lia).
      replace (P <? r) with true by (symmetry; apply Z.ltb_lt; lia).
      now rewrite orb_true_r.
  - change (src ++ ": " ++ "note" ++ ": " ++ text)%string
      with (src ++ String ":" (" note: " ++ text))%string.
    rewrite !find_skip_src by exact H. simpl Z.add.
    set (P := slen src) in *.
    rewrite (find_from_unfold ": error:").
    replace (str_prefix ": error:" (String ":" (" note: " ++ text))) with false by reflexivity.
    rewrite (find_from_unfold ": note:").
    replace (str_prefix ": note:" (String ":" (" note: " ++ text))) with true by reflexivity.
    destruct (find_from_bound ": error:" (" note: " ++ text) (P + 1)) as [E|E].
    + rewrite E. simpl. replace (P >=? 0) with true by (symmetry; apply Z.geb_le; lia). reflexivity.
    + set (r := str_find_from ": error:" (" note: " ++ text) (P + 1)) in *.
      replace (r >=? 0) with true by (symmetry; apply Z.geb_le; lia).
      replace (P <? 0) with false by (symmetry; apply Z.ltb_ge; lia).
      replace (r <? P) with false by (symmetry; apply Z.ltb_ge; lia).
      replace (P >=? 0) with true by (symmetry; apply Z.geb_le; lia). reflexivity.
Qed.

(* ---- arithmetic of the exit-status expression of main() -------------------------------- *)
Definition exit_of_counts (n_notes : Z) (messages : list string) (blockers : bool) : Z :=
  if negb (list_empty messages)
  then if n_notes <? len messages then (if blockers then 2 else 1) else 0
  else 0.

Definition has_error (msgs : list pmsg) : Prop := exists m, In m msgs /\ perror m = true.

Lemma filter_length_nat : forall {A} (p : A -> bool) l, (List.length (filter p l) <= List.length l)%nat.
Proof. induction l as [|x t IH]; simpl; [lia|]. destruct (p x); simpl; lia. Qed.

Lemma filter_len_le : forall {A} (p : A -> bool) l, len (filter p l) <= len l.
Proof. intros. unfold len. apply Nat2Z.inj_le. apply filter_length_nat. Qed.

Lemma notes_lt_nat : forall msgs,
  (List.length (filter (fun m => negb (perror m)) msgs) < List.length msgs)%nat <-> has_error msgs.
Proof.
  unfold has_error. induction msgs as [|m t IH]; simpl.
  - split; [lia | intros [m [[] _]]].
  - pose proof (filter_length_nat (fun m => negb (perror m)) t) as LE.
    destruct (perror m) eqn:P; simpl.
    + split; [|lia]. intros _. exists m. auto.
    + split.
      * intros H. assert (H' : (List.length (filter (fun m => negb (perror m)) t) < List.length t)%nat) by lia.
        apply IH in H' as [x [Hx Px]]. exists x. auto.
      * intros [x [[Hx|Hx] Px]]; [subst; congruence|].
        assert (H' : (List.length (filter (fun m => negb (perror m)) t) < List.length t)%nat) by (apply IH; eauto).
        lia.
Qed.

Lemma notes_lt_iff : forall msgs,
  len (filter (fun m => negb (perror m)) msgs) < len msgs <-> has_error msgs.
Proof. intros. unfold len. rewrite <- Nat2Z.inj_lt. apply notes_lt_nat. Qed.

Lemma exit_of_counts_truth : forall msgs blockers,
  (blockers = true -> has_error msgs) ->
  let code := exit_of_counts (len (filter (fun m => negb (perror m)) msgs)) (map fmt msgs) blockers in
  (code = 0 <-> ~ has_error msgs) /\
  (code = 2 <-> blockers = true) /\
  (code = 1 <-> has_error msgs /\ blockers = false).
Proof.
  intros msgs blockers HB. unfold exit_of_counts.
  assert (LM : len (map fmt msgs) = len msgs) by (unfold len; now rewrite map_length).
  rewrite LM.
  pose proof (notes_lt_iff msgs) as N.
  assert (Hempty : list_empty (map fmt msgs) = true -> ~ has_error msgs).
  { destruct msgs; simpl; [intros _ [x [[] _]] | discriminate]. }
  destruct (list_empty (map fmt msgs)) eqn:LE; cbn [negb].
  - specialize (Hempty eq_refl). destruct blockers; intuition congruence.
  - clear Hempty.
    destruct (Z.ltb_spec (len (filter (fun m => negb (perror m)) msgs)) (len msgs)) as [Hlt|Hge].
    + apply N in Hlt. destruct blockers; intuition congruence.
    + assert (NE : ~ has_error msgs) by (intros H; apply N in H; lia).
      destruct blockers; intuition congruence.
Qed.

(* a count_stats whose note count is exact on well-formed printed messages *)
Definition counts_notes_exactly (cs : list string -> Z * Z * Z) : Prop :=
  forall msgs, Forall wf_msg msgs ->
    snd (fst (cs (map fmt msgs))) = len (filter (fun m => negb (perror m)) msgs).

Lemma filter_sev_notes : forall (sev : string -> option string) msgs,
  (forall m, wf_msg m -> sev (fmt m) = Some (if perror m then "error" else "note")%string) ->
  Forall wf_msg msgs ->
  len (filter (fun e => opt_str_eqb (sev e) "note") (map fmt msgs))
  = len (filter (fun m => negb (perror m)) msgs).
Proof.
  intros sev msgs Hs HF. unfold len. f_equal.
  induction HF as [|m t Hm Ht IH]; simpl; [reflexivity|].
  rewrite (Hs m Hm). destruct (perror m); simpl; [exact IH | now rewrite IH].
Qed.
