(* Property C13, exit status, on the count_stats regenerated from the CURRENT source when it
   still classifies a line by substring tests: the statement Statement.exit_code_truth is REFUTED
   (finding F1).  This file builds only while the defect is present; PropertiesExit.v builds
   only once it is repaired.  The harness tries PropertiesExit.v first. *)
From Coq Require Import ZArith List String Bool.
From C13 Require Import Types Model ProofsExit.
From Gen Require Import ErrorsCore.
Import ListNotations.
Open Scope string_scope.
Open Scope Z_scope.

(* the printed line of `d[": note:"]` on a TypedDict *)
Definition f1_witness : pmsg :=
  mk_pmsg "f1.py:5" true "TypedDict ""D"" has no key "": note:""  [typeddict-item]".

Theorem exit_code_refuted :
  exists msgs blockers,
    Forall wf_msg msgs /\ (blockers = true -> has_error msgs) /\
    has_error msgs /\ exit_status msgs blockers = 0.
Proof.
  exists [f1_witness], false. split; [|split; [|split]].
  - constructor; [reflexivity | constructor].
  - discriminate.
  - exists f1_witness. split; [now left | reflexivity].
  - vm_compute. reflexivity.
Qed.
Print Assumptions exit_code_refuted.
