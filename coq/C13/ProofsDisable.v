(* C13 proofs, part 3: disabling an error code. *)
From Coq Require Import ZArith List String Ascii Bool Lia.
From C13 Require Import Types Model Proofs.
From Gen Require Import ErrorsCore.
Import ListNotations.
Open Scope list_scope.
Open Scope Z_scope.

(* --disable-error-code x  (options.disabled_error_codes gains x) *)
Definition disable_code (c : cfg) (x : string) : cfg :=
  mk_cfg (ignores c) (has_ignores c) (ignore_all c) (skipped c) (x :: disabled c) (enabled c) (sub_map c).

(* cd "carries" x: it is x, or a sub-code of x that is not explicitly enabled *)
Definition code_carries (c : cfg) (x : string) (cd : ecode) : bool :=
  String.eqb (cname cd) x ||
  (negb (mem_str (cname cd) (enabled c)) && match csub cd with Some p => String.eqb p x | None => false end).
(* i is a non-blocking diagnostic with a (so far enabled) code carrying x *)
Definition carries (c : cfg) (x : string) (i : info) : bool :=
  negb (iblocker i) &&
  match icode i with Some cd => enabledb c cd && code_carries c x cd | None => false end.
Definition wf_spans (E : list info) : bool := forallb (fun i => negb (list_empty (ispan i))) E.

Lemma enabled_disable : forall c x cd,
  enabledb (disable_code c x) cd = enabledb c cd && negb (code_carries c x cd).
Proof.
  intros. unfold enabledb, is_error_code_enabled, disable_code, code_carries. simpl.
  destruct (String.eqb (cname cd) x); simpl.
  - now rewrite andb_false_r.
  - destruct (mem_str (cname cd) (disabled c)); simpl; [reflexivity|].
    destruct (mem_str (cname cd) (enabled c)); simpl; [reflexivity|].
    destruct (csub cd) as [p|]; [|now rewrite andb_true_r]. simpl.
    destruct (String.eqb p x); simpl.
    + now rewrite andb_false_r.
    + now rewrite andb_true_r.
Qed.

Lemma visible_disable : forall c x i,
  has_ignores c = true -> ignore_all c = false -> list_empty (ispan i) = false ->
  visible (disable_code c x) i = visible c i && negb (carries c x i).
Proof.
  intros c x i HI HA HS. unfold visible, suppressed, carries, absorbs.
  change (has_ignores (disable_code c x)) with (has_ignores c).
  change (ignore_all (disable_code c x)) with (ignore_all c).
  change (ignores (disable_code c x)) with (ignores c).
  rewrite HI, HA. destruct (iblocker i); simpl; [reflexivity|].
  rewrite !existsb_const_or, HS. simpl. rewrite !andb_true_r.
  unfold code_disabled. destruct (icode i) as [cd|]; simpl.
  - rewrite enabled_disable.
    destruct (enabledb c cd), (code_carries c x cd), (existsb (fun l => ign_matches (ignores c) l i) (ispan i)); reflexivity.
  - now rewrite andb_true_r.
Qed.

Lemma disable_code_exact_proof : forall c x E,
  has_ignores c = true -> ignore_all c = false -> no_once E = true -> wf_spans E = true ->
  out (run (disable_code c x) E)
  = flat_map (emit c) (filter (fun i => visible c i && negb (carries c x i)) E).
Proof.
  intros c x E HI HA HO HW. rewrite run_no_once by assumption.
  replace (emit (disable_code c x)) with (emit c) by reflexivity. f_equal.
  clear HO. induction E as [|i t IH]; simpl; [reflexivity|].
  simpl in HW. apply andb_true_iff in HW as [H1 H2]. apply negb_true_iff in H1.
  rewrite (visible_disable c x i HI HA H1), (IH H2). reflexivity.
Qed.
