(* C13 proofs, part 1: the sequential code of add_error_info equals a declarative filter. *)
From Coq Require Import ZArith List String Ascii Bool Lia.
From C13 Require Import Types Model.
From Gen Require Import ErrorsCore.
Import ListNotations.
Open Scope list_scope.
Open Scope Z_scope.

(* ---------------------------------------------------------------- declarative notions *)
(* the code list of an ignore comment matches the info's code (bare list = everything;
   a sub-code is matched by its parent's name) *)
Definition codes_match (codes : list string) (i : info) : bool :=
  list_empty codes ||
  match icode i with
  | Some cd => mem_str (cname cd) codes ||
               match csub cd with Some p => mem_str p codes | None => false end
  | None => false
  end.
(* line l carries an ignore comment matching i *)
Definition ign_matches (d : dict) (l : Z) (i : info) : bool :=
  dict_has d l && codes_match (dict_get d l) i.
Definition code_disabled (c : cfg) (i : info) : bool :=
  match icode i with Some cd => negb (enabledb c cd) | None => false end.
Definition absorbs (c : cfg) (l : Z) (i : info) : bool :=
  code_disabled c i || ign_matches (ignores c) l i.
(* i is dropped by an ignore comment / a disabled code *)
Definition suppressed (c : cfg) (i : info) : bool :=
  has_ignores c && negb (iblocker i) && existsb (fun l => absorbs c l i) (ispan i).
(* i reaches error_info_map (unless it is a repeated only_once message) *)
Definition visible (c : cfg) (i : info) : bool :=
  iblocker i || (negb (suppressed c i) && negb (ignore_all c)).

Fixpoint dedup_once_from (seen : list string) (l : list info) : list info :=
  match l with
  | [] => []
  | i :: t => if ionce i
              then if mem_str (imsg i) seen then dedup_once_from seen t
                   else i :: dedup_once_from (seen ++ [imsg i]) t
              else i :: dedup_once_from seen t
  end.
Definition dedup_once := dedup_once_from [].
Definition emit (c : cfg) (i : info) : list info := i :: cover_note c i.

(* ---------------------------------------------------------------- the generated predicate *)
Lemma is_ignored_spec : forall c l i,
  ignoredb c l i = negb (iblocker i) && absorbs c l i.
Proof.
  intros c l i. unfold ignoredb, is_ignored_error, absorbs, code_disabled, ign_matches, codes_match, enabledb.
  destruct (iblocker i); [reflexivity|]. simpl.
  destruct (icode i) as [cd|]; simpl.
  - destruct (is_error_code_enabled (disabled c) (enabled c) cd); simpl; [|reflexivity].
    destruct (dict_has (ignores c) l); simpl; [|reflexivity].
    destruct (list_empty (dict_get (ignores c) l)); simpl; [reflexivity|].
    destruct (mem_str (cname cd) (dict_get (ignores c) l)); simpl; [reflexivity|].
    destruct (csub cd) as [p|]; [|reflexivity].
    destruct (mem_str p (dict_get (ignores c) l)); reflexivity.
  - destruct (dict_has (ignores c) l); simpl; [|reflexivity].
    destruct (list_empty (dict_get (ignores c) l)); reflexivity.
Qed.

Lemma first_ignored_none : forall c i L,
  first_ignored c L i = None <-> existsb (fun l => ignoredb c l i) L = false.
Proof.
  induction L as [|l t IH]; simpl; [tauto|].
  destruct (ignoredb c l i); simpl; [split; discriminate | exact IH].
Qed.

Lemma first_ignored_some : forall c i L l,
  first_ignored c L i = Some l -> In l L /\ ignoredb c l i = true.
Proof.
  induction L as [|x t IH]; simpl; intros l H; [discriminate|].
  destruct (ignoredb c x i) eqn:E.
  - inversion H; subst. auto.
  - destruct (IH _ H). auto.
Qed.

Lemma existsb_ignored : forall c i L,
  existsb (fun l => ignoredb c l i) L = negb (iblocker i) && existsb (fun l => absorbs c l i) L.
Proof.
  induction L as [|l t IH]; simpl.
  - now rewrite andb_false_r.
  - rewrite IH, is_ignored_spec. destruct (iblocker i); reflexivity.
Qed.

Definition kept (c : cfg) (i : info) : bool :=
  match classify c i with Passed => true | _ => false end.

Lemma kept_visible : forall c i, kept c i = visible c i.
Proof.
  intros c i. unfold kept, classify, visible, suppressed.
  destruct (iblocker i) eqn:B; [reflexivity|]. simpl.
  destruct (has_ignores c); simpl.
  - destruct (first_ignored c (ispan i) i) as [l|] eqn:F.
    + destruct (first_ignored_some _ _ _ _ F) as [Hin Hig].
      assert (X : existsb (fun l => ignoredb c l i) (ispan i) = true).
      { apply existsb_exists. eauto. }
      rewrite existsb_ignored, B in X. simpl in X. rewrite X.
      destruct (enabledb c (code_or_misc i)); reflexivity.
    + apply first_ignored_none in F. rewrite existsb_ignored, B in F. simpl in F. rewrite F.
      destruct (ignore_all c); reflexivity.
  - destruct (ignore_all c); reflexivity.
Qed.

(* ---------------------------------------------------------------- ignore_exact *)
Lemma step_not_kept : forall c s i, kept c i = false ->
  out (add_error_info c s i) = out s /\ once (add_error_info c s i) = once s.
Proof.
  intros c s i. unfold kept, add_error_info.
  destruct (classify c i) as [[m|]| |]; simpl; intros; try discriminate; auto.
Qed.

Lemma run_gen : forall c E s,
  out (fold_left (add_error_info c) E s)
  = out s ++ flat_map (emit c) (dedup_once_from (once s) (filter (visible c) E)).
Proof.
  induction E as [|i E IH]; intros s; simpl.
  - now rewrite app_nil_r.
  - rewrite IH. rewrite <- kept_visible.
    destruct (kept c i) eqn:K.
    + unfold kept in K. unfold add_error_info.
      destruct (classify c i) as [[m|]| |]; try discriminate. simpl.
      destruct (ionce i) eqn:O; simpl.
      * destruct (mem_str (imsg i) (once s)); simpl; [reflexivity|].
        rewrite <- app_assoc. reflexivity.
      * rewrite <- app_assoc. reflexivity.
    + destruct (step_not_kept c s i K) as [-> ->]. reflexivity.
Qed.

Lemma ignore_exact_proof : forall c E,
  out (run c E) = flat_map (emit c) (dedup_once (filter (visible c) E)).
Proof. intros. unfold run. rewrite run_gen. reflexivity. Qed.

Lemma dedup_no_once : forall seen l,
  forallb (fun i => negb (ionce i)) l = true -> dedup_once_from seen l = l.
Proof.
  induction l as [|i t IH]; simpl; intros H; [reflexivity|].
  apply andb_true_iff in H as [H1 H2]. destruct (ionce i); [discriminate|]. now rewrite IH.
Qed.

Lemma forallb_filter : forall {A} (p q : A -> bool) l,
  forallb p l = true -> forallb p (filter q l) = true.
Proof.
  induction l as [|x t IH]; simpl; intros H; [reflexivity|].
  apply andb_true_iff in H as [H1 H2]. destruct (q x); simpl; [rewrite H1|]; auto.
Qed.

Definition no_once (E : list info) : bool := forallb (fun i => negb (ionce i)) E.

Lemma run_no_once : forall c E, no_once E = true ->
  out (run c E) = flat_map (emit c) (filter (visible c) E).
Proof.
  intros. rewrite ignore_exact_proof. unfold dedup_once. rewrite dedup_no_once; [reflexivity|].
  now apply forallb_filter.
Qed.

(* ---------------------------------------------------------------- blockers *)
Lemma blocker_visible : forall c i, iblocker i = true -> visible c i = true.
Proof. intros. unfold visible. now rewrite H. Qed.

Lemma in_dedup_not_once : forall i l seen, In i l -> ionce i = false -> In i (dedup_once_from seen l).
Proof.
  induction l as [|x t IH]; simpl; intros seen H O; [tauto|].
  destruct H as [->|H].
  - rewrite O. now left.
  - destruct (ionce x); [destruct (mem_str (imsg x) seen)|]; simpl; auto.
Qed.

Lemma blockers_never_ignored_proof : forall c E i,
  In i E -> iblocker i = true -> ionce i = false -> In i (out (run c E)).
Proof.
  intros c E i Hin B O. rewrite ignore_exact_proof. apply in_flat_map. exists i. split.
  - apply in_dedup_not_once; auto. apply filter_In. split; auto. now apply blocker_visible.
  - now left.
Qed.

(* with only_once: the first blocker carrying a message always gets through; stated for all
   blockers on the filtered stream *)
Lemma blockers_in_filtered : forall c E,
  filter iblocker (filter (visible c) E) = filter iblocker E.
Proof.
  induction E as [|i t IH]; simpl; [reflexivity|].
  destruct (iblocker i) eqn:B.
  - rewrite (blocker_visible c i B). simpl. rewrite B. now rewrite IH.
  - destruct (visible c i); simpl; [rewrite B|]; exact IH.
Qed.

(* ---------------------------------------------------------------- adding one ignore comment *)
Definition add_ignore (c : cfg) (l : Z) (codes : list string) : cfg :=
  mk_cfg (ignores c ++ [(l, codes)]) (has_ignores c) (ignore_all c) (skipped c)
         (disabled c) (enabled c) (sub_map c).

Lemma dict_has_app : forall d l codes k,
  dict_has (d ++ [(l, codes)]) k = dict_has d k || (k =? l).
Proof.
  induction d as [|[k' v] t IH]; simpl; intros.
  - now rewrite orb_false_r.
  - rewrite IH. now rewrite orb_assoc.
Qed.

Lemma dict_get_app : forall d l codes k,
  dict_get (d ++ [(l, codes)]) k = if dict_has d k then dict_get d k else if k =? l then codes else [].
Proof.
  induction d as [|[k' v] t IH]; simpl; intros; [reflexivity|].
  destruct (k =? k'); simpl; [reflexivity|]. apply IH.
Qed.

Lemma dict_get_absent : forall d k, dict_has d k = false -> dict_get d k = [].
Proof.
  induction d as [|[k' v] t IH]; simpl; intros; [reflexivity|].
  destruct (k =? k'); simpl in *; [discriminate|auto].
Qed.

(* the new comment hits i: i is not a blocker, l is in i's origin span, the codes match *)
Definition hit (l : Z) (codes : list string) (i : info) : bool :=
  negb (iblocker i) && mem_Z l (ispan i) && codes_match codes i.
Definition touches (l : Z) (i : info) : bool := mem_Z l (ispan i) || (iline i =? l).

Lemma ign_matches_add : forall c l codes k i, dict_has (ignores c) l = false ->
  ign_matches (ignores (add_ignore c l codes)) k i
  = ign_matches (ignores c) k i || ((k =? l) && codes_match codes i).
Proof.
  intros c l codes k i Hl. unfold ign_matches, add_ignore; simpl.
  rewrite dict_has_app, dict_get_app.
  destruct (dict_has (ignores c) k) eqn:Hk; simpl.
  - destruct (k =? l) eqn:Ekl; simpl; [|now rewrite orb_false_r].
    apply Z.eqb_eq in Ekl. subst. congruence.
  - destruct (k =? l); reflexivity.
Qed.

Lemma existsb_or : forall {A} (p q : A -> bool) L,
  existsb (fun x => p x || q x) L = existsb p L || existsb q L.
Proof.
  induction L as [|x t IH]; simpl; [reflexivity|]. rewrite IH.
  destruct (p x), (q x), (existsb p t); reflexivity.
Qed.

Lemma existsb_eq_and : forall l b L,
  existsb (fun k => (k =? l) && b) L = mem_Z l L && b.
Proof.
  induction L as [|x t IH]; simpl; [reflexivity|]. rewrite IH.
  rewrite (Z.eqb_sym x l). destruct (l =? x), b, (mem_Z l t); reflexivity.
Qed.

Lemma existsb_const_or : forall {A} (b : bool) (q : A -> bool) L,
  existsb (fun x => b || q x) L = (b && negb (list_empty L)) || existsb q L.
Proof.
  induction L as [|x t IH]; simpl; [now rewrite andb_false_r|]. rewrite IH.
  destruct b, (q x), (existsb q t), (list_empty t); reflexivity.
Qed.

Lemma existsb_ext' : forall {A} (p q : A -> bool) L, (forall x, p x = q x) -> existsb p L = existsb q L.
Proof. induction L as [|x t IH]; simpl; intros H; [reflexivity|]. now rewrite H, IH. Qed.

Lemma visible_add : forall c l codes i,
  has_ignores c = true -> dict_has (ignores c) l = false ->
  visible (add_ignore c l codes) i = visible c i && negb (hit l codes i && negb (ignore_all c) || hit l codes i).
Proof.
  intros c l codes i HI Hl. unfold visible, suppressed, hit, absorbs.
  change (has_ignores (add_ignore c l codes)) with (has_ignores c).
  change (ignore_all (add_ignore c l codes)) with (ignore_all c).
  assert (CD : code_disabled (add_ignore c l codes) i = code_disabled c i) by reflexivity.
  rewrite CD, HI. simpl.
  destruct (iblocker i); simpl; [reflexivity|].
  rewrite !existsb_const_or.
  rewrite (existsb_ext' _ _ _ (fun k => ign_matches_add c l codes k i Hl)).
  rewrite existsb_or, existsb_eq_and.
  destruct (code_disabled c i && negb (list_empty (ispan i))), (existsb (fun l0 => ign_matches (ignores c) l0 i) (ispan i)),
    (mem_Z l (ispan i)), (codes_match codes i), (ignore_all c); reflexivity.
Qed.

Lemma visible_add' : forall c l codes i,
  has_ignores c = true -> dict_has (ignores c) l = false ->
  visible (add_ignore c l codes) i = visible c i && negb (hit l codes i).
Proof.
  intros. rewrite visible_add by assumption.
  destruct (hit l codes i), (ignore_all c), (visible c i); reflexivity.
Qed.

Lemma cover_note_add : forall c l codes i, has_ignores c = true -> dict_has (ignores c) l = false ->
  iline i <> l -> cover_note (add_ignore c l codes) i = cover_note c i.
Proof.
  intros c l codes i HI Hl Hne. unfold cover_note, eff_ignores.
  change (has_ignores (add_ignore c l codes)) with (has_ignores c). rewrite HI.
  simpl. rewrite dict_get_app.
  destruct (dict_has (ignores c) (iline i)) eqn:Hk; [reflexivity|].
  rewrite (dict_get_absent _ _ Hk). destruct (iline i =? l) eqn:E; [|reflexivity].
  apply Z.eqb_eq in E. contradiction.
Qed.

Lemma filter_filter : forall {A} (p q : A -> bool) l,
  filter p (filter q l) = filter (fun x => q x && p x) l.
Proof.
  induction l as [|x t IH]; simpl; [reflexivity|].
  destruct (q x); simpl; [destruct (p x)|]; now rewrite IH.
Qed.

(* exact delta at the level of error_info_map *)
Lemma ignore_delta_exact_proof : forall c l codes E,
  has_ignores c = true -> dict_has (ignores c) l = false -> no_once E = true ->
  out (run (add_ignore c l codes) E)
  = flat_map (emit (add_ignore c l codes)) (filter (fun i => visible c i && negb (hit l codes i)) E).
Proof.
  intros. rewrite run_no_once by assumption. f_equal.
  apply filter_ext. intros i. now apply visible_add'.
Qed.

Lemma filter_cover : forall c i l,
  filter (fun n => negb (touches l n)) (cover_note c i) = if touches l i then [] else cover_note c i.
Proof.
  intros. unfold cover_note. destruct (icode i); [|now destruct (touches l i)].
  destruct (list_empty _); [now destruct (touches l i)|].
  simpl. unfold touches at 1. simpl. fold (touches l i). now destruct (touches l i).
Qed.

Lemma filter_emit_untouched : forall c c' l E,
  (forall i, touches l i = false -> cover_note c' i = cover_note c i) ->
  filter (fun i => negb (touches l i)) (flat_map (emit c') E)
  = flat_map (emit c) (filter (fun i => negb (touches l i)) E).
Proof.
  intros c c' l E Hc. induction E as [|i t IH]; simpl; [reflexivity|].
  rewrite filter_app, IH, filter_cover.
  destruct (touches l i) eqn:T; simpl; [reflexivity|]. now rewrite (Hc i T).
Qed.

(* nothing else changes: every info that does not involve line l is reported as before *)
Lemma ignore_delta_proof : forall c l codes E,
  has_ignores c = true -> dict_has (ignores c) l = false -> no_once E = true ->
  filter (fun i => negb (touches l i)) (out (run (add_ignore c l codes) E))
  = filter (fun i => negb (touches l i)) (out (run c E)).
Proof.
  intros c l codes E HI Hl HO.
  rewrite ignore_delta_exact_proof, (run_no_once c) by assumption.
  rewrite (filter_emit_untouched c (add_ignore c l codes)).
  2:{ intros i T. apply cover_note_add; auto. unfold touches in T. apply orb_false_iff in T as [_ T].
      now apply Z.eqb_neq in T. }
  rewrite (filter_emit_untouched c c) by reflexivity. f_equal.
  rewrite !filter_filter. apply filter_ext. intros i.
  unfold hit, touches. destruct (mem_Z l (ispan i)); simpl.
  - now rewrite !andb_false_r.
  - now rewrite andb_false_r, andb_true_r.
Qed.
