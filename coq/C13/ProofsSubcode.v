(* C13 proofs, part 9: `# type: ignore[code]` and sub-codes: is_ignored_error honours sub_code_of exactly one level,
   on the code table regenerated from mypy/errorcodes.py. *)
From Coq Require Import ZArith List String Ascii Bool Lia.
From C13 Require Import Types Model Proofs.
From Gen Require Import ErrorsCore ErrorCodes.
Import ListNotations.
Open Scope list_scope.
Open Scope Z_scope.

(* a coded ignore comment on line l and an enabled, non-blocking info with code cd: it is ignored iff the comment
   lists cd's own name or the name of cd's parent -- nothing else (no grand-parents, no children, no siblings) *)
Lemma coded_ignore_exact : forall c l i cd,
  iblocker i = false -> icode i = Some cd -> enabledb c cd = true ->
  dict_has (ignores c) l = true -> list_empty (dict_get (ignores c) l) = false ->
  ignoredb c l i
  = mem_str (cname cd) (dict_get (ignores c) l)
    || match csub cd with Some p => mem_str p (dict_get (ignores c) l) | None => false end.
Proof.
  intros c l i cd B C En H NE. rewrite is_ignored_spec, B. simpl.
  unfold absorbs, code_disabled, ign_matches, codes_match. rewrite C, En, H, NE. reflexivity.
Qed.

(* the regenerated table: parents exist in the table and have no parent themselves (one level) *)
Definition parent_ok (cd : ecode) : bool :=
  match csub cd with
  | None => true
  | Some p => existsb (fun pc => String.eqb (cname pc) p && negb (is_some (csub pc))) code_table
              && forallb (fun pc => negb (String.eqb (cname pc) p) || negb (is_some (csub pc)) || String.eqb (cname pc) (cname cd)) code_table
  end.
Definition table_one_level : bool := forallb parent_ok code_table.

Lemma table_one_level_holds : table_one_level = true.
Proof. vm_compute. reflexivity. Qed.

Lemma subcode_one_level : forall cd p, In cd code_table -> csub cd = Some p ->
  exists pc, In pc code_table /\ cname pc = p /\ csub pc = None.
Proof.
  intros cd p Hin Hs. pose proof table_one_level_holds as T. unfold table_one_level in T.
  rewrite forallb_forall in T. specialize (T cd Hin). unfold parent_ok in T. rewrite Hs in T.
  apply andb_true_iff in T as [T _]. apply existsb_exists in T as [pc [Hp X]].
  apply andb_true_iff in X as [X1 X2]. exists pc. split; [exact Hp|]. split; [now apply String.eqb_eq|].
  destruct (csub pc); [discriminate | reflexivity].
Qed.

(* consequently an ignore naming only the parent of cd's parent cannot exist, and an ignore naming a sub-code of cd
   does not match cd: with a single listed name x the comment matches iff x is cd's name or cd's parent's name *)
Lemma subcode_ignore_exact_proof : forall c l i cd x,
  In cd code_table -> iblocker i = false -> icode i = Some cd -> enabledb c cd = true ->
  dict_has (ignores c) l = true -> dict_get (ignores c) l = [x] ->
  (ignoredb c l i = true <-> (x = cname cd \/ csub cd = Some x)) /\
  (forall p, csub cd = Some p -> exists pc, In pc code_table /\ cname pc = p /\ csub pc = None).
Proof.
  intros c l i cd x Hin B C En H G. split.
  - rewrite (coded_ignore_exact c l i cd B C En H) by (rewrite G; reflexivity). rewrite G. simpl.
    rewrite !orb_false_r. split.
    + intros X. apply orb_true_iff in X as [X|X].
      * left. symmetry. now apply String.eqb_eq.
      * right. destruct (csub cd) as [p|]; [|discriminate]. rewrite orb_false_r in X.
        apply String.eqb_eq in X. now subst.
    + intros [->|X].
      * now rewrite String.eqb_refl.
      * rewrite X. simpl. rewrite String.eqb_refl. now rewrite orb_true_r.
  - intros p Hp. now apply (subcode_one_level cd p).
Qed.
