(* C13: boolean comparison of model results with results observed on the implementation
   (used by the correspondence stage through vm_compute; no theorem depends on this file). *)
From Coq Require Import ZArith List String Ascii Bool.
From C13 Require Import Types Model.
From Gen Require Import ErrorsCore.
Import ListNotations.
Open Scope list_scope.
Open Scope Z_scope.

Fixpoint list_eqb {A} (eqb : A -> A -> bool) (a b : list A) : bool :=
  match a, b with
  | [], [] => true
  | x :: s, y :: t => eqb x y && list_eqb eqb s t
  | _, _ => false
  end.
Definition opt_eqb {A} (eqb : A -> A -> bool) (a b : option A) : bool :=
  match a, b with Some x, Some y => eqb x y | None, None => true | _, _ => false end.

(* observable fields of an ErrorInfo (codes by name; itarget is carried only) *)
Definition info_eqb (a b : info) : bool :=
  (iid a =? iid b) && (iline a =? iline b) && (icol a =? icol b) && list_eqb Z.eqb (ispan a) (ispan b)
  && (iendline a =? iendline b) && (iendcol a =? iendcol b) && (ictx a =? ictx b) && (iprio a =? iprio b)
  && Bool.eqb (ihidden a) (ihidden b)
  && opt_eqb String.eqb (option_map cname (icode a)) (option_map cname (icode b))
  && Bool.eqb (ierror a) (ierror b) && Bool.eqb (iblocker a) (iblocker b) && Bool.eqb (ionce a) (ionce b)
  && String.eqb (imsg a) (imsg b) && opt_eqb Z.eqb (iparent a) (iparent b).

Fixpoint lookup_Z (d : dict) (k : Z) : list string :=
  match d with [] => [] | (k', v) :: t => if k =? k' then v else lookup_Z t k end.

Record observed := mk_obs {
  o_out : list info;             (* error_info_map[file] after the stream *)
  o_used : dict;                 (* used_ignored_lines[file], lines with a non-empty list *)
  o_once : list string;          (* sorted(only_once_messages) *)
  o_final : list info;           (* ... after generate_unused_ignore_errors + generate_ignore_without_code_errors *)
  o_dedup : list info;           (* remove_duplicates(o_final) *)
  o_sorted : list info;          (* sort_messages(non-hidden infos of o_final) *)
  o_printed : list info          (* remove_duplicates(o_sorted): what file_messages renders *)
}.

(* unused-ignore / ignore-without-code errors take the import context current at the end (ctx) *)
Definition with_ctx (ctx : Z) (n : nat) (l : list info) : list info :=
  firstn n l ++ map (fun i => simple_error_ctx ctx (iline i) (imsg i) (match icode i with Some cd => cd | None => misc end)) (skipn n l).

Definition check_case (c : cfg) (L : lim) (ctx : Z) (E : list info) (warn : bool) (lines : list Z) (o : observed) : list bool :=
  let s := lcore (run_lim c L false E) in
  let s2 := if has_ignores c then generate_unused_ignore_errors c false s else s in
  let s3 := if has_ignores c then generate_ignore_without_code_errors c warn false s2 else s2 in
  [ list_eqb info_eqb (out s) (o_out o);
    forallb (fun l => list_eqb String.eqb (used_at (used s) l) (lookup_Z (o_used o) l)) lines;
    list_eqb String.eqb (sorted_set (once s)) (o_once o);
    list_eqb info_eqb (with_ctx ctx (List.length (out s)) (out s3)) (o_final o);
    list_eqb info_eqb (remove_duplicates (with_ctx ctx (List.length (out s)) (out s3))) (o_dedup o);
    list_eqb info_eqb (sort_messages (filter (fun i => negb (ihidden i)) (with_ctx ctx (List.length (out s)) (out s3)))) (o_sorted o);
    list_eqb info_eqb (final_infos (with_ctx ctx (List.length (out s)) (out s3))) (o_printed o) ].

Definition z3_eqb (a b : Z * Z * Z) : bool :=
  let '(a1, a2, a3) := a in let '(b1, b2, b3) := b in (a1 =? b1) && (a2 =? b2) && (a3 =? b3).

(* ---- watchers: (has_new_errors, ids of the filtered errors) per watcher, top of the stack first *)
Definition wobs (ws : list watcher) : list (bool * list Z) := map (fun w => (wnew w, map iid (wfiltered w))) ws.
Definition wobs_eqb (a b : list (bool * list Z)) : bool :=
  list_eqb (fun x y => Bool.eqb (fst x) (fst y) && list_eqb Z.eqb (snd x) (snd y)) a b.
Definition check_watch (c : cfg) (ws : list watcher) (E : list info) (o_out : list info) (o_w : list (bool * list Z)) : list bool :=
  let s := run_w attached_notes_reenter_watchers c ws E in
  [ list_eqb info_eqb (out (wcore s)) o_out; wobs_eqb (wobs (wstack s)) o_w ].

(* ---- create_errors *)
Definition et_eqb (a b : etuple) : bool :=
  opt_eqb String.eqb (tfile a) (tfile b) && (tline a =? tline b) && (tcol a =? tcol b) && (tendline a =? tendline b)
  && (tendcol a =? tendcol b) && Bool.eqb (terror a) (terror b) && String.eqb (tmsg a) (tmsg b) && opt_eqb String.eqb (tcode a) (tcode b).
Definition me_eqb (a b : mypy_error) : bool := et_eqb (mtuple a) (mtuple b) && list_eqb String.eqb (mhints a) (mhints b).
Definition check_create_errors (ts : list etuple) (o : list mypy_error) : bool := list_eqb me_eqb (create_errors ts) o.
