(* C13 proofs, part 8: the renderers do not change WHICH messages appear. *)
From Coq Require Import ZArith List String Ascii Bool Lia.
From C13 Require Import Types Model.
Import ListNotations.
Open Scope list_scope.
Open Scope Z_scope.

(* ---- text / --pretty: dropping the indented snippet lines gives exactly the plain output *)
Lemma is_snippet_indent4 : forall s, is_snippet (indent4 s) = true.
Proof. reflexivity. Qed.

Lemma pretty_preserves_messages_proof : forall line_of src_of marker_of ts,
  (forall t, is_snippet (line_of t) = false) ->
  filter (fun s => negb (is_snippet s)) (format_text line_of src_of marker_of true ts)
  = format_text line_of src_of marker_of false ts
  /\ format_text line_of src_of marker_of false ts = map line_of ts.
Proof.
  intros line_of src_of marker_of ts H. unfold format_text. split.
  - induction ts as [|t r IH]; simpl; [reflexivity|].
    rewrite H. simpl. rewrite filter_app, IH. f_equal.
    destruct (terror t && (0 <? tline t)); [|reflexivity].
    destruct (src_of t); reflexivity.
  - induction ts as [|t r IH]; simpl; [reflexivity|]. now rewrite IH.
Qed.

(* ---- json: create_errors *)
Lemma add_hint_tuples : forall n h acc, map mtuple (add_hint n h acc) = map mtuple acc.
Proof.
  intros n h acc. revert n. induction acc as [|e t IH]; intros n; destruct n; simpl; try reflexivity.
  now rewrite IH.
Qed.

Definition has_file (t : etuple) : bool := is_some (tfile t).

Lemma ce_fold_errors : forall ts latest acc,
  filter terror (map mtuple (snd (fold_left ce_step ts (latest, acc))))
  = filter terror (map mtuple acc) ++ filter (fun t => terror t && has_file t) ts.
Proof.
  induction ts as [|t r IH]; intros latest acc; simpl; [now rewrite app_nil_r|].
  unfold has_file. destruct (tfile t) as [f|] eqn:F; simpl.
  - destruct (terror t) eqn:E; simpl.
    + rewrite IH, map_app, filter_app. simpl. rewrite E. now rewrite <- app_assoc.
    + destruct (lookup_loc latest (f, tline t, tcol t)); rewrite IH.
      * now rewrite add_hint_tuples.
      * rewrite map_app, filter_app. simpl. rewrite E. now rewrite app_nil_r.
  - rewrite IH. now rewrite andb_false_r.
Qed.

Lemma ce_fold_incl : forall ts latest acc e,
  In e (map mtuple (snd (fold_left ce_step ts (latest, acc)))) -> In e (map mtuple acc) \/ In e ts.
Proof.
  induction ts as [|t r IH]; intros latest acc e; simpl; [tauto|].
  destruct (tfile t) as [f|].
  - destruct (terror t).
    + intros H. apply IH in H as [H|H]; [|tauto]. rewrite map_app in H. apply in_app_or in H as [H|[<-|[]]]; tauto.
    + destruct (lookup_loc latest (f, tline t, tcol t)); intros H; apply IH in H as [H|H]; try tauto.
      * rewrite add_hint_tuples in H. tauto.
      * rewrite map_app in H. apply in_app_or in H as [H|[<-|[]]]; tauto.
  - intros H. apply IH in H. tauto.
Qed.

(* error-severity messages are preserved exactly (same tuples, same order); nothing is invented *)
Lemma json_preserves_messages_proof : forall ts,
  filter terror (map mtuple (create_errors ts)) = filter (fun t => terror t && has_file t) ts /\
  (forall e, In e (map mtuple (create_errors ts)) -> In e ts).
Proof.
  intros ts. unfold create_errors. split.
  - now rewrite ce_fold_errors.
  - intros e H. apply ce_fold_incl in H as [[]|H]. exact H.
Qed.

Lemma json_has_error_iff : forall ts,
  (exists e, In e (create_errors ts) /\ terror (mtuple e) = true)
  <-> (exists t, In t ts /\ terror t = true /\ has_file t = true).
Proof.
  intros ts. destruct (json_preserves_messages_proof ts) as [A _]. split.
  - intros [e [H E]].
    assert (X : In (mtuple e) (filter terror (map mtuple (create_errors ts)))).
    { apply filter_In. split; [now apply in_map | exact E]. }
    rewrite A in X. apply filter_In in X as [X1 X2]. apply andb_true_iff in X2 as [X2 X3]. eauto.
  - intros [t [H [E F]]].
    assert (X : In t (filter (fun t => terror t && has_file t) ts)) by (apply filter_In; split; [exact H | now rewrite E, F]).
    rewrite <- A in X. apply filter_In in X as [X1 X2]. apply in_map_iff in X1 as [e [<- He]]. eauto.
Qed.
