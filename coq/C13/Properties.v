(* Property C13 — theorems that hold for the model regenerated from the CURRENT source,
   whatever the state of finding F1.  Only statements closed by `exact`, each followed by
   Print Assumptions.  The exit-status theorems live in coq/gen/ErrorsExit.v, which t13 copies from
   coq/C13/alt/ExitTruth.v.txt (count_stats position-aware) or alt/ExitRefuted.v.txt (substring). *)
From Coq Require Import ZArith List String Bool.
From Coq Require Import Permutation.
From C13 Require Import Types Model Proofs ProofsUnused ProofsDisable ProofsExit ProofsOutput ProofsWatch ProofsRender ProofsSubcode.
From Gen Require Import ErrorsCore ErrorCodes.
Import ListNotations.
Open Scope list_scope.
Open Scope Z_scope.

(* the regenerated is_ignored_error is: not a blocker, and (code disabled, or the line carries an
   ignore comment whose code list is empty / contains the code / contains its parent code) *)
Theorem is_ignored_error_spec : forall c l i,
  is_ignored_error (disabled c) (enabled c) l i (ignores c)
  = negb (iblocker i) && (code_disabled c i || ign_matches (ignores c) l i).
Proof. exact is_ignored_spec. Qed.
Print Assumptions is_ignored_error_spec.

(* error_info_map after any reported stream = the stream minus exactly the suppressed infos
   (non-blocking, some line of the origin span carries a matching ignore or the code is disabled)
   and minus repeated only_once messages, each survivor followed by its "not covered" note *)
Theorem ignore_exact : forall c E,
  out (run c E) = flat_map (emit c) (dedup_once (filter (visible c) E)).
Proof. exact ignore_exact_proof. Qed.
Print Assumptions ignore_exact.

(* adding one ignore comment on a line l that had none removes exactly the infos it hits ... *)
Theorem ignore_delta_exact : forall c l codes E,
  has_ignores c = true -> dict_has (ignores c) l = false -> no_once E = true ->
  out (run (add_ignore c l codes) E)
  = flat_map (emit (add_ignore c l codes)) (filter (fun i => visible c i && negb (hit l codes i)) E).
Proof. exact ignore_delta_exact_proof. Qed.
Print Assumptions ignore_delta_exact.

(* ... and nothing else changes: infos not involving line l are reported exactly as before *)
Theorem ignore_delta : forall c l codes E,
  has_ignores c = true -> dict_has (ignores c) l = false -> no_once E = true ->
  filter (fun i => negb (touches l i)) (out (run (add_ignore c l codes) E))
  = filter (fun i => negb (touches l i)) (out (run c E)).
Proof. exact ignore_delta_proof. Qed.
Print Assumptions ignore_delta.

Theorem blockers_never_ignored : forall c E i,
  In i E -> iblocker i = true -> ionce i = false -> In i (out (run c E)).
Proof. exact blockers_never_ignored_proof. Qed.
Print Assumptions blockers_never_ignored.

Theorem unused_iff_suppressed_nothing : forall c E l codes,
  In (l, codes) (ignores c) -> dict_unique (ignores c) -> has_ignores c = true ->
  mem_Z l (skipped c) = false -> mem_str "unused-ignore" codes = false ->
  ((exists e, In e (unused_ignore_errors c (run c E)) /\ iline e = l)
   <-> match codes with
       | [] => forall i, In i E -> absorbed_at c i <> Some l
       | _ => exists cd, In cd codes /\
                forall i, In i E -> ~ (absorbed_at c i = Some l /\ cname (code_or_misc i) = cd)
       end).
Proof. exact unused_iff_proof. Qed.
Print Assumptions unused_iff_suppressed_nothing.

Theorem disable_code_exact : forall c x E,
  has_ignores c = true -> ignore_all c = false -> no_once E = true -> wf_spans E = true ->
  out (run (disable_code c x) E)
  = flat_map (emit c) (filter (fun i => visible c i && negb (carries c x i)) E).
Proof. exact disable_code_exact_proof. Qed.
Print Assumptions disable_code_exact.

(* The hypothesis `has_ignores c = true` of disable_code_exact is necessary: while the file has no entry in
   ignored_lines yet (errors reported before its ignore comments are registered, e.g. inline `# mypy:` configuration
   errors) add_error_info never consults is_ignored_error, and a diagnostic carrying a DISABLED code is reported.
   Replayed on real mypy: `# mypy: no-always-true` with --disable-error-code misc still prints the [misc] error. *)
Theorem disable_code_refuted_before_registration :
  exists c x i, has_ignores c = false /\ ignore_all c = false /\ iblocker i = false /\
    code_disabled (disable_code c x) i = true /\ In i (out (run (disable_code c x) [i])).
Proof.
  exists (mk_cfg [] false false [] [] [] []), "misc"%string,
         (info0 0 1 0 [1] (Some misc) true false false "Can not invert non-boolean key always_true" None "").
  vm_compute. repeat split; auto.
Qed.
Print Assumptions disable_code_refuted_before_registration.

(* ---- between error_info_map and the printed list --------------------------------------------- *)
(* the full machine (many-errors limiter on) differs from `run` only by `hidden` flags and the single
   "(Skipping most remaining errors ...)" note: every exactness theorem above transfers modulo those *)
Theorem limiter_erasure : forall c L seen0 E, no_skip E ->
  erase (out (lcore (run_lim c L seen0 E))) = map unhide (out (run c E)) /\
  used (lcore (run_lim c L seen0 E)) = used (run c E).
Proof. exact limiter_erasure_proof. Qed.
Print Assumptions limiter_erasure.

(* hiding never hides everything: a hidden info implies a non-hidden import diagnostic in the same map *)
Theorem hidden_needs_visible_import : forall c L E i, fresh E ->
  In i (out (lcore (run_lim c L false E))) -> ihidden i = true ->
  exists j, In j (out (lcore (run_lim c L false E))) /\ is_import_code j = true /\ ihidden j = false.
Proof. exact hidden_needs_visible_import_proof. Qed.
Print Assumptions hidden_needs_visible_import.

(* so (import diagnostics being errors) a run that collected an error has a NON-hidden error *)
Theorem limiter_keeps_failure : forall c L E, fresh E -> import_infos_are_errors E ->
  (exists i, In i (out (lcore (run_lim c L false E))) /\ ierror i = true) ->
  visible_error (out (lcore (run_lim c L false E))).
Proof. exact limiter_keeps_failure_proof. Qed.
Print Assumptions limiter_keeps_failure.

Theorem sort_messages_permutes : forall l, Permutation (sort_messages l) l.
Proof. exact sort_messages_perm. Qed.
Print Assumptions sort_messages_permutes.

(* file_messages (drop hidden, sort, remove duplicates) invents nothing, and every non-hidden parent-less info
   (all errors are parent-less) is printed unless an info with the same line, severity and message is *)
Theorem final_list_exact : forall o,
  (forall e, In e (final_infos o) -> In e o /\ ihidden e = false) /\
  (forall e, In e o -> ihidden e = false -> iparent e = None ->
     exists e', In e' (final_infos o) /\ key_of e' = key_of e).
Proof. intros o. split; [exact (final_incl o) | exact (final_keeps o)]. Qed.
Print Assumptions final_list_exact.

(* hence the printed list contains an error-severity line iff the map has a non-hidden error *)
Theorem printed_error_iff : forall srcloc hc snc o, errors_have_no_parent o ->
  (has_error (printed srcloc hc snc o) <-> visible_error o).
Proof. exact printed_has_error_iff. Qed.
Print Assumptions printed_error_iff.

(* ---- ErrorWatchers ------------------------------------------------------------------------------ *)
(* code shape in which the note attached to an admitted info is appended without asking the watcher stack again
   (reentry = false): ignore_exact generalises to any stack of watchers ... *)
Theorem ignore_exact_with_watchers : forall c ws E,
  out (wcore (run_w false c ws E))
  = flat_map (emit c) (dedup_once (filter (fun i => negb (stack_filters ws i) && visible c i) E)).
Proof. exact ignore_exact_with_watchers_proof. Qed.
Print Assumptions ignore_exact_with_watchers.

(* ... and nothing a watcher observes (has_new_errors, filtered errors) depends on the ignore comments at all *)
Theorem watchers_independent_of_ignores : forall c c' ws E,
  wstack (run_w false c ws E) = wstack (run_w false c' ws E).
Proof. exact watchers_independent_proof. Qed.
Print Assumptions watchers_independent_of_ignores.

(* code shape with re-entry (the note goes through _filter_error in _add_error_info): a comment that matches nothing
   -- every info is classified exactly as before -- flips has_new_errors of an active watcher *)
Theorem watcher_reentry_refuted :
  has_ignores w_cfg = true /\ dict_has (ignores w_cfg) 8 = false /\
  (forall i, In i [w_info] -> classify (add_ignore w_cfg 8 ["override"%string]) i = classify w_cfg i) /\
  map wnew (wstack (run_w true (add_ignore w_cfg 8 ["override"%string]) w_stack [w_info]))
  <> map wnew (wstack (run_w true w_cfg w_stack [w_info])).
Proof. exact (watcher_reentry_witness true eq_refl). Qed.
Print Assumptions watcher_reentry_refuted.

(* ---- renderers: which messages appear does not depend on the output format ------------------------ *)
(* text: the --pretty output minus its indented snippet lines is the plain output = one line per tuple;
   json: create_errors keeps exactly the error-severity tuples (with a file), in order, and invents nothing
   (notes become entries or hints of the latest error at their location) *)
Theorem render_preserves_messages :
  (forall line_of src_of marker_of ts, (forall t, is_snippet (line_of t) = false) ->
     filter (fun s => negb (is_snippet s)) (format_text line_of src_of marker_of true ts)
     = format_text line_of src_of marker_of false ts
     /\ format_text line_of src_of marker_of false ts = map line_of ts) /\
  (forall ts,
     filter terror (map mtuple (create_errors ts)) = filter (fun t => terror t && has_file t) ts /\
     (forall e, In e (map mtuple (create_errors ts)) -> In e ts)).
Proof. split; [exact pretty_preserves_messages_proof | exact json_preserves_messages_proof]. Qed.
Print Assumptions render_preserves_messages.

Theorem json_error_iff : forall ts,
  (exists e, In e (create_errors ts) /\ terror (mtuple e) = true)
  <-> (exists t, In t ts /\ terror t = true /\ has_file t = true).
Proof. exact json_has_error_iff. Qed.
Print Assumptions json_error_iff.

(* ---- `# type: ignore[code]` and sub-codes, on the code table regenerated from mypy/errorcodes.py ---- *)
(* a coded comment ignores an enabled non-blocking info iff it lists the info's code or that code's parent *)
Theorem coded_ignore_matches_exactly : forall c l i cd,
  iblocker i = false -> icode i = Some cd -> enabledb c cd = true ->
  dict_has (ignores c) l = true -> list_empty (dict_get (ignores c) l) = false ->
  is_ignored_error (disabled c) (enabled c) l i (ignores c)
  = mem_str (cname cd) (dict_get (ignores c) l)
    || match csub cd with Some p => mem_str p (dict_get (ignores c) l) | None => false end.
Proof. exact coded_ignore_exact. Qed.
Print Assumptions coded_ignore_matches_exactly.

(* sub_code_of is honoured exactly one level: for every code of errorcodes.py, `ignore[x]` matches iff x is the code
   or its parent, and the parent is a code of the table that has no parent itself *)
Theorem subcode_ignore_exact : forall c l i cd x,
  In cd code_table -> iblocker i = false -> icode i = Some cd -> enabledb c cd = true ->
  dict_has (ignores c) l = true -> dict_get (ignores c) l = [x] ->
  (is_ignored_error (disabled c) (enabled c) l i (ignores c) = true <-> (x = cname cd \/ csub cd = Some x)) /\
  (forall p, csub cd = Some p -> exists pc, In pc code_table /\ cname pc = p /\ csub pc = None).
Proof. exact subcode_ignore_exact_proof. Qed.
Print Assumptions subcode_ignore_exact.

(* hypotheses are satisfiable, on non-trivial streams *)
Definition ex_c : cfg := mk_cfg [(7, ["misc"%string])] true false [] [] [] [].
Definition ex_e1 := info0 0 3 0 [3] (Some (mk_ecode "arg-type" None true None)) true false false "bad arg" None "m".
Definition ex_e2 := info0 1 4 0 [2; 3; 4] (Some (mk_ecode "override" None true None)) true false false "bad override" None "m".
Definition ex_e3 := info0 2 3 0 [3] None true true false "syntax" None "m".
Definition ex_e4 := info0 3 7 0 [7] (Some (mk_ecode "method-assign" (Some "assignment"%string) true None)) true false false "assign" None "m".

Example ex_delta :
  has_ignores ex_c = true /\ dict_has (ignores ex_c) 3 = false /\ no_once [ex_e1; ex_e2; ex_e3; ex_e4] = true /\
  (* the arg-type error on line 3 goes, the override error spanning line 3 and the blocker stay *)
  out (run (add_ignore ex_c 3 ["arg-type"%string]) [ex_e1; ex_e2; ex_e3]) = [ex_e2; ex_e3] /\
  (* a bare ignore on line 3 also takes the override error (origin span), never the blocker *)
  out (run (add_ignore ex_c 3 []) [ex_e1; ex_e2; ex_e3]) = [ex_e3].
Proof. vm_compute. repeat split; reflexivity. Qed.

Example ex_unused :
  In (7, ["misc"%string]) (ignores ex_c) /\ dict_unique (ignores ex_c) /\ mem_Z 7 (skipped ex_c) = false /\
  (exists e, In e (unused_ignore_errors ex_c (run ex_c [ex_e4])) /\ iline e = 7) /\
  (* the method-assign error on line 7 is not covered by ignore[misc]: it is reported with the note *)
  List.length (out (run ex_c [ex_e4])) = 2%nat.
Proof.
  split; [now left|]. split; [repeat constructor; simpl; tauto|]. split; [reflexivity|].
  split; [|reflexivity]. eexists. split; [left; reflexivity | reflexivity].
Qed.

Example ex_disable :
  wf_spans [ex_e1; ex_e4] = true /\
  out (run (disable_code ex_c "assignment") [ex_e1; ex_e4]) = [ex_e1] /\
  carries ex_c "assignment" ex_e4 = true.
Proof. vm_compute. repeat split; reflexivity. Qed.

Definition ex_imp := info0 0 1 0 [1] (Some (mk_ecode "import-not-found" (Some "import"%string) true None)) true false false "no module" None "m".
Example ex_limiter :
  let L := mk_lim 1 0 0 in
  fresh [ex_imp; ex_e1; ex_e2] /\ no_skip [ex_imp; ex_e1; ex_e2] /\ import_infos_are_errors [ex_imp; ex_e1; ex_e2] /\
  (* threshold 1: everything after the import error is hidden, preceded once by the "(Skipping ...)" note *)
  map ihidden (out (lcore (run_lim ex_c L false [ex_imp; ex_e1; ex_e2]))) = [false; false; true; true] /\
  map iid (final_infos (out (lcore (run_lim ex_c L false [ex_imp; ex_e1; ex_e2])))) = [0; -1].
Proof.
  split; [|split; [|split; [|split]]]; try (vm_compute; reflexivity);
    intros i [<-|[<-|[<-|[]]]]; vm_compute; auto; discriminate.
Qed.

Example ex_subcode :
  let ma := mk_ecode "method-assign" (Some "assignment"%string) true None in
  let c := mk_cfg [(7, ["assignment"%string]); (8, ["method-assign"%string]); (9, ["misc"%string])] true false [] [] [] [] in
  let i := fun l => info0 0 l 0 [l] (Some ma) true false false "m" None "t" in
  let a := fun l => info0 0 l 0 [l] (Some (mk_ecode "assignment" None true None)) true false false "m" None "t" in
  In ma code_table /\ enabledb c ma = true /\
  (* the parent's name and the own name match a method-assign error; misc does not *)
  ignoredb c 7 (i 7) = true /\ ignoredb c 8 (i 8) = true /\ ignoredb c 9 (i 9) = false /\
  (* the sub-code's name does not match the parent's errors *)
  ignoredb c 8 (a 8) = false.
Proof. vm_compute. repeat split; auto 40. Qed.
