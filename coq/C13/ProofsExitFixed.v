(* C13 proofs, part 5: the regenerated count_stats / exit_code satisfy the position-aware specification.
   Refers to Gen.ErrorsCore.message_severity, which exists only once count_stats classifies a line by its
   first severity marker (notes/C13-fix-1.diff): on the substring version this file does not build. *)
From Coq Require Import ZArith List String Bool.
From C13 Require Import Types Model ProofsExit.
From Gen Require Import ErrorsCore.
Import ListNotations.
Open Scope list_scope.
Open Scope Z_scope.

Lemma gen_severity_is_first_marker : forall s, message_severity s = first_marker_severity s.
Proof. reflexivity. Qed.

Lemma gen_count_stats_notes : counts_notes_exactly count_stats.
Proof.
  intros msgs HF. unfold count_stats. cbn [fst snd].
  apply filter_sev_notes; [|exact HF].
  intros m Hm. rewrite gen_severity_is_first_marker. now apply first_marker_spec.
Qed.

Lemma gen_exit_code_shape : forall messages blockers,
  exit_code messages blockers = exit_of_counts (snd (fst (count_stats messages))) messages blockers.
Proof.
  intros. unfold exit_code, exit_of_counts. destruct (count_stats messages) as [[a n] f]. reflexivity.
Qed.

Lemma exit_code_truth_proof : forall msgs blockers,
  Forall wf_msg msgs -> (blockers = true -> has_error msgs) ->
  (exit_status msgs blockers = 0 <-> ~ has_error msgs) /\
  (exit_status msgs blockers = 2 <-> blockers = true) /\
  (exit_status msgs blockers = 1 <-> has_error msgs /\ blockers = false).
Proof.
  intros msgs blockers HF HB. unfold exit_status.
  rewrite gen_exit_code_shape, (gen_count_stats_notes msgs HF).
  exact (exit_of_counts_truth msgs blockers HB).
Qed.
