(* C13 model: mypy/errors.py `Errors` for ONE file as a state machine over the stream of
   ErrorInfos handed to add_error_info (after the ErrorWatcher stack let them through).
   Executable definitions only.  The predicates is_ignored_error / is_error_code_enabled and the
   exit-status code come from Gen.ErrorsCore (regenerated from the source on every run).

   Not modelled (stated in notes/C13.md): ErrorWatchers (the stream is what they let through),
   the many_errors_threshold hiding (`hidden`), show_error_code_links notes, columns / --pretty /
   --show-error-context rendering, sort_messages (a stable permutation of the same infos). *)
From Coq Require Import ZArith List String Ascii Bool.
From C13 Require Import Types.
From Gen Require Import ErrorsCore.
Import ListNotations.
Open Scope string_scope.
Open Scope Z_scope.

Record cfg := mk_cfg {
  ignores : dict;                 (* ignored_lines[file] (when the file has an entry) *)
  has_ignores : bool;             (* file in ignored_lines *)
  ignore_all : bool;              (* file in ignored_files *)
  skipped : list Z;               (* skipped_lines[file] *)
  disabled : list string;         (* options.disabled_error_codes, by name *)
  enabled : list string;          (* options.enabled_error_codes *)
  sub_map : list (string * list string)   (* errorcodes.sub_code_map, values sorted *)
}.

Record st := mk_st {
  out : list info;                (* error_info_map[file] *)
  used : list (Z * string);       (* used_ignored_lines[file]: (line, code) in append order *)
  once : list string              (* only_once_messages *)
}.
Definition init : st := mk_st [] [] [].

Definition misc : ecode := mk_ecode "misc" None true None.
Definition unused_ignore_code : ecode := mk_ecode "unused-ignore" None false None.
Definition ignore_without_code_code : ecode := mk_ecode "ignore-without-code" None false None.

Definition eff_ignores (c : cfg) : dict := if has_ignores c then ignores c else [].
Definition enabledb (c : cfg) (cd : ecode) : bool := is_error_code_enabled (disabled c) (enabled c) cd.
Definition ignoredb (c : cfg) (l : Z) (i : info) : bool :=
  is_ignored_error (disabled c) (enabled c) l i (ignores c).

Definition code_or_misc (i : info) : ecode := match icode i with Some cd => cd | None => misc end.

(* for scope_line in lines: if self.is_ignored_error(scope_line, ...) *)
Fixpoint first_ignored (c : cfg) (lines : list Z) (i : info) : option Z :=
  match lines with
  | [] => None
  | l :: t => if ignoredb c l i then Some l else first_ignored c t i
  end.

Inductive verdict :=
| Suppressed (mark : option (Z * string))   (* dropped by an ignore / disabled code; mark = used entry *)
| IgnoredFile                               (* dropped: file in ignored_files *)
| Passed.

Definition classify (c : cfg) (i : info) : verdict :=
  if iblocker i then Passed
  else match (if has_ignores c then first_ignored c (ispan i) i else None) with
       | Some l => if enabledb c (code_or_misc i)
                   then Suppressed (Some (l, cname (code_or_misc i)))
                   else Suppressed None
       | None => if ignore_all c then IgnoredFile else Passed
       end.

Definition quote (s : string) : string := String """"%char (s ++ String """"%char "").

Definition cover_msg (cd : ecode) (codes : list string) : string :=
  let dflt := "Error code " ++ quote (cname cd) ++ " not covered by "
              ++ quote ("type: ignore[" ++ join ", " codes ++ "]") ++ " comment" in
  match corig cd with
  | Some old => if mem_str old codes
                then "Error code changed to " ++ cname cd ++ "; " ++ quote "type: ignore"
                     ++ " comment may be out of date"
                else dflt
  | None => dflt
  end.

(* the note added after an error that got through on a line whose ignore lists other codes *)
Definition cover_note (c : cfg) (i : info) : list info :=
  let codes := dict_get (eff_ignores c) (iline i) in
  match icode i with
  | Some cd => if list_empty codes then []
               else [mk_info (-1) (iline i) (icol i) (iendline i) (iendcol i) (ispan i) None false false false
                             (cover_msg cd codes) None (itarget i) (ictx i) 0 false]
  | None => []
  end.

Definition add_error_info (c : cfg) (s : st) (i : info) : st :=
  match classify c i with
  | Suppressed (Some m) => mk_st (out s) (used s ++ [m]) (once s)
  | Suppressed None => s
  | IgnoredFile => s
  | Passed =>
      if ionce i && mem_str (imsg i) (once s) then s
      else mk_st (out s ++ i :: cover_note c i) (used s)
                 (if ionce i then once s ++ [imsg i] else once s)
  end.

Definition run (c : cfg) (E : list info) : st := fold_left (add_error_info c) E init.

(* ---- generate_unused_ignore_errors / generate_ignore_without_code_errors ---------------- *)
Definition used_at (u : list (Z * string)) (l : Z) : list string :=
  map snd (filter (fun m => fst m =? l) u).

(* report_simple_error; import_ctx = the current import context, given by the caller *)
Definition simple_error_ctx (ctx line : Z) (msg : string) (cd : ecode) : info :=
  mk_info (-1) line (-1) line (-1) [line] (Some cd) true false false msg None "" ctx 0 false.
Definition simple_error := simple_error_ctx 0.

Fixpoint lookup_sub (m : list (string * list string)) (k : string) : list string :=
  match m with [] => [] | (k', v) :: t => if String.eqb k k' then v else lookup_sub t k end.

Definition narrower_msg (c : cfg) (usedc : list string) (u : string) : string :=
  let n := filter (fun x => mem_str x usedc) (lookup_sub (sub_map c) u) in
  if list_empty n then ""
  else ", use narrower [" ++ join ", " n ++ "] instead of [" ++ u ++ "] code".

Definition unused_msg (c : cfg) (codes unused usedc : list string) : string :=
  "Unused " ++ quote ("type: ignore" ++
     (if (1 <? len codes) && negb (list_empty unused) then "[" ++ join ", " unused ++ "]" else ""))
  ++ " comment" ++ String.concat "" (map (narrower_msg c usedc) unused).

Definition unused_ignore_one (c : cfg) (u : list (Z * string)) (entry : Z * list string) : list info :=
  let '(line, codes) := entry in
  if mem_Z line (skipped c) then []
  else if mem_str "unused-ignore" codes then []
  else let usedc := used_at u line in
       let unused := filter (fun x => negb (mem_str x usedc)) codes in
       if list_empty codes && negb (list_empty usedc) then []
       else if negb (list_empty codes) && list_empty unused then []
       else [simple_error line (unused_msg c codes unused usedc) unused_ignore_code].

Definition unused_ignore_errors (c : cfg) (s : st) : list info :=
  flat_map (unused_ignore_one c (used s)) (ignores c).

Definition generate_unused_ignore_errors (c : cfg) (is_typeshed : bool) (s : st) : st :=
  if is_typeshed || ignore_all c then s
  else mk_st (out s ++ unused_ignore_errors c s) (used s) (once s).

(* sorted(set(l)) on ASCII strings *)
Fixpoint insert_sorted (x : string) (l : list string) : list string :=
  match l with
  | [] => [x]
  | y :: t => if String.eqb x y then l else if String.leb x y then x :: l else y :: insert_sorted x t
  end.
Definition sorted_set (l : list string) : list string := fold_right insert_sorted [] l.

Definition without_code_one (c : cfg) (warn_unused : bool) (u : list (Z * string))
           (entry : Z * list string) : list info :=
  let '(line, codes) := entry in
  if mem_Z line (skipped c) then []
  else if negb (list_empty codes) then []
  else let usedc := used_at u line in
       if warn_unused && list_empty usedc then []
       else let hint := if list_empty usedc then ""
                        else " (consider " ++ quote ("type: ignore[" ++ join ", " (sorted_set usedc) ++ "]")
                             ++ " instead)" in
            [simple_error line (quote "type: ignore" ++ " comment without error code" ++ hint)
                          ignore_without_code_code].

Definition generate_ignore_without_code_errors (c : cfg) (warn_unused is_typeshed : bool) (s : st) : st :=
  if is_typeshed || ignore_all c then s
  else mk_st (out s ++ flat_map (without_code_one c warn_unused (used s)) (ignores c)) (used s) (once s).

(* ---- remove_duplicates: per line, by (severity, message); notes with a parent follow it --- *)
Definition dkey : Type := (Z * bool * string)%type.
Definition key_of (e : info) : dkey := (iline e, ierror e, imsg e).
Definition dkey_eqb (a b : dkey) : bool :=
  let '(l1, s1, m1) := a in let '(l2, s2, m2) := b in (l1 =? l2) && Bool.eqb s1 s2 && String.eqb m1 m2.
Fixpoint mem_key (k : dkey) (l : list dkey) : bool :=
  match l with [] => false | x :: t => dkey_eqb k x || mem_key k t end.

Fixpoint rd_pass (errs : list info) (seen : list dkey) : list info * list Z :=
  match errs with
  | [] => ([], [])
  | e :: t =>
      if is_some (iparent e) then let '(f, r) := rd_pass t seen in (e :: f, r)
      else if mem_key (key_of e) seen then let '(f, r) := rd_pass t seen in (f, iid e :: r)
      else let '(f, r) := rd_pass t (key_of e :: seen) in (e :: f, r)
  end.

Definition remove_duplicates (errs : list info) : list info :=
  let '(f, removed) := rd_pass errs [] in
  filter (fun e => match iparent e with None => true | Some p => negb (mem_Z p removed) end) f.

(* ---- the many-errors limiter (add_error_info: seen_import_error / has_many_errors / hidden) ----
   `run` above is the machine with the limiter off.  The full machine below also keeps
   seen_import_error and sets `hidden` on infos that arrive after an import error once the number of
   collected infos reaches options.many_errors_threshold; the first time it also inserts the note
   "(Skipping most remaining errors ...)".  Proofs.limiter_erasure relates the two machines. *)
Record lim := mk_lim {
  threshold : Z;          (* options.many_errors_threshold (< 0: off) *)
  other_files : Z;        (* number of OTHER files with an entry in error_info_map *)
  other_infos : Z         (* total number of infos collected for other files *)
}.
Record lst := mk_lst { lcore : st; seen_import : bool }.

Definition is_import_code (i : info) : bool :=
  match icode i with
  | Some cd => mem_str (cname cd) ["import"; "import-untyped"; "import-not-found"]
  | None => false
  end.
Definition skip_msg : string :=
  "(Skipping most remaining errors due to unresolved imports or missing stubs; fix these first)".
Definition has_many_errors (L : lim) (o : list info) : bool :=
  if threshold L <? 0 then false
  else (threshold L <=? other_files L + (if list_empty o then 0 else 1))
       || (threshold L <=? other_infos L + len o).
(* report_hidden_errors -> note_for_info: a copy of the position with code None, only_once, priority 0 *)
Definition skip_note (i : info) : info :=
  mk_info (-1) (iline i) (icol i) (iendline i) (iendcol i) (ispan i) None false false true
          skip_msg None (itarget i) (ictx i) 0 false.

Definition add_error_info_lim (c : cfg) (L : lim) (s : lst) (i : info) : lst :=
  let s0 := lcore s in
  match classify c i with
  | Suppressed (Some m) => mk_lst (mk_st (out s0) (used s0 ++ [m]) (once s0)) (seen_import s)
  | Suppressed None => s
  | IgnoredFile => s
  | Passed =>
      if ionce i && mem_str (imsg i) (once s0) then s
      else
        let once1 := if ionce i then (once s0 ++ [imsg i])%list else once s0 in
        let hide := seen_import s && negb (is_import_code i) && has_many_errors L (out s0) in
        let note := if hide && negb (mem_str skip_msg once1) then [skip_note i] else [] in
        let once2 := if hide && negb (mem_str skip_msg once1) then (once1 ++ [skip_msg])%list else once1 in
        let i' := if hide then set_hidden i else i in
        mk_lst (mk_st (out s0 ++ note ++ i' :: cover_note c i)%list (used s0) once2)
               (seen_import s || is_import_code i)
  end.
Definition run_lim (c : cfg) (L : lim) (seen0 : bool) (E : list info) : lst :=
  fold_left (add_error_info_lim c L) E (mk_lst init seen0).

(* ---- sort_messages / sort_within_context ------------------------------------------------- *)
(* sorted(...) is stable: insertion from the right, x goes before the first y with x <= y *)
Fixpoint insert_by (le : info -> info -> bool) (x : info) (l : list info) : list info :=
  match l with [] => [x] | y :: t => if le x y then x :: l else y :: insert_by le x t end.
Definition sort_by (le : info -> info -> bool) (l : list info) : list info := fold_right (insert_by le) [] l.
(* maximal runs of neighbours related by `same` (errors[i + 1] ~ errors[i]) *)
Fixpoint group_adj (same : info -> info -> bool) (l : list info) : list (list info) :=
  match l with
  | [] => []
  | x :: t => match group_adj same t with
              | (y :: g) :: gs => if same x y then (x :: y :: g) :: gs else [x] :: (y :: g) :: gs
              | gs => [x] :: gs
              end
  end.
Definition le_linecol (x y : info) : bool :=
  (iline x <? iline y) || ((iline x =? iline y) && (icol x <=? icol y)).
Definition le_prio (x y : info) : bool := iprio x <=? iprio y.
Definition same_ctx (x y : info) : bool := ictx x =? ictx y.
Definition code_name_eqb (a b : option ecode) : bool :=
  match a, b with Some x, Some y => String.eqb (cname x) (cname y) | None, None => true | _, _ => false end.
Definition same_pos (x y : info) : bool :=
  (iline x =? iline y) && (icol x =? icol y) && (iendline x =? iendline y) && (iendcol x =? iendcol y)
  && code_name_eqb (icode x) (icode y).
Definition sort_within_context (a : list info) : list info :=
  List.concat (map (sort_by le_prio) (group_adj same_pos a)).
Definition sort_messages (errs : list info) : list info :=
  List.concat (map (fun g => sort_within_context (sort_by le_linecol g)) (group_adj same_ctx errs)).

(* file_messages: what is rendered for a file *)
Definition final_infos (o : list info) : list info :=
  remove_duplicates (sort_messages (filter (fun i => negb (ihidden i)) o)).

(* ---- what is printed, as far as the exit status is concerned ----------------------------- *)
(* format_messages_default, one line per message:  f"{srcloc}: {severity}: {message}" + "  [code]" *)
Record pmsg := mk_pmsg {
  psrc : string;       (* srcloc: file[:line[:column]] *)
  perror : bool;       (* severity == "error" *)
  ptext : string       (* message text followed by the optional "  [code]" *)
}.
Definition fmt (m : pmsg) : string :=
  psrc m ++ ": " ++ (if perror m then "error" else "note") ++ ": " ++ ptext m.

Definition code_suffix (hide_codes : bool) (show_note_codes : list string) (e : info) : string :=
  match icode e with
  | Some cd => if negb hide_codes && (ierror e || mem_str (cname cd) show_note_codes)
               then "  [" ++ cname cd ++ "]" else ""
  | None => ""
  end.
Definition to_pmsg (srcloc : info -> string) (hide_codes : bool) (show_note_codes : list string)
           (e : info) : pmsg :=
  mk_pmsg (srcloc e) (ierror e) (imsg e ++ code_suffix hide_codes show_note_codes e).

(* process exit status of a run whose printed messages are `msgs`; blockers = CompileError raised *)
Definition exit_status (msgs : list pmsg) (blockers : bool) : Z := exit_code (map fmt msgs) blockers.

(* the lines printed for a file whose error_info_map entry is o *)
Definition printed (srcloc : info -> string) (hide_codes : bool) (show_note_codes : list string) (o : list info) : list pmsg :=
  map (to_pmsg srcloc hide_codes show_note_codes) (final_infos o).

(* ---- ErrorWatchers ------------------------------------------------------------------------------
   Errors._watchers is a stack; _filter_error asks the watchers from the top, stopping at the first that
   filters.  add_error_info asks it before anything else, _add_error_info asks it AGAIN for every info it
   is about to append -- including (in the code shape `reentry = true`) the "not covered" note that
   add_error_info attaches to an info the watchers have just let through.  The machine below is built on the
   limiter-free core; `wadm` (the admitted stream infos) is ghost state used to state theorems. *)
Record watcher := mk_w {
  wfilter : info -> bool;     (* filter_errors: False / True / a predicate *)
  wsave : bool;               (* save_filtered_errors *)
  wfdep : bool;               (* filter_deprecated *)
  wfreveal : bool;            (* filter_revealed_type (read by MessageBuilder.reveal_type only) *)
  wnew : bool;                (* _has_new_errors *)
  wfiltered : list info       (* _filtered (when wsave) *)
}.
Definition is_deprecated (i : info) : bool :=
  match icode i with Some cd => String.eqb (cname cd) "deprecated" | None => false end.
(* ErrorWatcher.on_error *)
Definition on_error (w : watcher) (i : info) : watcher * bool :=
  if is_deprecated i && negb (wfdep w) then (w, false)
  else let sf := wfilter w i in
       (mk_w (wfilter w) (wsave w) (wfdep w) (wfreveal w) true
             (if sf && wsave w then wfiltered w ++ [i] else wfiltered w)%list, sf).
(* Errors._filter_error; the head of the list is the top of the stack *)
Fixpoint filter_stack (ws : list watcher) (i : info) : list watcher * bool :=
  match ws with
  | [] => ([], false)
  | w :: t => let '(w', f) := on_error w i in
              if f then (w' :: t, true)
              else let '(t', f') := filter_stack t i in (w' :: t', f')
  end.
(* the notes note_for_info hands to _add_error_info *)
Fixpoint add_notes (reentry : bool) (ws : list watcher) (notes : list info) : list watcher * list info :=
  match notes with
  | [] => (ws, [])
  | n :: t => if reentry
              then let '(ws1, f) := filter_stack ws n in
                   let '(ws2, kept) := add_notes reentry ws1 t in
                   (ws2, if f then kept else n :: kept)
              else let '(ws2, kept) := add_notes reentry ws t in (ws2, n :: kept)
  end.

Record wst := mk_wst { wcore : st; wstack : list watcher; wadm : list info }.

Definition add_error_info_w (reentry : bool) (c : cfg) (s : wst) (i : info) : wst :=
  let '(ws1, f1) := filter_stack (wstack s) i in
  let s0 := wcore s in
  if f1 then mk_wst s0 ws1 (wadm s)
  else match classify c i with
       | Suppressed (Some m) => mk_wst (mk_st (out s0) (used s0 ++ [m]) (once s0)) ws1 (wadm s)
       | Suppressed None => mk_wst s0 ws1 (wadm s)
       | IgnoredFile => mk_wst s0 ws1 (wadm s)
       | Passed =>
           if ionce i && mem_str (imsg i) (once s0) then mk_wst s0 ws1 (wadm s)
           else
             let once1 := if ionce i then (once s0 ++ [imsg i])%list else once s0 in
             let '(ws2, f2) := filter_stack ws1 i in                    (* _add_error_info(file, info) *)
             if f2 then mk_wst (mk_st (out s0) (used s0) once1) ws2 (wadm s)
             else let '(ws3, kept) := add_notes reentry ws2 (cover_note c i) in
                  mk_wst (mk_st (out s0 ++ i :: kept)%list (used s0) once1) ws3 (wadm s ++ [i])%list
       end.
Definition run_w (reentry : bool) (c : cfg) (ws : list watcher) (E : list info) : wst :=
  fold_left (add_error_info_w reentry c) E (mk_wst init ws []).

(* ---- rendering: ErrorTuples -> text lines (format_messages_default) / MypyErrors (create_errors, --output json) *)
Record etuple := mk_et {
  tfile : option string; tline : Z; tcol : Z; tendline : Z; tendcol : Z;
  terror : bool; tmsg : string; tcode : option string
}.
(* the (file, line, column, severity, message, code) of a rendered message *)
Definition tkey (t : etuple) := (tfile t, tline t, tcol t, terror t, tmsg t, tcode t).

(* text: one message line per tuple; with --pretty an error with a known source line is followed by the source line
   and a marker line, both indented by DEFAULT_SOURCE_OFFSET = 4 spaces.  `line_of` is the message line
   (srcloc: severity: message [code]), `src_of` the trimmed source line if available, `marker_of` the ^~~~ text. *)
Definition indent4 (s : string) : string := "    " ++ s.
Definition text_lines (line_of : etuple -> string) (src_of : etuple -> option string) (marker_of : etuple -> string)
           (pretty : bool) (t : etuple) : list string :=
  line_of t ::
  (if pretty && terror t && (0 <? tline t)
   then match src_of t with Some src => [indent4 src; indent4 (marker_of t)] | None => [] end
   else []).
Definition format_text line_of src_of marker_of (pretty : bool) (ts : list etuple) : list string :=
  flat_map (text_lines line_of src_of marker_of pretty) ts.
Definition is_snippet (s : string) : bool := str_prefix "    " s.

(* json: create_errors folds a note into the `hints` of the latest error at the same (file, line, column) *)
Record mypy_error := mk_me { mtuple : etuple; mhints : list string }.
Definition loc : Type := (string * Z * Z)%type.
Definition loc_eqb (a b : loc) : bool :=
  let '(f1, l1, c1) := a in let '(f2, l2, c2) := b in String.eqb f1 f2 && (l1 =? l2) && (c1 =? c2).
Fixpoint lookup_loc (m : list (loc * nat)) (k : loc) : option nat :=
  match m with [] => None | (k', n) :: t => if loc_eqb k k' then Some n else lookup_loc t k end.
Fixpoint add_hint (n : nat) (h : string) (acc : list mypy_error) : list mypy_error :=
  match acc, n with
  | [], _ => []
  | e :: t, O => mk_me (mtuple e) (mhints e ++ [h])%list :: t
  | e :: t, S n' => e :: add_hint n' h t
  end.
Definition ce_step (s : list (loc * nat) * list mypy_error) (t : etuple) : list (loc * nat) * list mypy_error :=
  let '(latest, acc) := s in
  match tfile t with
  | None => s
  | Some f =>
      let k := (f, tline t, tcol t) in
      if terror t then ((k, List.length acc) :: latest, (acc ++ [mk_me t []])%list)
      else match lookup_loc latest k with
           | None => (latest, (acc ++ [mk_me t []])%list)
           | Some n => (latest, add_hint n (tmsg t) acc)
           end
  end.
Definition create_errors (ts : list etuple) : list mypy_error := snd (fold_left ce_step ts ([], [])).
