(* C13 model: mypy/errors.py `Errors` for ONE file as a state machine over the stream of
   ErrorInfos handed to add_error_info (after the ErrorWatcher stack let them through).
   Executable definitions only.  The predicates is_ignored_error / is_error_code_enabled and the
   exit-status code come from Gen.ErrorsCore (regenerated from the source on every run).

   Not modelled (stated in notes/C13.md): ErrorWatchers (the stream is what they let through),
   the many_errors_threshold hiding (`hidden`), show_error_code_links notes, columns / --pretty /
   --show-error-context rendering, sort_messages (a stable permutation of the same infos). *)
From Coq Require Import ZArith List String Ascii Bool.
From C13 Require Import Types.
From Gen Require Import ErrorsCore.
Import ListNotations.
Open Scope string_scope.
Open Scope Z_scope.

Record cfg := mk_cfg {
  ignores : dict;                 (* ignored_lines[file] (when the file has an entry) *)
  has_ignores : bool;             (* file in ignored_lines *)
  ignore_all : bool;              (* file in ignored_files *)
  skipped : list Z;               (* skipped_lines[file] *)
  disabled : list string;         (* options.disabled_error_codes, by name *)
  enabled : list string;          (* options.enabled_error_codes *)
  sub_map : list (string * list string)   (* errorcodes.sub_code_map, values sorted *)
}.

Record st := mk_st {
  out : list info;                (* error_info_map[file] *)
  used : list (Z * string);       (* used_ignored_lines[file]: (line, code) in append order *)
  once : list string              (* only_once_messages *)
}.
Definition init : st := mk_st [] [] [].

Definition misc : ecode := mk_ecode "misc" None true None.
Definition unused_ignore_code : ecode := mk_ecode "unused-ignore" None false None.
Definition ignore_without_code_code : ecode := mk_ecode "ignore-without-code" None false None.

Definition eff_ignores (c : cfg) : dict := if has_ignores c then ignores c else [].
Definition enabledb (c : cfg) (cd : ecode) : bool := is_error_code_enabled (disabled c) (enabled c) cd.
Definition ignoredb (c : cfg) (l : Z) (i : info) : bool :=
  is_ignored_error (disabled c) (enabled c) l i (ignores c).

Definition code_or_misc (i : info) : ecode := match icode i with Some cd => cd | None => misc end.

(* for scope_line in lines: if self.is_ignored_error(scope_line, ...) *)
Fixpoint first_ignored (c : cfg) (lines : list Z) (i : info) : option Z :=
  match lines with
  | [] => None
  | l :: t => if ignoredb c l i then Some l else first_ignored c t i
  end.

Inductive verdict :=
| Suppressed (mark : option (Z * string))   (* dropped by an ignore / disabled code; mark = used entry *)
| IgnoredFile                               (* dropped: file in ignored_files *)
| Passed.

Definition classify (c : cfg) (i : info) : verdict :=
  if iblocker i then Passed
  else match (if has_ignores c then first_ignored c (ispan i) i else None) with
       | Some l => if enabledb c (code_or_misc i)
                   then Suppressed (Some (l, cname (code_or_misc i)))
                   else Suppressed None
       | None => if ignore_all c then IgnoredFile else Passed
       end.

Definition quote (s : string) : string := String """"%char (s ++ String """"%char "").

Definition cover_msg (cd : ecode) (codes : list string) : string :=
  let dflt := "Error code " ++ quote (cname cd) ++ " not covered by "
              ++ quote ("type: ignore[" ++ join ", " codes ++ "]") ++ " comment" in
  match corig cd with
  | Some old => if mem_str old codes
                then "Error code changed to " ++ cname cd ++ "; " ++ quote "type: ignore"
                     ++ " comment may be out of date"
                else dflt
  | None => dflt
  end.

(* the note added after an error that got through on a line whose ignore lists other codes *)
Definition cover_note (c : cfg) (i : info) : list info :=
  let codes := dict_get (eff_ignores c) (iline i) in
  match icode i with
  | Some cd => if list_empty codes then []
               else [mk_info (-1) (iline i) (icol i) (ispan i) None false false false
                             (cover_msg cd codes) None (itarget i)]
  | None => []
  end.

Definition add_error_info (c : cfg) (s : st) (i : info) : st :=
  match classify c i with
  | Suppressed (Some m) => mk_st (out s) (used s ++ [m]) (once s)
  | Suppressed None => s
  | IgnoredFile => s
  | Passed =>
      if ionce i && mem_str (imsg i) (once s) then s
      else mk_st (out s ++ i :: cover_note c i) (used s)
                 (if ionce i then once s ++ [imsg i] else once s)
  end.

Definition run (c : cfg) (E : list info) : st := fold_left (add_error_info c) E init.

(* ---- generate_unused_ignore_errors / generate_ignore_without_code_errors ---------------- *)
Definition used_at (u : list (Z * string)) (l : Z) : list string :=
  map snd (filter (fun m => fst m =? l) u).

Definition simple_error (line : Z) (msg : string) (cd : ecode) : info :=
  mk_info (-1) line (-1) [line] (Some cd) true false false msg None "".

Fixpoint lookup_sub (m : list (string * list string)) (k : string) : list string :=
  match m with [] => [] | (k', v) :: t => if String.eqb k k' then v else lookup_sub t k end.

Definition narrower_msg (c : cfg) (usedc : list string) (u : string) : string :=
  let n := filter (fun x => mem_str x usedc) (lookup_sub (sub_map c) u) in
  if list_empty n then ""
  else ", use narrower [" ++ join ", " n ++ "] instead of [" ++ u ++ "] code".

Definition unused_msg (c : cfg) (codes unused usedc : list string) : string :=
  "Unused " ++ quote ("type: ignore" ++
     (if (1 <? len codes) && negb (list_empty unused) then "[" ++ join ", " unused ++ "]" else ""))
  ++ " comment" ++ String.concat "" (map (narrower_msg c usedc) unused).

Definition unused_ignore_one (c : cfg) (u : list (Z * string)) (entry : Z * list string) : list info :=
  let '(line, codes) := entry in
  if mem_Z line (skipped c) then []
  else if mem_str "unused-ignore" codes then []
  else let usedc := used_at u line in
       let unused := filter (fun x => negb (mem_str x usedc)) codes in
       if list_empty codes && negb (list_empty usedc) then []
       else if negb (list_empty codes) && list_empty unused then []
       else [simple_error line (unused_msg c codes unused usedc) unused_ignore_code].

Definition unused_ignore_errors (c : cfg) (s : st) : list info :=
  flat_map (unused_ignore_one c (used s)) (ignores c).

Definition generate_unused_ignore_errors (c : cfg) (is_typeshed : bool) (s : st) : st :=
  if is_typeshed || ignore_all c then s
  else mk_st (out s ++ unused_ignore_errors c s) (used s) (once s).

(* sorted(set(l)) on ASCII strings *)
Fixpoint insert_sorted (x : string) (l : list string) : list string :=
  match l with
  | [] => [x]
  | y :: t => if String.eqb x y then l else if String.leb x y then x :: l else y :: insert_sorted x t
  end.
Definition sorted_set (l : list string) : list string := fold_right insert_sorted [] l.

Definition without_code_one (c : cfg) (warn_unused : bool) (u : list (Z * string))
           (entry : Z * list string) : list info :=
  let '(line, codes) := entry in
  if mem_Z line (skipped c) then []
  else if negb (list_empty codes) then []
  else let usedc := used_at u line in
       if warn_unused && list_empty usedc then []
       else let hint := if list_empty usedc then ""
                        else " (consider " ++ quote ("type: ignore[" ++ join ", " (sorted_set usedc) ++ "]")
                             ++ " instead)" in
            [simple_error line (quote "type: ignore" ++ " comment without error code" ++ hint)
                          ignore_without_code_code].

Definition generate_ignore_without_code_errors (c : cfg) (warn_unused is_typeshed : bool) (s : st) : st :=
  if is_typeshed || ignore_all c then s
  else mk_st (out s ++ flat_map (without_code_one c warn_unused (used s)) (ignores c)) (used s) (once s).

(* ---- remove_duplicates: per line, by (severity, message); notes with a parent follow it --- *)
Definition dkey : Type := (Z * bool * string)%type.
Definition key_of (e : info) : dkey := (iline e, ierror e, imsg e).
Definition dkey_eqb (a b : dkey) : bool :=
  let '(l1, s1, m1) := a in let '(l2, s2, m2) := b in (l1 =? l2) && Bool.eqb s1 s2 && String.eqb m1 m2.
Fixpoint mem_key (k : dkey) (l : list dkey) : bool :=
  match l with [] => false | x :: t => dkey_eqb k x || mem_key k t end.

Fixpoint rd_pass (errs : list info) (seen : list dkey) : list info * list Z :=
  match errs with
  | [] => ([], [])
  | e :: t =>
      if is_some (iparent e) then let '(f, r) := rd_pass t seen in (e :: f, r)
      else if mem_key (key_of e) seen then let '(f, r) := rd_pass t seen in (f, iid e :: r)
      else let '(f, r) := rd_pass t (key_of e :: seen) in (e :: f, r)
  end.

Definition remove_duplicates (errs : list info) : list info :=
  let '(f, removed) := rd_pass errs [] in
  filter (fun e => match iparent e with None => true | Some p => negb (mem_Z p removed) end) f.

(* ---- what is printed, as far as the exit status is concerned ----------------------------- *)
(* format_messages_default, one line per message:  f"{srcloc}: {severity}: {message}" + "  [code]" *)
Record pmsg := mk_pmsg {
  psrc : string;       (* srcloc: file[:line[:column]] *)
  perror : bool;       (* severity == "error" *)
  ptext : string       (* message text followed by the optional "  [code]" *)
}.
Definition fmt (m : pmsg) : string :=
  psrc m ++ ": " ++ (if perror m then "error" else "note") ++ ": " ++ ptext m.

Definition code_suffix (hide_codes : bool) (show_note_codes : list string) (e : info) : string :=
  match icode e with
  | Some cd => if negb hide_codes && (ierror e || mem_str (cname cd) show_note_codes)
               then "  [" ++ cname cd ++ "]" else ""
  | None => ""
  end.
Definition to_pmsg (srcloc : info -> string) (hide_codes : bool) (show_note_codes : list string)
           (e : info) : pmsg :=
  mk_pmsg (srcloc e) (ierror e) (imsg e ++ code_suffix hide_codes show_note_codes e).

(* process exit status of a run whose printed messages are `msgs`; blockers = CompileError raised *)
Definition exit_status (msgs : list pmsg) (blockers : bool) : Z := exit_code (map fmt msgs) blockers.
