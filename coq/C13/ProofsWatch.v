(* C13 proofs, part 7: ErrorWatchers.  With the code shape in which notes attached to an admitted info bypass
   the watcher stack (reentry = false) the watchers never observe anything that depends on ignore comments and
   ignore_exact generalises; with re-entry (reentry = true) a non-matching ignore comment changes what a watcher
   observes (has_new_errors). *)
From Coq Require Import ZArith List String Ascii Bool Lia.
From C13 Require Import Types Model Proofs.
Import ListNotations.
Open Scope list_scope.
Open Scope Z_scope.

(* w filters i (static: depends on the watcher's configuration only) *)
Definition wants (w : watcher) (i : info) : bool :=
  negb (is_deprecated i && negb (wfdep w)) && wfilter w i.
Definition stack_filters (ws : list watcher) (i : info) : bool := existsb (fun w => wants w i) ws.
Definition observe (ws : list watcher) (i : info) : list watcher := fst (filter_stack ws i).

Lemma on_error_snd : forall w i, snd (on_error w i) = wants w i.
Proof. intros. unfold on_error, wants. destruct (is_deprecated i && negb (wfdep w)); reflexivity. Qed.

Lemma on_error_wants : forall w i j, wants (fst (on_error w i)) j = wants w j.
Proof. intros. unfold on_error, wants. destruct (is_deprecated i && negb (wfdep w)); reflexivity. Qed.

Lemma on_error_idem : forall w i, snd (on_error w i) = false ->
  on_error (fst (on_error w i)) i = (fst (on_error w i), false).
Proof.
  intros w i. unfold on_error. destruct (is_deprecated i && negb (wfdep w)) eqn:D; simpl.
  - intros _. now rewrite D.
  - intros H. rewrite D, H. simpl. reflexivity.
Qed.

Lemma filter_stack_snd : forall ws i, snd (filter_stack ws i) = stack_filters ws i.
Proof.
  induction ws as [|w t IH]; intros i; simpl; [reflexivity|].
  pose proof (on_error_snd w i) as H. destruct (on_error w i) as [w' f]. simpl in H. subst f.
  destruct (wants w i); simpl; [reflexivity|].
  specialize (IH i). destruct (filter_stack t i) as [t' f']. simpl in *. exact IH.
Qed.

Lemma filter_stack_static : forall ws i j, stack_filters (observe ws i) j = stack_filters ws j.
Proof.
  unfold observe. induction ws as [|w t IH]; intros i j; simpl; [reflexivity|].
  pose proof (on_error_wants w i j) as H. destruct (on_error w i) as [w' f]. simpl in H.
  destruct f; simpl; [now rewrite H|].
  specialize (IH i j). destruct (filter_stack t i) as [t' f']. simpl in *. now rewrite H, IH.
Qed.

Lemma filter_stack_idem : forall ws i, snd (filter_stack ws i) = false ->
  filter_stack (observe ws i) i = (observe ws i, false).
Proof.
  unfold observe. induction ws as [|w t IH]; intros i; simpl; [reflexivity|].
  pose proof (on_error_idem w i) as H. destruct (on_error w i) as [w' f]. simpl in H.
  destruct f; simpl; [discriminate|]. intros Hs.
  specialize (IH i). destruct (filter_stack t i) as [t' f']. simpl in *. subst f'.
  rewrite (H eq_refl), (IH eq_refl). reflexivity.
Qed.

Lemma add_notes_false : forall ws notes, add_notes false ws notes = (ws, notes).
Proof. induction notes as [|n t IH]; simpl; [reflexivity|]. now rewrite IH. Qed.

(* ---- reentry = false: what the stack observes is a function of the stream alone *)
Lemma step_stack : forall c s i, wstack (add_error_info_w false c s i) = observe (wstack s) i.
Proof.
  intros c s i. unfold add_error_info_w, observe.
  pose proof (filter_stack_idem (wstack s) i) as ID. unfold observe in ID.
  destruct (filter_stack (wstack s) i) as [ws1 f1]. simpl in *.
  destruct f1; [reflexivity|]. rewrite (ID eq_refl).
  destruct (classify c i) as [[m|]| |]; try reflexivity.
  destruct (ionce i && mem_str (imsg i) (once (wcore s))); [reflexivity|].
  rewrite add_notes_false. reflexivity.
Qed.

Lemma stack_fold : forall c E s,
  wstack (fold_left (add_error_info_w false c) E s) = fold_left observe E (wstack s).
Proof. induction E as [|i E IH]; intros s; simpl; [reflexivity|]. now rewrite IH, step_stack. Qed.

Lemma watchers_independent_proof : forall c c' ws E,
  wstack (run_w false c ws E) = wstack (run_w false c' ws E).
Proof. intros. unfold run_w. now rewrite !stack_fold. Qed.

Lemma stack_filters_fold : forall E ws j, stack_filters (fold_left observe E ws) j = stack_filters ws j.
Proof. induction E as [|i E IH]; intros; simpl; [reflexivity|]. now rewrite IH, filter_stack_static. Qed.

Lemma run_w_gen : forall c E s,
  out (wcore (fold_left (add_error_info_w false c) E s))
  = out (wcore s) ++ flat_map (emit c)
      (dedup_once_from (once (wcore s)) (filter (fun i => negb (stack_filters (wstack s) i) && visible c i) E)).
Proof.
  induction E as [|i E IH]; intros s; simpl; [now rewrite app_nil_r|].
  rewrite IH. clear IH.
  assert (FE : forall l, filter (fun j => negb (stack_filters (wstack (add_error_info_w false c s i)) j) && visible c j) l
                         = filter (fun j => negb (stack_filters (wstack s) j) && visible c j) l).
  { intros l. apply filter_ext. intros j. now rewrite step_stack, filter_stack_static. }
  rewrite FE. clear FE.
  rewrite <- (filter_stack_snd (wstack s) i). rewrite <- kept_visible.
  unfold add_error_info_w.
  pose proof (filter_stack_idem (wstack s) i) as ID. unfold observe in ID.
  destruct (filter_stack (wstack s) i) as [ws1 f1]. simpl in ID. simpl snd.
  destruct f1; simpl; [reflexivity|]. rewrite (ID eq_refl). clear ID.
  unfold kept. destruct (classify c i) as [[m|]| |]; simpl; try reflexivity.
  destruct (ionce i) eqn:O; simpl.
  - destruct (mem_str (imsg i) (once (wcore s))); simpl; [reflexivity|].
    rewrite add_notes_false. simpl. rewrite <- app_assoc. reflexivity.
  - rewrite add_notes_false. simpl. rewrite <- app_assoc. reflexivity.
Qed.

Lemma ignore_exact_with_watchers_proof : forall c ws E,
  out (wcore (run_w false c ws E))
  = flat_map (emit c) (dedup_once (filter (fun i => negb (stack_filters ws i) && visible c i) E)).
Proof. intros. unfold run_w. rewrite run_w_gen. reflexivity. Qed.

(* ---- reentry = true: the witness (a deprecated warning under a filtering watcher, and a non-matching ignore) *)
Definition dep_code : ecode := mk_ecode "deprecated" None false None.
Definition w_cfg : cfg := mk_cfg [] true false [] [] ["deprecated"%string] [].
Definition w_info : info :=
  info0 0 8 0 [8] (Some dep_code) true false false "function A.__add__ is deprecated: no A + int" None "m".
Definition w_stack : list watcher := [mk_w (fun _ => true) false false false false []].

Lemma watcher_reentry_witness : forall reentry, reentry = true ->
  has_ignores w_cfg = true /\ dict_has (ignores w_cfg) 8 = false /\
  (forall i, In i [w_info] -> classify (add_ignore w_cfg 8 ["override"%string]) i = classify w_cfg i) /\
  map wnew (wstack (run_w reentry (add_ignore w_cfg 8 ["override"%string]) w_stack [w_info]))
  <> map wnew (wstack (run_w reentry w_cfg w_stack [w_info])).
Proof.
  intros reentry ->. split; [reflexivity|]. split; [reflexivity|]. split.
  - intros i [<-|[]]. vm_compute. reflexivity.
  - vm_compute. discriminate.
Qed.
