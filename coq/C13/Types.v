(* C13: data types and the small library of Python-operation transcriptions used by the
   regenerated predicates (Gen.ErrorsCore) and by the hand model (C13.Model).  Definitions only. *)
From Coq Require Import ZArith List String Ascii Bool.
Import ListNotations.
Open Scope string_scope.
Open Scope Z_scope.

(* mypy.errorcodes.ErrorCode: equality/hash are by `code` only; sub-codes are never nested
   (asserted in ErrorCode.__init__), so `sub_code_of` is represented by the parent's name. *)
Record ecode := mk_ecode {
  cname : string;            (* .code *)
  csub : option string;      (* .sub_code_of.code *)
  cdef : bool;               (* .default_enabled *)
  corig : option string      (* errors.original_error_codes.get(self).code *)
}.

(* mypy.errors.ErrorInfo, the fields read by the suppression / output logic *)
Record info := mk_info {
  iid : Z;                   (* identity of the object (position in the reported stream) *)
  iline : Z;
  icol : Z;
  iendline : Z;
  iendcol : Z;
  ispan : list Z;            (* origin_span, never empty (`origin_span or [line]`) *)
  icode : option ecode;
  ierror : bool;             (* severity == "error" (else "note") *)
  iblocker : bool;
  ionce : bool;              (* only_once *)
  imsg : string;
  iparent : option Z;        (* iid of parent_error *)
  itarget : string;          (* fine-grained target: carried, never read here *)
  ictx : Z;                  (* import_ctx, by identity of the context (compared with == only) *)
  iprio : Z;                 (* priority *)
  ihidden : bool             (* hidden (set by the many-errors limiter) *)
}.
Definition set_hidden (i : info) : info :=
  mk_info (iid i) (iline i) (icol i) (iendline i) (iendcol i) (ispan i) (icode i) (ierror i) (iblocker i)
          (ionce i) (imsg i) (iparent i) (itarget i) (ictx i) (iprio i) true.
Definition unhide (i : info) : info :=
  mk_info (iid i) (iline i) (icol i) (iendline i) (iendcol i) (ispan i) (icode i) (ierror i) (iblocker i)
          (ionce i) (imsg i) (iparent i) (itarget i) (ictx i) (iprio i) false.

(* an info as reported by Errors.report with default end position, context and priority *)
Definition info0 (id line col : Z) (span : list Z) (code : option ecode) (error blocker once : bool)
           (msg : string) (parent : option Z) (target : string) : info :=
  mk_info id line col line (col + 1) span code error blocker once msg parent target 0 0 false.

Definition dict := list (Z * list string).      (* ignored_lines[file]: insertion-ordered *)

(* ---- Python operations on str / list / dict / set, total transcriptions ---------------- *)
Fixpoint mem_str (x : string) (l : list string) : bool :=
  match l with [] => false | y :: t => String.eqb x y || mem_str x t end.
Fixpoint mem_Z (x : Z) (l : list Z) : bool :=
  match l with [] => false | y :: t => (x =? y) || mem_Z x t end.

Fixpoint dict_has (d : dict) (k : Z) : bool :=
  match d with [] => false | (k', _) :: t => (k =? k') || dict_has t k end.
(* d[k]; every translated use is guarded by `k in d` (else KeyError), [] is never observed *)
Fixpoint dict_get (d : dict) (k : Z) : list string :=
  match d with [] => [] | (k', v) :: t => if k =? k' then v else dict_get t k end.

Definition list_empty {A} (l : list A) : bool := match l with [] => true | _ => false end.
Definition is_some {A} (o : option A) : bool := match o with Some _ => true | None => false end.
Definition len {A} (l : list A) : Z := Z.of_nat (List.length l).

(* needle is a prefix of hay *)
Fixpoint str_prefix (needle hay : string) : bool :=
  match needle, hay with
  | EmptyString, _ => true
  | String a n', String b h' => Ascii.eqb a b && str_prefix n' h'
  | String _ _, EmptyString => false
  end.
(* hay.find(needle) shifted by pos; -1 when absent *)
Fixpoint str_find_from (needle hay : string) (pos : Z) : Z :=
  if str_prefix needle hay then pos
  else match hay with
       | EmptyString => -1
       | String _ h' => str_find_from needle h' (pos + 1)
       end.
Definition str_find (needle hay : string) : Z := str_find_from needle hay 0.
(* needle in hay *)
Fixpoint str_contains (needle hay : string) : bool :=
  str_prefix needle hay ||
  match hay with EmptyString => false | String _ h' => str_contains needle h' end.
(* s.split(sep)[0] for a one-character sep *)
Fixpoint str_split_head (sep : ascii) (s : string) : string :=
  match s with
  | EmptyString => EmptyString
  | String c t => if Ascii.eqb c sep then EmptyString else String c (str_split_head sep t)
  end.
Definition sep_char (s : string) : ascii := match s with String c _ => c | EmptyString => ":"%char end.
(* len({...}) of a set built from a list *)
Fixpoint str_nodup (l : list string) : list string :=
  match l with [] => [] | x :: t => if mem_str x t then str_nodup t else x :: str_nodup t end.
Definition opt_str_eqb (o : option string) (s : string) : bool :=
  match o with Some x => String.eqb x s | None => false end.

Fixpoint join (sep : string) (l : list string) : string :=
  match l with [] => "" | [x] => x | x :: t => x ++ sep ++ join sep t end.
