(* C17 — model of mypy's configuration resolution (executable definitions only, no proofs).

   Source anchors (all in /repo):
     mypy/options.py        compile_glob, build_per_module_cache, clone_for_module, apply_changes
     mypy/config_parser.py  parse_config_file (dict insertion of sections), parse_section (code-list defaults,
                            inversion branch), parse_mypy_comments
     mypy/main.py           process_options (config first, then command line), invert_flag_name
     mypy/build.py          State.apply_inline_configuration (apply_changes of the inline comment, last)

   Abstraction: a section key / module name "a.*.b" is the list of its dot-separated components
   ["a";"*";"b"] (Python: s.split(".")).  The string-level tests of the source are transcribed on
   components; this reading is checked against the real strings by the correspondence stage:
       "*" in k[:-1]        ~  some component other than the last is "*"     (is_unstructured)
       k.endswith(".*")     ~  at least two components and the last is "*"   (ends_dot_star)
       sorted(keys)         ~  insertion sort by code-point order of the dot-joined string (key_leb)
       compile_glob(k).match(module) ~ glob_match on components (regex engine itself not modelled). *)
From Coq Require Import List String Ascii Bool Arith.
Import ListNotations.
Open Scope string_scope.
Open Scope list_scope.

Definition comp := string.
Definition key := list comp.
Definition star : comp := "*".
Definition is_star (c : comp) : bool := String.eqb c star.

Fixpoint key_eqb (a b : key) : bool :=
  match a, b with
  | [], [] => true
  | x :: a', y :: b' => String.eqb x y && key_eqb a' b'
  | _, _ => false
  end.

(* ---------------------------------------------------------------- string order used by sorted() *)
Fixpoint codes (s : string) : list nat :=
  match s with EmptyString => [] | String a s' => nat_of_ascii a :: codes s' end.
Definition dot : nat := 46.
Definition star_code : nat := 42.
(* code points of ".".join(k)  (UTF-8 byte order = code point order) *)
Fixpoint joinc (k : key) : list nat :=
  match k with
  | [] => []
  | c :: rest => match rest with [] => codes c | _ => codes c ++ dot :: joinc rest end
  end.
Fixpoint lex_cmp (a b : list nat) : comparison :=
  match a, b with
  | [], [] => Eq
  | [], _ => Lt
  | _, [] => Gt
  | x :: a', y :: b' => match Nat.compare x y with Eq => lex_cmp a' b' | c => c end
  end.
Definition key_leb (a b : key) : bool :=
  match lex_cmp (joinc a) (joinc b) with Gt => false | _ => true end.

Section Sort.
  Variable A : Type.
  Variable leb : A -> A -> bool.
  Fixpoint insert (x : A) (l : list A) : list A :=
    match l with [] => [x] | y :: l' => if leb x y then x :: l else y :: insert x l' end.
  Fixpoint isort (l : list A) : list A :=
    match l with [] => [] | x :: l' => insert x (isort l') end.
End Sort.
Arguments insert {A}. Arguments isort {A}.

(* ---------------------------------------------------------------- classification of section keys *)
Definition is_unstructured (k : key) : bool := existsb is_star (removelast k).
Definition ends_dot_star (k : key) : bool := Nat.leb 2 (List.length k) && is_star (last k ""%string).
Definition is_wild (k : key) : bool := negb (is_unstructured k) && ends_dot_star k.
Definition is_concrete (k : key) : bool := negb (is_unstructured k) && negb (ends_dot_star k).

(* ---------------------------------------------------------------- compile_glob(...).match(module)
   first part: the escaped literal, or dot-star; later parts: escaped dot + literal, or an optional
   group (escaped dot, dot-star); then end of string.
   On components: a literal consumes exactly that component; a later star consumes zero or more
   components; a LEADING star (dot-star followed by a part that starts with an escaped dot, or by
   the end) consumes one or more. *)
Fixpoint any_suffix (f : list comp -> bool) (m : list comp) : bool :=
  f m || match m with [] => false | _ :: m' => any_suffix f m' end.
Fixpoint match_rest (ps : list comp) : list comp -> bool :=
  match ps with
  | [] => fun m => match m with [] => true | _ => false end
  | p :: ps' =>
      if is_star p
      then any_suffix (match_rest ps')
      else fun m => match m with c :: m' => String.eqb c p && match_rest ps' m' | [] => false end
  end.
Definition glob_match (pat : key) (m : list comp) : bool :=
  match pat with
  | [] => false
  | p0 :: ps =>
      match m with
      | [] => false
      | c :: m' => if is_star p0 then match_rest (star :: ps) m' else String.eqb c p0 && match_rest ps m'
      end
  end.

(* ---------------------------------------------------------------- dictionaries *)
Fixpoint lookup {A : Type} (l : list (key * A)) (k : key) : option A :=
  match l with
  | [] => None
  | (k', a) :: l' => if key_eqb k' k then Some a else lookup l' k
  end.
(* d[k] = a on an insertion-ordered dict: an existing key keeps its position *)
Fixpoint dict_set {A : Type} (d : list (key * A)) (k : key) (a : A) : list (key * A) :=
  match d with
  | [] => [(k, a)]
  | (k', a') :: d' => if key_eqb k' k then (k', a) :: d' else (k', a') :: dict_set d' k a
  end.
(* parse_config_file: for each section (in file order), for each glob of its comma list:
   options.per_module_options[glob] = updates *)
Definition pmo_of_sections {A : Type} (secs : list (list key * A)) : list (key * A) :=
  fold_left (fun d s => fold_left (fun d g => dict_set d g (snd s)) (fst s) d) secs [].
(* the same sections as a flat list in file order (what the documentation talks about) *)
Definition flat_sections {A : Type} (secs : list (list key * A)) : list (key * A) :=
  flat_map (fun s => map (fun g => (g, snd s)) (fst s)) secs.

Definition opt_list {A : Type} (o : option A) : list A := match o with Some a => [a] | None => [] end.

(* ================================================================ generic resolution
   Opts = an Options object, Ch = a dict of changes, apply = Options.apply_changes *)
Section Generic.
  Variables (Opts Ch : Type) (apply : Opts -> Ch -> Opts).
  Definition pmo_t := list (key * Ch).
  Definition cache_t := list (key * Opts).

  Definition unstr_entries (pmo : pmo_t) : pmo_t := filter (fun e => is_unstructured (fst e)) pmo.
  Definition structured (pmo : pmo_t) : pmo_t := filter (fun e => negb (is_unstructured (fst e))) pmo.
  Definition entry_leb (a b : key * Ch) : bool := key_leb (fst a) (fst b).
  Definition wildcards (pmo : pmo_t) : pmo_t :=
    isort entry_leb (filter (fun e => ends_dot_star (fst e)) (structured pmo)).
  Definition concrete (pmo : pmo_t) : pmo_t :=
    filter (fun e => negb (ends_dot_star (fst e))) (structured pmo).

  (* for i in range(len(path), 0, -1): key = path[:i] + ["*"]; if key in cache: ...; break *)
  Fixpoint find_parent (cache : cache_t) (self : Opts) (m : key) (i : nat) : Opts :=
    match i with
    | 0 => self
    | S j => match lookup cache (firstn (S j) m ++ [star])%list with
             | Some o => o
             | None => find_parent cache self m j
             end
    end.

  (* clone_for_module with the cache and the glob list as they are at the time of the call *)
  Definition clone_with (cache : cache_t) (globs : pmo_t) (self : Opts) (m : key) : Opts :=
    match lookup cache m with
    | Some o => o
    | None =>
        let base := find_parent cache self m (List.length m) in
        if ends_dot_star m then base
        else fold_left (fun o e => if glob_match (fst e) m then apply o (snd e) else o) globs base
    end.

  (* build_per_module_cache: for key in wildcards + concrete:
       cache[key] = self.clone_for_module(key).apply_changes(self.per_module_options[key]) *)
  Definition build_step (globs : pmo_t) (self : Opts) (cache : cache_t) (e : key * Ch) : cache_t :=
    cache ++ [(fst e, apply (clone_with cache globs self (fst e)) (snd e))].
  Definition build (pmo : pmo_t) (self : Opts) : cache_t :=
    fold_left (build_step (unstr_entries pmo) self) (wildcards pmo ++ concrete pmo) [].

  Definition model_clone (pmo : pmo_t) (self : Opts) (m : key) : Opts :=
    clone_with (build pmo self) (unstr_entries pmo) self m.

  (* ---- the documented order, as lists of sections (config_file.rst "config-precedence") *)
  Definition sec_concrete (pmo : pmo_t) (m : key) : list Ch :=
    map snd (filter (fun e => is_concrete (fst e) && key_eqb (fst e) m) pmo).
  Definition sec_unstructured (pmo : pmo_t) (m : key) : list Ch :=
    map snd (filter (fun e => is_unstructured (fst e) && glob_match (fst e) m) pmo).
  (* the well-structured wildcard  m[:i].*  (it matches m and its submodules) *)
  Definition sec_structured_at (pmo : pmo_t) (m : key) (i : nat) : list Ch :=
    map snd (filter (fun e => is_wild (fst e) && key_eqb (fst e) (firstn i m ++ [star])%list) pmo).
  (* highest precedence first:
       2. concrete module name
       3. unstructured wildcards, later in the file overriding earlier
       4. well-structured wildcards, more specific overriding more general *)
  Definition precedence_list (pmo : pmo_t) (m : key) : list Ch :=
    rev (sec_concrete pmo m) ++ rev (sec_unstructured pmo m)
    ++ flat_map (fun i => rev (sec_structured_at pmo m i)) (rev (seq 1 (List.length m))).
End Generic.

(* ================================================================ concrete Options *)
Inductive val := VBool (b : bool) | VNum (n : nat) | VStr (s : string) | VList (l : list string) | VNone.
Definition changes := list (string * val).

(* the Options attributes that matter here: plain attributes by name, and the two derived sets *)
Record opts := { get : string -> val; dis : string -> bool; en : string -> bool }.

(* value bound by a dict of changes (a later binding of the same name wins) *)
Fixpoint ch_get (ch : changes) (k : string) : option val :=
  match ch with
  | [] => None
  | (k', v) :: r => match ch_get r k with
                    | Some v' => Some v'
                    | None => if String.eqb k' k then Some v else None
                    end
  end.
Definition as_list (v : val) : list string := match v with VList l => l | _ => [] end.
Definition truthy (v : val) : bool :=
  match v with VBool b => b | VNum n => negb (Nat.eqb n 0) | VStr s => negb (String.eqb s "")
             | VList l => match l with [] => false | _ => true end | VNone => false end.
Definition sadd (c : string) (s : string -> bool) : string -> bool := fun x => String.eqb x c || s x.
Definition sdel (c : string) (s : string -> bool) : string -> bool := fun x => negb (String.eqb x c) && s x.
Definition imipm : string := "ignore_missing_imports_per_module".

(* Options.apply_changes *)
Definition apply_changes (o : opts) (ch : changes) : opts :=
  let g0 := fun k => match ch_get ch k with Some v => v | None => get o k end in
  let g := if match ch_get ch "ignore_missing_imports" with Some v => truthy v | None => false end
           then (fun k => if String.eqb k imipm then VBool true else g0 k) else g0 in
  let de1 := fold_left (fun de c => (sadd c (fst de), sdel c (snd de)))
                       (as_list (g "disable_error_code")) (dis o, en o) in
  let ed2 := fold_left (fun ed c => (sadd c (fst ed), sdel c (snd ed)))
                       (as_list (g "enable_error_code")) (snd de1, fst de1) in
  {| get := g; dis := snd ed2; en := fst ed2 |}.

(* parse_section's tail: the two code lists are always present in the result *)
Definition with_code_defaults (ch : changes) : changes :=
  (match ch_get ch "disable_error_code" with Some _ => [] | None => [("disable_error_code", VList [])] end)
  ++ (match ch_get ch "enable_error_code" with Some _ => [] | None => [("enable_error_code", VList [])] end)
  ++ ch.
Definition has_code_lists (ch : changes) : bool :=
  match ch_get ch "disable_error_code", ch_get ch "enable_error_code" with
  | Some (VList _), Some (VList _) => true | _, _ => false end.

(* first section of a precedence-ordered list that sets the option / mentions the code *)
Fixpoint first_setting (l : list changes) (k : string) : option val :=
  match l with
  | [] => None
  | ch :: r => match ch_get ch k with Some v => Some v | None => first_setting r k end
  end.
Definition mem (c : string) (l : list string) : bool := existsb (String.eqb c) l.
Definition ch_code (ch : changes) (c : string) : option bool :=
  let el := match ch_get ch "enable_error_code" with Some v => as_list v | None => [] end in
  let dl := match ch_get ch "disable_error_code" with Some v => as_list v | None => [] end in
  if mem c el then Some true else if mem c dl then Some false else None.
Fixpoint first_code (l : list changes) (c : string) : option bool :=
  match l with
  | [] => None
  | ch :: r => match ch_code ch c with Some b => Some b | None => first_code r c end
  end.

(* ---------------------------------------------------------------- global options: process_options
   options = Options(); parse_config_file: setattr for each update of [mypy];
   then argparse over the same object: store / store_true / store_false overwrite, append extends *)
Inductive cli_act := Store (v : val) | Append (s : string).
Definition set_attr (g : string -> val) (k : string) (v : val) : string -> val :=
  fun x => if String.eqb x k then v else g x.
Definition apply_updates (g : string -> val) (ch : changes) : string -> val :=
  fold_left (fun g kv => set_attr g (fst kv) (snd kv)) ch g.
Definition apply_cli (g : string -> val) (cli : list (string * cli_act)) : string -> val :=
  fold_left (fun g ka => match snd ka with
                         | Store v => set_attr g (fst ka) v
                         | Append s => set_attr g (fst ka) (VList (as_list (g (fst ka)) ++ [s]))
                         end) cli g.
Definition global_get (defaults : string -> val) (cfg : changes) (cli : list (string * cli_act)) : string -> val :=
  apply_cli (apply_updates defaults cfg) cli.
Fixpoint cli_last_store (cli : list (string * cli_act)) (k : string) : option val :=
  match cli with
  | [] => None
  | (k', a) :: r => match cli_last_store r k with
                    | Some v => Some v
                    | None => match a with Store v => if String.eqb k' k then Some v else None | Append _ => None end
                    end
  end.
Definition cli_appends (cli : list (string * cli_act)) (k : string) : bool :=
  existsb (fun ka => match snd ka with Append _ => String.eqb (fst ka) k | Store _ => false end) cli.

(* ---------------------------------------------------------------- the whole pipeline for one module *)
Definition model_options (defaults : string -> val) (gdis gen : string -> bool)
           (cfg : changes) (cli : list (string * cli_act))
           (pmo : list (key * changes)) (inline : option changes) (m : key) : opts :=
  let self := {| get := global_get defaults cfg cli; dis := gdis; en := gen |} in
  let o := model_clone opts changes apply_changes pmo self m in
  match inline with Some ch => apply_changes o ch | None => o end.

Definition model_resolve defaults gdis gen cfg cli pmo inline m (k : string) : val :=
  get (model_options defaults gdis gen cfg cli pmo inline m) k.

(* documented precedence, transcribed:
     1 inline, 2 concrete, 3 unstructured (later wins), 4 structured (more specific wins),
     5 command line, 6 top-level config, (7 built-in default) *)
Definition spec_resolve (defaults : string -> val) (cfg : changes) (cli : list (string * cli_act))
           (pmo : list (key * changes)) (inline : option changes) (m : key) (k : string) : val :=
  match first_setting (opt_list inline ++ precedence_list changes pmo m) k with
  | Some v => v
  | None => match cli_last_store cli k with
            | Some v => v
            | None => match ch_get cfg k with Some v => v | None => defaults k end
            end
  end.
(* error codes: the highest-precedence section that mentions the code decides (enable beats disable
   inside one section); otherwise the global sets *)
Definition spec_code (gdis gen : string -> bool) (pmo : list (key * changes)) (inline : option changes)
           (m : key) (c : string) : bool * bool (* (enabled, disabled) *) :=
  match first_code (opt_list inline ++ precedence_list changes pmo m) c with
  | Some b => (b, negb b)
  | None => (gen c, gdis c)
  end.

(* ---------------------------------------------------------------- documented pattern semantics
   "Stars match zero or more module components" *)
Inductive doc_match : list comp -> list comp -> Prop :=
| DM_nil : doc_match [] []
| DM_lit : forall c ps m, is_star c = false -> doc_match ps m -> doc_match (c :: ps) (c :: m)
| DM_star : forall ps skipped m, doc_match ps m -> doc_match (star :: ps) (skipped ++ m).
(* what the code does: as documented, except that a leading star needs at least one component *)
Inductive impl_match : list comp -> list comp -> Prop :=
| IM_lit : forall c ps m, is_star c = false -> doc_match ps m -> impl_match (c :: ps) (c :: m)
| IM_star : forall ps c skipped m, doc_match ps m -> impl_match (star :: ps) (c :: skipped ++ m).

(* ---------------------------------------------------------------- flag spelling (main.py / parse_section) *)
Fixpoint str_drop (n : nat) (s : string) : string :=
  match n, s with 0, _ => s | S n', String _ s' => str_drop n' s' | S _, EmptyString => EmptyString end.
Fixpoint str_index_dash (s : string) : option nat :=
  match s with
  | EmptyString => None
  | String a s' => if Ascii.eqb a "-"%char then Some 0 else option_map S (str_index_dash s')
  end.
Fixpoint assoc (l : list (string * string)) (k : string) : option string :=
  match l with [] => None | (a, b) :: r => if String.eqb a k then Some b else assoc r k end.
(* flag_prefix_map built from flag_prefix_pairs: both directions; a later pair overwrites *)
Definition prefix_map (pairs : list (string * string)) : list (string * string) :=
  rev (flat_map (fun ab => [(fst ab, snd ab); (snd ab, fst ab)]) pairs).
(* invert_flag_name *)
Definition invert_flag_name (pairs : list (string * string)) (flag : string) : string :=
  let body := str_drop 2 flag in
  match str_index_dash body with
  | Some i =>
      let prefix := substring 0 i body in
      let rest := str_drop (S i) body in
      match assoc (prefix_map pairs) prefix with
      | Some q => ("--" ++ q ++ "-" ++ rest)%string
      | None => if String.eqb prefix "no" then ("--" ++ rest)%string else ("--no-" ++ body)%string
      end
  | None => ("--no-" ++ body)%string
  end.
Fixpoint dash_to_us (s : string) : string :=
  match s with
  | EmptyString => EmptyString
  | String a s' => String (if Ascii.eqb a "-"%char then "_"%char else a) (dash_to_us s')
  end.
(* argparse: dest of "--foo-bar" is foo_bar *)
Definition flag_dest (flag : string) : string := dash_to_us (str_drop 2 flag).
Definition starts_with (p s : string) : bool := String.eqb (substring 0 (String.length p) s) p.

(* one row per add_invertible_flag call: (flag, explicit inverse, default, explicit dest) *)
Definition inv_row := (string * option string * bool * option string)%type.
(* accepted command-line spellings with the (dest, value) they store *)
Definition cli_spellings (pairs : list (string * string)) (rows : list inv_row) : list (string * (string * bool)) :=
  flat_map (fun r => match r with (flag, inverse, default, dest) =>
     let inv := match inverse with Some i => i | None => invert_flag_name pairs flag end in
     let d := match dest with Some d => d | None => flag_dest flag end in
     [(flag, (d, negb default)); (inv, (d, default))] end) rows.

(* parse_section for a key whose value text is a boolean: which attribute is set and whether the value is
   inverted.  attrs = attribute table of Options (name, Some default-if-bool / None-if-default-is-None,
   other types are tagged by [nonbool]); typed = keys of ini_config_types with "is bool" flag;
   rules = inversion rules (prefix, chars dropped from the key, prefix added), tried in order. *)
Inductive attr_kind := ABool (default : bool) | ANone | AOther.
Fixpoint attr_lookup (attrs : list (string * attr_kind)) (k : string) : option attr_kind :=
  match attrs with [] => None | (a, t) :: r => if String.eqb a k then Some t else attr_lookup r k end.
Definition inv_rule := (string * nat * string)%type.
Fixpoint try_rules (attrs : list (string * attr_kind)) (rules : list inv_rule) (key : string) : option string :=
  match rules with
  | [] => None
  | (p, dropn, addp) :: r =>
      let cand := (addp ++ str_drop dropn key)%string in
      if starts_with p key && match attr_lookup attrs cand with Some _ => true | None => false end
      then Some cand else try_rules attrs r key
  end.
Inductive cfg_res := CSet (dest : string) (invert : bool) | CNotBool | CUnrecognized | CStrict.
Definition config_norm (attrs : list (string * attr_kind)) (typed : list (string * bool))
           (aliases : list (string * string)) (rules : list inv_rule) (key : string) : cfg_res :=
  let okey := match assoc aliases key with Some a => a | None => key end in
  match attr_lookup (map (fun kb : string * bool => (fst kb, if snd kb then ABool false else AOther)) typed) key with
  | Some (ABool _) => if String.eqb key "strict" then CStrict else CSet okey false
  | Some _ => CNotBool
  | None =>
      match attr_lookup attrs okey with
      | Some (ABool _) => CSet okey false
      | Some AOther => CNotBool
      | _ => (* attribute missing or None *)
          if starts_with "x_" key then CUnrecognized
          else match try_rules attrs rules key with
               | Some d => match attr_lookup attrs d with
                           | Some (ABool _) => CSet d true
                           | Some ANone => CUnrecognized   (* ct is None: "Don't know what type" *)
                           | _ => CNotBool
                           end
               | None => CUnrecognized
               end
      end
  end.

(* ================================================================ --strict / strict = True
   main.py: add_invertible_flag(..., strict_flag=True) appends (dest, not default) to strict_flag_assignments;
   process_options.set_strict_flags sets them all.  It runs (a) inside parse_section when the key "strict" of
   ANY section is true (the section's own updates are applied after the section is parsed), (b) after the
   config file when --strict is on the command line, before the real command-line parse. *)
Definition strict_assignments (pairs : list (string * string)) (rows : list inv_row) (sflags : list string)
  : list (string * bool) :=
  flat_map (fun r => match r with (flag, _, default, dest) =>
     if mem flag sflags then [(match dest with Some d => d | None => flag_dest flag end, negb default)] else [] end) rows.
Definition set_strict (sa : list (string * bool)) (g : string -> val) : string -> val :=
  fold_left (fun g dv => set_attr g (fst dv) (VBool (snd dv))) sa g.
Fixpoint sa_get (sa : list (string * bool)) (k : string) : option bool :=
  match sa with
  | [] => None
  | (d, b) :: r => match sa_get r k with Some b' => Some b' | None => if String.eqb d k then Some b else None end
  end.
(* global options with strict: [mypy] strict, [mypy-...] strict (yes: it sets the GLOBAL flags), --strict *)
Definition global_get_strict (sa : list (string * bool)) (defaults : string -> val)
           (cfg : changes) (cfg_strict pm_strict : bool) (cli : list (string * cli_act)) (cli_strict : bool) : string -> val :=
  let g0 := if cfg_strict then set_strict sa defaults else defaults in
  let g1 := apply_updates g0 cfg in
  let g2 := if pm_strict then set_strict sa g1 else g1 in
  let g3 := if cli_strict then set_strict sa g2 else g2 in
  apply_cli g3 cli.
Definition strict_val (on : bool) (sa : list (string * bool)) (k : string) : option val :=
  if on then option_map VBool (sa_get sa k) else None.
(* documented reading: explicit command-line flag > --strict > (strict of a per-module section) > explicit
   [mypy] key > strict = True of [mypy] > default *)
Definition spec_global_strict sa defaults cfg cfg_strict pm_strict cli cli_strict (k : string) : val :=
  match cli_last_store cli k with Some v => v | None =>
  match strict_val cli_strict sa k with Some v => v | None =>
  match strict_val pm_strict sa k with Some v => v | None =>
  match ch_get cfg k with Some v => v | None =>
  match strict_val cfg_strict sa k with Some v => v | None => defaults k end end end end end.

(* ================================================================ value conversions of config_parser
   (pure part: str.split / str.strip on ASCII; expand_path, glob, re are not modelled) *)
Definition is_ws (a : ascii) : bool :=
  let n := nat_of_ascii a in (Nat.eqb n 32) || (Nat.leb 9 n && Nat.leb n 13) || (Nat.leb 28 n && Nat.leb n 31).
Fixpoint lstrip (s : string) : string :=
  match s with String a r => if is_ws a then lstrip r else s | EmptyString => EmptyString end.
Fixpoint rstrip (s : string) : string :=
  match s with
  | EmptyString => EmptyString
  | String a r => match rstrip r with
                  | EmptyString => if is_ws a then EmptyString else String a EmptyString
                  | r' => String a r'
                  end
  end.
Definition strip (s : string) : string := rstrip (lstrip s).
(* s.split(sep) / re.split("[..]", s) for a one-character separator class: never returns [] *)
Fixpoint split_by (p : ascii -> bool) (s : string) : list string :=
  match s with
  | EmptyString => [EmptyString]
  | String a r => if p a then EmptyString :: split_by p r
                  else match split_by p r with h :: t => String a h :: t | [] => [String a EmptyString] end
  end.
Definition is_comma (a : ascii) : bool := Ascii.eqb a ","%char.
Definition is_comma_colon (a : ascii) : bool := Ascii.eqb a ","%char || Ascii.eqb a ":"%char.
(* if items and items[-1] == "": items.pop(-1) *)
Definition pop_last_empty (l : list string) : list string :=
  match rev l with EmptyString :: r => rev r | _ => l end.
Definition split_commas (s : string) : list string := pop_last_empty (split_by is_comma s).
(* ini: lambda s: [p.strip() for p in split_commas(s)] *)
Definition ini_list (s : string) : list string := map strip (split_commas s).
(* toml: try_split(v) on a str (strip BEFORE the pop) and on a list *)
Definition try_split_str (p : ascii -> bool) (s : string) : list string := pop_last_empty (map strip (split_by p s)).
Definition try_split_list (l : list string) : list string := map strip l.
(* exclude: ini [s.strip()], toml str_or_array_as_list *)
Definition ini_exclude (s : string) : list string := [strip s].
Definition nonempty (s : string) : bool := match s with EmptyString => false | _ => true end.
Definition str_or_array_str (s : string) : list string := if nonempty (strip s) then [strip s] else [].
Definition str_or_array_list (l : list string) : list string := map strip (filter (fun p => nonempty (strip p)) l).
Fixpoint join_with (sep : string) (l : list string) : string :=
  match l with [] => EmptyString | [x] => x | x :: r => (x ++ sep ++ join_with sep r)%string end.

(* parse_version: \A(\d)\.(\d+)\Z on ASCII digits *)
Definition digit_val (a : ascii) : option nat :=
  let n := nat_of_ascii a in if Nat.leb 48 n && Nat.leb n 57 then Some (n - 48) else None.
Fixpoint digits_val (s : string) (acc : nat) : option nat :=
  match s with
  | EmptyString => Some acc
  | String a r => match digit_val a with Some d => digits_val r (10 * acc + d) | None => None end
  end.
Inductive pv_res := PVOk (major minor : nat) | PVTooOld (* VersionTypeError: config falls back to the minimum, the command line exits *) | PVError.
Definition parse_version (min_minor : nat) (s : string) : pv_res :=
  match s with
  | String a (String d r) =>
      match digit_val a, Ascii.eqb d "."%char, r with
      | Some major, true, String _ _ =>
          match digits_val r 0 with
          | Some minor =>
              if Nat.eqb major 2 && Nat.eqb minor 7 then PVOk 2 7
              else if Nat.eqb major 3 then (if Nat.ltb minor min_minor then PVTooOld else PVOk 3 minor)
              else PVError
          | None => PVError
          end
      | _, _, _ => PVError
      end
  | _ => PVError
  end.

(* ================================================================ inline "# mypy:" comments
   split_directive: commas split, double quotes protect, an unterminated quote drops the current part *)
Definition quote : ascii := """"%char.
Fixpoint split_directive_go (s : string) (cur : string) (inq : bool) : list string * bool :=
  match s with
  | EmptyString => if inq then ([], true)
                   else ((if nonempty cur then [strip cur] else []), false)
  | String a r =>
      if inq then (if Ascii.eqb a quote then split_directive_go r cur false
                   else split_directive_go r (cur ++ String a EmptyString)%string true)
      else if is_comma a then let pe := split_directive_go r EmptyString false in (strip cur :: fst pe, snd pe)
      else if Ascii.eqb a quote then split_directive_go r cur true
      else split_directive_go r (cur ++ String a EmptyString)%string false
  end.
Definition split_directive (s : string) : list string * bool := split_directive_go s EmptyString false.
Fixpoint index_eq (s : string) : option nat :=
  match s with
  | EmptyString => None
  | String a r => if Ascii.eqb a "="%char then Some 0 else option_map S (index_eq r)
  end.
Fixpoint us_of_dash (s : string) : string :=
  match s with EmptyString => EmptyString
             | String a r => String (if Ascii.eqb a "-"%char then "_"%char else a) (us_of_dash r) end.
(* mypy_comments_to_config_map on one entry: (name, value) *)
Definition comment_entry (e : string) : string * string :=
  match index_eq e with
  | None => (us_of_dash e, "True")
  | Some i => (us_of_dash (strip (substring 0 i e)), strip (str_drop (S i) e))
  end.
(* what parse_mypy_comments does with one (lower-case) key whose value is a boolean text *)
Inductive inline_res := IAccept (dest : string) (invert : bool) | IRejectVersion | IRejectStrict | IRejectReport
                        | IUnrecognized | INotBool.
Definition ends_with (suffix s : string) : bool :=
  let n := String.length s in let k := String.length suffix in
  Nat.leb k n && String.eqb (substring (n - k) k s) suffix.
Definition inline_norm (attrs : list (string * attr_kind)) (typed : list (string * bool))
           (aliases : list (string * string)) (rules : list inv_rule) (reporters : list string) (key : string) : inline_res :=
  if String.eqb key "python_version" then IRejectVersion
  else match config_norm attrs typed aliases rules key with
       | CSet d inv => IAccept d inv
       | CStrict => IRejectStrict
       | CNotBool => INotBool
       | CUnrecognized => IUnrecognized
       end.

(* ================================================================ pyproject.toml: destructure_overrides
   [[tool.mypy.overrides]] tables, each with a module list and raw key/value settings, are flattened to
   "mypy-<module>" sections: every module gets ITS OWN COPY of the table; a module that already has a
   section is merged key by key, and two different values for one key raise ConfigTOMLValueError (the
   whole file is then ignored).  Raw keys are compared before parse_section (no_x and x do not clash). *)
Fixpoint list_eqb (a b : list string) : bool :=
  match a, b with
  | [], [] => true
  | x :: a', y :: b' => String.eqb x y && list_eqb a' b'
  | _, _ => false
  end.
Definition val_eqb (a b : val) : bool :=
  match a, b with
  | VBool x, VBool y => Bool.eqb x y
  | VNum x, VNum y => Nat.eqb x y
  | VStr x, VStr y => String.eqb x y
  | VList x, VList y => list_eqb x y
  | VNone, VNone => true
  | _, _ => false
  end.
(* d[k] = v on a dict of settings *)
Fixpoint ch_set (ch : changes) (k : string) (v : val) : changes :=
  match ch with
  | [] => [(k, v)]
  | (k', v') :: r => if String.eqb k' k then (k', v) :: r else (k', v') :: ch_set r k v
  end.
(* for new_key, new_value in module_overrides.items(): conflict check, then result[name][new_key] = new_value *)
Fixpoint merge_override (old new : changes) : option changes :=
  match new with
  | [] => Some old
  | (k, v) :: r =>
      match ch_get old k with
      | Some v' => if val_eqb v' v then merge_override (ch_set old k v) r else None
      | None => merge_override (ch_set old k v) r
      end
  end.
Fixpoint destructure_modules (d : list (key * changes)) (mods : list key) (ch : changes) : option (list (key * changes)) :=
  match mods with
  | [] => Some d
  | m :: r =>
      match lookup d m with
      | None => destructure_modules (d ++ [(m, ch)]) r ch
      | Some old => match merge_override old ch with
                    | Some merged => destructure_modules (dict_set d m merged) r ch
                    | None => None
                    end
      end
  end.
Fixpoint destructure_go (d : list (key * changes)) (tables : list (list key * changes)) : option (list (key * changes)) :=
  match tables with
  | [] => Some d
  | t :: r => match destructure_modules d (fst t) (snd t) with
              | Some d' => destructure_go d' r
              | None => None
              end
  end.
Definition destructure_overrides (tables : list (list key * changes)) : option (list (key * changes)) :=
  destructure_go [] tables.
(* per_module_options as read from pyproject.toml / from the same tables written as [mypy-m1,m2] ini sections *)
Definition pmo_of_toml (tables : list (list key * changes)) : option (list (key * changes)) :=
  option_map (map (fun e => (fst e, with_code_defaults (snd e)))) (destructure_overrides tables).
Definition pmo_of_ini (tables : list (list key * changes)) : list (key * changes) :=
  pmo_of_sections (map (fun t => (fst t, with_code_defaults (snd t))) tables).

(* ================================================================ config-file discovery (_find_config_file)
   candidates of one directory, in order: CONFIG_NAMES ++ SHARED_CONFIG_NAMES; a candidate is used iff
   _parse_individual_file returns non-None: it exists, it parses, and -- for pyproject.toml -- has a
   [tool.mypy] table / -- for a SHARED name (setup.cfg) -- has a [mypy] section.  mypy.ini / .mypy.ini
   without a [mypy] section IS used.  The walk goes up until a directory containing .git or .hg (inclusive)
   or the filesystem root; then USER_CONFIG_FILES in order. *)
Inductive fdesc := FAbsent | FPresent (parses has_section : bool).
Definition usable (shared : bool) (f : fdesc) : bool :=
  match f with FPresent true s => if shared then s else true | _ => false end.
(* a directory: one fdesc per candidate name (paired with "is a shared name"), and "contains .git/.hg" *)
Definition dirdesc := (list (bool * fdesc) * bool)%type.
Fixpoint first_usable (fs : list (bool * fdesc)) (i : nat) : option nat :=
  match fs with
  | [] => None
  | (sh, f) :: r => if usable sh f then Some i else first_usable r (S i)
  end.
Inductive found := InTree (depth name_index : nat) | UserFile (index : nat).
(* dirs: the current directory first, then its parents up to the filesystem root *)
Fixpoint walk_up (dirs : list dirdesc) (depth : nat) : option found :=
  match dirs with
  | [] => None
  | (fs, is_repo_root) :: r =>
      match first_usable fs 0 with
      | Some i => Some (InTree depth i)
      | None => if is_repo_root then None else walk_up r (S depth)
      end
  end.
Definition find_config_file (dirs : list dirdesc) (user : list fdesc) : option found :=
  match walk_up dirs 0 with
  | Some x => Some x
  | None => option_map UserFile (first_usable (map (fun f => (false, f)) user) 0)
  end.
(* documented: all candidates in one list -- directory by directory up to and including the repository root,
   then the user files -- and the first usable one wins *)
Fixpoint searched_dirs (dirs : list dirdesc) : list dirdesc :=
  match dirs with [] => [] | d :: r => if snd d then [d] else d :: searched_dirs r end.
Fixpoint number_from {A : Type} (l : list A) (i : nat) : list (nat * A) :=
  match l with [] => [] | x :: r => (i, x) :: number_from r (S i) end.
Definition candidates (dirs : list dirdesc) (user : list fdesc) : list (found * (bool * fdesc)) :=
  flat_map (fun dd => map (fun nf => (InTree (fst dd) (fst nf), snd nf)) (number_from (fst (snd dd)) 0))
           (number_from (searched_dirs dirs) 0)
  ++ map (fun nf => (UserFile (fst nf), (false, snd nf))) (number_from user 0).
Definition spec_find_config (dirs : list dirdesc) (user : list fdesc) : option found :=
  option_map fst (find (fun c => usable (fst (snd c)) (snd (snd c))) (candidates dirs user)).
