(* C17: --strict / strict = True, value conversions (comma lists), inline-comment acceptance *)
From Coq Require Import List String Ascii Bool Arith Lia.
From C17 Require Import Model ProofsOptions ProofsFlags.
From Gen Require Import Flags.
Import ListNotations.
Open Scope list_scope.

(* ---------------------------------------------------------------- strict *)
Lemma set_strict_get : forall sa g k,
    set_strict sa g k = match sa_get sa k with Some b => VBool b | None => g k end.
Proof.
  unfold set_strict. induction sa as [|[d b] r IH]; intros g k; simpl; auto.
  rewrite IH. destruct (sa_get r k); auto.
  unfold set_attr. simpl. rewrite (String.eqb_sym k d). destruct (String.eqb d k); auto.
Qed.

Lemma if_strict : forall (on : bool) (sa : list (string * bool)) (g : string -> val) (k : string),
    (if on then set_strict sa g else g) k = match strict_val on sa k with Some v => v | None => g k end.
Proof.
  intros [|] sa g k; unfold strict_val; simpl; auto.
  rewrite set_strict_get. destruct (sa_get sa k); reflexivity.
Qed.

Theorem strict_precedence : forall sa defaults cfg cfg_strict pm_strict cli cli_strict k,
    cli_appends cli k = false ->
    global_get_strict sa defaults cfg cfg_strict pm_strict cli cli_strict k
    = spec_global_strict sa defaults cfg cfg_strict pm_strict cli cli_strict k.
Proof.
  intros sa defaults cfg cfg_strict pm_strict cli cli_strict k H.
  unfold global_get_strict, spec_global_strict.
  rewrite apply_cli_get by exact H. destruct (cli_last_store cli k); auto.
  rewrite if_strict. destruct (strict_val cli_strict sa k); auto.
  rewrite if_strict. destruct (strict_val pm_strict sa k); auto.
  rewrite apply_updates_get. destruct (ch_get cfg k); auto.
  apply if_strict.
Qed.

Definition the_strict_set : list (string * bool) := strict_assignments flag_prefix_pairs invertible_flags strict_flags.

(* `strict = True` alone in [mypy] and `--strict` alone on the command line give the same global options *)
Corollary strict_sources_agree : forall defaults k,
    global_get_strict the_strict_set defaults [] true false [] false k
    = global_get_strict the_strict_set defaults [] false false [] true k.
Proof.
  intros. rewrite !strict_precedence by reflexivity. unfold spec_global_strict, strict_val. simpl.
  destruct (sa_get the_strict_set k); reflexivity.
Qed.

Fixpoint nodupb (l : list string) : bool :=
  match l with [] => true | x :: r => negb (mem x r) && nodupb r end.
(* every strict flag is declared, names a boolean attribute, and strict flips it away from its default *)
Definition strict_entry_ok (dv : string * bool) : bool :=
  match attr_lookup option_attrs (fst dv) with Some (ABool d) => Bool.eqb d (negb (snd dv)) | _ => false end.
Lemma strict_table_ok :
  forallb strict_entry_ok the_strict_set = true
  /\ List.length the_strict_set = List.length strict_flags
  /\ nodupb (map fst the_strict_set) = true.
Proof. repeat split; vm_compute; reflexivity. Qed.

(* ---------------------------------------------------------------- comma lists *)
Definition no_ws (s : string) : Prop := forall a, In a (list_ascii_of_string s) -> is_ws a = false.
Definition no_sep (p : ascii -> bool) (s : string) : Prop := forall a, In a (list_ascii_of_string s) -> p a = false.
Definition clean (p : ascii -> bool) (s : string) : Prop := no_ws s /\ no_sep p s /\ s <> EmptyString.

Lemma lstrip_no_ws : forall s, no_ws s -> lstrip s = s.
Proof. intros [|a r] H; simpl; auto. rewrite (H a); simpl; auto. Qed.
Lemma rstrip_no_ws : forall s, no_ws s -> rstrip s = s.
Proof.
  induction s as [|a r IH]; intros H; simpl; auto.
  rewrite IH by (intros b Hb; apply H; simpl; auto).
  destruct r; auto. rewrite (H a); simpl; auto.
Qed.
Lemma strip_no_ws : forall s, no_ws s -> strip s = s.
Proof. intros. unfold strip. rewrite lstrip_no_ws by auto. apply rstrip_no_ws; auto. Qed.
Lemma lstrip_pad : forall pad s, (forall a, In a (list_ascii_of_string pad) -> is_ws a = true) ->
    lstrip (pad ++ s)%string = lstrip s.
Proof.
  induction pad as [|a r IH]; intros s H; simpl; auto.
  rewrite (H a) by (simpl; auto). apply IH. intros b Hb. apply H. simpl. auto.
Qed.

Lemma split_by_clean : forall p s, no_sep p s -> split_by p s = [s].
Proof.
  induction s as [|a r IH]; intros H; simpl; auto.
  rewrite (H a) by (simpl; auto). rewrite IH; auto. intros b Hb. apply H. simpl. auto.
Qed.
Lemma split_by_app : forall p x c rest, no_sep p x -> p c = true ->
    split_by p (x ++ String c rest)%string = x :: split_by p rest.
Proof.
  induction x as [|a r IH]; intros c rest H Hc; simpl.
  - rewrite Hc. reflexivity.
  - rewrite (H a) by (simpl; auto). rewrite IH; auto. intros b Hb. apply H. simpl. auto.
Qed.

(* a separator: one separating character followed by whitespace padding that contains no separator *)
Record sep_ok (p : ascii -> bool) (c : ascii) (pad : string) : Prop :=
  { sep_c : p c = true;
    pad_ws : forall a, In a (list_ascii_of_string pad) -> is_ws a = true;
    pad_nosep : no_sep p pad }.

Lemma no_sep_app : forall p x y, no_sep p x -> no_sep p y -> no_sep p (x ++ y)%string.
Proof.
  induction x as [|a r IH]; intros y Hx Hy; simpl; auto.
  intros b [Hb|Hb]; [apply Hx; simpl; auto|]. eapply IH; eauto. intros d Hd. apply Hx. simpl. auto.
Qed.

Lemma split_by_prefix : forall p pad s, no_sep p pad ->
    split_by p (pad ++ s)%string = match split_by p s with h :: t => (pad ++ h)%string :: t | [] => [pad] end.
Proof.
  induction pad as [|a r IH]; intros s H; simpl.
  - destruct s; simpl; auto. destruct (p a); auto. destruct (split_by p s); auto.
  - rewrite (H a) by (simpl; auto). rewrite IH by (intros b Hb; apply H; simpl; auto).
    destruct (split_by p s); auto.
Qed.

Lemma split_join_raw : forall p c pad x items, sep_ok p c pad -> Forall (clean p) (x :: items) ->
    split_by p (join_with (String c pad) (x :: items)) = x :: map (fun y => (pad ++ y)%string) items.
Proof.
  intros p c pad x items [Hc Hws Hns]. revert x. induction items as [|y r IH]; intros x HF.
  - inversion HF as [|? ? [Hx1 [Hx2 Hx3]] _]; subst. simpl. apply split_by_clean; auto.
  - inversion HF as [|? ? [Hx1 [Hx2 Hx3]] HF']; subst.
    change (join_with (String c pad) (x :: y :: r))
      with (x ++ String c (pad ++ join_with (String c pad) (y :: r)))%string.
    rewrite split_by_app by auto. f_equal.
    rewrite split_by_prefix by auto. rewrite IH by auto. reflexivity.
Qed.

Lemma strip_pad_clean : forall p pad y, (forall a, In a (list_ascii_of_string pad) -> is_ws a = true) ->
    clean p y -> strip (pad ++ y)%string = y.
Proof.
  intros p pad y Hws [Hy1 _]. unfold strip. rewrite lstrip_pad by auto.
  rewrite lstrip_no_ws by auto. apply rstrip_no_ws; auto.
Qed.

Lemma map_strip_pad : forall p pad r, (forall a, In a (list_ascii_of_string pad) -> is_ws a = true) ->
    Forall (clean p) r -> map (fun x => strip (pad ++ x)%string) r = r.
Proof.
  intros p pad r Hws HF. induction HF as [|y r' Hy _ IH]; simpl; auto.
  rewrite (strip_pad_clean p pad y Hws Hy). congruence.
Qed.

Lemma split_join : forall p c pad items, sep_ok p c pad -> Forall (clean p) items -> items <> [] ->
    map strip (split_by p (join_with (String c pad) items)) = items.
Proof.
  intros p c pad items Hs HF Hne. destruct items as [|x r]; [congruence|].
  rewrite (split_join_raw p c pad x r Hs HF). destruct Hs as [Hc Hws Hns].
  inversion HF as [|? ? [Hx1 _] HF']; subst. simpl. rewrite strip_no_ws by auto. f_equal.
  rewrite map_map. apply (map_strip_pad p); auto.
Qed.

Lemma pop_last_nonempty : forall l, (forall l' , l <> l' ++ [EmptyString]) -> pop_last_empty l = l.
Proof.
  intros l H. unfold pop_last_empty. destruct (rev l) as [|x r] eqn:E; auto.
  destruct x; auto. exfalso. apply (H (rev r)).
  rewrite <- (rev_involutive l), E. reflexivity.
Qed.

Lemma clean_list_no_trailing_empty : forall p items l', Forall (clean p) items -> items <> l' ++ [EmptyString].
Proof.
  intros p items l' HF E. subst. rewrite Forall_forall in HF.
  destruct (HF EmptyString) as [_ [_ H]]; [apply in_or_app; right; left; auto|congruence].
Qed.

(* the same list of names through: --flag A --flag B (argparse append) = the list itself;
   ini  key = A, B ; toml key = "A, B" ; toml key = ["A", "B"] *)
Theorem comma_lists_agree : forall pad items,
    (forall a, In a (list_ascii_of_string pad) -> is_ws a = true) ->
    Forall (clean is_comma) items ->
    let text := join_with (String ","%char pad) items in
    ini_list text = items /\ try_split_str is_comma text = items /\ try_split_list items = items.
Proof.
  intros pad items Hws HF text.
  assert (Hs : sep_ok is_comma ","%char pad).
  { constructor; auto. intros a Ha. specialize (Hws a Ha). unfold is_comma.
    destruct (Ascii.eqb a ","%char) eqn:E; auto. apply Ascii.eqb_eq in E. subst. discriminate. }
  assert (Hl : try_split_list items = items).
  { unfold try_split_list. induction HF as [|x r [Hx _] _ IH]; simpl; auto. rewrite strip_no_ws by auto. congruence. }
  destruct items as [|x r].
  - repeat split; reflexivity.
  - assert (Hne : x :: r <> []) by congruence.
    split; [|split; auto].
    + unfold ini_list, split_commas, text. rewrite (split_join_raw _ _ _ x r Hs HF).
      rewrite pop_last_nonempty.
      * rewrite <- (split_join_raw _ _ _ x r Hs HF). apply split_join; auto.
      * intros l' E.
        assert (In EmptyString (x :: map (fun y => (pad ++ y)%string) r)) by (rewrite E; apply in_or_app; right; left; auto).
        destruct H as [H|H].
        -- inversion HF as [|? ? [_ [_ Hx]] _]; subst. congruence.
        -- apply in_map_iff in H. destruct H as [y [Ey Hy]]. rewrite Forall_forall in HF.
           destruct (HF y (or_intror Hy)) as [_ [_ Hy3]]. destruct pad; simpl in Ey; [congruence|discriminate].
    + unfold try_split_str, text. rewrite split_join by auto.
      apply pop_last_nonempty. intros l'. apply (clean_list_no_trailing_empty is_comma); auto.
Qed.

(* the two readers differ on a trailing ", " : ini keeps an empty name, toml drops it *)
Lemma trailing_separator_differs :
  ini_list "A, " = ["A"%string; EmptyString] /\ try_split_str is_comma "A, " = ["A"%string].
Proof. split; vm_compute; reflexivity. Qed.

Lemma follow_imports_choices_agree : follow_imports_choices_cli = follow_imports_choices_cfg.
Proof. reflexivity. Qed.

Example parse_version_examples :
  parse_version python3_min_minor "3.12" = PVOk 3 12 /\ parse_version python3_min_minor "3.9" = PVTooOld
  /\ parse_version python3_min_minor "3.012" = PVOk 3 12 /\ parse_version python3_min_minor "4.0" = PVError
  /\ parse_version python3_min_minor "3." = PVError /\ parse_version python3_min_minor "2.7" = PVOk 2 7.
Proof. repeat split; vm_compute; reflexivity. Qed.

(* ---------------------------------------------------------------- inline comments *)
Definition inl (key : string) : inline_res := inline_norm option_attrs typed_keys key_aliases inversion_rules [] key.
Definition inline_bool_ok (k : string) : bool :=
  negb (bool_attr k) ||
  (match inl k with IAccept d false => String.eqb d k | _ => false end
   && match inl ("no_" ++ k) with IAccept d true => String.eqb d k | IAccept d false => String.eqb d ("no_" ++ k) | _ => false end).
(* every boolean per-module option can be set and inverted inline *)
Lemma inline_per_module_bools : forallb inline_bool_ok per_module_options = true.
Proof. vm_compute. reflexivity. Qed.
(* inline comments are NOT restricted to per-module options (config-file sections are): listed *)
Definition inline_accepted_globals : list string :=
  filter (fun k => negb (mem k per_module_options) && match inl k with IAccept _ _ => true | _ => false end)
         (map fst option_attrs).
Lemma inline_accepts_global_options :
  In "warn_unused_configs"%string inline_accepted_globals /\ In "pretty"%string inline_accepted_globals
  /\ inl "python_version" = IRejectVersion /\ inl "strict" = IRejectStrict.
Proof. repeat split; vm_compute; auto 200. Qed.

(* ---------------------------------------------------------------- pyproject overrides *)
From C17 Require Import ProofsResolve.

Lemma dict_set_fresh : forall (A : Type) (d : list (key * A)) k a,
    lookup d k = None -> dict_set d k a = d ++ [(k, a)].
Proof.
  induction d as [|[k' a'] d IH]; simpl; intros k a H; auto.
  destruct (key_eqb k' k); [discriminate|]. rewrite IH; auto.
Qed.

Lemma lookup_snoc_fresh : forall (A : Type) (d : list (key * A)) k a k2,
    lookup d k2 = None -> k <> k2 -> lookup (d ++ [(k, a)]) k2 = None.
Proof.
  intros. rewrite lookup_app, H. simpl. destruct (key_eqb k k2) eqn:E; auto.
  apply key_eqb_eq in E. congruence.
Qed.

(* when no module is listed twice, the overrides tables and the same tables written as [mypy-m1,m2] sections
   give the same per_module_options: the flat list of sections in file order *)
Lemma destructure_modules_fresh : forall mods ch d,
    NoDup mods -> (forall m, In m mods -> lookup d m = None) ->
    destructure_modules d mods ch = Some (d ++ map (fun m => (m, ch)) mods).
Proof.
  induction mods as [|m r IH]; intros ch d ND H; simpl.
  - rewrite app_nil_r. reflexivity.
  - rewrite (H m) by (left; auto). inversion ND as [|? ? Hn ND']; subst.
    rewrite IH; auto.
    + rewrite <- app_assoc. reflexivity.
    + intros m2 Hm2. apply lookup_snoc_fresh; [apply H; right; auto|]. intros E. subst. contradiction.
Qed.

Lemma ini_modules_fresh : forall (A : Type) mods (ch : A) d,
    NoDup mods -> (forall m, In m mods -> lookup d m = None) ->
    fold_left (fun d g => dict_set d g ch) mods d = d ++ map (fun m => (m, ch)) mods.
Proof.
  induction mods as [|m r IH]; intros ch d ND H; simpl.
  - rewrite app_nil_r. reflexivity.
  - rewrite dict_set_fresh by (apply H; left; auto). inversion ND as [|? ? Hn ND']; subst.
    rewrite IH; auto.
    + rewrite <- app_assoc. reflexivity.
    + intros m2 Hm2. apply lookup_snoc_fresh; [apply H; right; auto|]. intros E. subst. contradiction.
Qed.

Lemma lookup_app_none : forall (A : Type) (d e : list (key * A)) k,
    lookup d k = None -> ~ In k (map fst e) -> lookup (d ++ e) k = None.
Proof. intros. rewrite lookup_app, H. apply lookup_none. auto. Qed.

Lemma destructure_go_fresh : forall tables d,
    NoDup (List.concat (map fst tables)) ->
    (forall m, In m (List.concat (map fst tables)) -> lookup d m = None) ->
    destructure_go d tables = Some (d ++ flat_sections tables).
Proof.
  induction tables as [|[mods ch] r IH]; intros d ND H; simpl.
  - rewrite app_nil_r. reflexivity.
  - simpl in ND, H. assert (ND1 : NoDup mods) by (eapply nodup_app_l; eauto).
    rewrite destructure_modules_fresh; auto.
    2:{ intros m Hm. apply H. apply in_or_app. auto. }
    rewrite IH.
    + unfold flat_sections. simpl. rewrite <- app_assoc. reflexivity.
    + clear - ND. induction mods; simpl in *; auto. inversion ND; auto.
    + intros m Hm. apply lookup_app_none; [apply H; apply in_or_app; auto|].
      rewrite map_map. simpl. rewrite map_id. intros C.
      clear - ND C Hm. induction mods as [|x mods IHm]; simpl in *; [contradiction|].
      inversion ND as [|? ? Hn ND']; subst. destruct C as [C|C]; [subst; apply Hn; apply in_or_app; auto|auto].
Qed.

Lemma ini_go_fresh : forall (A : Type) (tables : list (list key * A)) d,
    NoDup (List.concat (map fst tables)) ->
    (forall m, In m (List.concat (map fst tables)) -> lookup d m = None) ->
    fold_left (fun d s => fold_left (fun d g => dict_set d g (snd s)) (fst s) d) tables d = d ++ flat_sections tables.
Proof.
  induction tables as [|[mods ch] r IH]; intros d ND H; simpl.
  - rewrite app_nil_r. reflexivity.
  - simpl in ND, H. assert (ND1 : NoDup mods) by (eapply nodup_app_l; eauto).
    rewrite ini_modules_fresh; auto.
    2:{ intros m Hm. apply H. apply in_or_app. auto. }
    rewrite IH.
    + unfold flat_sections. simpl. rewrite <- app_assoc. reflexivity.
    + clear - ND. induction mods; simpl in *; auto. inversion ND; auto.
    + intros m Hm. apply lookup_app_none; [apply H; apply in_or_app; auto|].
      rewrite map_map. simpl. rewrite map_id. intros C.
      clear - ND C Hm. induction mods as [|x mods IHm]; simpl in *; [contradiction|].
      inversion ND as [|? ? Hn ND']; subst. destruct C as [C|C]; [subst; apply Hn; apply in_or_app; auto|auto].
Qed.

Theorem toml_ini_agree : forall tables,
    NoDup (List.concat (map fst tables)) ->
    pmo_of_toml tables = Some (pmo_of_ini tables).
Proof.
  intros tables ND. unfold pmo_of_toml, pmo_of_ini, destructure_overrides, pmo_of_sections.
  rewrite destructure_go_fresh by (auto; intros; reflexivity). simpl.
  rewrite ini_go_fresh.
  - simpl. f_equal. unfold flat_sections. rewrite !flat_map_concat_map, concat_map, !map_map.
    f_equal. apply map_ext. intros [mods ch]. simpl. rewrite !map_map. reflexivity.
  - rewrite map_map. simpl. exact ND.
  - intros; reflexivity.
Qed.

(* every module gets its own copy: a later table for a alone does not reach b; conflicting values raise *)
Open Scope string_scope.
Lemma overrides_own_copy :
  pmo_of_toml [([["a"]; ["b"]], [("x", VNum 1)]); ([["a"]], [("z", VNum 1)])]
  = Some [(["a"], with_code_defaults [("x", VNum 1); ("z", VNum 1)]); (["b"], with_code_defaults [("x", VNum 1)])]
  /\ pmo_of_toml [([["a"]; ["b"]], [("x", VNum 1)]); ([["a"]], [("x", VNum 2)])] = None.
Proof. split; vm_compute; reflexivity. Qed.
