(* Full-strength statements of property C17 over the model, always visible. *)
From Coq Require Import List String Bool.
From C17 Require Import Model ProofsSort.
Import ListNotations.

(* Precedence "as documented" for EVERY configuration: any list of sections in file order (a pattern may
   be listed in several sections), every module name, every option. *)
Definition precedence_as_documented : Prop :=
  forall defaults gdis gen cfg cli (secs : list (list key * changes)) inline m k,
    ends_dot_star m = false -> k <> imipm -> cli_appends cli k = false ->
    model_resolve defaults gdis gen cfg cli (pmo_of_sections secs) inline m k
    = spec_resolve defaults cfg cli (flat_sections secs) inline m k.
(* FALSE on the current tree:
     Properties.later_section_wins_refuted  (a pattern repeated in a later section does not win)
     Properties.resolve_needs_wf            (components starting with a character below '*')
   proved instead: Properties.resolve_eq_spec under NoDup patterns + wf_names. *)

(* The matcher implements the documented pattern language ("stars match zero or more components"),
   and every pattern with a star is matched by it. *)
Definition matcher_as_documented : Prop :=
  forall pat m, glob_match pat m = true <-> doc_match pat m.
(* FALSE: Properties.leading_star_zero_refuted; and the bare pattern "*" never reaches the matcher
   (Properties.bare_star_refuted).  Proved instead: Properties.glob_match_spec (exact semantics). *)

(* Inline comments are a source for per-module settings only: a non-per-module option is refused, as it is
   in a per-module config section ("Per-module sections should only specify per-module flags"). *)
From C17 Require Import ProofsFlags ProofsValues.
From Gen Require Import Flags.
Definition inline_only_per_module : Prop :=
  forall k d inv, inl k = IAccept d inv -> In d per_module_options.
(* FALSE: Properties.inline_accepts_global_options (parse_mypy_comments never consults PER_MODULE_OPTIONS). *)
