(* C17: config-file discovery = the first usable candidate of the documented list *)
From Coq Require Import List Bool Arith.
From C17 Require Import Model.
Import ListNotations.

Lemma find_app' : forall (A : Type) (p : A -> bool) a b,
    find p (a ++ b) = match find p a with Some x => Some x | None => find p b end.
Proof. induction a; simpl; intros; auto. destruct (p a); auto. Qed.
Lemma find_map' : forall (A B : Type) (f : A -> B) (p : B -> bool) l,
    find p (map f l) = option_map f (find (fun x => p (f x)) l).
Proof. induction l; simpl; auto. destruct (p (f a)); auto. Qed.

Definition ok (c : found * (bool * fdesc)) : bool := usable (fst (snd c)) (snd (snd c)).
Definition okn (nf : nat * (bool * fdesc)) : bool := usable (fst (snd nf)) (snd (snd nf)).

Lemma first_usable_find : forall fs i,
    first_usable fs i = option_map fst (find okn (number_from fs i)).
Proof.
  induction fs as [|[sh f] r IH]; intros i; simpl; auto.
  unfold okn at 1. simpl. destruct (usable sh f); auto.
Qed.

Definition dir_cands (dd : nat * dirdesc) : list (found * (bool * fdesc)) :=
  map (fun nf => (InTree (fst dd) (fst nf), snd nf)) (number_from (fst (snd dd)) 0).

Lemma find_dir : forall d fs root,
    option_map fst (find ok (dir_cands (d, (fs, root)))) = option_map (InTree d) (first_usable fs 0).
Proof.
  intros. unfold dir_cands. simpl. rewrite find_map'. rewrite first_usable_find.
  change (fun x : nat * (bool * fdesc) => ok (InTree d (fst x), snd x)) with okn.
  destruct (find okn (number_from fs 0)); reflexivity.
Qed.

Lemma walk_up_spec : forall dirs d,
    walk_up dirs d = option_map fst (find ok (flat_map dir_cands (number_from (searched_dirs dirs) d))).
Proof.
  induction dirs as [|[fs root] r IH]; intros d; [reflexivity|].
  assert (H := find_dir d fs root).
  change (walk_up ((fs, root) :: r) d)
    with (match first_usable fs 0 with Some i => Some (InTree d i) | None => if root then None else walk_up r (S d) end).
  destruct root.
  - change (searched_dirs ((fs, true) :: r)) with [(fs, true)].
    change (flat_map dir_cands (number_from [(fs, true)] d)) with (dir_cands (d, (fs, true)) ++ []).
    rewrite app_nil_r, H. destruct (first_usable fs 0); reflexivity.
  - change (searched_dirs ((fs, false) :: r)) with ((fs, false) :: searched_dirs r).
    change (flat_map dir_cands (number_from ((fs, false) :: searched_dirs r) d))
      with (dir_cands (d, (fs, false)) ++ flat_map dir_cands (number_from (searched_dirs r) (S d))).
    rewrite find_app'. destruct (find ok (dir_cands (d, (fs, false)))) eqn:E.
    + simpl in H. destruct (first_usable fs 0); simpl in H; [simpl; congruence|discriminate].
    + simpl in H. destruct (first_usable fs 0); simpl in H; [discriminate|]. simpl. apply IH.
Qed.

Theorem first_existing_config_wins : forall dirs user,
    find_config_file dirs user = spec_find_config dirs user.
Proof.
  intros. unfold find_config_file, spec_find_config, candidates.
  change (flat_map _ (number_from (searched_dirs dirs) 0)) with (flat_map dir_cands (number_from (searched_dirs dirs) 0)).
  rewrite find_app'. rewrite walk_up_spec.
  fold ok. destruct (find ok (flat_map dir_cands (number_from (searched_dirs dirs) 0))); [reflexivity|].
  simpl. rewrite find_map'. rewrite first_usable_find.
  assert (G : forall l i, option_map fst (find okn (number_from (map (fun f : fdesc => (false, f)) l) i))
                          = option_map fst (find (fun x : nat * fdesc => ok (UserFile (fst x), (false, snd x))) (number_from l i))).
  { induction l as [|f l IH]; intros i; simpl; auto. unfold okn at 1, ok at 1. simpl.
    destruct (usable false f); auto. }
  rewrite G. destruct (find _ (number_from user 0)); reflexivity.
Qed.

(* consequences stated directly *)
Lemma usable_cases : forall sh p s, usable sh (FPresent p s) = p && (if sh then s else true).
Proof. intros [|] [|] [|]; reflexivity. Qed.

Definition ini_no_section : fdesc := FPresent true false.
Definition good : fdesc := FPresent true true.
(* cwd has a pyproject.toml without [tool.mypy] and a setup.cfg with [mypy]; the parent has mypy.ini *)
Example discovery_examples :
  find_config_file [([(false, FAbsent); (false, FAbsent); (true, ini_no_section); (true, good)], false);
                    ([(false, good); (false, FAbsent); (true, FAbsent); (true, FAbsent)], true)] [good]
  = Some (InTree 0 3)
  /\ find_config_file [([(false, FAbsent); (false, FAbsent); (true, ini_no_section); (true, FAbsent)], true);
                       ([(false, good); (false, FAbsent); (true, FAbsent); (true, FAbsent)], false)] [FAbsent; good]
     = Some (UserFile 1)
  /\ find_config_file [([(false, ini_no_section); (false, good); (true, good); (true, good)], false)] [] = Some (InTree 0 0).
Proof. repeat split. Qed.
