(* C17: apply_changes chains = documented precedence; matcher = pattern semantics; refutations *)
From Coq Require Import List String Ascii Bool Arith Lia.
From C17 Require Import Model ProofsSort ProofsResolve.
Import ListNotations.
Open Scope list_scope.

Local Arguments apply_changes : simpl never.

(* ---------------------------------------------------------------- plain attributes *)
Lemma get_apply : forall o ch k, k <> imipm ->
    get (apply_changes o ch) k = match ch_get ch k with Some v => v | None => get o k end.
Proof.
  intros o ch k Hk. unfold apply_changes. simpl.
  destruct (match ch_get ch "ignore_missing_imports" with Some v => truthy v | None => false end); auto.
  apply String.eqb_neq in Hk. rewrite Hk. reflexivity.
Qed.

Lemma get_fold : forall l g k, k <> imipm ->
    get (fold_left apply_changes l g) k
    = match first_setting (rev l) k with Some v => v | None => get g k end.
Proof.
  induction l as [|ch l IH] using rev_ind; intros g k Hk; [reflexivity|].
  rewrite fold_left_app. cbn [fold_left]. rewrite rev_unit. cbn [first_setting]. rewrite get_apply by auto.
  destruct (ch_get ch k); auto.
Qed.

(* ---------------------------------------------------------------- error-code sets *)
Lemma fold_add_del : forall l d e x,
    let r := fold_left (fun de c => (sadd c (fst de), sdel c (snd de))) l (d, e) in
    fst r x = (mem x l || d x) /\ snd r x = (negb (mem x l) && e x).
Proof.
  induction l as [|c l IH]; intros d e x; simpl; auto.
  destruct (IH (sadd c d) (sdel c e) x) as [H1 H2]. simpl in H1, H2. rewrite H1, H2.
  unfold sadd, sdel. destruct (String.eqb x c), (mem x l), (d x), (e x); auto.
Qed.

Lemma codes_apply_raw : forall o ch x,
    let g := get (apply_changes o ch) in
    let dl := as_list (g "disable_error_code") in
    let el := as_list (g "enable_error_code") in
    en (apply_changes o ch) x = (mem x el || (negb (mem x dl) && en o x))
    /\ dis (apply_changes o ch) x = (negb (mem x el) && (mem x dl || dis o x)).
Proof.
  intros o ch x. unfold apply_changes. cbn [get en dis].
  set (g := if match ch_get ch "ignore_missing_imports" with Some v => truthy v | None => false end
            then _ else _).
  cbv zeta.
  destruct (fold_add_del (as_list (g "disable_error_code")) (dis o) (en o) x) as [A1 A2].
  set (r1 := fold_left _ (as_list (g "disable_error_code")) (dis o, en o)) in *.
  destruct (fold_add_del (as_list (g "enable_error_code")) (snd r1) (fst r1) x) as [B1 B2].
  cbv zeta in A1, A2, B1, B2. cbn [fst snd] in B1, B2. rewrite B1, B2, A1, A2. auto.
Qed.

Lemma codes_apply : forall o ch x, has_code_lists ch = true ->
    en (apply_changes o ch) x = match ch_code ch x with Some b => b | None => en o x end
    /\ dis (apply_changes o ch) x = match ch_code ch x with Some b => negb b | None => dis o x end.
Proof.
  intros o ch x H. unfold has_code_lists in H.
  destruct (ch_get ch "disable_error_code") as [vd|] eqn:Ed; [|discriminate].
  destruct vd as [| | |dl|]; try discriminate.
  destruct (ch_get ch "enable_error_code") as [ve|] eqn:Ee; [|discriminate].
  destruct ve as [| | |el|]; try discriminate.
  destruct (codes_apply_raw o ch x) as [R1 R2]. cbv zeta in R1, R2.
  rewrite !get_apply in R1, R2 by (intros C; discriminate C).
  rewrite Ed, Ee in R1, R2. cbn [as_list] in R1, R2. rewrite R1, R2.
  unfold ch_code. rewrite Ed, Ee. cbn [as_list].
  destruct (mem x el), (mem x dl), (en o x), (dis o x); auto.
Qed.

Lemma codes_fold : forall l g x, (forall ch, In ch l -> has_code_lists ch = true) ->
    en (fold_left apply_changes l g) x = match first_code (rev l) x with Some b => b | None => en g x end
    /\ dis (fold_left apply_changes l g) x = match first_code (rev l) x with Some b => negb b | None => dis g x end.
Proof.
  induction l as [|ch l IH] using rev_ind; intros g x H; [simpl; auto|].
  rewrite fold_left_app. cbn [fold_left]. rewrite rev_unit. cbn [first_code].
  destruct (codes_apply (fold_left apply_changes l g) ch x) as [H1 H2].
  { apply H. apply in_or_app. right. left. auto. }
  rewrite H1, H2. destruct (ch_code ch x); auto.
  apply IH. intros. apply H. apply in_or_app. auto.
Qed.

(* ---------------------------------------------------------------- global options *)
Lemma apply_updates_get : forall ch g k,
    apply_updates g ch k = match ch_get ch k with Some v => v | None => g k end.
Proof.
  unfold apply_updates. induction ch as [|[k' v] r IH]; intros g k; simpl; auto.
  rewrite IH. destruct (ch_get r k); auto.
  unfold set_attr. simpl. rewrite (String.eqb_sym k k'). destruct (String.eqb k' k); auto.
Qed.
Lemma apply_cli_get : forall cli g k, cli_appends cli k = false ->
    apply_cli g cli k = match cli_last_store cli k with Some v => v | None => g k end.
Proof.
  unfold apply_cli. induction cli as [|[k' a] r IH]; intros g k H; simpl; auto.
  unfold cli_appends in H. simpl in H. apply orb_false_iff in H. destruct H as [Ha Hr].
  rewrite IH by exact Hr. destruct (cli_last_store r k); auto.
  destruct a as [v|s]; simpl in *; unfold set_attr; rewrite (String.eqb_sym k k').
  - destruct (String.eqb k' k); auto.
  - rewrite Ha. reflexivity.
Qed.

(* ---------------------------------------------------------------- main theorems *)
Definition wf_names (pmo : list (key * changes)) : Prop :=
  forall e, In e pmo -> is_wild (fst e) = true -> forallb wf_comp (removelast (fst e)) = true.

Theorem resolve_eq_spec : forall defaults gdis gen cfg cli pmo inline m k,
    NoDup (map fst pmo) -> wf_names pmo -> ends_dot_star m = false ->
    k <> imipm -> cli_appends cli k = false ->
    model_resolve defaults gdis gen cfg cli pmo inline m k = spec_resolve defaults cfg cli pmo inline m k.
Proof.
  intros defaults gdis gen cfg cli pmo inline m k ND Hwf Hm Hk Hcli.
  unfold model_resolve, model_options, spec_resolve.
  rewrite (model_clone_chain opts changes apply_changes pmo _ ND Hwf m Hm).
  rewrite (precedence_list_chain changes pmo ND m).
  assert (Hglob : forall o : opts, get o = global_get defaults cfg cli ->
            match first_setting (rev (chain changes pmo m)) k with Some v => v | None => get o k end
            = match first_setting (rev (chain changes pmo m)) k with
              | Some v => v
              | None => match cli_last_store cli k with
                        | Some v => v
                        | None => match ch_get cfg k with Some v => v | None => defaults k end
                        end
              end).
  { intros o Ho. destruct (first_setting _ k); auto. rewrite Ho. unfold global_get.
    rewrite apply_cli_get by auto. destruct (cli_last_store cli k); auto. apply apply_updates_get. }
  destruct inline as [ich|]; simpl opt_list; simpl app.
  - rewrite get_apply by auto. cbn [first_setting]. destruct (ch_get ich k); auto.
    rewrite get_fold by auto. apply Hglob. reflexivity.
  - rewrite get_fold by auto. apply Hglob. reflexivity.
Qed.

Lemma precedence_list_in : forall (Ch : Type) (pmo : list (key * Ch)) m ch,
    In ch (precedence_list Ch pmo m) -> In ch (map snd pmo).
Proof.
  intros Ch pmo m ch H. unfold precedence_list in H.
  assert (F : forall f, In ch (map snd (filter f pmo)) -> In ch (map snd pmo)).
  { intros f Hf. apply in_map_iff in Hf. destruct Hf as [e [E He]]. apply filter_In in He.
    apply in_map_iff. exists e. tauto. }
  apply in_app_or in H. destruct H as [H|H]; [apply in_rev in H; eapply F; eauto|].
  apply in_app_or in H. destruct H as [H|H]; [apply in_rev in H; eapply F; eauto|].
  apply in_flat_map in H. destruct H as [i [_ H]]. apply in_rev in H. eapply F; eauto.
Qed.

Theorem codes_eq_spec : forall defaults gdis gen cfg cli pmo inline m c,
    NoDup (map fst pmo) -> wf_names pmo -> ends_dot_star m = false ->
    (forall ch, In ch (map snd pmo) -> has_code_lists ch = true) ->
    (forall ch, inline = Some ch -> has_code_lists ch = true) ->
    let o := model_options defaults gdis gen cfg cli pmo inline m in
    (en o c, dis o c) = spec_code gdis gen pmo inline m c.
Proof.
  intros defaults gdis gen cfg cli pmo inline m c ND Hwf Hm Hcl Hin o.
  unfold o, model_options, spec_code.
  rewrite (model_clone_chain opts changes apply_changes pmo _ ND Hwf m Hm).
  rewrite (precedence_list_chain changes pmo ND m).
  set (self := {| get := global_get defaults cfg cli; dis := gdis; en := gen |}).
  assert (Hl : forall ch, In ch (chain changes pmo m) -> has_code_lists ch = true).
  { intros ch H. apply Hcl. apply (precedence_list_in changes pmo m).
    rewrite (precedence_list_chain changes pmo ND m). apply in_rev. rewrite rev_involutive. exact H. }
  destruct (codes_fold (chain changes pmo m) self c Hl) as [F1 F2].
  destruct inline as [ich|]; simpl opt_list; simpl app.
  - destruct (codes_apply (fold_left apply_changes (chain changes pmo m) self) ich c (Hin ich eq_refl)) as [A1 A2].
    rewrite A1, A2. cbn [first_code]. destruct (ch_code ich c); auto.
    rewrite F1, F2. destruct (first_code _ c); auto.
  - rewrite F1, F2. destruct (first_code _ c); auto.
Qed.

(* ---------------------------------------------------------------- the matcher *)
Lemma any_suffix_spec : forall f m,
    any_suffix f m = true <-> exists sk rest, m = sk ++ rest /\ f rest = true.
Proof.
  induction m as [|c m IH]; simpl.
  - rewrite orb_false_r. split.
    + intros H. exists [], []. auto.
    + intros [sk [rest [E H]]]. symmetry in E. apply app_eq_nil in E. destruct E; subst. auto.
  - split.
    + intros H. apply orb_true_iff in H. destruct H as [H|H].
      * exists [], (c :: m). auto.
      * apply IH in H. destruct H as [sk [rest [E H]]]. exists (c :: sk), rest. subst. auto.
    + intros [sk [rest [E H]]]. apply orb_true_iff. destruct sk as [|s sk]; simpl in E.
      * subst. auto.
      * inversion E; subst. right. apply IH. eauto.
Qed.

Lemma is_star_eq : forall c, is_star c = true -> c = star.
Proof. intros c H. apply String.eqb_eq in H. exact H. Qed.

Lemma match_rest_spec : forall ps m, match_rest ps m = true <-> doc_match ps m.
Proof.
  induction ps as [|p ps IH]; intros m.
  - destruct m; simpl; split; intros H; try discriminate; try constructor. inversion H.
  - simpl. destruct (is_star p) eqn:Ep.
    + apply is_star_eq in Ep. subst p. rewrite any_suffix_spec. split.
      * intros [sk [rest [E H]]]. subst. apply DM_star. apply IH. exact H.
      * intros H. inversion H; subst.
        -- discriminate.
        -- eexists _, _. split; [reflexivity|]. apply IH. assumption.
    + destruct m as [|c m]; [split; [discriminate|intros H; inversion H; subst; discriminate]|].
      split.
      * intros H. apply andb_true_iff in H. destruct H as [H1 H2]. apply String.eqb_eq in H1. subst.
        apply DM_lit; auto. apply IH. exact H2.
      * intros H. inversion H; subst.
        -- rewrite String.eqb_refl. simpl. apply IH. assumption.
        -- discriminate.
Qed.

Theorem glob_match_spec : forall pat m, glob_match pat m = true <-> impl_match pat m.
Proof.
  intros pat m. destruct pat as [|p0 ps]; [split; [discriminate|intros H; inversion H]|].
  destruct m as [|c m]; [split; [discriminate|intros H; inversion H]|].
  simpl. destruct (is_star p0) eqn:Ep.
  - apply is_star_eq in Ep. subst p0.
    change (match_rest (star :: ps) m) with (any_suffix (match_rest ps) m).
    rewrite any_suffix_spec. split.
    + intros [sk [rest [E H]]]. subst. apply IM_star. apply match_rest_spec. exact H.
    + intros H. inversion H; subst.
      * discriminate.
      * eexists _, _. split; [reflexivity|]. apply match_rest_spec. assumption.
  - split.
    + intros H. apply andb_true_iff in H. destruct H as [H1 H2]. apply String.eqb_eq in H1. subst.
      apply IM_lit; auto. apply match_rest_spec. exact H2.
    + intros H. inversion H; subst.
      * rewrite String.eqb_refl. simpl. apply match_rest_spec. assumption.
      * discriminate.
Qed.

(* ---------------------------------------------------------------- refutations (witnesses) *)
Open Scope string_scope.
Definition dflt : string -> val := fun _ => VNone.
Definition nocode : string -> bool := fun _ => false.
Definition setx (n : nat) : changes := with_code_defaults [("x", VNum n)].

(* (R1) the same pattern listed in two sections: the later section does NOT win, because
   per_module_options[glob] = ... keeps the dict position of the first occurrence *)
Definition dup_sections : list (list key * changes) :=
  [ ([["a"; "*"; "b"]], setx 1); ([["*"; "b"]], setx 2); ([["zzz"]; ["a"; "*"; "b"]], setx 3) ].
Lemma later_section_wins_refuted :
  model_resolve dflt nocode nocode [] [] (pmo_of_sections dup_sections) None ["a"; "q"; "b"] "x" = VNum 2
  /\ spec_resolve dflt [] [] (flat_sections dup_sections) None ["a"; "q"; "b"] "x" = VNum 3.
Proof. split; vm_compute; reflexivity. Qed.

(* (R2) documented "stars match zero or more components" fails for a leading star *)
Lemma leading_star_zero_refuted :
  doc_match ["*"; "b"] ["b"] /\ glob_match ["*"; "b"] ["b"] = false.
Proof.
  split; [|reflexivity].
  apply (DM_star ["b"] [] ["b"]). apply DM_lit; [reflexivity|constructor].
Qed.

(* (R3) the bare pattern "*" is classified as a concrete module name: it matches no module *)
Lemma bare_star_refuted :
  doc_match ["*"] ["a"]
  /\ is_concrete ["*"] = true
  /\ model_resolve dflt nocode nocode [] [] [(["*"], setx 1)] None ["a"] "x" = VNone.
Proof.
  split; [|split; vm_compute; reflexivity].
  apply (DM_star [] ["a"] []). constructor.
Qed.

(* (R4) without wf_names the sorting trick fails: "a.$b.*" sorts before "a.*" and does not inherit *)
Definition nowf_pmo : list (key * changes) :=
  [ (["a"; "*"], with_code_defaults [("x", VNum 1)]); (["a"; "$b"; "*"], with_code_defaults [("y", VNum 1)]) ].
Lemma resolve_needs_wf :
  NoDup (map fst nowf_pmo)
  /\ model_resolve dflt nocode nocode [] [] nowf_pmo None ["a"; "$b"; "c"] "x" = VNone
  /\ spec_resolve dflt [] [] nowf_pmo None ["a"; "$b"; "c"] "x" = VNum 1.
Proof.
  split; [|split; vm_compute; reflexivity].
  repeat (constructor; [simpl; intros H; repeat (destruct H as [H|H]; [congruence|]); contradiction|]). constructor.
Qed.

(* hypotheses are satisfiable, non-trivially *)
Definition ex_pmo : list (key * changes) :=
  [ (["a"; "*"], setx 1); (["a"; "b"; "*"], setx 2); (["*"; "c"], setx 3); (["a"; "*"; "c"], setx 4);
    (["a"; "b"; "c"], with_code_defaults [("y", VNum 5)]) ].
Lemma ex_pmo_ok : NoDup (map fst ex_pmo) /\ wf_names ex_pmo.
Proof.
  split.
  - repeat (constructor; [simpl; intros H; repeat (destruct H as [H|H]; [congruence|]); contradiction|]). constructor.
  - intros e H Hw. simpl in H.
    repeat (destruct H as [H|H]; [subst e; vm_compute in Hw |- *; congruence|]). contradiction.
Qed.
Lemma ex_pmo_values :
  model_resolve dflt nocode nocode [] [] ex_pmo None ["a"; "b"; "c"] "x" = VNum 4
  /\ model_resolve dflt nocode nocode [] [] ex_pmo None ["a"; "b"; "d"] "x" = VNum 2
  /\ model_resolve dflt nocode nocode [] [] ex_pmo None ["a"; "b"; "c"] "y" = VNum 5
  /\ model_resolve dflt nocode nocode [] [("x", Store (VNum 9))] ex_pmo None ["z"] "x" = VNum 9.
Proof. repeat split; vm_compute; reflexivity. Qed.
