(* Property C17: configuration sources are equivalent and precedence is as documented.
   Only theorem statements closed by `exact`, each followed by Print Assumptions. *)
From Coq Require Import List String Bool.
From Coq Require Import Ascii.
From C17 Require Import Model ProofsSort ProofsResolve ProofsOptions ProofsFlags ProofsValues ProofsDiscovery.
From Gen Require Import Flags.
Import ListNotations.
Open Scope string_scope.

(* build_per_module_cache + clone_for_module = documented precedence, for every option name:
   any number and shape of sections, unbounded module depth, any command line / global section / inline
   comment.  Hypotheses: every pattern is listed once (per_module_options is a dict), wildcard components do
   not start with a character below '*' (the sorting trick), the queried name is a module (not "x.*"),
   the option is not the derived attribute ignore_missing_imports_per_module, and the command line
   does not use an append-action for it. *)
Theorem resolve_eq_spec : forall defaults gdis gen cfg cli pmo inline m k,
    NoDup (map fst pmo) -> wf_names pmo -> ends_dot_star m = false ->
    k <> imipm -> cli_appends cli k = false ->
    model_resolve defaults gdis gen cfg cli pmo inline m k = spec_resolve defaults cfg cli pmo inline m k.
Proof. exact ProofsOptions.resolve_eq_spec. Qed.
Print Assumptions resolve_eq_spec.

(* the enable/disable error-code override rule: the highest-precedence section that mentions the code
   decides (enable beats disable inside one section), else the global sets *)
Theorem codes_eq_spec : forall defaults gdis gen cfg cli pmo inline m c,
    NoDup (map fst pmo) -> wf_names pmo -> ends_dot_star m = false ->
    (forall ch, In ch (map snd pmo) -> has_code_lists ch = true) ->
    (forall ch, inline = Some ch -> has_code_lists ch = true) ->
    let o := model_options defaults gdis gen cfg cli pmo inline m in
    (en o c, dis o c) = spec_code gdis gen pmo inline m c.
Proof. exact ProofsOptions.codes_eq_spec. Qed.
Print Assumptions codes_eq_spec.

(* for ANY Options type and ANY apply_changes: the resolved object is the left fold of apply_changes over
   structured ancestors (general to specific) ++ matching unstructured (file order) ++ own section *)
Theorem clone_is_chain : forall (Opts Ch : Type) (apply : Opts -> Ch -> Opts) (pmo : list (key * Ch)) self m,
    NoDup (map fst pmo) ->
    (forall e, In e pmo -> is_wild (fst e) = true -> forallb wf_comp (removelast (fst e)) = true) ->
    ends_dot_star m = false ->
    model_clone Opts Ch apply pmo self m = fold_left apply (rev (precedence_list Ch pmo m)) self.
Proof.
  intros Opts Ch apply pmo self m ND Hwf Hm.
  rewrite (precedence_list_chain Ch pmo ND m), rev_involutive.
  exact (model_clone_chain Opts Ch apply pmo self ND Hwf m Hm).
Qed.
Print Assumptions clone_is_chain.

(* the matcher = exact pattern semantics (literal = that component, star = zero or more components,
   leading star = one or more) *)
Theorem glob_match_spec : forall pat m, glob_match pat m = true <-> impl_match pat m.
Proof. exact ProofsOptions.glob_match_spec. Qed.
Print Assumptions glob_match_spec.

(* finite table (bound = the generated tables of coq/gen/Flags.v): every boolean spelling accepted on the
   command line that is also accepted as a config key sets the same attribute to the same value *)
Theorem spellings_agree : forall flag dest value d inv,
    In (flag, (dest, value)) all_cli_spellings ->
    cfg (flag_dest flag) = CSet d inv ->
    (d = strip_special dest /\ negb inv = value) \/ In flag dest_exceptions.
Proof. exact ProofsFlags.spellings_agree. Qed.
Print Assumptions spellings_agree.

Theorem cli_spellings_unambiguous : forallb unambiguous all_cli_spellings = true.
Proof. exact ProofsFlags.cli_spellings_unambiguous. Qed.
Print Assumptions cli_spellings_unambiguous.

Theorem inverse_pairs_opposite : forall flag inverse default dest,
    In (flag, inverse, default, dest) invertible_flags ->
    exists inv d, In (flag, (d, negb default)) all_cli_spellings /\ In (inv, (d, default)) all_cli_spellings
                  /\ inv = match inverse with Some i => i | None => invert_flag_name flag_prefix_pairs flag end.
Proof. exact ProofsFlags.inverse_pairs_opposite. Qed.
Print Assumptions inverse_pairs_opposite.

Theorem per_module_config_spellings : forallb config_spellings_ok per_module_options = true.
Proof. exact ProofsFlags.per_module_config_spellings. Qed.
Print Assumptions per_module_config_spellings.

(* ---- the full statements (Statement.v) are refuted by the faithful model: findings *)
Theorem later_section_wins_refuted :
  model_resolve dflt nocode nocode [] [] (pmo_of_sections dup_sections) None ["a"; "q"; "b"] "x" = VNum 2
  /\ spec_resolve dflt [] [] (flat_sections dup_sections) None ["a"; "q"; "b"] "x" = VNum 3.
Proof. exact ProofsOptions.later_section_wins_refuted. Qed.
Print Assumptions later_section_wins_refuted.

Theorem leading_star_zero_refuted : doc_match ["*"; "b"] ["b"] /\ glob_match ["*"; "b"] ["b"] = false.
Proof. exact ProofsOptions.leading_star_zero_refuted. Qed.
Print Assumptions leading_star_zero_refuted.

Theorem bare_star_refuted :
  doc_match ["*"] ["a"] /\ is_concrete ["*"] = true
  /\ model_resolve dflt nocode nocode [] [] [(["*"], setx 1)] None ["a"] "x" = VNone.
Proof. exact ProofsOptions.bare_star_refuted. Qed.
Print Assumptions bare_star_refuted.

Theorem resolve_needs_wf :
  NoDup (map fst nowf_pmo)
  /\ model_resolve dflt nocode nocode [] [] nowf_pmo None ["a"; "$b"; "c"] "x" = VNone
  /\ spec_resolve dflt [] [] nowf_pmo None ["a"; "$b"; "c"] "x" = VNum 1.
Proof. exact ProofsOptions.resolve_needs_wf. Qed.
Print Assumptions resolve_needs_wf.

(* ---- --strict / strict = True: for every global section, command line and option name, the order is
   explicit CLI flag > --strict > strict of a per-module section (it sets the GLOBAL flags) > explicit
   [mypy] key > strict = True of [mypy] > default *)
Theorem strict_precedence : forall sa defaults cfg cfg_strict pm_strict cli cli_strict k,
    cli_appends cli k = false ->
    global_get_strict sa defaults cfg cfg_strict pm_strict cli cli_strict k
    = spec_global_strict sa defaults cfg cfg_strict pm_strict cli cli_strict k.
Proof. exact ProofsValues.strict_precedence. Qed.
Print Assumptions strict_precedence.

(* `strict = True` alone and `--strict` alone set exactly the same options (the generated strict set) *)
Theorem strict_sources_agree : forall defaults k,
    global_get_strict the_strict_set defaults [] true false [] false k
    = global_get_strict the_strict_set defaults [] false false [] true k.
Proof. exact ProofsValues.strict_sources_agree. Qed.
Print Assumptions strict_sources_agree.

Theorem strict_table_ok :
  forallb strict_entry_ok the_strict_set = true
  /\ List.length the_strict_set = List.length strict_flags
  /\ nodupb (map fst the_strict_set) = true.
Proof. exact ProofsValues.strict_table_ok. Qed.
Print Assumptions strict_table_ok.

(* list-valued options (always_true, enable/disable_error_code, ...): for EVERY list of clean names and any
   whitespace after the commas, the ini reader, the toml string reader and the toml array reader return the
   list that repeated command-line flags append *)
Theorem comma_lists_agree : forall pad items,
    (forall a, In a (list_ascii_of_string pad) -> is_ws a = true) ->
    Forall (clean is_comma) items ->
    let text := join_with (String ","%char pad) items in
    ini_list text = items /\ try_split_str is_comma text = items /\ try_split_list items = items.
Proof. exact ProofsValues.comma_lists_agree. Qed.
Print Assumptions comma_lists_agree.

Theorem follow_imports_choices_agree : follow_imports_choices_cli = follow_imports_choices_cfg.
Proof. exact ProofsValues.follow_imports_choices_agree. Qed.
Print Assumptions follow_imports_choices_agree.

(* inline comments: every boolean per-module option can be set and inverted; they are NOT restricted to
   per-module options (observation), python_version and strict are rejected *)
Theorem inline_per_module_bools : forallb inline_bool_ok per_module_options = true.
Proof. exact ProofsValues.inline_per_module_bools. Qed.
Print Assumptions inline_per_module_bools.

Theorem inline_accepts_global_options :
  In "warn_unused_configs" inline_accepted_globals /\ In "pretty" inline_accepted_globals
  /\ inl "python_version" = IRejectVersion /\ inl "strict" = IRejectStrict.
Proof. exact ProofsValues.inline_accepts_global_options. Qed.
Print Assumptions inline_accepts_global_options.

(* pyproject.toml [[tool.mypy.overrides]] vs the same tables written as [mypy-m1,m2] sections: for every list of
   tables in which no module is listed twice, both readers produce the same per_module_options (the flat list
   in file order, every module with its own copy) *)
Theorem toml_ini_agree : forall tables,
    NoDup (List.concat (map fst tables)) ->
    pmo_of_toml tables = Some (pmo_of_ini tables).
Proof. exact ProofsValues.toml_ini_agree. Qed.
Print Assumptions toml_ini_agree.

(* a later table for one module of an array does not reach the other modules; conflicting values raise *)
Theorem overrides_own_copy :
  pmo_of_toml [([["a"]; ["b"]], [("x", VNum 1)]); ([["a"]], [("z", VNum 1)])]
  = Some [(["a"], with_code_defaults [("x", VNum 1); ("z", VNum 1)]); (["b"], with_code_defaults [("x", VNum 1)])]
  /\ pmo_of_toml [([["a"]; ["b"]], [("x", VNum 1)]); ([["a"]], [("x", VNum 2)])] = None.
Proof. exact ProofsValues.overrides_own_copy. Qed.
Print Assumptions overrides_own_copy.

(* config-file discovery: for every directory chain (cwd first, any length), every presence/validity state of
   the candidates and every list of user files, _find_config_file returns the FIRST usable candidate of the
   documented list: directory by directory up to and including the first one containing .git/.hg, in the
   order CONFIG_NAMES ++ SHARED_CONFIG_NAMES, then USER_CONFIG_FILES.  (usable: exists, parses, and a shared
   name -- pyproject.toml, setup.cfg -- has its mypy table/section; mypy.ini without [mypy] IS usable.) *)
Theorem first_existing_config_wins : forall dirs user,
    find_config_file dirs user = spec_find_config dirs user.
Proof. exact ProofsDiscovery.first_existing_config_wins. Qed.
Print Assumptions first_existing_config_wins.

(* non-vacuity *)
Example hypotheses_satisfiable : NoDup (map fst ex_pmo) /\ wf_names ex_pmo.
Proof. exact ex_pmo_ok. Qed.
Example nontrivial_values :
  model_resolve dflt nocode nocode [] [] ex_pmo None ["a"; "b"; "c"] "x" = VNum 4
  /\ model_resolve dflt nocode nocode [] [] ex_pmo None ["a"; "b"; "d"] "x" = VNum 2
  /\ model_resolve dflt nocode nocode [] [] ex_pmo None ["a"; "b"; "c"] "y" = VNum 5
  /\ model_resolve dflt nocode nocode [] [("x", Store (VNum 9))] ex_pmo None ["z"] "x" = VNum 9.
Proof. exact ex_pmo_values. Qed.
Example identifiers_are_wf : wf_comp "foo" = true /\ wf_comp "_x1" = true /\ wf_comp "" = true /\ wf_comp "$b" = false.
Proof. repeat split. Qed.
Example a_spelling : In ("--allow-untyped-defs", ("disallow_untyped_defs", false)) all_cli_spellings
                     /\ cfg "allow_untyped_defs" = CSet "disallow_untyped_defs" true.
Proof. split; vm_compute; auto 60. Qed.
Example trailing_separator_differs :
  ini_list "A, " = ["A"; ""] /\ try_split_str is_comma "A, " = ["A"].
Proof. exact ProofsValues.trailing_separator_differs. Qed.
Example clean_names : clean is_comma "FOO" /\ clean is_comma "attr-defined".
Proof.
  split; (split; [|split]); try discriminate; intros a H; simpl in H;
    repeat (destruct H as [H|H]; [subst a; reflexivity|]); contradiction.
Qed.
Example strict_example : sa_get the_strict_set "implicit_reexport" = Some false /\ sa_get the_strict_set "warn_return_any" = Some true.
Proof. split; vm_compute; reflexivity. Qed.
Example discovery_examples :
  find_config_file [([(false, FAbsent); (false, FAbsent); (true, ini_no_section); (true, good)], false);
                    ([(false, good); (false, FAbsent); (true, FAbsent); (true, FAbsent)], true)] [good]
  = Some (InTree 0 3)
  /\ find_config_file [([(false, FAbsent); (false, FAbsent); (true, ini_no_section); (true, FAbsent)], true);
                       ([(false, good); (false, FAbsent); (true, FAbsent); (true, FAbsent)], false)] [FAbsent; good]
     = Some (UserFile 1)
  /\ find_config_file [([(false, ini_no_section); (false, good); (true, good); (true, good)], false)] [] = Some (InTree 0 0).
Proof. exact ProofsDiscovery.discovery_examples. Qed.
Example candidate_order : map fst candidate_names = ["mypy.ini"; ".mypy.ini"; "pyproject.toml"; "setup.cfg"]
                          /\ map snd candidate_names = [false; false; true; true].
Proof. split; reflexivity. Qed.
