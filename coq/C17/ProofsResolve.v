(* C17: build_per_module_cache + clone_for_module compute the fold of apply_changes over the
   chain  (structured ancestors, least specific first) ++ (matching unstructured, file order) ++ (concrete) *)
From Coq Require Import List String Ascii Bool Arith Lia Sorted Permutation.
From C17 Require Import Model ProofsSort.
Import ListNotations.
Open Scope list_scope.

Lemma key_eqb_eq : forall a b, key_eqb a b = true <-> a = b.
Proof.
  induction a as [|x a IH]; destruct b as [|y b]; simpl; split; intros H; try congruence; auto.
  - apply andb_true_iff in H. destruct H as [H1 H2]. apply String.eqb_eq in H1. apply IH in H2. congruence.
  - inversion H; subst. apply andb_true_iff. split; [apply String.eqb_refl|apply IH; auto].
Qed.
Lemma key_eqb_refl : forall a, key_eqb a a = true.
Proof. intros. apply key_eqb_eq. auto. Qed.

Lemma nodup_app_l : forall (A : Type) (l1 l2 : list A), NoDup (l1 ++ l2) -> NoDup l1.
Proof.
  induction l1 as [|a l1 IH]; simpl; intros l2 H; [constructor|].
  inversion H as [|? ? Hn H']; subst. constructor; [|eapply IH; eauto].
  intros C. apply Hn. apply in_or_app. auto.
Qed.

Section LookupFacts.
  Variable A : Type.
  Implicit Types l : list (key * A).
  Lemma lookup_in : forall l k a, lookup l k = Some a -> In (k, a) l.
  Proof.
    induction l as [|[k' a'] l IH]; simpl; intros k a H; [discriminate|].
    destruct (key_eqb k' k) eqn:E.
    - apply key_eqb_eq in E. inversion H; subst. auto.
    - right. auto.
  Qed.
  Lemma lookup_none : forall l k, ~ In k (map fst l) -> lookup l k = None.
  Proof.
    induction l as [|[k' a'] l IH]; simpl; intros k H; auto.
    destruct (key_eqb k' k) eqn:E.
    - apply key_eqb_eq in E. subst. exfalso. auto.
    - apply IH. intros C. auto.
  Qed.
  Lemma lookup_none_inv : forall l k, lookup l k = None -> ~ In k (map fst l).
  Proof.
    induction l as [|[k' a'] l IH]; simpl; intros k H C; auto.
    destruct (key_eqb k' k) eqn:E; [discriminate|].
    destruct C as [C|C]; [subst; rewrite key_eqb_refl in E; discriminate|]. eapply IH; eauto.
  Qed.
  Lemma lookup_nodup_in : forall l k a, NoDup (map fst l) -> In (k, a) l -> lookup l k = Some a.
  Proof.
    induction l as [|[k' a'] l IH]; simpl; intros k a ND H; [contradiction|].
    inversion ND as [|? ? Hn ND']; subst.
    destruct H as [H|H].
    - inversion H; subst. rewrite key_eqb_refl. auto.
    - destruct (key_eqb k' k) eqn:E.
      + apply key_eqb_eq in E. subst. exfalso. apply Hn. apply in_map with (f := fst) in H. exact H.
      + auto.
  Qed.
  Lemma lookup_app : forall l1 l2 k,
      lookup (l1 ++ l2) k = match lookup l1 k with Some a => Some a | None => lookup l2 k end.
  Proof.
    induction l1 as [|[k' a'] l1 IH]; simpl; intros; auto. destruct (key_eqb k' k); auto.
  Qed.
  Lemma in_keys_ex : forall l k, In k (map fst l) -> exists a, In (k, a) l.
  Proof.
    intros l k H. apply in_map_iff in H. destruct H as [[k' a] [E H]]. simpl in E. subst. eauto.
  Qed.
  Lemma nodup_keys_filter : forall (f : key * A -> bool) l, NoDup (map fst l) -> NoDup (map fst (filter f l)).
  Proof.
    induction l as [|e l IH]; simpl; intros ND; auto. inversion ND as [|? ? Hn ND']; subst.
    destruct (f e); simpl; auto. constructor; auto.
    intros C. apply Hn. apply in_map_iff in C. destruct C as [x [E Hx]]. apply filter_In in Hx.
    apply in_map_iff. exists x. tauto.
  Qed.
End LookupFacts.
Arguments lookup_in {A}. Arguments lookup_none {A}. Arguments lookup_none_inv {A}.
Arguments lookup_nodup_in {A}. Arguments lookup_app {A}. Arguments in_keys_ex {A}. Arguments nodup_keys_filter {A}.

(* ---------------------------------------------------------------- shapes of keys *)
Lemma removelast_snoc : forall (A : Type) (l : list A) a, removelast (l ++ [a]) = l.
Proof. intros. rewrite removelast_app by congruence. simpl. apply app_nil_r. Qed.
Lemma last_snoc : forall (A : Type) (l : list A) a d, last (l ++ [a]) d = a.
Proof. intros. apply last_last. Qed.

Lemma ends_dot_star_shape : forall k, ends_dot_star k = true -> k = removelast k ++ [star] /\ removelast k <> [].
Proof.
  intros k H. unfold ends_dot_star in H. apply andb_true_iff in H. destruct H as [H1 H2].
  apply Nat.leb_le in H1. unfold is_star in H2. apply String.eqb_eq in H2.
  assert (k <> []) by (destruct k; simpl in *; [lia|congruence]).
  split.
  - rewrite <- H2. apply app_removelast_last. auto.
  - destruct k as [|a [|b k]]; simpl in *; try lia; congruence.
Qed.
Lemma ends_dot_star_snoc : forall P, P <> [] -> ends_dot_star (P ++ [star]) = true.
Proof.
  intros P H. unfold ends_dot_star. rewrite last_snoc. rewrite app_length. simpl.
  destruct P; [congruence|]. simpl. rewrite Nat.add_comm. reflexivity.
Qed.
Lemma unstructured_snoc_star : forall k, ends_dot_star k = true -> is_unstructured (k ++ [star]) = true.
Proof.
  intros k H. unfold is_unstructured. rewrite removelast_snoc.
  destruct (ends_dot_star_shape k H) as [E _]. rewrite E. rewrite existsb_app. simpl.
  rewrite orb_true_r. reflexivity.
Qed.

Lemma wild_filter_gen : forall (Ch : Type) (l : list (key * Ch)),
    filter (fun e : key * Ch => ends_dot_star (fst e)) (structured Ch l) = filter (fun e => is_wild (fst e)) l.
Proof.
  intros Ch l. unfold structured. induction l as [|e l IH]; simpl; auto.
  unfold is_wild at 1. destruct (is_unstructured (fst e)); simpl; auto.
  destruct (ends_dot_star (fst e)); simpl; congruence.
Qed.
Lemma conc_filter_gen : forall (Ch : Type) (l : list (key * Ch)),
    concrete Ch l = filter (fun e => is_concrete (fst e)) l.
Proof.
  intros Ch l. unfold concrete, structured. induction l as [|e l IH]; simpl; auto.
  unfold is_concrete at 1. destruct (is_unstructured (fst e)); simpl; auto.
  destruct (ends_dot_star (fst e)); simpl; congruence.
Qed.

Section Generic.
  Variables (Opts Ch : Type) (apply : Opts -> Ch -> Opts).
  Notation pmo_t := (list (key * Ch)).
  Notation cache_t := (list (key * Opts)).
  Variable pmo : pmo_t.
  Variable self : Opts.
  Hypothesis Hnodup : NoDup (map fst pmo).
  Hypothesis Hwf : forall e, In e pmo -> is_wild (fst e) = true -> forallb wf_comp (removelast (fst e)) = true.

  Let W : pmo_t := filter (fun e => is_wild (fst e)) pmo.
  Let globs : pmo_t := unstr_entries Ch pmo.
  Let fold := fold_left apply.

  Lemma wild_filter : filter (fun e : key * Ch => ends_dot_star (fst e)) (structured Ch pmo) = W.
  Proof. apply wild_filter_gen. Qed.
  Lemma conc_filter : concrete Ch pmo = filter (fun e => is_concrete (fst e)) pmo.
  Proof. apply conc_filter_gen. Qed.

  Lemma W_nodup : NoDup (map fst W).
  Proof. apply nodup_keys_filter. exact Hnodup. Qed.
  Lemma W_wild : forall e, In e W -> is_wild (fst e) = true.
  Proof. intros e H. apply filter_In in H. tauto. Qed.
  Lemma W_wf : forall e, In e W -> forallb wf_comp (removelast (fst e)) = true.
  Proof. intros e H. apply filter_In in H. destruct H. apply Hwf; auto. Qed.

  (* structured ancestors of m among its first n prefixes, least specific first *)
  Definition anc (m : key) (n : nat) : list Ch :=
    flat_map (fun i => opt_list (lookup W (firstn i m ++ [star]))) (seq 1 n).
  Lemma anc_S : forall m n, anc m (S n) = anc m n ++ opt_list (lookup W (firstn (S n) m ++ [star])).
  Proof.
    intros. unfold anc. rewrite seq_S. rewrite flat_map_app. simpl. rewrite app_nil_r. reflexivity.
  Qed.
  Lemma anc_firstn : forall m k n, n <= k -> anc (firstn k m) n = anc m n.
  Proof.
    induction n; intros Hle; [reflexivity|].
    rewrite !anc_S. rewrite IHn by lia. rewrite firstn_firstn. rewrite Nat.min_l by lia. reflexivity.
  Qed.
  Definition wspec (k : key) : Opts := fold (anc (removelast k) (List.length (removelast k))) self.

  Lemma find_parent_S : forall (cache : cache_t) m j,
      find_parent Opts cache self m (S j)
      = match lookup cache (firstn (S j) m ++ [star]) with
        | Some o => o
        | None => find_parent Opts cache self m j
        end.
  Proof. reflexivity. Qed.

  Lemma find_parent_spec : forall cache m n,
      (forall i, 1 <= i <= n ->
                 lookup cache (firstn i m ++ [star])
                 = option_map (fun _ => fold (anc m i) self) (lookup W (firstn i m ++ [star]))) ->
      find_parent Opts cache self m n = fold (anc m n) self.
  Proof.
    induction n; intros H; [reflexivity|].
    rewrite find_parent_S. rewrite (H (S n)) by lia.
    destruct (lookup W (firstn (S n) m ++ [star])) eqn:E; simpl option_map; cbv iota.
    - reflexivity.
    - rewrite anc_S, E. simpl. rewrite app_nil_r. apply IHn. intros. apply H. lia.
  Qed.

  (* a cache whose entries for wildcard keys are right answers the lookups of find_parent *)
  Lemma lookup_cache_anc : forall (cache : cache_t) m i,
      NoDup (map fst cache) ->
      (forall k o, In (k, o) cache -> ends_dot_star k = true -> o = wspec k) ->
      (forall k, In k (map fst cache) -> ends_dot_star k = true -> In k (map fst W)) ->
      1 <= i <= List.length m ->
      (In (firstn i m ++ [star]) (map fst W) -> In (firstn i m ++ [star]) (map fst cache)) ->
      lookup cache (firstn i m ++ [star])
      = option_map (fun _ => fold (anc m i) self) (lookup W (firstn i m ++ [star])).
  Proof.
    intros cache m i ND Hval Hsub Hi Hcomp.
    set (a := firstn i m ++ [star]) in *.
    assert (Ha : ends_dot_star a = true).
    { apply ends_dot_star_snoc. destruct m; simpl in *; [lia|]. destruct i; simpl; [lia|congruence]. }
    destruct (lookup W a) eqn:E; simpl.
    - apply lookup_in in E. apply in_map with (f := fst) in E. simpl in E.
      apply Hcomp in E. apply in_keys_ex in E. destruct E as [o Ho].
      rewrite (lookup_nodup_in cache a o ND Ho). f_equal.
      rewrite (Hval a o Ho Ha). unfold wspec, a. rewrite removelast_snoc.
      rewrite firstn_length_le by lia. rewrite anc_firstn by lia. reflexivity.
    - apply lookup_none. intros C. apply lookup_none_inv in E. apply E. apply Hsub; auto.
  Qed.

  Lemma fold_globs : forall (l : pmo_t) m base,
      fold_left (fun o e => if glob_match (fst e) m then apply o (snd e) else o)
                (filter (fun e => is_unstructured (fst e)) l) base
      = fold (sec_unstructured Ch l m) base.
  Proof.
    unfold fold, sec_unstructured. induction l as [|e l IH]; simpl; intros; auto.
    destruct (is_unstructured (fst e)); simpl; auto.
    destruct (glob_match (fst e) m); simpl; auto.
  Qed.

  (* ------------------------------------------------ phase 1: the sorted wildcards *)
  Definition step := build_step Opts Ch apply globs self.

  Lemma phase1_step : forall l1 k ch l2 (cache : cache_t),
      StronglySorted (fun a b => entry_leb Ch a b = true) (l1 ++ (k, ch) :: l2) ->
      NoDup (map fst (l1 ++ (k, ch) :: l2)) ->
      (forall e, In e (l1 ++ (k, ch) :: l2) <-> In e W) ->
      map fst cache = map fst l1 ->
      (forall k' o, In (k', o) cache -> o = wspec k') ->
      apply (clone_with Opts Ch apply cache globs self k) ch = wspec k.
  Proof.
    intros l1 k ch l2 cache HS ND HW Hkeys Hval.
    assert (HinW : In (k, ch) W) by (apply HW; apply in_or_app; right; left; auto).
    pose proof (W_wild _ HinW) as Hwild. simpl in Hwild.
    assert (Hends : ends_dot_star k = true) by (unfold is_wild in Hwild; apply andb_true_iff in Hwild; tauto).
    destruct (ends_dot_star_shape k Hends) as [Hk HP].
    set (P := removelast k) in *.
    assert (NDc : NoDup (map fst cache)).
    { rewrite Hkeys. rewrite map_app in ND. apply nodup_app_l in ND. exact ND. }
    assert (Hsub : forall k', In k' (map fst cache) -> In k' (map fst W)).
    { intros k' H. rewrite Hkeys in H. apply in_keys_ex in H. destruct H as [c' H].
      apply in_map_iff. exists (k', c'). split; auto. apply HW. apply in_or_app. auto. }
    assert (Hnotin : ~ In k (map fst cache)).
    { rewrite Hkeys. rewrite map_app in ND. simpl in ND. apply NoDup_remove_2 in ND.
      intros C. apply ND. apply in_or_app. auto. }
    unfold clone_with. rewrite (lookup_none cache k Hnotin). rewrite Hends.
    (* length k = S (List.length P) *)
    assert (Hlen : List.length k = S (List.length P)) by (rewrite Hk at 1; rewrite app_length; simpl; lia).
    rewrite Hlen. rewrite find_parent_S.
    (* i = len(path): key k.* is unstructured, never cached *)
    replace (firstn (S (List.length P)) k) with k by (rewrite <- Hlen; symmetry; apply firstn_all).
    rewrite (lookup_none cache (k ++ [star])).
    2:{ intros C. apply Hsub in C. apply in_keys_ex in C. destruct C as [c' C].
        apply W_wild in C. simpl in C. unfold is_wild in C.
        rewrite unstructured_snoc_star in C by auto. discriminate. }
    destruct (List.length P) as [|p] eqn:EP; [destruct P; [congruence|discriminate]|].
    rewrite find_parent_S.
    assert (HfP : firstn (S p) k = P).
    { rewrite Hk. rewrite <- EP. rewrite firstn_app. rewrite Nat.sub_diag. simpl.
      rewrite firstn_all. apply app_nil_r. }
    rewrite HfP. rewrite <- Hk. rewrite (lookup_none cache k Hnotin).
    rewrite (find_parent_spec cache k p).
    - (* apply ... ch = wspec k *)
      unfold wspec. fold P. rewrite EP. rewrite anc_S.
      replace (firstn (S p) P) with P by (rewrite <- EP; symmetry; apply firstn_all).
      rewrite <- Hk. rewrite (lookup_nodup_in W k ch W_nodup HinW). simpl.
      unfold fold. rewrite fold_left_app. simpl.
      rewrite <- (anc_firstn k (S p) p) by lia. rewrite HfP. reflexivity.
    - intros i Hi. apply (lookup_cache_anc cache k i NDc).
      + intros k' o Hin _. apply Hval; auto.
      + intros k' Hin _. apply Hsub; auto.
      + lia.
      + (* the sorting trick: the parent key is already in the cache *)
        intros HaW. rewrite Hkeys.
        apply in_keys_ex in HaW. destruct HaW as [c' HaW].
        apply in_map_iff. exists (firstn i k ++ [star], c'). split; auto.
        apply (sorted_before _ (entry_leb Ch)) with (x := (k, ch)) (l2 := l2).
        * intros x y. apply key_leb_total.
        * exact HS.
        * apply HW. exact HaW.
        * unfold entry_leb. simpl.
          assert (Hfi : firstn i k = firstn i P).
          { rewrite Hk. rewrite firstn_app. replace (i - List.length P) with 0 by lia. simpl. apply app_nil_r. }
          rewrite Hfi.
          assert (Hsk : skipn i P <> []).
          { intros C. apply (f_equal (@List.length _)) in C. rewrite skipn_length in C. simpl in C. lia. }
          destruct (skipn i P) as [|q Q] eqn:ES; [congruence|].
          assert (HPs : P = firstn i P ++ q :: Q) by (rewrite <- ES; symmetry; apply firstn_skipn).
          rewrite Hk at 1. rewrite HPs at 1. rewrite <- app_assoc. simpl.
          apply parent_key_before_child.
          pose proof (W_wf _ HinW) as Hw. simpl in Hw. fold P in Hw. rewrite HPs in Hw.
          rewrite forallb_app in Hw. simpl in Hw. apply andb_true_iff in Hw. destruct Hw as [_ Hw].
          apply andb_true_iff in Hw. tauto.
  Qed.

  Lemma phase1 : forall l2 l1 (cache : cache_t),
      StronglySorted (fun a b => entry_leb Ch a b = true) (l1 ++ l2) ->
      NoDup (map fst (l1 ++ l2)) ->
      (forall e, In e (l1 ++ l2) <-> In e W) ->
      map fst cache = map fst l1 ->
      (forall k o, In (k, o) cache -> o = wspec k) ->
      map fst (fold_left step l2 cache) = map fst (l1 ++ l2)
      /\ (forall k o, In (k, o) (fold_left step l2 cache) -> o = wspec k).
  Proof.
    induction l2 as [|[k ch] l2 IH]; intros l1 cache HS ND HW Hkeys Hval.
    - simpl. rewrite app_nil_r. auto.
    - simpl fold_left.
      replace (l1 ++ (k, ch) :: l2) with ((l1 ++ [(k, ch)]) ++ l2) in * by (rewrite <- app_assoc; reflexivity).
      apply IH; auto.
      + unfold step, build_step. simpl. rewrite !map_app. simpl. rewrite Hkeys. reflexivity.
      + intros k' o H. unfold step, build_step in H. apply in_app_or in H. destruct H as [H|H]; auto.
        simpl in H. destruct H as [H|[]]. inversion H; subst.
        rewrite <- app_assoc in HS, ND, HW. simpl in HS, ND, HW.
        eapply phase1_step; eauto.
  Qed.

  Definition wcache : cache_t := fold_left step (wildcards Ch pmo) [].

  Lemma wcache_ok :
    NoDup (map fst wcache)
    /\ (forall k, In k (map fst wcache) <-> In k (map fst W))
    /\ (forall k o, In (k, o) wcache -> o = wspec k).
  Proof.
    unfold wcache, wildcards. rewrite wild_filter.
    set (ws := isort (entry_leb Ch) W).
    assert (HP : Permutation W ws) by apply isort_perm.
    destruct (phase1 ws [] []) as [Hk Hv]; simpl; auto.
    - apply isort_sorted.
      + intros x y. apply key_leb_total.
      + intros x y z. apply key_leb_trans.
    - eapply Permutation_NoDup; [apply Permutation_map; exact HP|apply W_nodup].
    - intros e. split; intros H.
      + eapply Permutation_in; [apply Permutation_sym; exact HP|auto].
      + eapply Permutation_in; eauto.
    - intros ? ? [].
    - simpl in Hk. split; [|split]; auto.
      + rewrite Hk. eapply Permutation_NoDup; [apply Permutation_map; exact HP|apply W_nodup].
      + intros k. rewrite Hk. split; intros H.
        * eapply Permutation_in; [apply Permutation_map; apply Permutation_sym; exact HP|auto].
        * eapply Permutation_in; [apply Permutation_map; exact HP|auto].
  Qed.

  (* ------------------------------------------------ queries against wcache ++ (concrete entries) *)
  Lemma query : forall (cc : cache_t) m,
      (forall k, In k (map fst cc) -> ends_dot_star k = false) ->
      NoDup (map fst cc) ->
      ends_dot_star m = false ->
      ~ In m (map fst cc) ->
      clone_with Opts Ch apply (wcache ++ cc) globs self m
      = fold (anc m (List.length m) ++ sec_unstructured Ch pmo m) self.
  Proof.
    intros cc m Hcc NDcc Hm Hnot.
    destruct wcache_ok as [NDw [Hwk Hwv]].
    unfold clone_with. rewrite lookup_app.
    rewrite (lookup_none wcache m).
    2:{ intros C. apply Hwk in C. apply in_keys_ex in C. destruct C as [c C]. apply W_wild in C.
        simpl in C. unfold is_wild in C. rewrite Hm in C. rewrite andb_false_r in C. discriminate. }
    rewrite (lookup_none cc m Hnot). rewrite Hm.
    unfold globs, unstr_entries. rewrite fold_globs.
    unfold fold. rewrite fold_left_app. f_equal.
    apply find_parent_spec. intros i Hi.
    rewrite lookup_app.
    assert (Ha : ends_dot_star (firstn i m ++ [star]) = true).
    { apply ends_dot_star_snoc. destruct m; simpl in *; [lia|]. destruct i; simpl; [lia|congruence]. }
    assert (Hc : lookup cc (firstn i m ++ [star]) = None).
    { apply lookup_none. intros C. apply Hcc in C. congruence. }
    rewrite Hc.
    rewrite (lookup_cache_anc wcache m i); auto.
    - destruct (lookup W (firstn i m ++ [star])); reflexivity.
    - intros. apply Hwk; auto.
    - intros. apply Hwk; auto.
  Qed.

  Definition cspec (k : key) (ch : Ch) : Opts :=
    fold (anc k (List.length k) ++ sec_unstructured Ch pmo k ++ [ch]) self.

  Lemma phase2 : forall (l2 l1 : pmo_t) (cc : cache_t),
      NoDup (map fst (l1 ++ l2)) ->
      (forall e, In e (l1 ++ l2) -> ends_dot_star (fst e) = false) ->
      cc = map (fun e => (fst e, cspec (fst e) (snd e))) l1 ->
      fold_left step l2 (wcache ++ cc)
      = wcache ++ map (fun e => (fst e, cspec (fst e) (snd e))) (l1 ++ l2).
  Proof.
    induction l2 as [|[k ch] l2 IH]; intros l1 cc ND Hshape Hcc.
    - simpl. rewrite app_nil_r. congruence.
    - simpl fold_left. unfold step at 2, build_step. simpl fst. simpl snd.
      rewrite query.
      + rewrite <- app_assoc.
        replace (l1 ++ (k, ch) :: l2) with ((l1 ++ [(k, ch)]) ++ l2) in * by (rewrite <- app_assoc; reflexivity).
        apply IH; auto.
        rewrite map_app. simpl. rewrite Hcc. f_equal. f_equal. f_equal.
        unfold cspec, fold. rewrite app_assoc. rewrite !fold_left_app. reflexivity.
      + intros k' H. rewrite Hcc in H. rewrite map_map in H. simpl in H.
        apply in_keys_ex in H. destruct H as [c' H]. apply (Hshape (k', c')). apply in_or_app. auto.
      + rewrite Hcc. rewrite map_map. simpl. rewrite map_app in ND. apply nodup_app_l in ND. exact ND.
      + apply (Hshape (k, ch)). apply in_or_app. right. left. auto.
      + rewrite Hcc. rewrite map_map. simpl. rewrite map_app in ND. simpl in ND.
        apply NoDup_remove_2 in ND. intros C. apply ND. apply in_or_app. auto.
  Qed.

  Lemma build_eq :
    build Opts Ch apply pmo self
    = wcache ++ map (fun e => (fst e, cspec (fst e) (snd e))) (concrete Ch pmo).
  Proof.
    unfold build. rewrite fold_left_app. fold globs. fold step. fold wcache.
    rewrite <- (app_nil_r wcache) at 1.
    apply (phase2 (concrete Ch pmo) [] []); simpl; auto.
    - rewrite conc_filter. apply nodup_keys_filter. exact Hnodup.
    - intros e H. rewrite conc_filter in H. apply filter_In in H. destruct H as [_ H].
      unfold is_concrete in H. apply andb_true_iff in H. destruct H as [_ H].
      destruct (ends_dot_star (fst e)); simpl in *; congruence.
  Qed.

  Definition chain (m : key) : list Ch :=
    anc m (List.length m) ++ sec_unstructured Ch pmo m ++ opt_list (lookup (concrete Ch pmo) m).

  (* clone_for_module(m) for a module name (not ending in ".*") is the fold over the chain *)
  Theorem model_clone_chain : forall m,
      ends_dot_star m = false ->
      model_clone Opts Ch apply pmo self m = fold (chain m) self.
  Proof.
    intros m Hm. unfold model_clone. rewrite build_eq. fold globs.
    set (cs := concrete Ch pmo).
    set (cc := map (fun e => (fst e, cspec (fst e) (snd e))) cs).
    assert (NDcs : NoDup (map fst cs)) by (unfold cs; rewrite conc_filter; apply nodup_keys_filter; exact Hnodup).
    assert (Hkeys : map fst cc = map fst cs) by (unfold cc; rewrite map_map; reflexivity).
    assert (Hshape : forall k, In k (map fst cc) -> ends_dot_star k = false).
    { intros k H. rewrite Hkeys in H. apply in_keys_ex in H. destruct H as [c H].
      unfold cs in H. rewrite conc_filter in H. apply filter_In in H. destruct H as [_ H]. simpl in H.
      unfold is_concrete in H. apply andb_true_iff in H. destruct H as [_ H].
      destruct (ends_dot_star k); simpl in *; congruence. }
    unfold chain. fold cs.
    destruct (lookup cs m) eqn:E.
    - (* m has its own section *)
      destruct wcache_ok as [NDw [Hwk Hwv]].
      unfold clone_with. rewrite lookup_app.
      rewrite (lookup_none wcache m).
      2:{ intros C. apply Hwk in C. apply in_keys_ex in C. destruct C as [c' C]. apply W_wild in C.
          simpl in C. unfold is_wild in C. rewrite Hm in C. rewrite andb_false_r in C. discriminate. }
      apply lookup_in in E.
      assert (Hin : In (m, cspec m c) cc).
      { unfold cc. apply in_map_iff. exists (m, c). auto. }
      rewrite (lookup_nodup_in cc m _ (eq_ind_r (fun l => NoDup l) NDcs Hkeys) Hin).
      reflexivity.
    - rewrite query; auto.
      + simpl. rewrite app_nil_r. reflexivity.
      + rewrite Hkeys. exact NDcs.
      + rewrite Hkeys. apply lookup_none_inv. exact E.
  Qed.

  (* ------------------------------------------------ the chain is the documented order, reversed *)
  Lemma filter_key_lookup : forall (P : key -> bool) (l : pmo_t) k,
      NoDup (map fst l) ->
      map snd (filter (fun e => P (fst e) && key_eqb (fst e) k) l)
      = opt_list (lookup (filter (fun e => P (fst e)) l) k).
  Proof.
    induction l as [|[k' c] l IH]; simpl; intros k ND; auto.
    inversion ND as [|? ? Hn ND']; subst.
    destruct (P k') eqn:EP; simpl.
    - destruct (key_eqb k' k) eqn:E; simpl.
      + apply key_eqb_eq in E. subst.
        rewrite IH by auto. rewrite (lookup_none (filter _ l) k); auto.
        intros C. apply Hn. apply in_map_iff in C. destruct C as [x [Ex Hx]]. apply filter_In in Hx.
        apply in_map_iff. exists x. tauto.
      + apply IH; auto.
    - apply IH; auto.
  Qed.

  Lemma rev_opt_list : forall (A : Type) (o : option A), rev (opt_list o) = opt_list o.
  Proof. destruct o; reflexivity. Qed.

  Lemma rev_flat_map : forall (A B : Type) (f : A -> list B) l,
      rev (flat_map f l) = flat_map (fun x => rev (f x)) (rev l).
  Proof.
    induction l as [|a l IH]; simpl; auto.
    rewrite rev_app_distr, IH, flat_map_app. simpl. rewrite app_nil_r. reflexivity.
  Qed.

  Lemma precedence_list_chain : forall m, precedence_list Ch pmo m = rev (chain m).
  Proof.
    intros m. unfold precedence_list, chain. rewrite !rev_app_distr. rewrite <- app_assoc.
    f_equal; [|f_equal].
    - unfold sec_concrete. rewrite filter_key_lookup by exact Hnodup. rewrite <- conc_filter.
      reflexivity.
    - unfold anc. rewrite rev_flat_map. apply flat_map_ext. intros i.
      unfold sec_structured_at. rewrite filter_key_lookup by exact Hnodup. reflexivity.
  Qed.
End Generic.
