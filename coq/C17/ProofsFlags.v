(* C17: finite-table theorem over the generated flag / option tables (coq/gen/Flags.v) *)
From Coq Require Import List String Ascii Bool Arith.
From C17 Require Import Model.
From Gen Require Import Flags.
Import ListNotations.
Open Scope string_scope.

(* every accepted boolean command-line spelling with the (dest, value) argparse stores *)
Definition all_cli_spellings : list (string * (string * bool)) :=
  cli_spellings flag_prefix_pairs invertible_flags ++ plain_bool_flags.

Definition special_prefix : string := "special-opts:".
Definition strip_special (d : string) : string :=
  if starts_with special_prefix d then str_drop (String.length special_prefix) d else d.

Definition cfg (key : string) : cfg_res := config_norm option_attrs typed_keys key_aliases inversion_rules key.

(* the one spelling whose config-file counterpart sets a DIFFERENT attribute (with the same effect:
   process_options does `if special_opts.no_executable or options.no_site_packages: python_executable = None`) *)
Definition dest_exceptions : list string := ["--no-site-packages"].

(* config key spelled like the flag: "--foo-bar" ~ foo_bar = True *)
Definition spelling_ok (s : string * (string * bool)) : bool :=
  match cfg (flag_dest (fst s)) with
  | CSet d inv => (String.eqb d (strip_special (fst (snd s))) && Bool.eqb (negb inv) (snd (snd s)))
                  || existsb (String.eqb (fst s)) dest_exceptions
  | CStrict => String.eqb (fst s) "--strict"
  | CUnrecognized => true      (* spelling exists on the command line only: see cli_only *)
  | CNotBool => false
  end.

Lemma all_spellings_ok : forallb spelling_ok all_cli_spellings = true.
Proof. vm_compute. reflexivity. Qed.

Lemma spellings_agree : forall flag dest value d inv,
    In (flag, (dest, value)) all_cli_spellings ->
    cfg (flag_dest flag) = CSet d inv ->
    (d = strip_special dest /\ negb inv = value) \/ In flag dest_exceptions.
Proof.
  intros flag dest value d inv Hin Hc.
  pose proof all_spellings_ok as H. rewrite forallb_forall in H. specialize (H _ Hin).
  unfold spelling_ok in H. simpl fst in H. simpl snd in H. rewrite Hc in H.
  apply orb_true_iff in H. destruct H as [H|H].
  - left. apply andb_true_iff in H. destruct H as [H1 H2]. apply String.eqb_eq in H1.
    apply Bool.eqb_prop in H2. auto.
  - right. apply existsb_exists in H. destruct H as [x [Hx E]]. apply String.eqb_eq in E. subst. exact Hx.
Qed.

(* the two members of an invertible pair store opposite values into the same attribute *)
Lemma inverse_pairs_opposite : forall flag inverse default dest,
    In (flag, inverse, default, dest) invertible_flags ->
    exists inv d, In (flag, (d, negb default)) all_cli_spellings /\ In (inv, (d, default)) all_cli_spellings
                  /\ inv = match inverse with Some i => i | None => invert_flag_name flag_prefix_pairs flag end.
Proof.
  intros flag inverse default dest H.
  exists (match inverse with Some i => i | None => invert_flag_name flag_prefix_pairs flag end),
         (match dest with Some d => d | None => flag_dest flag end).
  split; [|split; [|reflexivity]]; unfold all_cli_spellings; apply in_or_app; left;
    unfold cli_spellings; apply in_flat_map; exists (flag, inverse, default, dest); split; auto; simpl; auto.
Qed.

(* no spelling is accepted twice with different meanings *)
Fixpoint lookup_all (l : list (string * (string * bool))) (k : string) : list (string * bool) :=
  match l with [] => [] | (a, b) :: r => if String.eqb a k then b :: lookup_all r k else lookup_all r k end.
Definition unambiguous (s : string * (string * bool)) : bool :=
  forallb (fun b => String.eqb (fst b) (fst (snd s)) && Bool.eqb (snd b) (snd (snd s))) (lookup_all all_cli_spellings (fst s)).
Lemma cli_spellings_unambiguous : forallb unambiguous all_cli_spellings = true.
Proof. vm_compute. reflexivity. Qed.

(* every per-module option that is a boolean attribute is settable in a config section under its own
   name, under no_<name>, and with the allow/disallow prefix swapped when that attribute name exists *)
Definition bool_attr (k : string) : bool :=
  match attr_lookup option_attrs k with Some (ABool _) => true | _ => false end.
Definition config_spellings_ok (k : string) : bool :=
  negb (bool_attr k) ||
  (match cfg k with CSet d false => String.eqb d k | _ => false end
   && (match cfg ("no_" ++ k) with
       | CSet d true => String.eqb d k
       | CSet d false => String.eqb d ("no_" ++ k)      (* an attribute literally named no_<k> *)
       | _ => false end)
   && (if starts_with "disallow_" k
       then match cfg (str_drop 3 k) with CSet d true => String.eqb d k | CSet d false => String.eqb d (str_drop 3 k) | _ => false end
       else true)
   && (if starts_with "allow_" k
       then match cfg ("dis" ++ k) with CSet d true => String.eqb d k | CSet d false => String.eqb d ("dis" ++ k) | _ => false end
       else true)).
Lemma per_module_config_spellings : forallb config_spellings_ok per_module_options = true.
Proof. vm_compute. reflexivity. Qed.

(* listed, not hidden: command-line spellings with no config-file counterpart *)
Definition cli_only : list string :=
  map fst (filter (fun s => match cfg (flag_dest (fst s)) with CUnrecognized => true | _ => false end) all_cli_spellings).
