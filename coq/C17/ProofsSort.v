(* C17: code-point order, insertion sort, and the "foo.* sorts before foo.bar.*" trick *)
From Coq Require Import List String Ascii Bool Arith Lia Sorted Permutation.
From C17 Require Import Model.
Import ListNotations.
Open Scope list_scope.

(* ---------------------------------------------------------------- lex_cmp is a total order *)
Lemma lex_cmp_antisym : forall a b, lex_cmp a b = CompOpp (lex_cmp b a).
Proof.
  induction a as [|x a IH]; destruct b as [|y b]; simpl; auto.
  rewrite (Nat.compare_antisym y x). destruct (Nat.compare y x); simpl; auto.
Qed.

Lemma lex_le_trans : forall a b c, lex_cmp a b <> Gt -> lex_cmp b c <> Gt -> lex_cmp a c <> Gt.
Proof.
  induction a as [|x a IH]; destruct b as [|y b]; destruct c as [|z c]; simpl; try congruence.
  destruct (Nat.compare_spec x y), (Nat.compare_spec y z), (Nat.compare_spec x z);
    subst; try congruence; try (intros; exfalso; lia); eauto.
Qed.

Lemma lex_cmp_app : forall p a b, lex_cmp (p ++ a) (p ++ b) = lex_cmp a b.
Proof. induction p; simpl; auto. intros. rewrite Nat.compare_refl. auto. Qed.

Lemma key_leb_total : forall a b, key_leb a b = true \/ key_leb b a = true.
Proof.
  intros. unfold key_leb. rewrite (lex_cmp_antisym (joinc b) (joinc a)).
  destruct (lex_cmp (joinc a) (joinc b)); simpl; auto.
Qed.
Lemma key_leb_trans : forall a b c, key_leb a b = true -> key_leb b c = true -> key_leb a c = true.
Proof.
  unfold key_leb. intros a b c H1 H2.
  assert (lex_cmp (joinc a) (joinc c) <> Gt).
  { apply lex_le_trans with (joinc b).
    - destruct (lex_cmp (joinc a) (joinc b)); congruence.
    - destruct (lex_cmp (joinc b) (joinc c)); congruence. }
  destruct (lex_cmp (joinc a) (joinc c)); congruence.
Qed.

(* ---------------------------------------------------------------- insertion sort *)
Section SortFacts.
  Variable A : Type.
  Variable leb : A -> A -> bool.
  Hypothesis leb_total : forall x y, leb x y = true \/ leb y x = true.
  Hypothesis leb_trans : forall x y z, leb x y = true -> leb y z = true -> leb x z = true.
  Let le := fun a b => leb a b = true.

  Lemma insert_perm : forall x l, Permutation (x :: l) (insert leb x l).
  Proof.
    induction l as [|y l IH]; simpl; auto.
    destruct (leb x y); auto.
    eapply perm_trans; [apply perm_swap|]. constructor. exact IH.
  Qed.
  Lemma isort_perm : forall l, Permutation l (isort leb l).
  Proof.
    induction l; simpl; auto.
    eapply perm_trans; [|apply insert_perm]. constructor. exact IHl.
  Qed.
  Lemma insert_sorted : forall x l, StronglySorted le l -> StronglySorted le (insert leb x l).
  Proof.
    induction l as [|y l IH]; simpl; intros HS.
    - constructor; constructor.
    - inversion HS as [|? ? HS' HF]; subst.
      destruct (leb x y) eqn:E.
      + constructor; auto. constructor; auto.
        rewrite Forall_forall in *. intros z Hz. eapply leb_trans; eauto. apply HF; auto.
      + constructor; auto.
        rewrite Forall_forall in *. intros z Hz.
        apply Permutation_in with (l' := x :: l) in Hz; [|apply Permutation_sym, insert_perm].
        destruct Hz as [<-|Hz]; [|apply HF; auto].
        destruct (leb_total x y) as [H|H]; [congruence|exact H].
  Qed.
  Lemma isort_sorted : forall l, StronglySorted le (isort leb l).
  Proof. induction l; simpl; [constructor|apply insert_sorted; auto]. Qed.

  (* in a strongly sorted list, an element that is not <= another one cannot come before it *)
  Lemma sorted_before : forall l1 x l2 a,
      StronglySorted le (l1 ++ x :: l2) -> In a (l1 ++ x :: l2) -> leb x a = false -> In a l1.
  Proof.
    induction l1 as [|y l1 IH]; simpl; intros x l2 a HS Hin Hlt.
    - inversion HS as [|? ? _ HF]; subst. destruct Hin as [->|Hin].
      + destruct (leb_total a a); congruence.
      + rewrite Forall_forall in HF. apply HF in Hin. unfold le in Hin. congruence.
    - inversion HS as [|? ? HS' _]; subst. destruct Hin as [->|Hin]; auto.
      right. eapply IH; eauto.
  Qed.
End SortFacts.

(* ---------------------------------------------------------------- the sorting trick *)
(* a component is well-formed when it does not start with a character <= '*' (identifiers start
   with a letter or '_' ; the empty component is harmless because '.' > '*') *)
Definition wf_comp (c : comp) : bool :=
  match codes c with [] => true | n :: _ => Nat.ltb star_code n end.

Lemma joinc_cons : forall c rest, rest <> [] -> joinc (c :: rest) = codes c ++ dot :: joinc rest.
Proof. intros c [|r rest] H; [congruence|reflexivity]. Qed.

Lemma codes_star : codes star = [star_code].
Proof. reflexivity. Qed.

Lemma parent_sorts_first : forall P q Q,
    wf_comp q = true ->
    lex_cmp (joinc (P ++ [star])) (joinc (P ++ q :: Q ++ [star])) = Lt.
Proof.
  induction P as [|p P IH]; intros q Q Hq.
  - simpl app. rewrite (joinc_cons q (Q ++ [star])) by (destruct Q; simpl; congruence).
    change (joinc [star]) with [star_code].
    unfold wf_comp in Hq. destruct (codes q) as [|n r].
    + reflexivity.
    + apply Nat.ltb_lt in Hq. apply Nat.compare_lt_iff in Hq.
      change (match Nat.compare star_code n with Eq => lex_cmp [] (r ++ dot :: joinc (Q ++ [star])) | c => c end = Lt).
      rewrite Hq. reflexivity.
  - simpl app. rewrite (joinc_cons p (P ++ [star])) by (destruct P; simpl; congruence).
    rewrite (joinc_cons p (P ++ q :: Q ++ [star])) by (destruct P; simpl; congruence).
    rewrite lex_cmp_app.
    change (lex_cmp (joinc (P ++ [star])) (joinc (P ++ q :: Q ++ [star])) = Lt). apply IH; auto.
Qed.

Lemma parent_key_before_child : forall P q Q,
    wf_comp q = true -> key_leb (P ++ q :: Q ++ [star]) (P ++ [star]) = false.
Proof.
  intros. unfold key_leb. rewrite lex_cmp_antisym. rewrite parent_sorts_first; auto.
Qed.
